#!/bin/sh
# usage: seed_eval_all.sh Cxx [wave]  -> evaluates /tmp/wt<wave>_Cxx/seed/m1 and m2 sequentially (with the test-suite comparison)
#        and keeps them under seeded/Cxx-m1,m2 (wave 1) or seeded/Cxx-m3,m4 (wave 2), m5,m6 (3), m7,m8 (4), m9,m10 (5)
P=$1
W=${2:-}
if [ "$W" = "2" ]; then WT=/tmp/wt2_$P; A=m3; B=m4; elif [ "$W" = "3" ]; then WT=/tmp/wt3_$P; A=m5; B=m6; elif [ "$W" = "4" ]; then WT=/tmp/wt4_$P; A=m7; B=m8; elif [ "$W" = "5" ]; then WT=/tmp/wt5_$P; A=m9; B=m10; else WT=/tmp/wt_$P; A=m1; B=m2; fi
for pair in m1:$A m2:$B; do
  m=${pair%%:*}; k=${pair##*:}
  if [ -f $WT/seed/$m/patch.diff ]; then
    python3 /verif/tools_seed.py eval $WT/seed/$m $P --tests --keep $P-$k > /tmp/eval_${P}_$k.json 2>&1
  fi
done
