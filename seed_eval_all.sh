#!/bin/sh
# usage: seed_eval_all.sh Cxx   -> evaluates /tmp/wt_Cxx/seed/m1 and m2 sequentially (with tests), keeps them under seeded/
P=$1
for m in m1 m2; do
  if [ -f /tmp/wt_$P/seed/$m/patch.diff ]; then
    python3 /verif/tools_seed.py eval /tmp/wt_$P/seed/$m $P --tests --keep $P-$m > /tmp/eval_${P}_$m.json 2>&1
  fi
done
