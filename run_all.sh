#!/bin/sh
# developer helper: run every registered quick check once, print rc, wall time and VIOLATION/KNOWN lines
cd "$(dirname "$0")"
for c in ${CHECKS:-C01 C02 C03 C04 C05 C06 C07 C08 C09 C10 C11 C12 C13 C14 C15 C16 C17 C18 C19 C20}; do
  s=$(date +%s)
  out=$(./check $c --tier ${TIER:-quick} 2>&1); rc=$?
  e=$(date +%s)
  echo "== $c rc=$rc wall=$((e-s))s"
  echo "$out" | grep -E "VIOLATION|KNOWN-FINDING|INFRASTRUCTURE|Traceback|Error" | cut -c1-220 | head -12
done
