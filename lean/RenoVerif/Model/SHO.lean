/-
  C16 — harmonic-oscillator symbols of `BasisSHO.op_mat` (renormalizer/model/basis.py) in the
  SCALED number basis |n⟩' = √(n!)|n⟩, where every matrix has rational entries:
      code matrix  M[m,n]  =  scaled matrix  M'[m,n] · √(m!/n!)        (similarity by diag √(n!))
  so products, commutators and powers correspond exactly.  `s = √(1/2ω)` is a rational parameter,
  `x = s(b†+b) + x0`, `p = (i/2s)(b†−b)`.  Entries are Gaussian rationals.  Import-free.
-/
import RenoVerif.Model.GaussRat
namespace RenoVerif.SHO
open RenoVerif

abbrev G := GaussRat
abbrev IM := Nat → Nat → G        -- an infinite matrix, row m, column n

def ofNat (k : Nat) : G := ⟨(k : Int), 0⟩
def ofRat (q : Rat) : G := ⟨q, 0⟩
def iG : G := ⟨0, 1⟩

def zeroM : IM := fun _ _ => 0
def oneM : IM := fun m n => if m = n then 1 else 0
def addM (a b : IM) : IM := fun m n => a m n + b m n
def subM (a b : IM) : IM := fun m n => a m n - b m n
def smulM (c : G) (a : IM) : IM := fun m n => c * a m n

/-- annihilation / creation operators, scaled basis -/
def b : IM := fun m n => if m + 1 = n then ofNat n else 0
def bd : IM := fun m n => if m = n + 1 then 1 else 0
/-- the code's closed forms for the two-operator symbols, scaled -/
def b_b : IM := fun m n => if m + 2 = n then ofNat (n * (n - 1)) else 0
def bd_bd : IM := fun m n => if m = n + 2 then 1 else 0
def bd_b : IM := fun m n => if m = n then ofNat n else 0
def b_bd : IM := fun m n => if m = n then ofNat (n + 1) else 0

/-- product of banded infinite matrices: the inner index never has to exceed `n + 2` here -/
def mulM (a c : IM) : IM := fun m n => (List.range (n + 3)).foldl (fun acc k => acc + a m k * c k n) 0

structure Par where
  s : Rat        -- √(1/2ω)
  x0 : Rat

def xM (P : Par) : IM := addM (smulM (ofRat P.s) (addM bd b)) (smulM (ofRat P.x0) oneM)
def pM (P : Par) : IM := smulM (iG * ofRat (1 / (2 * P.s))) (subM bd b)

/-- symbol table of `op_mat` in the scaled basis (the CORRECTED table: `x p` is x·p).
    `none` = symbol not modelled here (general powers, DVR). -/
def opmat (P : Par) (sym : String) : Option IM :=
  let s2 := ofRat (P.s * P.s)
  let w2 := ofRat (1 / (4 * P.s * P.s))      -- ω/2
  match sym with
  | "b" => some b
  | "b b" => some b_b
  | "b^\\dagger" => some bd
  | "b^\\dagger b^\\dagger" => some bd_bd
  | "b^\\dagger+b" => some (addM bd b)
  | "b^\\dagger-b" => some (subM bd b)
  | "b^\\dagger b" => some bd_b
  | "b b^\\dagger" => some b_bd
  | "I" => some oneM
  | "n" => some bd_b
  | "x" => some (xM P)
  | "p" => some (pM P)
  | "x^2" => some (addM (addM (smulM (ofRat (P.x0 * P.x0)) oneM) (smulM (ofRat (2 * P.x0 * P.s)) (addM bd b)))
                (smulM s2 (addM (addM (addM bd_bd bd_b) b_bd) b_b)))
  | "p^2" => some (smulM (0 - w2) (addM (subM (subM bd_bd bd_b) b_bd) b_b))
  -- x p = (y + x0) p with y p = (−i/2)(bb − b†b† + b†b − b b†)
  | "y p" => some (smulM (⟨0, -1/2⟩ : G) (subM (addM (subM b_b bd_bd) bd_b) b_bd))
  | "p y" => some (smulM (⟨0, -1/2⟩ : G) (addM (subM (subM b_b bd_bd) bd_b) b_bd))
  | "dx" => some (smulM (ofRat (1 / (2 * P.s))) (subM b bd))     -- p / (−i) = (1/2s)(b − b†)
  | _ => none

def yp : IM := smulM (⟨0, -1/2⟩ : G) (subM (addM (subM b_b bd_bd) bd_b) b_bd)
def py : IM := smulM (⟨0, -1/2⟩ : G) (addM (subM (subM b_b bd_bd) bd_b) b_bd)

/-- product symbols mixing x and p: `x p = (y + x0) p`, `p x = p (y + x0)`; the `dx` forms are the
    same divided by `−i` (`dx = p/(−i)`) -/
def opmat2 (P : Par) (sym : String) : Option IM :=
  let x0p := smulM (ofRat P.x0) (pM P)
  match sym with
  | "x p" => some (addM yp x0p)
  | "p x" => some (addM py x0p)
  | "x dx" => some (smulM iG (addM yp x0p))
  | "dx x" => some (smulM iG (addM py x0p))
  | "dx^2" => (opmat P "p^2").map (smulM (0 - 1))
  | _ => opmat P sym

end RenoVerif.SHO
