/-
  C15 — executable model of the symbolic operator algebra of renormalizer/model/op.py
  (`Op`, `OpSum`).  Import-free; generic over the scalar type `R`.

  An `Op` is a list of atoms (simple symbol, DoF, quantum numbers) in written order and a
  factor.  `Op.symbol` / `Op.dofs` / `Op.qn_list` of the Python class are the three projections
  of the atom list.
-/
namespace RenoVerif.OpAlg

structure Atom where
  sym : String
  dof : Nat
  qn : List Int
deriving DecidableEq, Repr

structure Op (R : Type) where
  atoms : List Atom
  factor : R
deriving DecidableEq, Repr

abbrev OpSum (R : Type) := List (Op R)

inductive Err | assertQn | type | value
deriving DecidableEq, Repr

variable {R : Type}

/-- `Op.product([a, b])` / `a * b` -/
def Op.mul [Mul R] (a b : Op R) : Op R := ⟨a.atoms ++ b.atoms, a.factor * b.factor⟩
/-- `a * c` for a scalar (`self.factor * other`) -/
def Op.smul [Mul R] (a : Op R) (c : R) : Op R := ⟨a.atoms, a.factor * c⟩
def Op.neg [Neg R] (a : Op R) : Op R := ⟨a.atoms, -a.factor⟩

def OpSum.add (s t : OpSum R) : OpSum R := s ++ t
def OpSum.neg [Neg R] (s : OpSum R) : OpSum R := s.map Op.neg
def OpSum.sub [Neg R] (s t : OpSum R) : OpSum R := s ++ t.neg
/-- `OpSum * OpSum`: `for op1 in self: res.extend([op1 * item for item in other])` -/
def OpSum.mul [Mul R] (s t : OpSum R) : OpSum R := s.flatMap fun a => t.map fun b => a.mul b
def OpSum.smul [Mul R] (s : OpSum R) (c : R) : OpSum R := s.map (·.smul c)
/-- `self * (1/other)` -/
def OpSum.div [Mul R] [Inv R] (s : OpSum R) (c : R) : OpSum R := s.smul c⁻¹

def Atom.isI (t : Atom) : Bool := t.sym == "I"
def qnZero (q : List Int) : Bool := q.all (· == 0)

/-- `set(split_symbol) == {"I"}` -/
def Op.isIdentity (a : Op R) : Bool := !a.atoms.isEmpty && a.atoms.all Atom.isI

/-- `squeeze_identity`.  An all-identity operator collapses to one `I` on its first DoF with a
    zero quantum number of the right size; otherwise every `I` atom is dropped, and the code
    asserts that a dropped atom carries zero quantum number. -/
def Op.squeeze (a : Op R) : Except Err (Op R) :=
  if a.isIdentity then
    match a.atoms with
    | [] => .ok a
    | t :: _ => .ok ⟨[⟨"I", t.dof, List.replicate t.qn.length 0⟩], a.factor⟩
  else if a.atoms.any (fun t => t.isI && !qnZero t.qn) then .error .assertQn
  else .ok ⟨a.atoms.filter (fun t => !t.isI), a.factor⟩

/-- `same_term`: same symbol string and same DoFs (quantum numbers are NOT compared) -/
def sameTerm (a b : Op R) : Bool :=
  a.atoms.map (fun t => (t.sym, t.dof)) == b.atoms.map (fun t => (t.sym, t.dof))

def sumFactors [Add R] [Zero R] (l : OpSum R) : R := l.foldr (fun o acc => o.factor + acc) 0

/-- the merging loop of `simplify`: take the first operator, add to it the factors of all later
    operators that are the same term, remove those, continue with the rest -/
def merge [Add R] [Zero R] : Nat → OpSum R → OpSum R
  | 0, _ => []
  | _+1, [] => []
  | n+1, op :: rest =>
    let same := rest.filter (sameTerm op)
    let other := rest.filter (fun o => !sameTerm op o)
    ⟨op.atoms, op.factor + sumFactors same⟩ :: merge n other

def squeezeAll : OpSum R → Except Err (OpSum R)
  | [] => .ok []
  | a :: s => match a.squeeze, squeezeAll s with
    | .ok a', .ok s' => .ok (a' :: s')
    | .error e, _ => .error e
    | _, .error e => .error e

/-- `OpSum.simplify(atol)`; `small f` stands for `not (abs(f) > atol)` -/
def simplify [Add R] [Zero R] (small : R → Bool) (s : OpSum R) : Except Err (OpSum R) :=
  match squeezeAll s with
  | .error e => .error e
  | .ok s' => .ok ((merge s'.length s').filter fun o => !small o.factor)

/-- the terms `simplify` throws away -/
def dropped [Add R] [Zero R] (small : R → Bool) (s : OpSum R) : Except Err (OpSum R) :=
  match squeezeAll s with
  | .error e => .error e
  | .ok s' => .ok ((merge s'.length s').filter fun o => small o.factor)

/-! ### expression programs -/

inductive Expr (R : Type)
  | atom (o : Op R)
  | add (a b : Expr R)
  | sub (a b : Expr R)
  | neg (a : Expr R)
  | mul (a b : Expr R)
  | smul (a : Expr R) (c : R)      -- `a * c` or `c * a`
  | div (a : Expr R) (c : R)
  | simp0 (a : Expr R)             -- `.simplify()` with atol = 0

def evalModel [Add R] [Zero R] [Mul R] [Neg R] [Inv R] [DecidableEq R] : Expr R → Except Err (OpSum R)
  | .atom o => .ok [o]
  | .add a b => do let x ← evalModel a; let y ← evalModel b; pure (x.add y)
  | .sub a b => do let x ← evalModel a; let y ← evalModel b; pure (x.sub y)
  | .neg a => do let x ← evalModel a; pure x.neg
  | .mul a b => do let x ← evalModel a; let y ← evalModel b; pure (x.mul y)
  | .smul a c => do let x ← evalModel a; pure (x.smul c)
  | .div a c => do let x ← evalModel a; pure (x.div c)
  | .simp0 a => do let x ← evalModel a; simplify (fun f => f == 0) x

end RenoVerif.OpAlg
