/-
  C20 — executable model of renormalizer/lib/bipartite_matching/bipartite_matching.py
  (`augment`, `max_bipartite_matching2`, `new_konig` inside `bipartite_vertex_cover`)
  and the certificate checker `checkCert`.  Import-free.

  A graph is the adjacency list of the `U` side: `g[u]` = neighbours of `u` in `V`.
-/
namespace RenoVerif.Cover

abbrev Graph := List (List Nat)

/-- `max(max(adjlist, default=-1) for adjlist in bigraph) + 1` -/
def nVof (g : Graph) : Nat :=
  g.foldl (fun m adj => adj.foldl (fun m v => max m (v+1)) m) 0

/-- Kuhn's augmenting DFS exactly as `augment`: `visit` and `match` are threaded through.
    `fuel` decreases at every call (list step or recursive descent); `E + nV + 2` suffices because
    along any call path every step either consumes an adjacency entry or marks a fresh `v`. -/
def augmentL (g : Graph) : Nat → Nat → List Nat → List Bool → List (Option Nat) →
    Bool × List Bool × List (Option Nat)
  | 0, _, _, visit, mt => (false, visit, mt)
  | _+1, _, [], visit, mt => (false, visit, mt)
  | fuel+1, u, v :: vs, visit, mt =>
    if visit.getD v false then augmentL g fuel u vs visit mt
    else
      let visit := visit.set v true
      match mt.getD v none with
      | none => (true, visit, mt.set v (some u))
      | some u' =>
        let r := augmentL g fuel u' (g.getD u' []) visit mt
        if r.1 then (true, r.2.1, r.2.2.set v (some u))
        else augmentL g fuel u vs r.2.1 r.2.2

def nEdges (g : Graph) : Nat := g.foldl (fun n adj => n + adj.length) 0

/-- `max_bipartite_matching2` -/
def maxMatching2 (g : Graph) : List (Option Nat) :=
  let nV := nVof g
  (List.range g.length).foldl
    (fun mt u => (augmentL g (nEdges g + nV + 2) u (g.getD u []) (List.replicate nV false) mt).2.2)
    (List.replicate nV none)

inductive Err | assertMax | assertWait | fuel | index
deriving DecidableEq, Repr

/-- inner `for v in bigraph[u]` of `new_konig` -/
def scan (matchV : List (Option Nat)) : List Nat → List Nat → List Bool → Except Err (List Nat × List Bool)
  | [], wait, vV => .ok (wait, vV)
  | v :: vs, wait, vV =>
    if vV.getD v false then scan matchV vs wait vV
    else
      let vV := vV.set v true
      match matchV.getD v none with
      | none => .error .assertMax                 -- "otherwise match is not maximum"
      | some u' =>
        if wait.contains u' then .error .assertWait
        else scan matchV vs (u' :: wait) vV

/-- the `while len(wait_u) > 0` loop; the set is modelled by a list (pop order is irrelevant
    for the result: the final marks are the alternating-reachability closure) -/
def konigLoop (g : Graph) (matchV : List (Option Nat)) :
    Nat → List Nat → List Bool → List Bool → Except Err (List Bool × List Bool)
  | 0, _, _, _ => .error .fuel
  | _+1, [], vU, vV => .ok (vU, vV)
  | fuel+1, u :: wait, vU, vV =>
    match scan matchV (g.getD u []) wait vV with
    | .error e => .error e
    | .ok (wait', vV') => konigLoop g matchV fuel wait' (vU.set u true) vV'

/-- `new_konig`: returns (coverU, coverV) -/
def konig (g : Graph) (nU nV : Nat) (matchV : List (Option Nat)) : Except Err (List Bool × List Bool) :=
  let matched := matchV.filterMap id
  let wait := (List.range nU).filter fun u => !matched.contains u
  match konigLoop g matchV (nU + nV + 2) wait (List.replicate nU false) (List.replicate nV false) with
  | .error e => .error e
  | .ok (vU, vV) => .ok (vU.map (!·), vV)

/-- `bipartite_vertex_cover(bigraph, "Hungarian")` -/
def coverHungarian (g : Graph) : Except Err (List Bool × List Bool) :=
  let m := maxMatching2 g
  konig g g.length m.length m

/-! ### certificate checker -/

def trueIdx (c : List Bool) : List Nat := (List.range c.length).filter fun i => c.getD i false
def countTrue (c : List Bool) : Nat := (trueIdx c).length

/-- matched pairs `(u, v)` of a `matchV` table -/
def pairs (matchV : List (Option Nat)) : List (Nat × Nat) :=
  (matchV.zipIdx).filterMap fun (o, v) => o.map fun u => (u, v)

def isEdge (g : Graph) (e : Nat × Nat) : Bool := (g.getD e.1 []).contains e.2

def edgesOf (g : Graph) : List (Nat × Nat) :=
  (g.zipIdx).flatMap fun (adj, u) => adj.map fun v => (u, v)

def coversEdge (cU cV : List Bool) (e : Nat × Nat) : Bool := cU.getD e.1 false || cV.getD e.2 false

/-- accepted iff: `matchV` is a matching of `g` (every pair an edge, no `u` used twice),
    `(cU, cV)` covers every edge of `g`, and |cover| = |matching|. -/
def checkCert (g : Graph) (cU cV : List Bool) (matchV : List (Option Nat)) : Bool :=
  let ps := pairs matchV
  ps.all (isEdge g) && decide (ps.map (·.1)).Nodup && decide (ps.map (·.2)).Nodup &&
  (edgesOf g).all (coversEdge cU cV) &&
  countTrue cU + countTrue cV == ps.length

end RenoVerif.Cover
