/- Gaussian rationals ℚ[i]: exact complex scalars of the executable models. Import-free. -/
namespace RenoVerif

structure GaussRat where
  re : Rat
  im : Rat
deriving DecidableEq, Repr

namespace GaussRat
instance : Zero GaussRat := ⟨⟨0, 0⟩⟩
instance : One GaussRat := ⟨⟨1, 0⟩⟩
instance : Add GaussRat := ⟨fun a b => ⟨a.re + b.re, a.im + b.im⟩⟩
instance : Neg GaussRat := ⟨fun a => ⟨-a.re, -a.im⟩⟩
instance : Sub GaussRat := ⟨fun a b => ⟨a.re - b.re, a.im - b.im⟩⟩
instance : Mul GaussRat := ⟨fun a b => ⟨a.re * b.re - a.im * b.im, a.re * b.im + a.im * b.re⟩⟩
def normSq (a : GaussRat) : Rat := a.re * a.re + a.im * a.im
instance : Inv GaussRat := ⟨fun a => ⟨a.re / a.normSq, -a.im / a.normSq⟩⟩
def conj (a : GaussRat) : GaussRat := ⟨a.re, -a.im⟩
def ofRat (q : Rat) : GaussRat := ⟨q, 0⟩
def I : GaussRat := ⟨0, 1⟩

@[simp] theorem zero_re : (0 : GaussRat).re = 0 := rfl
@[simp] theorem zero_im : (0 : GaussRat).im = 0 := rfl
@[simp] theorem one_re : (1 : GaussRat).re = 1 := rfl
@[simp] theorem one_im : (1 : GaussRat).im = 0 := rfl
@[simp] theorem add_re (a b : GaussRat) : (a + b).re = a.re + b.re := rfl
@[simp] theorem add_im (a b : GaussRat) : (a + b).im = a.im + b.im := rfl
@[simp] theorem neg_re (a : GaussRat) : (-a).re = -a.re := rfl
@[simp] theorem neg_im (a : GaussRat) : (-a).im = -a.im := rfl
@[simp] theorem sub_re (a b : GaussRat) : (a - b).re = a.re - b.re := rfl
@[simp] theorem sub_im (a b : GaussRat) : (a - b).im = a.im - b.im := rfl
@[simp] theorem mul_re (a b : GaussRat) : (a * b).re = a.re * b.re - a.im * b.im := rfl
@[simp] theorem mul_im (a b : GaussRat) : (a * b).im = a.re * b.im + a.im * b.re := rfl
@[simp] theorem inv_re (a : GaussRat) : (a⁻¹).re = a.re / a.normSq := rfl
@[simp] theorem inv_im (a : GaussRat) : (a⁻¹).im = -a.im / a.normSq := rfl

@[ext] theorem ext {a b : GaussRat} (h1 : a.re = b.re) (h2 : a.im = b.im) : a = b := by
  cases a; cases b; simp_all

def toStr (a : GaussRat) : String := s!"{a.re.num}/{a.re.den},{a.im.num}/{a.im.den}"
end GaussRat
end RenoVerif
