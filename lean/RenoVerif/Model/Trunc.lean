/-
  C05 — kept-state count logic of `CompressConfig` (renormalizer/utils/configs.py) and the
  truncation index conventions of `MatrixProduct.compress`.  Import-free, exact over `Rat`.
  The threshold test `σ_i / ‖σ‖ > thr` is modelled in squared form `σ_i² > thr²·Σσ²`
  (equivalent for σ_i ≥ 0, thr > 0).
-/
namespace RenoVerif.Trunc

def normSq (σ : List Rat) : Rat := σ.foldr (fun s acc => s * s + acc) 0

/-- number of entries strictly above the threshold -/
def aboveThr (thr : Rat) (σ : List Rat) : Nat :=
  (σ.filter fun s => decide (thr * thr * normSq σ < s * s)).length

/-- `_threshold_m_trunc`: at least one state is kept (a flat spectrum can lie entirely below the
    threshold; keeping nothing made `compress` fail — defect D10, fixed) -/
def thresholdM (thr : Rat) (σ : List Rat) : Nat := max (aboveThr thr σ) 1

/-- `_fixed_m_trunc`: `bond_idx = idx + 1 if left else idx` -/
def fixedM (maxDims : List Nat) (n idx : Nat) (left : Bool) : Option Nat :=
  (maxDims[if left then idx + 1 else idx]?).map fun m => min m n

inductive Criteria | threshold | fixed | both
deriving DecidableEq, Repr

/-- `compute_m_trunc` (none = IndexError on `max_dims`) -/
def computeM (crit : Criteria) (thr : Rat) (maxDims : List Nat) (σ : List Rat) (idx : Nat) (left : Bool) :
    Option Nat :=
  match crit with
  | .threshold => some (thresholdM thr σ)
  | .fixed => fixedM maxDims σ.length idx left
  | .both => (fixedM maxDims σ.length idx left).map fun f => min (thresholdM thr σ) f

/-- `temp_m_trunc` handling in `compress`: scalar or per-bond list indexed like `bond_dims` -/
def tempM (temp : Nat ⊕ List Nat) (n idx : Nat) (toRight : Bool) : Option Nat :=
  match temp with
  | .inl m => some (min m n)
  | .inr l => (l[if toRight then idx + 1 else idx]?).map fun m => min m n

/-- discarded weight when the first `m` entries are kept -/
def discarded (σ : List Rat) (m : Nat) : Rat := normSq (σ.drop m)

end RenoVerif.Trunc
