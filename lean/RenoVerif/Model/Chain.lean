/-
  S3 — dimension-indexed matrix-product chains over a commutative ring.

  A site tensor `A[l, σ, r]` is `Site R d l r := Fin d → Matrix (Fin l) (Fin r) R`; adjacent bonds
  agree by typing.  `amp c cfg` is the ordered product of the selected site matrices: for a closed
  chain (`l = r = 1`) its single entry is the dense amplitude (`todense`) of the configuration.
  Operators (MPO, MpDm) are chains whose physical index is the pair (σ, σ') flattened.
-/
import Mathlib.Data.Matrix.Block
import Mathlib.Data.Matrix.Mul
import Mathlib.LinearAlgebra.Matrix.Kronecker
import Mathlib.Logic.Equiv.Fin.Basic

namespace RenoVerif.Chain
open Matrix

variable {R : Type} [CommRing R]

abbrev Site (R : Type) (d l r : ℕ) := Fin d → Matrix (Fin l) (Fin r) R

inductive Chain (R : Type) : List ℕ → ℕ → ℕ → Type
  | nil (l : ℕ) : Chain R [] l l
  | cons {d l m r : ℕ} {ds : List ℕ} (A : Site R d l m) (rest : Chain R ds m r) : Chain R (d :: ds) l r

def Cfg : List ℕ → Type
  | [] => Unit
  | d :: ds => Fin d × Cfg ds

def amp : {ds : List ℕ} → {l r : ℕ} → Chain R ds l r → Cfg ds → Matrix (Fin l) (Fin r) R
  | _, _, _, .nil _, _ => 1
  | _, _, _, .cons A rest, (s, c) => A s * amp rest c

/-- block-diagonal stacking of two matrices -/
def blk {l r l' r' : ℕ} (A : Matrix (Fin l) (Fin r) R) (B : Matrix (Fin l') (Fin r') R) :
    Matrix (Fin (l + l')) (Fin (r + r')) R :=
  (fromBlocks A 0 0 B).submatrix finSumFinEquiv.symm finSumFinEquiv.symm

/-- site-wise block-diagonal sum of two chains (the middle sites of `MatrixProduct.add`) -/
def addC : {ds : List ℕ} → {l r l' r' : ℕ} → Chain R ds l r → Chain R ds l' r' → Chain R ds (l + l') (r + r')
  | _, _, _, _, _, .nil l, .nil l' => .nil (l + l')
  | _, _, _, _, _, .cons A ra, .cons B rb => .cons (fun s => blk (A s) (B s)) (addC ra rb)

/-- multiply the first site from the left by `U` (absorbing a bond matrix / boundary vector) -/
def lmul {d : ℕ} {ds : List ℕ} {l l' r : ℕ} (U : Matrix (Fin l') (Fin l) R) :
    Chain R (d :: ds) l r → Chain R (d :: ds) l' r
  | .cons A rest => .cons (fun s => U * A s) rest

/-- multiply the last site from the right by `V` -/
def rmul : {d : ℕ} → {ds : List ℕ} → {l r r' : ℕ} → Chain R (d :: ds) l r → Matrix (Fin r) (Fin r') R →
    Chain R (d :: ds) l r'
  | _, [], _, _, _, .cons A (.nil _), V => .cons (fun s => A s * V) (.nil _)
  | _, _ :: _, _, _, _, .cons A rest, V => .cons A (rmul rest V)

/-- row vector of ones `[1 … 1]` and column vector of ones -/
def onesRow (n : ℕ) : Matrix (Fin 1) (Fin n) R := fun _ _ => 1
def onesCol (n : ℕ) : Matrix (Fin n) (Fin 1) R := fun _ _ => 1

/-- `MatrixProduct.add` for closed chains: first site stacked along the right bond, last site
    along the left bond, middle sites block diagonal.  (`1 + 1` boundary bonds are contracted with
    the all-ones vectors, which is exactly `dstack` / `vstack` of the code.) -/
def addClosed {d : ℕ} {ds : List ℕ} (a b : Chain R (d :: ds) 1 1) : Chain R (d :: ds) 1 1 :=
  rmul (lmul (onesRow 2) (addC a b)) (onesCol 2)

/-- scale the `k`-th site (`scale` multiplies the tensor at `qnidx`); `k` beyond the end: unchanged -/
def scaleAt : {ds : List ℕ} → {l r : ℕ} → ℕ → R → Chain R ds l r → Chain R ds l r
  | _, _, _, _, _, .nil l => .nil l
  | _, _, _, 0, c, .cons A rest => .cons (fun s => c • A s) rest
  | _, _, _, k+1, c, .cons A rest => .cons A (scaleAt k c rest)

/-- entrywise map by a ring homomorphism (complex conjugation) -/
def mapC (f : R →+* R) : {ds : List ℕ} → {l r : ℕ} → Chain R ds l r → Chain R ds l r
  | _, _, _, .nil l => .nil l
  | _, _, _, .cons A rest => .cons (fun s => (A s).map f) (mapC f rest)

/-- bond dimensions (left bond of each site, then the last right bond) -/
def bonds : {ds : List ℕ} → {l r : ℕ} → Chain R ds l r → List ℕ
  | _, l, _, .nil _ => [l]
  | _, l, _, .cons _ rest => l :: bonds rest

end RenoVerif.Chain
