/-
  C07 — the cached-environment fast path of `Mps.expectations`
  (`_construct_freq_environ`, `_get_freq_environ` in renormalizer/mps/mps.py), for one domain
  (the "R" domain is the same code on reversed sequences).

  An operator is the sequence of the hashes of its site matrices.  `T i h e` is the environment
  obtained from `e` by contracting site `i` with the matrix of hash `h` (any function: the model
  is parametric in the tensor algebra).  Import-free.
-/
namespace RenoVerif.EnvCache

abbrev Key := List Nat

/-- number of operators having `k` as a prefix = `Counter` value of the tuple `k` -/
def countPrefix (seqs : List Key) (k : Key) : Nat := (seqs.filter fun s => k.isPrefixOf s).length

/-- all non-empty prefixes of all operators, first occurrence order, duplicates removed
    (`counter.items()` keeps insertion order) -/
def allPrefixes (seqs : List Key) : List Key :=
  (seqs.flatMap fun s => (List.range s.length).map fun i => s.take (i + 1)).eraseDups

/-- sort key `(-count, len)`: more frequent first, then shorter first -/
def le (seqs : List Key) (a b : Key) : Bool :=
  let ca := countPrefix seqs a
  let cb := countPrefix seqs b
  cb < ca || (ca == cb && a.length ≤ b.length)

def sortedPrefixes (seqs : List Key) : List Key := (allPrefixes seqs).mergeSort (le seqs)

/-- the loop that selects what is cached: stop at the first count-1 entry, cache at most
    `nsite + 1` sequences (`if len(mps) < len(matrices_list): break`) -/
def selectKeys (seqs : List Key) (nsite : Nat) : List Key :=
  ((sortedPrefixes seqs).takeWhile fun k => countPrefix seqs k != 1).take (nsite + 1)

variable {E : Type}

/-- association-list dictionary of environments -/
abbrev Dict (E : Type) := List (Key × E)

def lookup (d : Dict E) (k : Key) : Option E := (d.find? fun p => p.1 == k).map (·.2)

/-- contract the selected sequences in order: `result[h] = T (len h − 1) h[-1] result[h[:-1]]`;
    `none` = KeyError -/
def buildDict (T : Nat → Nat → E → E) (ones : E) : List Key → Dict E → Option (Dict E)
  | [], d => some d
  | k :: ks, d =>
    match k.getLast?, lookup d k.dropLast with
    | some h, some e => buildDict T ones ks (d ++ [(k, T (k.length - 1) h e)])
    | _, _ => none

def construct (T : Nat → Nat → E → E) (ones : E) (seqs : List Key) (nsite : Nat) : Option (Dict E) :=
  buildDict T ones (selectKeys seqs nsite) [([], ones)]

/-- `_get_freq_environ`: the longest prefix of `mpo` (not longer than `maxLen`) all of whose
    prefixes are cached; returns its length -/
def getFreq (d : Dict E) (mpo : Key) (maxLen : Nat) : Nat :=
  let rec go (k : Nat) (fuel : Nat) : Nat :=
    match fuel with
    | 0 => k
    | fuel + 1 =>
      if k < mpo.length ∧ k + 1 ≤ maxLen ∧ (lookup d (mpo.take (k + 1))).isSome then go (k + 1) fuel else k
  go 0 mpo.length

/-- environment obtained by contracting the sites of `k` one after the other -/
def foldEnv (T : Nat → Nat → E → E) (ones : E) (k : Key) : E :=
  (k.zipIdx).foldl (fun e p => T p.2 p.1 e) ones

end RenoVerif.EnvCache
