/-
  S5 — executable quantum-number bookkeeping of `MatrixProduct` (renormalizer/mps/mp.py):
  the stored bond labels `qn[0..n]`, the centre `qnidx`, the total `qntot`; the all-left reading;
  `move_qnidx`; label concatenation of `add`; the block-sparsity checker run on the support
  pattern of the implementation's tensors.  Import-free.  Quantum numbers have two components
  (a one-component model uses the first only).
-/
namespace RenoVerif.QN

structure Q2 where
  a : Int
  b : Int
deriving DecidableEq, Repr

instance : Zero Q2 := ⟨⟨0, 0⟩⟩
instance : Add Q2 := ⟨fun x y => ⟨x.a + y.a, x.b + y.b⟩⟩
instance : Neg Q2 := ⟨fun x => ⟨-x.a, -x.b⟩⟩
instance : Sub Q2 := ⟨fun x y => ⟨x.a - y.a, x.b - y.b⟩⟩

abbrev Labels := List (List Q2)     -- one list of labels per bond, bonds 0..n

/-- all-left reading of the stored labels: bonds `≤ qnidx` are stored as left-block labels,
    bonds `> qnidx` as right-block labels `qntot − left` -/
def allLeft (qn : Labels) (qnidx : Nat) (qntot : Q2) : Labels :=
  qn.zipIdx.map fun (ls, j) => if j ≤ qnidx then ls else ls.map fun q => qntot - q

/-- `move_qnidx(dst)`: flip every bond right of the centre to left labels, then every bond right of
    `dst` back to right labels -/
def moveQnidx (qn : Labels) (qnidx : Nat) (qntot : Q2) (dst : Nat) : Labels :=
  let left := allLeft qn qnidx qntot
  left.zipIdx.map fun (ls, j) => if j ≤ dst then ls else ls.map fun q => qntot - q

/-- labels of `a.add(b)` as the corrected code builds them: `a`'s labels are first moved to `b`'s
    centre, then concatenated bond by bond; boundary bonds collapse to a single zero label -/
def addLabels (qa : Labels) (ia : Nat) (qb : Labels) (ib : Nat) (qntot : Q2) : Labels :=
  let qa' := moveQnidx qa ia qntot ib
  let n := qa'.length
  (List.zipWith (· ++ ·) qa' qb).zipIdx.map fun (ls, j) => if j = 0 ∨ j + 1 = n then [0] else ls

/-- what the pinned code did (defect D1): concatenation of the UN-moved labels of `a` -/
def addLabelsStale (qa qb : Labels) : Labels :=
  let n := qa.length
  (List.zipWith (· ++ ·) qa qb).zipIdx.map fun (ls, j) => if j = 0 ∨ j + 1 = n then [0] else ls

/-- non-zero entries `(l, σ, r)` of one site tensor -/
abbrev Support := List (Nat × Nat × Nat)

def entryOK (qL sq qR : List Q2) (e : Nat × Nat × Nat) : Bool :=
  match qL[e.1]?, sq[e.2.1]?, qR[e.2.2]? with
  | some x, some s, some y => x + s == y
  | _, _, _ => false

/-- block-sparsity checker on all-left labels `L`, per-site physical qn `sqs`, supports `sup` -/
def checkSites : Labels → List (List Q2) → List Support → Bool
  | qL :: qR :: rest, sq :: sqs, s :: sups => s.all (entryOK qL sq qR) && checkSites (qR :: rest) sqs sups
  | [_], [], [] => true
  | _, _, _ => false

/-- full check of a closed chain: boundary labels `[0]` and `[qntot]` in the all-left reading -/
def checkInv (qn : Labels) (qnidx : Nat) (qntot : Q2) (sqs : List (List Q2)) (sups : List Support) : Bool :=
  let L := allLeft qn qnidx qntot
  L.head? == some [0] && L.getLast? == some [qntot] && checkSites L sqs sups

/-- first offending entry, for the replay -/
def firstBad : Labels → List (List Q2) → List Support → Nat → Option (Nat × Nat × Nat × Nat)
  | qL :: qR :: rest, sq :: sqs, s :: sups, i =>
    match s.find? fun e => !entryOK qL sq qR e with
    | some e => some (i, e.1, e.2.1, e.2.2)
    | none => firstBad (qR :: rest) sqs sups (i + 1)
  | _, _, _, _ => none

/-- a path through the supports: entries of consecutive sites chained on their bond index -/
def isPath : List Support → List (Nat × Nat × Nat) → Nat → Bool
  | [], [], _ => true
  | s :: sups, e :: es, l => e.1 == l && s.contains e && isPath sups es e.2.2
  | _, _, _ => false

def pathSigma : List (List Q2) → List (Nat × Nat × Nat) → Q2
  | sq :: sqs, e :: es => sq.getD e.2.1 0 + pathSigma sqs es
  | _, _ => 0

end RenoVerif.QN
