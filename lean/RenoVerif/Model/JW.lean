/-
  C17 — Jordan–Wigner sign logic of renormalizer/model/h_qc.py (`simplify_op`) and of the
  Jordan–Wigner site swap `table_row_swapped_jw` (renormalizer/mps/symbolic_mpo.py).
  Import-free; integer matrices as lists of rows.
-/
namespace RenoVerif.JW

inductive Sym | Z | P | M      -- sigma_z, sigma_+ ("+"), sigma_- ("-")
deriving DecidableEq, Repr

abbrev Mat := List (List Int)

def matMul (a b : Mat) : Mat :=
  a.map fun row => (List.range (b.headD []).length).map fun j =>
    (List.zipWith (fun x brow => x * brow.getD j 0) row b).foldl (· + ·) 0

def matScale (c : Int) (a : Mat) : Mat := a.map fun r => r.map (c * ·)

def kron (a b : Mat) : Mat :=
  a.flatMap fun ra => b.map fun rb => ra.flatMap fun x => rb.map fun y => x * y

def one2 : Mat := [[1, 0], [0, 1]]
def Sym.mat : Sym → Mat
  | .Z => [[1, 0], [0, -1]]
  | .P => [[0, 1], [0, 0]]       -- np.diag([1.], k=1)
  | .M => [[0, 0], [1, 0]]       -- np.diag([1.], k=-1)

/-- `generate_ladder_operator`: `a_j` (dag = false) / `a†_j` (dag = true) as a list of (site, symbol):
    σz on every site below `j`, then "+" (annihilator) or "-" (creator) on site `j` -/
def ladder (j : Nat) (dag : Bool) : List (Nat × Sym) :=
  (List.range j).map (fun l => (l, Sym.Z)) ++ [(j, if dag then Sym.M else Sym.P)]

def wordMat (w : List Sym) : Mat := w.foldl (fun acc s => matMul acc s.mat) one2

/-- `simplify_op` on one site: returns `(n_permute mod 2, simplified word)`;
    the factor is `(-1) ** n_permute` -/
def simplifyWord (w : List Sym) : Bool × List Sym :=
  let rec go : List Sym → Nat → Nat → Nat → Nat × Nat
    | [], nz, _, np => (nz, np)
    | .Z :: rest, nz, nn, np => go rest (nz + 1) nn (np + nn)
    | _ :: rest, nz, nn, np => go rest nz (nn + 1) np
  let r := go w 0 0 0
  let nonZ := w.filter (· != .Z)
  (r.2 % 2 == 1, if r.1 % 2 == 1 then .Z :: nonZ else nonZ)

def signOf (b : Bool) : Int := if b then -1 else 1

/-- all words over the alphabet up to a given length -/
def wordsUpTo : Nat → List (List Sym)
  | 0 => [[]]
  | n + 1 => wordsUpTo n ++ ((wordsUpTo n).filter (·.length == n)).flatMap fun w => [w ++ [.Z], w ++ [.P], w ++ [.M]]

def simplifyOK (w : List Sym) : Bool :=
  let r := simplifyWord w
  wordMat w == matScale (signOf r.1) (wordMat r.2)

/-! ### Jordan–Wigner swap of two neighbouring sites.  Site operators after `simplify_op` are
    words `[Z]? ++ u` with `u` over {+,−}, each of + and − at most once (the code asserts it). -/

def siteWords : List (List Sym) :=
  let us : List (List Sym) := [[], [.P], [.M], [.P, .M], [.M, .P]]
  us ++ us.map (Sym.Z :: ·)

def parity (w : List Sym) : Nat := (w.filter (· != .Z)).length % 2

/-- `prepend_sigma_z` with cancellation -/
def prependZ : List Sym → List Sym
  | .Z :: rest => rest
  | w => .Z :: w

/-- `table_row_swapped_jw`: new operators for (site 1, site 2) and the coefficient -/
def swapJW (op1 op2 : List Sym) : Int × List Sym × List Sym :=
  let z1 := parity op1     -- op1_new_sigma_z
  let z2 := parity op2
  let n1 := (op1.filter (· == .P)).length + (op1.filter (· == .M)).length
  let coeff : Int := if (z2 * n1) % 2 == 1 then -1 else 1
  let new2 := if z1 == 1 then prependZ op2 else op2
  let new1 := if z2 == 1 then prependZ op1 else op1
  (coeff, new1, new2)

/-- fermionic swap gate on two spin-1/2 sites (basis |00>,|01>,|10>,|11>; sign on |11>) -/
def fswap : Mat := [[1,0,0,0],[0,0,1,0],[0,1,0,0],[0,0,0,-1]]

/-- exchanging the two sites of `op1 ⊗ op2` under the Jordan–Wigner convention:
    `FSWAP · (op1 ⊗ op2) · FSWAP = coeff · (new2 ⊗ new1)` (the new site order is (2, 1)) -/
def swapOK (op1 op2 : List Sym) : Bool :=
  let r := swapJW op1 op2
  matMul (matMul fswap (kron (wordMat op1) (wordMat op2))) fswap
    == matScale r.1 (kron (wordMat r.2.2) (wordMat r.2.1))

end RenoVerif.JW
