/- S1 — formal sums `Σ c • key` as association lists, with an executable equivalence test.
   Import-free; generic over keys `K` and scalars `R`. -/
namespace RenoVerif.FS

abbrev FSum (K R : Type) := List (K × R)

variable {K R : Type}

def keys (s : FSum K R) : List K := s.map (·.1)

/-- total coefficient of key `k` -/
def coeff [DecidableEq K] [Add R] [Zero R] (s : FSum K R) (k : K) : R :=
  s.foldr (fun p acc => if p.1 = k then p.2 + acc else acc) 0

/-- same coefficient on every key that occurs in either sum -/
def eqv [DecidableEq K] [Add R] [Zero R] [DecidableEq R] (s t : FSum K R) : Bool :=
  (keys s ++ keys t).all fun k => coeff s k == coeff t k

def scale [Mul R] (c : R) (s : FSum K R) : FSum K R := s.map fun p => (p.1, c * p.2)
def neg [Neg R] (s : FSum K R) : FSum K R := s.map fun p => (p.1, -p.2)

/-- distinct keys with their total coefficients (zeros kept) — used to report residuals -/
def collect [DecidableEq K] [Add R] [Zero R] (s : FSum K R) : FSum K R :=
  (keys s).eraseDups.map fun k => (k, coeff s k)

end RenoVerif.FS
