/-
  C19 — rooted trees, Butcher order conditions and the code's
  `runge_kutta_ti_coefficient` table recursion (renormalizer/utils/rk.py).

  Import-free.  Planar rooted forests in first-child / next-sibling form:
  `br c s` is a tree whose children are the forest `c`, followed by the sibling
  forest `s`.  A rooted tree is `br c nil`; it is identified with its forest of
  children `c` in what follows ("the tree over c").
-/
namespace RenoVerif.RK

inductive F | nil | br (c s : F)
deriving DecidableEq, Repr

namespace F

def size : F → Nat
  | nil => 0
  | br c s => 1 + size c + size s

/-- all forests with exactly `n` nodes -/
def forests : Nat → List F
  | 0 => [nil]
  | n+1 => (List.range (n+1)).attach.flatMap fun ⟨k, hk⟩ =>
      have : k < n + 1 := List.mem_range.mp hk
      have : n - k < n + 1 := by omega
      (forests k).flatMap fun c => (forests (n-k)).map fun s => br c s
termination_by n => n

/-- product over the trees of a forest of γ(tree); γ(tree over c) = (1+size c)·G c -/
def G : F → Nat
  | nil => 1
  | br c s => (1 + size c) * G c * G s

end F

abbrev Vec := List Rat
abbrev Mat := List (List Rat)

def dot (x y : Vec) : Rat := (List.zipWith (· * ·) x y).foldl (· + ·) 0
def matVec (a : Mat) (x : Vec) : Vec := a.map fun row => dot row x
def hadamard (x y : Vec) : Vec := List.zipWith (· * ·) x y

/-- stage products of a forest: `P nil = 1`, `P (br c s) = (a · P c) ⊙ P s` -/
def P (a : Mat) (n : Nat) : F → Vec
  | .nil => List.replicate n 1
  | .br c s => hadamard (matVec a (P a n c)) (P a n s)

/-- elementary weight of the tree over `c` -/
def Phi (a : Mat) (b : Vec) (c : F) : Rat := dot b (P a b.length c)

/-- order condition of the tree over `c`: Φ·γ = 1 -/
def condOK (a : Mat) (b : Vec) (c : F) : Bool :=
  Phi a b c * (((1 + c.size) * c.G : Nat) : Rat) == 1

/-- all order conditions for trees with at most `p` nodes -/
def orderOK (a : Mat) (b : Vec) (p : Nat) : Bool :=
  (List.range p).all fun n => (F.forests n).all (condOK a b)

/-- the first violated tree (children forest) among trees with at most `p` nodes -/
def firstViolation (a : Mat) (b : Vec) (p : Nat) : Option F :=
  ((List.range p).flatMap F.forests).find? fun c => !condOK a b c

/-- nodes are the row sums of the matrix -/
def rowSumsOK (a : Mat) (c : Vec) : Bool :=
  a.map (fun row => row.foldl (· + ·) 0) == c

/-- shape: `a` is n×n, `b`, `c` have length n -/
def shapeOK (a : Mat) (b c : Vec) (n : Nat) : Bool :=
  a.length == n && a.all (fun r => r.length == n) && b.length == n && c.length == n

/-- strictly lower triangular (explicit method) -/
def explicitOK (a : Mat) : Bool :=
  (a.zipIdx).all fun (row, i) => (row.zipIdx).all fun (x, j) => j < i || x == 0

/-! The code's table recursion.  `T = table[1:,1:]` is n×n, rows are written one
stage after the other (sequentially, later rows still zero):
`T[i][0] = 1`, `T[i][k+1] = Σ_j a[i][j]·T[j][k]` for `k+1 < n`. -/

def colOf (T : Mat) (k : Nat) : Vec := T.map fun r => r.getD k 0

def tiRow (a_i : Vec) (T : Mat) (n : Nat) : Vec :=
  (1 : Rat) :: (List.range (n - 1)).map fun k => dot a_i (colOf T k)

def tiTable (a : Mat) (n : Nat) : Mat :=
  (List.range n).foldl
    (fun T i => T.set i (tiRow (a.getD i []) T n))
    (List.replicate n (List.replicate n 0))

/-- `coeff` of `runge_kutta_ti_coefficient` for one row `b` : `[1, b·T[:,0], b·T[:,1], …]` -/
def tiCoeff (a : Mat) (b : Vec) : Vec :=
  let n := b.length
  let T := tiTable a n
  (1 : Rat) :: (List.range n).map fun k => dot b (colOf T k)

def fact : Nat → Nat
  | 0 => 1
  | n+1 => (n+1) * fact n

/-- the expansion equals Taylor's 1/k! for k ≤ p -/
def tiTaylorOK (a : Mat) (b : Vec) (p : Nat) : Bool :=
  let d := tiCoeff a b
  (List.range (p+1)).all fun k => d.getD k 0 * ((fact k : Nat) : Rat) == 1

/-- the tall tree with `k+1` nodes, as children forest: a chain of `k` nodes -/
def tall : Nat → F
  | 0 => .nil
  | k+1 => .br (tall k) .nil

/-- Taylor propagator coefficients `1/i!`, i = 0..order -/
def taylorCoeff (order : Nat) : Vec := (List.range (order+1)).map fun i => 1 / ((fact i : Nat) : Rat)

end RenoVerif.RK
