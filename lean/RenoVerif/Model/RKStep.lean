/-
  C09 — the algebraic skeleton of the explicit Runge–Kutta propagation scheme
  (`_evolve_prop_and_compress_tdrk`, time-independent generator) and of its adaptive step-size
  controller, plus the Taylor scheme.  Import-free, generic over the scalars.

  Polynomials in the generator are coefficient lists `[c₀, c₁, …]`.
-/
namespace RenoVerif.RKStep

variable {K : Type}

def padd [Add K] : List K → List K → List K
  | [], q => q
  | p, [] => p
  | a :: p, b :: q => (a + b) :: padd p q

def psmul [Mul K] (c : K) (p : List K) : List K := p.map (c * ·)

/-- coefficient lists of the stages: `k_i = c_i(G)·(G y)` with
    `c_i = 1 + t · Σ_{j<i} a_ij c_j` (t the polynomial variable) -/
def stageCoeffs [Add K] [Mul K] [Zero K] [One K] : List (List K) → List (List K) → List (List K)
  | [], cs => cs
  | row :: rows, cs =>
    let s := (List.zipWith (fun a c => psmul a c) row cs).foldr padd []
    stageCoeffs rows (cs ++ [1 :: s])

/-- coefficients of one RK step as a polynomial in the generator: `1 + t · Σ_i b_i c_i` -/
def polyCoeffs [Add K] [Mul K] [Zero K] [One K] (a : List (List K)) (b : List K) : List K :=
  1 :: (List.zipWith (fun bi c => psmul bi c) b (stageCoeffs a [])).foldr padd []

/-- equality of polynomials modulo trailing zeros -/
def eqPoly [DecidableEq K] [Zero K] : List K → List K → Bool
  | [], q => q.all (· == 0)
  | p, [] => p.all (· == 0)
  | a :: p, b :: q => a == b && eqPoly p q

/-! ### adaptive controller of `_evolve_prop_and_compress_tdrk` as a pure state machine.
    `p` is the step-size factor computed from the (float) error estimate; it enters as an input. -/

structure Ctl (K : Type) where
  evolved : K        -- `evolved_dt`
  guess : K          -- `evolve_config.guess_dt`
  applied : K        -- total time by which the STATE has actually been propagated
  done : Bool
deriving Repr

/-- `min_abs` -/
def minAbs [LT K] [DecidableLT K] [Neg K] [Zero K] (x y : K) : K :=
  let ax := if x < 0 then -x else x
  let ay := if y < 0 then -y else y
  if ax < ay then x else y

/-- one pass of the `while True` loop with step-size factor `p`, as the PINNED code did it: the
    propagated state was kept even when the step was rejected (defect D17) -/
def ctlStep [LT K] [DecidableLT K] [DecidableEq K] [Neg K] [Zero K] [Add K] [Sub K] [Mul K]
    (target pRestart pMin pMax : K) (s : Ctl K) (p : K) : Ctl K :=
  let dt := minAbs s.guess (target - s.evolved)
  if p < pRestart then
    { s with guess := dt * (if pMin < p then p else pMin), applied := s.applied + dt }
  else if dt + s.evolved = target then
    { s with guess := minAbs (dt * p) s.guess, applied := s.applied + dt, done := true }
  else
    { evolved := s.evolved + dt, guess := s.guess * (if p < pMax then p else pMax),
      applied := s.applied + dt, done := false }

/-- one pass of the loop as the repaired code does it: a rejected trial step is discarded, the
    state has been propagated exactly by the accepted sub-steps -/
def ctlStepFixed [LT K] [DecidableLT K] [DecidableEq K] [Neg K] [Zero K] [Add K] [Sub K] [Mul K]
    (target pRestart pMin pMax : K) (s : Ctl K) (p : K) : Ctl K :=
  if s.done then s else
  let dt := minAbs s.guess (target - s.evolved)
  if p < pRestart then
    { s with guess := dt * (if pMin < p then p else pMin) }
  else if dt + s.evolved = target then
    { s with guess := minAbs (dt * p) s.guess, applied := s.applied + dt, done := true }
  else
    { evolved := s.evolved + dt, guess := s.guess * (if p < pMax then p else pMax),
      applied := s.applied + dt, done := false }

end RenoVerif.RKStep
