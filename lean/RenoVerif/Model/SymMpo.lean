/-
  C01/C02 — symbolic matrix-product-operator certificates.

  The implementation's `symbolic_out_ops_list` is, per bond, a list of outgoing operators, each a
  sum of `(in_idx, primary_op_idx, factor)` triples (`OpTuple(symbol=[in, prim], factor)`).
  `expandAll` unfolds it into formal sums of rows of primary-operator indices; the certificate is
  accepted when the single operator on the last bond expands to the operator table.
  Import-free; generic over scalars.
-/
import RenoVerif.Model.FormalSum
namespace RenoVerif.SymMpo
open RenoVerif.FS

structure OutOp (R : Type) where
  inIdx : Nat
  prim : Nat
  factor : R
deriving Repr

/-- the outgoing operators of one bond -/
abbrev BondOps (R : Type) := List (List (OutOp R))

abbrev Row := List Nat

variable {R : Type}

/-- one site: operator `a` on the new bond = Σ f · (operator `in` on the old bond) ⊗ prim -/
def expandStep [Mul R] (prev : List (FSum Row R)) (ops : BondOps R) : List (FSum Row R) :=
  ops.map fun o => o.flatMap fun t =>
    (prev.getD t.inIdx []).map fun p => (p.1 ++ [t.prim], t.factor * p.2)

/-- expansions of all operators on the last bond, starting from the single incoming operator 1 -/
def expandAll [Mul R] [One R] (bonds : List (BondOps R)) : List (FSum Row R) :=
  bonds.foldl expandStep [[([], 1)]]

/-- every `in_idx` refers to an operator of the previous bond -/
def wellFormed : Nat → List (BondOps R) → Bool
  | _, [] => true
  | nprev, ops :: rest => ops.all (fun o => o.all fun t => t.inIdx < nprev) && wellFormed ops.length rest

/-- certificate check: well-formed, one operator on the last bond, and it expands to the table -/
def checkCert [Mul R] [One R] [Add R] [Zero R] [DecidableEq R]
    (table : FSum Row R) (bonds : List (BondOps R)) : Bool :=
  wellFormed 1 bonds &&
  match expandAll bonds with
  | [w] => eqv w table
  | _ => false

/-- residual `expansion − table`, collected per row (for the QR variant, judged with a tolerance) -/
def residual [Mul R] [One R] [Add R] [Zero R] [Neg R] [DecidableEq R]
    (table : FSum Row R) (bonds : List (BondOps R)) : Option (FSum Row R) :=
  match expandAll bonds with
  | [w] => some (collect (w ++ FS.neg table))
  | _ => none

/-! two-site expansion used by the site-swap certificate:
    operator `k` of bond 3 as a sum over (operator of bond 1, prim at site 1, prim at site 2) -/
def expand2 [Mul R] (ops2 ops3 : BondOps R) : List (FSum (Nat × Nat × Nat) R) :=
  ops3.map fun o => o.flatMap fun t3 =>
    ((ops2.getD t3.inIdx []).map fun t2 => ((t2.inIdx, t2.prim, t3.prim), t2.factor * t3.factor))

/-- swap certificate: the new pair of bonds, read with the two site columns exchanged (and primary
    operators renamed by `ren1`/`ren2` with a sign, for the Jordan–Wigner variant `sgn`), expands
    to the old pair, operator by operator -/
def checkSwap [Mul R] [Add R] [Zero R] [DecidableEq R]
    (old2 old3 new2 new3 : BondOps R) : Bool :=
  let eo := expand2 old2 old3
  let en := (expand2 new2 new3).map fun s => s.map fun p => ((p.1.1, p.1.2.2, p.1.2.1), p.2)
  eo.length == en.length && (List.zip eo en).all fun p => eqv p.1 p.2

end RenoVerif.SymMpo
