/-
  C02 — symbolic tree-tensor-network-operator certificates.

  Nodes are listed in post-order (children before parents).  Every node carries its outgoing
  operators; each is a sum of terms `(in_idx per child, local operator key, factor)` — exactly the
  content of one cell of the implementation's `symbolic_ttno[node][in…, out]`.  `expandTree`
  unfolds the operators into formal sums of rows = local keys of the nodes of the subtree in
  post-order; the certificate is accepted when the root's single operator expands to the operator
  table.  Import-free; generic over scalars.
-/
import RenoVerif.Model.FormalSum
namespace RenoVerif.SymTree
open RenoVerif.FS

structure Term (R : Type) where
  ins : List Nat          -- one incoming operator index per child, in child order
  key : Nat               -- local operator on this node (product over its basis sets)
  factor : R
deriving Repr

structure Node (R : Type) where
  children : List Nat             -- post-order indices of the children
  ops : List (List (Term R))      -- outgoing operators
deriving Repr

abbrev Row := List Nat
variable {R : Type}

/-- product of formal sums: concatenate rows, multiply coefficients -/
def fsMul [Mul R] (a b : FSum Row R) : FSum Row R :=
  a.flatMap fun p => b.map fun q => (p.1 ++ q.1, p.2 * q.2)

/-- expansions of the operators of one node from those of the already expanded nodes -/
def expandNode [Mul R] [One R] (done : List (List (FSum Row R))) (n : Node R) : List (FSum Row R) :=
  n.ops.map fun o => o.flatMap fun t =>
    let kids : FSum Row R :=
      (List.zip n.children t.ins).foldl
        (fun acc ci => fsMul acc (((done.getD ci.1 []).getD ci.2 [])))
        [([], 1)]
    kids.map fun p => (p.1 ++ [t.key], t.factor * p.2)

def expandTree [Mul R] [One R] (nodes : List (Node R)) : List (List (FSum Row R)) :=
  nodes.foldl (fun done n => done ++ [expandNode done n]) []

/-- well-formedness: children precede the node, every term has one index per child, in range -/
def wellFormed (nodes : List (Node R)) : Bool :=
  (nodes.zipIdx).all fun (n, i) =>
    n.children.all (· < i) &&
    n.ops.all fun o => o.all fun t =>
      t.ins.length == n.children.length &&
      (List.zip n.children t.ins).all fun ci => ci.2 < ((nodes.getD ci.1 ⟨[], []⟩).ops.length)

/-- every node except the root is the child of exactly one later node -/
def isTree (nodes : List (Node R)) : Bool :=
  let n := nodes.length
  (List.range (n - 1)).all fun i => ((nodes.flatMap (·.children)).filter (· == i)).length == 1

def checkCert [Mul R] [One R] [Add R] [Zero R] [DecidableEq R]
    (table : FSum Row R) (nodes : List (Node R)) : Bool :=
  wellFormed nodes && isTree nodes &&
  match (expandTree nodes).getLast? with
  | some [w] => eqv w table
  | _ => false

def residual [Mul R] [One R] [Add R] [Zero R] [Neg R] [DecidableEq R]
    (table : FSum Row R) (nodes : List (Node R)) : Option (FSum Row R) :=
  match (expandTree nodes).getLast? with
  | some [w] => some (collect (w ++ FS.neg table))
  | _ => none

end RenoVerif.SymTree
