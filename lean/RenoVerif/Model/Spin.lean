/-
  C16 — spin-1/2 and multi-electron site tables of renormalizer/model/basis.py
  (`BasisHalfSpin.op_mat`, `BasisMultiElectron.op_mat`, `BasisMultiElectronVac.op_mat`).
  Import-free; Gaussian-integer entries as (re, im) pairs.
-/
namespace RenoVerif.Spin

/-- Gaussian integer -/
structure GI where
  re : Int
  im : Int
deriving DecidableEq, Repr

instance : Zero GI := ⟨⟨0, 0⟩⟩
instance : One GI := ⟨⟨1, 0⟩⟩
instance : Add GI := ⟨fun a b => ⟨a.re + b.re, a.im + b.im⟩⟩
instance : Neg GI := ⟨fun a => ⟨-a.re, -a.im⟩⟩
instance : Sub GI := ⟨fun a b => ⟨a.re - b.re, a.im - b.im⟩⟩
instance : Mul GI := ⟨fun a b => ⟨a.re * b.re - a.im * b.im, a.re * b.im + a.im * b.re⟩⟩
def gi : GI := ⟨0, 1⟩

/-- 2×2 matrix `[[a, b], [c, d]]` -/
structure M2 where
  a : GI
  b : GI
  c : GI
  d : GI
deriving DecidableEq, Repr

instance : One M2 := ⟨⟨1, 0, 0, 1⟩⟩
instance : Zero M2 := ⟨⟨0, 0, 0, 0⟩⟩
instance : Mul M2 := ⟨fun x y => ⟨x.a * y.a + x.b * y.c, x.a * y.b + x.b * y.d, x.c * y.a + x.d * y.c, x.c * y.b + x.d * y.d⟩⟩
instance : Add M2 := ⟨fun x y => ⟨x.a + y.a, x.b + y.b, x.c + y.c, x.d + y.d⟩⟩
instance : Sub M2 := ⟨fun x y => ⟨x.a - y.a, x.b - y.b, x.c - y.c, x.d - y.d⟩⟩
def smul (z : GI) (x : M2) : M2 := ⟨z * x.a, z * x.b, z * x.c, z * x.d⟩

inductive Sym | I | X | Y | iY | Z | P | M
deriving DecidableEq, Repr

/-- the matrices of `BasisHalfSpin.op_mat` for one symbol -/
def Sym.mat : Sym → M2
  | .I => ⟨1, 0, 0, 1⟩
  | .X => ⟨0, 1, 1, 0⟩                   -- diag([1], k=1) + h.c.
  | .Y => ⟨0, ⟨0, -1⟩, ⟨0, 1⟩, 0⟩         -- diag([-1j], k=1) + h.c.
  | .iY => ⟨0, 1, ⟨-1, 0⟩, 0⟩             -- (1j * Y).real
  | .Z => ⟨1, 0, 0, ⟨-1, 0⟩⟩
  | .P => ⟨0, 1, 0, 0⟩                   -- "sigma_+": diag([1], k=1)
  | .M => ⟨0, 0, 1, 0⟩                   -- "sigma_-": diag([1], k=-1)

/-- the aliases `op_mat` accepts; anything else raises ValueError -/
def symOf (s : String) : Option Sym :=
  if s == "I" then some .I
  else if s == "sigma_x" || s == "X" || s == "x" then some .X
  else if s == "sigma_y" || s == "Y" || s == "y" then some .Y
  else if s == "isigma_y" || s == "iY" || s == "iy" then some .iY
  else if s == "sigma_z" || s == "Z" || s == "z" then some .Z
  else if s == "sigma_-" || s == "-" then some .M
  else if s == "sigma_+" || s == "+" then some .P
  else none

/-- a symbol written as a product: the matrix product in the written order -/
def wordMat (w : List Sym) : M2 := w.foldl (fun acc s => acc * s.mat) 1

def opMat (symbols : List String) : Option M2 := (symbols.mapM symOf).map wordMat

/-! multi-electron tables: `n` electronic states on one site -/

/-- which two-symbol products the classes accept -/
inductive EOp | adagA | aAdag | adag | a
deriving DecidableEq, Repr

/-- `BasisMultiElectron.op_mat`: entry (r, c) of the symbol with internal dof indices `i` (first
    factor) and `j` (second factor); single-symbol ladder operators are rejected -/
def multiE (op : EOp) (i j r c : Nat) : Option Int :=
  match op with
  | .adagA => some (if r = i ∧ c = j then 1 else 0)
  | .aAdag => some (if r = j ∧ c = i then 1 else 0)
  | _ => none

/-- `BasisMultiElectronVac.op_mat`: index 0 is the vacuum, dof `i` is basis state `i + 1` -/
def multiEVac (op : EOp) (i j r c : Nat) : Option Int :=
  match op with
  | .adagA => some (if r = i + 1 ∧ c = j + 1 then 1 else 0)
  | .aAdag => some (if r = j + 1 ∧ c = i + 1 then 1 else 0)
  | .adag => some (if r = i + 1 ∧ c = 0 then 1 else 0)
  | .a => some (if r = 0 ∧ c = i + 1 then 1 else 0)

end RenoVerif.Spin
