/-
  Traversal models of the tree projector-splitting sweeps of `renormalizer/tn/time_evolution.py`
  (import-free: also used by the line-protocol driver `Driver/C12.lean`).

  A rooted tree with ORDERED children; an event is one local Krylov propagation:
    k1 v   evolve_1site(v,  +tau)   one-site forward step               (tdvp_ps)
    k0 c   evolve_0site(c,  -tau)   zero-site backward step on the bond c–parent(c) (tdvp_ps)
    two c  evolve_2site(c,  +tau)   two-site forward step on the edge c–parent(c)   (tdvp_ps2)
    one v  evolve_1site(v,  -tau)   one-site backward step              (tdvp_ps2)
-/
namespace RenoVerif.TreeSweep

inductive T
  | node (id : Nat) (cs : List T)

inductive Ev
  | two (child : Nat)
  | one (node : Nat)
  | k1 (node : Nat)
  | k0 (child : Nat)
deriving DecidableEq, Repr

def T.id : T → Nat | .node i _ => i
def T.kids : T → List T | .node _ cs => cs

/-! ### two-site sweep (`_tdvp_ps2_recursion_forward/backward`) -/
mutual
  /-- `_tdvp_ps2_recursion_forward(snode)`; `root` tells whether `snode is ttns.root` -/
  def fwd (root : Bool) : T → List Ev
    | .node v cs => fwdL root v cs
  /-- the `for ichild, child in enumerate(snode.children)` loop, on the remaining children -/
  def fwdL (root : Bool) (v : Nat) : List T → List Ev
    | [] => []
    | c :: rest =>
      (match c with
        | .node _ [] => []
        | .node _ (_ :: _) => fwd false c) ++
      [Ev.two c.id] ++
      (if root && rest.isEmpty then [] else [Ev.one v]) ++
      fwdL root v rest
end

mutual
  /-- `_tdvp_ps2_recursion_backward(snode)` -/
  def bwd (root : Bool) : T → List Ev
    | .node v cs => bwdL root v cs
  /-- the `for ichild, child in reversed(list(enumerate(snode.children)))` loop: the events of the children
      that come LATER in the list are emitted first -/
  def bwdL (root : Bool) (v : Nat) : List T → List Ev
    | [] => []
    | c :: rest =>
      bwdL root v rest ++
      (if root && rest.isEmpty then [] else [Ev.one v]) ++
      [Ev.two c.id] ++
      (match c with
        | .node _ [] => []
        | .node _ (_ :: _) => bwd false c)
end

/-! ### one-site sweep (`_tdvp_ps_forward/backward`, explicit stack in the code) -/
mutual
  /-- forward half sweep: children first (in order), then the node itself, then – unless it is the root –
      the backward zero-site step on the bond to its parent -/
  def ps1F (root : Bool) : T → List Ev
    | .node v cs => ps1FL cs ++ [Ev.k1 v] ++ (if root then [] else [Ev.k0 v])
  def ps1FL : List T → List Ev
    | [] => []
    | c :: rest => ps1F false c ++ ps1FL rest
end

mutual
  /-- backward half sweep: the node first, then for every child IN REVERSED ORDER the zero-site step on its
      bond followed by the child's subtree -/
  def ps1B : T → List Ev
    | .node v cs => Ev.k1 v :: ps1BL cs
  def ps1BL : List T → List Ev
    | [] => []
    | c :: rest => ps1BL rest ++ (Ev.k0 c.id :: ps1B c)
end

mutual
  def edges : T → Nat
    | .node _ cs => edgesL cs
  def edgesL : List T → Nat
    | [] => 0
    | c :: rest => 1 + edges c + edgesL rest
end

/-- tree from ordered adjacency lists (children of node `i` = `adj[i]`), `fuel` ≥ depth -/
def build (adj : List (List Nat)) : Nat → Nat → T
  | 0, v => .node v []
  | fuel + 1, v => .node v ((adj.getD v []).map (build adj fuel))

end RenoVerif.TreeSweep
