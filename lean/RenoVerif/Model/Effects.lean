/-
  C13 — effect model of the public state-producing / measuring / mutating methods.

  A heap of cells (tensor buffers, label arrays, scalars, the mutable containers `_mp`, `qn`,
  config records) and live objects, each owning a list of cells.  Every public method falls in
  one of three classes:
    derive i f   a NEW object whose cells are freshly allocated and computed from object `i`
                 (copy, add, conj, apply, evolve, to_complex, metacopy+fill, Model.copy …)
    mutate i g   in-place modification of object `i` only (canonicalise, compress,
                 scale(inplace), normalize, move_qnidx, ensure_*_canonical, item assignment …)
    observe i    a measurement (expectation, norm, todense, rdm, entropy): no write at all
  Import-free.
-/
namespace RenoVerif.Effects

structure St where
  heap : List Nat              -- cell contents, index = cell id
  objs : List (List Nat)       -- cells owned by each live object
deriving Repr, DecidableEq

inductive Op
  | derive (i : Nat) (f : Nat → Nat)
  | mutate (i : Nat) (g : Nat → Nat)
  | observe (i : Nat)

def read (s : St) (i : Nat) : List Nat := (s.objs.getD i []).map fun c => s.heap.getD c 0

def step (s : St) : Op → St
  | .derive i f =>
    let vals := (read s i).map f
    { heap := s.heap ++ vals, objs := s.objs ++ [(List.range vals.length).map (· + s.heap.length)] }
  | .mutate i g =>
    { s with heap := (s.objs.getD i []).foldl (fun h c => h.set c (g (h.getD c 0))) s.heap }
  | .observe _ => s

def run (s : St) (ops : List Op) : St := ops.foldl step s

/-- well-formed: every owned cell exists, objects own pairwise disjoint cells, no repeated cell -/
def WF (s : St) : Prop :=
  (∀ o ∈ s.objs, ∀ c ∈ o, c < s.heap.length) ∧ (s.objs.flatten).Nodup

end RenoVerif.Effects
