/-
  C14 — the result-file protocol of `TdMpsJob.dump_dict` (renormalizer/utils/tdmps.py) as a
  file-system state machine.  Import-free.

  Files: F = <job>.npz, B = <job>.npz.bak (only ever left behind by an earlier version / run),
  T = <job>.npz.tmp.npz.  A file is absent, a partially written archive (not loadable) or a complete
  archive of some step.  `os.remove`, `os.replace` are atomic; `np.savez` = create/truncate (partial) …
  complete.  `os.path.exists` is true for partial files.

  Protocol (after the repair D40): write T completely, atomically replace F by T, remove a left-over B.
-/
namespace RenoVerif.Dump

inductive FileSt
  | absent
  | part (step : Nat)
  | complete (step : Nat)
deriving DecidableEq, Repr

structure Dir where
  f : FileSt
  b : FileSt
  t : FileSt
deriving DecidableEq, Repr

def FileSt.exists : FileSt → Bool
  | .absent => false
  | _ => true

/-- the file-system operations issued by `dump_dict` -/
inductive Op
  | savezCreate (step : Nat)     -- T opened for writing (created / truncated), some bytes written
  | savezFinish (step : Nat)     -- T closed
  | replaceTF                    -- os.replace(T, F): atomic
  | removeB
deriving DecidableEq, Repr

def apply (d : Dir) : Op → Dir
  | .savezCreate k => { d with t := .part k }
  | .savezFinish k => { d with t := .complete k }
  | .replaceTF => { d with f := d.t, t := .absent }
  | .removeB => { d with b := .absent }

/-- the op sequence of one `dump_dict` call at step `k` from directory `d`
    (the decision `os.path.exists(bak_path)` is taken after the replace; B is not touched before) -/
def dumpOps (k : Nat) (d : Dir) : List Op :=
  [.savezCreate k, .savezFinish k, .replaceTF] ++ (if d.b.exists then [.removeB] else [])

/-- every directory state visible while the ops run (a crash can freeze any of them),
    the initial one included -/
def traceOps (d : Dir) : List Op → List Dir
  | [] => [d]
  | o :: os => d :: traceOps (apply d o) os

def dumpTrace (k : Nat) (d : Dir) : List Dir := traceOps d (dumpOps k d)

def dumpFinal (k : Nat) (d : Dir) : Dir := (dumpOps k d).foldl apply d

/-- a complete file of step ≥ j -/
def FileSt.goodFor (s : FileSt) (j : Nat) : Bool :=
  match s with
  | .complete i => j ≤ i
  | _ => false

/-- a complete RESULT file (F or its backup B; the temporary file does not count) of step ≥ j is present -/
def Dir.good (d : Dir) (j : Nat) : Bool := d.f.goodFor j || d.b.goodFor j

/-- some complete result file is present, whatever its step (e.g. one written by an earlier run) -/
def Dir.hasComplete (d : Dir) : Bool := d.good 0

/-- all (step, directory) pairs visible during dumps `from .. from+n-1` starting in `d` -/
def runTrace : Nat → Nat → Dir → List (Nat × Dir)
  | 0, _, _ => []
  | n+1, k, d => (dumpTrace k d).map (fun x => (k, x)) ++ runTrace n (k+1) (dumpFinal k d)

end RenoVerif.Dump
