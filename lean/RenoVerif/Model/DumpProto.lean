/-
  C14 — the result-file protocol of `TdMpsJob.dump_dict` (renormalizer/utils/tdmps.py) as a
  file-system state machine.  Import-free.

  Files: F = <job>.npz, B = <job>.npz.bak.  A file is absent, a partially written archive
  (not loadable) or a complete archive of some step.  `os.remove`, `os.rename` are atomic;
  `np.savez` = create/truncate (partial) … complete.  `os.path.exists` is true for partial files.
-/
namespace RenoVerif.Dump

inductive FileSt
  | absent
  | part (step : Nat)
  | complete (step : Nat)
deriving DecidableEq, Repr

structure Dir where
  f : FileSt
  b : FileSt
deriving DecidableEq, Repr

def FileSt.exists : FileSt → Bool
  | .absent => false
  | _ => true

/-- the file-system operations issued by `dump_dict` -/
inductive Op
  | removeB
  | renameFB
  | savezCreate (step : Nat)     -- archive opened for writing, some bytes written
  | savezFinish (step : Nat)     -- archive closed
deriving DecidableEq, Repr

def apply (d : Dir) : Op → Dir
  | .removeB => { d with b := .absent }
  | .renameFB => { f := .absent, b := d.f }
  | .savezCreate k => { d with f := .part k }
  | .savezFinish k => { d with f := .complete k }

/-- the op sequence of one `dump_dict` call at step `k` from directory `d`
    (decisions `os.path.exists` are taken on the state reached so far, as in the code) -/
def dumpOps (k : Nat) (d : Dir) : List Op :=
  let pre : List Op :=
    if d.f.exists then (if d.b.exists then [.removeB, .renameFB] else [.renameFB]) else []
  let d1 := pre.foldl apply d
  let post : List Op := if d1.b.exists then [.removeB] else []
  pre ++ [.savezCreate k, .savezFinish k] ++ post

/-- every directory state visible while the ops run (a crash can freeze any of them),
    the initial one included -/
def traceOps (d : Dir) : List Op → List Dir
  | [] => [d]
  | o :: os => d :: traceOps (apply d o) os

def dumpTrace (k : Nat) (d : Dir) : List Dir := traceOps d (dumpOps k d)

def dumpFinal (k : Nat) (d : Dir) : Dir := (dumpOps k d).foldl apply d

/-- a complete file of step ≥ j is present -/
def FileSt.goodFor (s : FileSt) (j : Nat) : Bool :=
  match s with
  | .complete i => j ≤ i
  | _ => false

def Dir.good (d : Dir) (j : Nat) : Bool := d.f.goodFor j || d.b.goodFor j

/-- all (step, directory) pairs visible during dumps `from .. from+n-1` starting in `d` -/
def runTrace : Nat → Nat → Dir → List (Nat × Dir)
  | 0, _, _ => []
  | n+1, k, d => (dumpTrace k d).map (fun x => (k, x)) ++ runTrace n (k+1) (dumpFinal k d)

end RenoVerif.Dump
