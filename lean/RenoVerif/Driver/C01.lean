/- line-protocol driver for C01/C02 certificates over exact Gaussian rationals.
   formal sum : rows separated by ';', each  i,i,i:re:im        ("-" = empty sum; row "" = empty row)
   bonds      : bonds separated by '#', operators by '|', terms by ';', each  in,prim:re:im ("." = empty operator)
   requests   : cert <table> <bonds> | resid <table> <bonds> | fseq <sum> <sum> | swap <b2> <b3> <n2> <n3> | dims <bonds> -/
import RenoVerif.Model.SymMpo
import RenoVerif.Model.SymTree
import RenoVerif.Driver.Util
open RenoVerif RenoVerif.FS RenoVerif.SymMpo RenoVerif.Util

def parseNatList (s : String) : Option (List Nat) :=
  if s == "" then some [] else (s.splitOn ",").mapM (·.toNat?)

def parseTerm (s : String) : Option (Row × GaussRat) :=
  match s.splitOn ":" with
  | [r, re, im] => match parseNatList r, parseRat re, parseRat im with
    | some r, some a, some b => some (r, ⟨a, b⟩)
    | _, _, _ => none
  | _ => none

def parseSum (s : String) : Option (FSum Row GaussRat) :=
  if s == "-" then some [] else (s.splitOn ";").mapM parseTerm

def parseOutOp (s : String) : Option (OutOp GaussRat) :=
  match parseTerm s with
  | some ([i, p], f) => some ⟨i, p, f⟩
  | _ => none

def parseOp (s : String) : Option (List (OutOp GaussRat)) :=
  if s == "." then some [] else (s.splitOn ";").mapM parseOutOp

def parseBond (s : String) : Option (BondOps GaussRat) := (s.splitOn "|").mapM parseOp
def parseBonds (s : String) : Option (List (BondOps GaussRat)) := (s.splitOn "#").mapM parseBond

def parseTTerm (s : String) : Option (SymTree.Term GaussRat) :=
  match s.splitOn ":" with
  | [ins, key, re, im] =>
    let insL := if ins == "-" then some [] else (ins.splitOn ".").mapM (·.toNat?)
    match insL, key.toNat?, parseRat re, parseRat im with
    | some insL, some key, some a, some b => some ⟨insL, key, ⟨a, b⟩⟩
    | _, _, _, _ => none
  | _ => none

def parseTNode (s : String) : Option (SymTree.Node GaussRat) :=
  match s.splitOn "@" with
  | [ch, ops] =>
    let chL := if ch == "-" then some [] else (ch.splitOn ",").mapM (·.toNat?)
    let opsL := (ops.splitOn "|").mapM fun o => if o == "." then some [] else (o.splitOn ";").mapM parseTTerm
    match chL, opsL with
    | some chL, some opsL => some ⟨chL, opsL⟩
    | _, _ => none
  | _ => none

def parseTNodes (s : String) : Option (List (SymTree.Node GaussRat)) := (s.splitOn "#").mapM parseTNode

def normSqMax (s : FSum Row GaussRat) : Rat :=
  s.foldl (fun m p => let n := p.2.normSq; if m < n then n else m) 0

def step (line : String) : String :=
  match line.splitOn " " with
  | ["cert", t, b] => match parseSum t, parseBonds b with
    | some t, some b => toString (checkCert t b)
    | _, _ => "bad-op"
  | ["resid", t, b] => match parseSum t, parseBonds b with
    | some t, some b => match residual t b with
      | some r => (if wellFormed 1 b then "wf " else "illformed ") ++ ratStr (normSqMax r)
      | none => "shape"
    | _, _ => "bad-op"
  | ["fseq", a, b] => match parseSum a, parseSum b with
    | some a, some b => toString (eqv a b)
    | _, _ => "bad-op"
  | ["swap", o2, o3, n2, n3] => match parseBond o2, parseBond o3, parseBond n2, parseBond n3 with
    | some o2, some o3, some n2, some n3 => toString (checkSwap o2 o3 n2 n3)
    | _, _, _, _ => "bad-op"
  | ["tcert", t, n] => match parseSum t, parseTNodes n with
    | some t, some n => toString (SymTree.checkCert t n)
    | _, _ => "bad-op"
  | ["tresid", t, n] => match parseSum t, parseTNodes n with
    | some t, some n => match SymTree.residual t n with
      | some r => (if SymTree.wellFormed n && SymTree.isTree n then "wf " else "illformed ") ++ ratStr (normSqMax r)
      | none => "shape"
    | _, _ => "bad-op"
  | ["dims", b] => match parseBonds b with
    | some b => " ".intercalate (b.map fun ops => toString ops.length)
    | none => "bad-op"
  | _ => "bad-op"

def main : IO Unit := do loop step (← IO.getStdin)
