/- line-protocol driver for C16 (harmonic oscillator, scaled basis).
   opmat <N> <s p/q> <x0 p/q> <symbol with '_' for spaces>  ->  N*N entries re:im row-major, or "unsupported" -/
import RenoVerif.Model.SHO
import RenoVerif.Driver.Util
open RenoVerif RenoVerif.SHO RenoVerif.Util

def gS (x : G) : String := s!"{ratStr x.re}:{ratStr x.im}"

def step (line : String) : String :=
  match line.splitOn " " with
  | ["opmat", n, s, x0, sym] => match n.toNat?, parseRat s, parseRat x0 with
    | some n, some s, some x0 =>
      match opmat2 ⟨s, x0⟩ (sym.replace "_" " ") with
      | some M => " ".intercalate ((List.range n).flatMap fun i => (List.range n).map fun j => gS (M i j))
      | none => "unsupported"
    | _, _, _ => "bad-op"
  | _ => "bad-op"

def main : IO Unit := do loop step (← IO.getStdin)
