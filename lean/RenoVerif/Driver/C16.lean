/- line-protocol driver for C16 (harmonic oscillator, scaled basis).
   opmat <N> <s p/q> <x0 p/q> <symbol with '_' for spaces>  ->  N*N entries re:im row-major, or "unsupported"
   spin <sym;sym;…>                   -> the four entries re:im of BasisHalfSpin.op_mat, or "unsupported"
   me <vac 0|1> <adagA|aAdag|adag|a> <n> <i> <j>  -> entries of the multi-electron table (n or n+1 square), or "unsupported" -/
import RenoVerif.Model.SHO
import RenoVerif.Model.Spin
import RenoVerif.Driver.Util
open RenoVerif RenoVerif.SHO RenoVerif.Util

def gS (x : G) : String := s!"{ratStr x.re}:{ratStr x.im}"

def step (line : String) : String :=
  match line.splitOn " " with
  | ["opmat", n, s, x0, sym] => match n.toNat?, parseRat s, parseRat x0 with
    | some n, some s, some x0 =>
      match opmat2 ⟨s, x0⟩ (sym.replace "_" " ") with
      | some M => " ".intercalate ((List.range n).flatMap fun i => (List.range n).map fun j => gS (M i j))
      | none => "unsupported"
    | _, _, _ => "bad-op"
  | ["spin", w] => match Spin.opMat (w.splitOn ";") with
    | some m => " ".intercalate ([m.a, m.b, m.c, m.d].map fun z => s!"{z.re}:{z.im}")
    | none => "unsupported"
  | ["me", vac, op, n, i, j] => match n.toNat?, i.toNat?, j.toNat? with
    | some n, some i, some j =>
      let o : Option Spin.EOp := if op == "adagA" then some .adagA else if op == "aAdag" then some .aAdag
        else if op == "adag" then some .adag else if op == "a" then some .a else none
      match o with
      | none => "bad-op"
      | some o =>
        let d := if vac == "1" then n + 1 else n
        let f := if vac == "1" then Spin.multiEVac o i j else Spin.multiE o i j
        match f 0 0 with
        | none => "unsupported"
        | some _ => " ".intercalate ((List.range d).flatMap fun r => (List.range d).map fun c => toString ((f r c).getD 0))
    | _, _, _ => "bad-op"
  | _ => "bad-op"

def main : IO Unit := do loop step (← IO.getStdin)
