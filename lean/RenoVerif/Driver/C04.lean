/- line-protocol driver for C04: bond-dimension bookkeeping of one sweep (no QN blocks).
   sweep <d,d,…> <Dold,Dold,…> <D>  ->  new right bonds  -/
import RenoVerif.Props.C04
import RenoVerif.Driver.Util
open RenoVerif.Chain RenoVerif.Util

def parseNats (s : String) : Option (List Nat) := if s == "-" then some [] else (s.splitOn ",").mapM (·.toNat?)

def step (line : String) : String :=
  match line.splitOn " " with
  | ["sweep", ds, Ds, D] => match parseNats ds, parseNats Ds, D.toNat? with
    | some ds, some Ds, some D => ",".intercalate ((sweepR ds Ds D).map toString)
    | _, _, _ => "bad-op"
  | _ => "bad-op"

def main : IO Unit := do loop step (← IO.getStdin)
