/- line-protocol driver for C06 (quantum-number labels).
   q          : a,b
   label list : q;q;…          labels / sigmaqn : lists separated by '|'
   supports   : sites separated by '|', entries by ';', entry l,σ,r   ("." = no non-zero entry)
   inv <mps|mpo> <qnidx> <qntot> <labels> <sigmaqn> <supports>   -> true | bad <site> <l> <σ> <r> | boundary
   move <qnidx> <qntot> <dst> <labels>                            -> labels
   addlabels <ia> <ib> <qntot> <labelsA> <labelsB>                -> labels   (corrected add)
   For `mpo` the physical index of an entry is σ·d+σ' and its quantum number is q(σ) − q(σ'). -/
import RenoVerif.Model.QN
import RenoVerif.Driver.Util
open RenoVerif.QN RenoVerif.Util

def parseQ (s : String) : Option Q2 :=
  match (s.splitOn ",").mapM parseInt with
  | some [a, b] => some ⟨a, b⟩
  | some [a] => some ⟨a, 0⟩
  | _ => none

def parseQs (s : String) : Option (List Q2) := if s == "." then some [] else (s.splitOn ";").mapM parseQ
def parseLabels (s : String) : Option Labels := (s.splitOn "|").mapM parseQs

def parseEntry (s : String) : Option (Nat × Nat × Nat) :=
  match (s.splitOn ",").mapM (·.toNat?) with
  | some [l, p, r] => some (l, p, r)
  | _ => none
def parseSupp (s : String) : Option Support := if s == "." then some [] else (s.splitOn ";").mapM parseEntry
def parseSupps (s : String) : Option (List Support) := (s.splitOn "|").mapM parseSupp

def qStr (q : Q2) : String := s!"{q.a},{q.b}"
def labelsStr (l : Labels) : String := "|".intercalate (l.map fun ls => if ls.isEmpty then "." else ";".intercalate (ls.map qStr))

def opSigma (sq : List Q2) : List Q2 := sq.flatMap fun x => sq.map fun y => x - y

def step (line : String) : String :=
  match line.splitOn " " with
  | ["inv", kind, qi, qt, lb, sg, sp] =>
    match qi.toNat?, parseQ qt, parseLabels lb, parseLabels sg, parseSupps sp with
    | some qi, some qt, some lb, some sg, some sp =>
      let sg := if kind == "mpo" then sg.map opSigma else sg
      if checkInv lb qi qt sg sp then "true"
      else
        let L := allLeft lb qi qt
        match firstBad L sg sp 0 with
        | some (i, l, p, r) => s!"bad {i} {l} {p} {r}"
        | none => "boundary"
    | _, _, _, _, _ => "bad-op"
  | ["move", qi, qt, dst, lb] =>
    match qi.toNat?, parseQ qt, dst.toNat?, parseLabels lb with
    | some qi, some qt, some dst, some lb => labelsStr (moveQnidx lb qi qt dst)
    | _, _, _, _ => "bad-op"
  | ["addlabels", ia, ib, qt, la, lb] =>
    match ia.toNat?, ib.toNat?, parseQ qt, parseLabels la, parseLabels lb with
    | some ia, some ib, some qt, some la, some lb => labelsStr (addLabels la ia lb ib qt)
    | _, _, _, _, _ => "bad-op"
  | _ => "bad-op"

def main : IO Unit := do loop step (← IO.getStdin)
