/- line-protocol driver for C07 (environment cache decisions).
   seqs : operators separated by '|', hashes (small ints) by ','
   select <nsite> <seqs>            -> cached keys in construction order, '|' separated ("-" if none)
   getfreq <maxLen|inf> <mpo> <keys> -> length of the prefix handed out -/
import RenoVerif.Model.EnvCache
import RenoVerif.Driver.Util
open RenoVerif.EnvCache RenoVerif.Util

def parseKey (s : String) : Option Key := if s == "" then some [] else (s.splitOn ",").mapM (·.toNat?)
def parseKeys (s : String) : Option (List Key) := if s == "-" then some [] else (s.splitOn "|").mapM parseKey
def keyStr (k : Key) : String := ",".intercalate (k.map toString)
def keysStr (l : List Key) : String := if l.isEmpty then "-" else "|".intercalate (l.map keyStr)

def step (line : String) : String :=
  match line.splitOn " " with
  | ["select", n, seqs] => match n.toNat?, parseKeys seqs with
    | some n, some seqs => keysStr (selectKeys seqs n)
    | _, _ => "bad-op"
  | ["getfreq", ml, mpo, keys] => match parseKey mpo, parseKeys keys with
    | some mpo, some keys =>
      let d : Dict Unit := ([], ()) :: keys.map fun k => (k, ())
      let ml := if ml == "inf" then mpo.length + 1 else (ml.toNat?).getD 0
      toString (getFreq d mpo ml)
    | _, _ => "bad-op"
  | _ => "bad-op"

def main : IO Unit := do loop step (← IO.getStdin)
