/- line-protocol driver for the chain models (C03/C04/C06/C07) over exact Gaussian rationals.
   state    : sites separated by '#'; site = l,d,r|e;e;…   entries row-major over [l][σ][r], e = re:im (rationals p/q)
   operator : same with entries over [l][σ][σ'][r]
   requests : add A B | scale k re:im A | conj A | dot A B | apply W A | amp A | bonds A
   replies  : a state in the same syntax, or a scalar re:im, or a list of scalars -/
import RenoVerif.Model.Chain
import RenoVerif.Lemmas.ChainDot
import RenoVerif.Lemmas.GaussRatField
import RenoVerif.Driver.Util
open RenoVerif RenoVerif.Chain RenoVerif.Util

abbrev G := GaussRat
instance : Inhabited G := ⟨0⟩

structure RawSite where
  l : Nat
  d : Nat
  r : Nat
  data : Array G

def parseG (s : String) : Option G :=
  match s.splitOn ":" with
  | [a, b] => match parseRat a, parseRat b with
    | some a, some b => some ⟨a, b⟩
    | _, _ => none
  | _ => none

def gStr (x : G) : String := s!"{ratStr x.re}:{ratStr x.im}"

def parseRawSite (s : String) (op : Bool) : Option RawSite :=
  match s.splitOn "|" with
  | [hd, body] => match (hd.splitOn ",").mapM (·.toNat?) with
    | some [l, d, r] =>
      match (body.splitOn ";").mapM parseG with
      | some es => if es.length == l * (if op then d * d else d) * r then some ⟨l, d, r, es.toArray⟩ else none
      | none => none
    | _ => none
  | _ => none

def parseRaw (s : String) (op : Bool) : Option (List RawSite) := (s.splitOn "#").mapM (parseRawSite · op)

def RawSite.toSite (s : RawSite) : Site G s.d s.l s.r :=
  fun p => Matrix.of fun i j => s.data[(i.val * s.d + p.val) * s.r + j.val]!

def RawSite.toOpSite (s : RawSite) : OpSite G s.d s.l s.r :=
  fun p q => Matrix.of fun i j => s.data[((i.val * s.d + p.val) * s.d + q.val) * s.r + j.val]!

def build : (sites : List RawSite) → (l : Nat) → Option (Σ r, Chain G (sites.map (·.d)) l r)
  | [], l => some ⟨l, .nil l⟩
  | s :: rest, l =>
    if h : s.l = l then
      match build rest s.r with
      | some ⟨r, c⟩ => some ⟨r, .cons (h ▸ s.toSite) c⟩
      | none => none
    else none

def buildOp : (sites : List RawSite) → (l : Nat) → Option (Σ r, OpChain G (sites.map (·.d)) l r)
  | [], l => some ⟨l, .nil l⟩
  | s :: rest, l =>
    if h : s.l = l then
      match buildOp rest s.r with
      | some ⟨r, c⟩ => some ⟨r, .cons (h ▸ s.toOpSite) c⟩
      | none => none
    else none

def siteStr {d l r : Nat} (A : Site G d l r) : String :=
  let es := (List.finRange l).flatMap fun i => (List.finRange d).flatMap fun p => (List.finRange r).map fun j => gStr (A p i j)
  s!"{l},{d},{r}|" ++ ";".intercalate es

def chainStr : {ds : List Nat} → {l r : Nat} → Chain G ds l r → List String
  | _, _, _, .nil _ => []
  | _, _, _, .cons A rest => siteStr A :: chainStr rest

def allCfg : (ds : List Nat) → List (Cfg ds)
  | [] => [()]
  | d :: ds => (List.finRange d).flatMap fun s => (allCfg ds).map fun c => (s, c)

/-- closed chain of a given shape, or none -/
def closed (sites : List RawSite) : Option (Chain G (sites.map (·.d)) 1 1) :=
  match build sites 1 with
  | some ⟨r, c⟩ => if h : r = 1 then some (h ▸ c) else none
  | none => none

def closedOp (sites : List RawSite) : Option (OpChain G (sites.map (·.d)) 1 1) :=
  match buildOp sites 1 with
  | some ⟨r, c⟩ => if h : r = 1 then some (h ▸ c) else none
  | none => none

def conjHom : G →+* G := GaussRat.conjHom

def outChain {ds : List Nat} {l r : Nat} (c : Chain G ds l r) : String := "#".intercalate (chainStr c)

def doAdd (sa sb : List RawSite) : String :=
  match h : sa.map (·.d), closed sa, closed sb with
  | [], _, _ => "bad-shape"
  | d :: ds, some a, some b =>
    if h2 : sb.map (·.d) = d :: ds then
      outChain (addClosed (h ▸ a) (h2 ▸ b))
    else "bad-shape"
  | _, _, _ => "bad-shape"

def doDot (sa sb : List RawSite) : String :=
  match closed sa, closed sb with
  | some a, some b =>
    if h2 : sb.map (·.d) = sa.map (·.d) then
      gStr (dotFrom (1 : Matrix (Fin 1) (Fin 1) G) a (h2 ▸ b) 0 0)
    else "bad-shape"
  | _, _ => "bad-shape"

def doApply (sw sa : List RawSite) : String :=
  match closedOp sw, closed sa with
  | some w, some a =>
    if h2 : sa.map (·.d) = sw.map (·.d) then
      outChain (applyC w (h2 ▸ a))
    else "bad-shape"
  | _, _ => "bad-shape"

def step (line : String) : String :=
  match line.splitOn " " with
  | ["add", a, b] => match parseRaw a false, parseRaw b false with
    | some a, some b => doAdd a b
    | _, _ => "bad-op"
  | ["scale", k, x, a] => match k.toNat?, parseG x, parseRaw a false with
    | some k, some x, some a => match closed a with
      | some c => outChain (scaleAt k x c)
      | none => "bad-shape"
    | _, _, _ => "bad-op"
  | ["conj", a] => match parseRaw a false with
    | some a => match closed a with
      | some c => outChain (mapC conjHom c)
      | none => "bad-shape"
    | none => "bad-op"
  | ["dot", a, b] => match parseRaw a false, parseRaw b false with
    | some a, some b => doDot a b
    | _, _ => "bad-op"
  | ["apply", w, a] => match parseRaw w true, parseRaw a false with
    | some w, some a => doApply w a
    | _, _ => "bad-op"
  | ["amp", a] => match parseRaw a false with
    | some a => match closed a with
      | some c => " ".intercalate ((allCfg _).map fun cfg => gStr (amp c cfg 0 0))
      | none => "bad-shape"
    | none => "bad-op"
  | _ => "bad-op"

def main : IO Unit := do loop step (← IO.getStdin)
