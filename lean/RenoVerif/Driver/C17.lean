/- line-protocol driver for C17.  word: string over Z P M ("-" = empty word)
   simplify <word>      -> <+|-> <word>
   swap <word1> <word2> -> <+|-> <new1> <new2>
   mat <word>           -> the four entries of the 2×2 matrix product, row-major
   ladder <j> <0|1>     -> site:symbol list of a_j (0) / a†_j (1) -/
import RenoVerif.Model.JW
import RenoVerif.Driver.Util
open RenoVerif.JW RenoVerif.Util

def parseWord (s : String) : Option (List Sym) :=
  if s == "-" then some [] else s.toList.mapM fun c =>
    if c == 'Z' then some Sym.Z else if c == 'P' then some Sym.P else if c == 'M' then some Sym.M else none
def wordStr (w : List Sym) : String :=
  if w.isEmpty then "-" else String.ofList (w.map fun | .Z => 'Z' | .P => 'P' | .M => 'M')

def step (line : String) : String :=
  match line.splitOn " " with
  | ["simplify", w] => match parseWord w with
    | some w => let r := simplifyWord w; (if r.1 then "- " else "+ ") ++ wordStr r.2
    | none => "bad-op"
  | ["swap", a, b] => match parseWord a, parseWord b with
    | some a, some b => let r := swapJW a b
      (if r.1 == -1 then "- " else "+ ") ++ wordStr r.2.1 ++ " " ++ wordStr r.2.2
    | _, _ => "bad-op"
  | ["mat", w] => match parseWord w with
    | some w => " ".intercalate ((wordMat w).flatMap fun r => r.map toString)
    | none => "bad-op"
  | ["ladder", j, d] => match j.toNat?, d.toNat? with
    | some j, some d => " ".intercalate ((ladder j (d == 1)).map fun p => toString p.1 ++ ":" ++ wordStr [p.2])
    | _, _ => "bad-op"
  | _ => "bad-op"

def main : IO Unit := do loop step (← IO.getStdin)
