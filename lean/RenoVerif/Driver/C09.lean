/- line-protocol driver for C09: the adaptive step-size controller of the general RK scheme.
   ctl <target> <guess0> <p1,p2,…>  ->  per pass "dt:done" separated by spaces, then "| applied evolved guess"
   (rationals p/q; the step-size factors p_i are inputs: they come from float error estimates) -/
import RenoVerif.Model.RKStep
import RenoVerif.Driver.Util
open RenoVerif.RKStep RenoVerif.Util

def parseRats (s : String) : Option (List Rat) := if s == "-" then some [] else (s.splitOn ",").mapM parseRat

def step (line : String) : String :=
  match line.splitOn " " with
  | ["ctl", t, g, ps] => match parseRat t, parseRat g, parseRats ps with
    | some t, some g, some ps =>
      let init : Ctl Rat := ⟨0, g, 0, false⟩
      let (s, outs) := ps.foldl (fun (acc : Ctl Rat × List String) p =>
          let s := acc.1
          let dt := minAbs s.guess (t - s.evolved)
          let s' := ctlStepFixed t (1/2) (1/10) 2 s p
          (s', acc.2 ++ [s!"{ratStr dt}:{s'.done}"])) (init, [])
      " ".intercalate outs ++ s!" | {ratStr s.applied} {ratStr s.evolved} {ratStr s.guess}"
    | _, _, _ => "bad-op"
  | _ => "bad-op"

def main : IO Unit := do loop step (← IO.getStdin)
