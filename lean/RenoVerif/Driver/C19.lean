/- line-protocol driver for C19: requests refer to the GENERATED tables -/
import RenoVerif.Gen.RK
open RenoVerif.RK

def ratStr (q : Rat) : String := s!"{q.num}/{q.den}"

partial def fStr : F → String
  | .nil => "."
  | .br c s => "(" ++ fStr c ++ ")" ++ fStr s

def findM (m : String) := Gen.methods.find? fun e => e.1 == m

def step (line : String) : String :=
  match line.trimAscii.toString.splitOn " " with
  | ["methods"] => " ".intercalate (Gen.methods.map fun e => e.1)
  | ["violation", m, r] =>
    match findM m, r.toNat? with
    | some (_, a, bs, _, _, ord), some i =>
      match bs[i]?, ord[i]? with
      | some b, some p => match firstViolation a b p with
        | none => "none"
        | some c => "tree " ++ fStr c ++ " lhs " ++ ratStr (Phi a b c * (((1 + c.size) * c.G : Nat) : Rat))
      | _, _ => "bad-row"
    | _, _ => "bad-op"
  | ["ticoeff", m, r] =>
    match findM m, r.toNat? with
    | some (_, a, bs, _, _, _), some i =>
      match bs[i]? with
      | some b => " ".intercalate ((tiCoeff a b).map ratStr)
      | none => "bad-row"
    | _, _ => "bad-op"
  | ["rowsums", m] =>
    match findM m with
    | some (_, a, _, c, _, _) => toString (rowSumsOK a c)
    | none => "bad-op"
  | ["shape", m] =>
    match findM m with
    | some (_, a, bs, c, n, ord) => toString ((bs.all fun b => shapeOK a b c n) && explicitOK a && bs.length == ord.length)
    | none => "bad-op"
  | ["taylor", k] => match k.toNat? with
    | some k => " ".intercalate ((taylorCoeff k).map ratStr)
    | none => "bad-op"
  | _ => "bad-op"

partial def loop (h : IO.FS.Stream) : IO Unit := do
  let line ← h.getLine
  if line.isEmpty then return ()
  IO.println (step line)
  loop h

def main : IO Unit := do loop (← IO.getStdin)
