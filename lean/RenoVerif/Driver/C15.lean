/- line-protocol driver for C15: one expression program per line in RPN.
   tokens:  A:<re>:<im>:<sym>@<dof>@<qn,qn>;<sym>@<dof>@<qn>…   push an Op
            + - * neg simp     s:<re>:<im>  (scalar multiple)   d:<re>:<im> (division)
   reply:   ok <op>|<op>|…   (op = re:im:atoms, same syntax)  or  error <kind> -/
import RenoVerif.Model.OpAlg
import RenoVerif.Driver.Util
open RenoVerif RenoVerif.OpAlg RenoVerif.Util

def parseAtom (s : String) : Option Atom :=
  match s.splitOn "@" with
  | [sym, dof, qn] => match dof.toNat?, parseInts qn with
    | some d, some q => some ⟨sym, d, q⟩
    | _, _ => none
  | _ => none

def parseG (re im : String) : Option GaussRat :=
  match parseRat re, parseRat im with
  | some a, some b => some ⟨a, b⟩
  | _, _ => none

def atomStr (t : Atom) : String := s!"{t.sym}@{t.dof}@{intsStr t.qn}"
def opStr (o : Op GaussRat) : String :=
  s!"{ratStr o.factor.re}:{ratStr o.factor.im}:" ++ ";".intercalate (o.atoms.map atomStr)

def build (toks : List String) : Option (Expr GaussRat) :=
  let rec go : List String → List (Expr GaussRat) → Option (Expr GaussRat)
    | [], [e] => some e
    | [], _ => none
    | t :: ts, st =>
      if t.startsWith "A:" then
        match t.splitOn ":" with
        | [_, re, im, atoms] =>
          match parseG re im, (atoms.splitOn ";").mapM parseAtom with
          | some f, some as => go ts (.atom ⟨as, f⟩ :: st)
          | _, _ => none
        | _ => none
      else if t.startsWith "s:" || t.startsWith "d:" then
        match t.splitOn ":", st with
        | [k, re, im], e :: st' =>
          match parseG re im with
          | some c => go ts ((if k == "s" then Expr.smul e c else Expr.div e c) :: st')
          | none => none
        | _, _ => none
      else match t, st with
        | "+", b :: a :: st' => go ts (.add a b :: st')
        | "-", b :: a :: st' => go ts (.sub a b :: st')
        | "*", b :: a :: st' => go ts (.mul a b :: st')
        | "neg", a :: st' => go ts (.neg a :: st')
        | "simp", a :: st' => go ts (.simp0 a :: st')
        | _, _ => none
  go toks []

def step (line : String) : String :=
  match build (line.splitOn " ") with
  | none => "bad-op"
  | some e => match evalModel e with
    | .ok s => "ok " ++ "|".intercalate (s.map opStr)
    | .error .assertQn => "error assert"
    | .error .type => "error type"
    | .error .value => "error value"

def main : IO Unit := do loop step (← IO.getStdin)
