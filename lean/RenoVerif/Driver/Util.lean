/- shared helpers of the line-protocol drivers. Import-free. -/
import RenoVerif.Model.GaussRat
namespace RenoVerif.Util

def parseInt (s : String) : Option Int :=
  if s.startsWith "-" then (s.drop 1).toNat?.map fun n => -(n : Int) else s.toNat?.map fun n => (n : Int)

/-- "p/q" or "p" -/
def parseRat (s : String) : Option Rat :=
  match s.splitOn "/" with
  | [p] => (parseInt p).map fun p => (p : Rat)
  | [p, q] => match parseInt p, q.toNat? with
    | some p, some q => if q == 0 then none else some ((p : Rat) / (q : Rat))
    | _, _ => none
  | _ => none

def ratStr (q : Rat) : String := s!"{q.num}/{q.den}"

def parseInts (s : String) : Option (List Int) :=
  if s == "" then some [] else (s.splitOn ",").mapM parseInt

def intsStr (l : List Int) : String := ",".intercalate (l.map toString)

partial def loop (step : String → String) (h : IO.FS.Stream) : IO Unit := do
  let line ← h.getLine
  if line.isEmpty then return ()
  IO.println (step (line.trimAscii.toString))
  loop step h

end RenoVerif.Util
