/- line-protocol driver for C12 (tree sweep traversal).
   request:  <kind> <root> <adj>      kind ∈ ps1f ps1b ps2f ps2b
             adj: children lists of node 0,1,… separated by '|', entries by ',', "." = no children
   reply:    events separated by ',':  k1:v  k0:c  two:c  one:v     ("-" = no event) -/
import RenoVerif.Model.TreeSweep
open RenoVerif.TreeSweep

def parseNats (s : String) : Option (List Nat) :=
  if s == "." then some [] else (s.splitOn ",").mapM (·.toNat?)

def parseAdj (s : String) : Option (List (List Nat)) := (s.splitOn "|").mapM parseNats

def evStr : Ev → String
  | .k1 v => "k1:" ++ toString v
  | .k0 v => "k0:" ++ toString v
  | .two v => "two:" ++ toString v
  | .one v => "one:" ++ toString v

def evsStr (l : List Ev) : String := if l.isEmpty then "-" else ",".intercalate (l.map evStr)

def step (line : String) : String :=
  match line.trimAscii.toString.splitOn " " with
  | [kind, root, adj] => match root.toNat?, parseAdj adj with
    | some r, some a =>
      let t := build a a.length r
      match kind with
      | "ps1f" => evsStr (ps1F true t)
      | "ps1b" => evsStr (ps1B t)
      | "ps2f" => evsStr (fwd true t)
      | "ps2b" => evsStr (bwd true t)
      | _ => "bad-op"
    | _, _ => "bad-op"
  | _ => "bad-op"

partial def loop (h : IO.FS.Stream) : IO Unit := do
  let line ← h.getLine
  if line.isEmpty then return ()
  IO.println (step line)
  loop h

def main : IO Unit := do loop (← IO.getStdin)
