/- line-protocol driver for C05.
   mtrunc <threshold|fixed|both> <thr p/q> <maxdims n,n,..|-> <sigma p/q,p/q,..> <idx> <L|R>  ->  m | none
   temp <s m | l n,n,..> <nsigma> <idx> <L|R>  ->  m | none
   weights <sigma> <m>  ->  kept discarded total -/
import RenoVerif.Model.Trunc
import RenoVerif.Driver.Util
open RenoVerif.Trunc RenoVerif.Util

def parseRats (s : String) : Option (List Rat) := if s == "-" then some [] else (s.splitOn ",").mapM parseRat
def parseNats (s : String) : Option (List Nat) := if s == "-" then some [] else (s.splitOn ",").mapM (·.toNat?)
def optStr : Option Nat → String | some m => toString m | none => "none"

def step (line : String) : String :=
  match line.splitOn " " with
  | ["mtrunc", c, thr, md, sg, idx, lr] =>
    let crit := if c == "threshold" then some Criteria.threshold else if c == "fixed" then some .fixed
                else if c == "both" then some .both else none
    match crit, parseRat thr, parseNats md, parseRats sg, idx.toNat? with
    | some crit, some thr, some md, some sg, some idx => optStr (computeM crit thr md sg idx (lr == "L"))
    | _, _, _, _, _ => "bad-op"
  | ["temp", k, v, n, idx, lr] =>
    match n.toNat?, idx.toNat? with
    | some n, some idx =>
      if k == "s" then match v.toNat? with
        | some m => optStr (tempM (.inl m) n idx (lr == "L"))
        | none => "bad-op"
      else match parseNats v with
        | some l => optStr (tempM (.inr l) n idx (lr == "L"))
        | none => "bad-op"
    | _, _ => "bad-op"
  | ["weights", sg, m] => match parseRats sg, m.toNat? with
    | some sg, some m => s!"{ratStr (normSq (sg.take m))} {ratStr (discarded sg m)} {ratStr (normSq sg)}"
    | _, _ => "bad-op"
  | _ => "bad-op"

def main : IO Unit := do loop step (← IO.getStdin)
