/- line-protocol driver for C14.  file state: a | p<step> | c<step>; directory F/B/T -/
import RenoVerif.Model.DumpProto
open RenoVerif.Dump

def parseF (s : String) : Option FileSt :=
  if s == "a" then some .absent
  else if s.startsWith "p" then (s.drop 1).toNat?.map .part
  else if s.startsWith "c" then (s.drop 1).toNat?.map .complete
  else none

def fStr : FileSt → String
  | .absent => "a" | .part k => s!"p{k}" | .complete k => s!"c{k}"
def dStr (d : Dir) : String := fStr d.f ++ "/" ++ fStr d.b ++ "/" ++ fStr d.t

def step (line : String) : String :=
  match line.trimAscii.toString.splitOn " " with
  | ["run", n, k0, f, b, t] => match n.toNat?, k0.toNat?, parseF f, parseF b, parseF t with
    | some n, some k0, some f, some b, some t =>
      " ".intercalate ((runTrace n k0 ⟨f, b, t⟩).map fun p => s!"{p.1}:{dStr p.2}")
    | _, _, _, _, _ => "bad-op"
  | ["ops", k, f, b, t] => match k.toNat?, parseF f, parseF b, parseF t with
    | some k, some f, some b, some t => " ".intercalate ((dumpOps k ⟨f, b, t⟩).map fun
        | .removeB => "removeB" | .replaceTF => "replaceTF" | .savezCreate _ => "savezCreate" | .savezFinish _ => "savezFinish")
    | _, _, _, _ => "bad-op"
  | _ => "bad-op"

partial def loop (h : IO.FS.Stream) : IO Unit := do
  let line ← h.getLine
  if line.isEmpty then return ()
  IO.println (step line)
  loop h

def main : IO Unit := do loop (← IO.getStdin)
