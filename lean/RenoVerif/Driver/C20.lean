/- line-protocol driver for C20.
   graph:  adjacency lists separated by '|', entries by ',', "." = empty adjacency list,
           "-" = graph with no U vertex
   bools:  string of 0/1, "-" = empty;   matchV: comma list, 'n' = None, "-" = empty -/
import RenoVerif.Model.Cover
open RenoVerif.Cover

def parseNats (s : String) : Option (List Nat) :=
  if s == "." then some [] else (s.splitOn ",").mapM (·.toNat?)

def parseGraph (s : String) : Option Graph :=
  if s == "-" then some [] else (s.splitOn "|").mapM parseNats

def parseBools (s : String) : Option (List Bool) :=
  if s == "-" then some [] else s.toList.mapM fun c => if c == '1' then some true else if c == '0' then some false else none

def parseMatch (s : String) : Option (List (Option Nat)) :=
  if s == "-" then some [] else (s.splitOn ",").mapM fun t => if t == "n" then some none else t.toNat?.map some

def boolsStr (l : List Bool) : String := if l.isEmpty then "-" else String.ofList (l.map fun b => if b then '1' else '0')
def matchStr (l : List (Option Nat)) : String :=
  if l.isEmpty then "-" else ",".intercalate (l.map fun | none => "n" | some u => toString u)
def errStr : Err → String
  | .assertMax => "assert" | .assertWait => "assert" | .fuel => "fuel" | .index => "index"
def resStr : Except Err (List Bool × List Bool) → String
  | .ok (a, b) => boolsStr a ++ " " ++ boolsStr b
  | .error e => "error " ++ errStr e

def step (line : String) : String :=
  match line.trimAscii.toString.splitOn " " with
  | ["hung", g] => match parseGraph g with
    | some g => matchStr (maxMatching2 g) ++ " " ++ resStr (coverHungarian g)
    | none => "bad-op"
  | ["konig", g, nU, nV, m] => match parseGraph g, nU.toNat?, nV.toNat?, parseMatch m with
    | some g, some nU, some nV, some m => resStr (konig g nU nV m)
    | _, _, _, _ => "bad-op"
  | ["cert", g, cU, cV, m] => match parseGraph g, parseBools cU, parseBools cV, parseMatch m with
    | some g, some cU, some cV, some m => toString (checkCert g cU cV m)
    | _, _, _, _ => "bad-op"
  | _ => "bad-op"

partial def loop (h : IO.FS.Stream) : IO Unit := do
  let line ← h.getLine
  if line.isEmpty then return ()
  IO.println (step line)
  loop h

def main : IO Unit := do loop (← IO.getStdin)
