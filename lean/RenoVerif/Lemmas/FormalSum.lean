/- S1 lemmas: the executable equivalence test of formal sums is sound for every interpretation
   of the keys in every module. -/
import RenoVerif.Model.FormalSum
import Mathlib.Algebra.Module.Basic
import Mathlib.Algebra.BigOperators.Group.Finset.Basic
import Mathlib.Algebra.BigOperators.Group.List.Basic
import Mathlib.Algebra.Module.BigOperators
import Mathlib.Data.Finset.Basic
import Mathlib.Tactic.Abel

namespace RenoVerif.FS

variable {K R M : Type} [DecidableEq K] [Ring R] [AddCommGroup M] [Module R M]

/-- value of a formal sum under an interpretation `φ` of the keys -/
def evalFS (φ : K → M) (s : FSum K R) : M := (s.map fun p => p.2 • φ p.1).sum

@[simp] theorem evalFS_nil (φ : K → M) : evalFS φ ([] : FSum K R) = 0 := rfl
@[simp] theorem evalFS_cons (φ : K → M) (p : K × R) (s : FSum K R) :
    evalFS φ (p :: s) = p.2 • φ p.1 + evalFS φ s := by simp [evalFS]
theorem evalFS_append (φ : K → M) (s t : FSum K R) :
    evalFS φ (s ++ t) = evalFS φ s + evalFS φ t := by simp [evalFS, List.sum_append]

@[simp] theorem coeff_nil (k : K) : coeff ([] : FSum K R) k = 0 := rfl
theorem coeff_cons (p : K × R) (s : FSum K R) (k : K) :
    coeff (p :: s) k = (if p.1 = k then p.2 else 0) + coeff s k := by
  simp only [coeff, List.foldr_cons]; split <;> simp

/-- a formal sum is the sum over any finite key set containing its keys of `coeff • φ` -/
theorem evalFS_eq_sum (φ : K → M) (s : FSum K R) (S : Finset K) (hS : ∀ k ∈ keys s, k ∈ S) :
    evalFS φ s = ∑ k ∈ S, coeff s k • φ k := by
  induction s with
  | nil => simp
  | cons p s ih =>
    have hp : p.1 ∈ S := hS p.1 (by simp [keys])
    have hs : ∀ k ∈ keys s, k ∈ S := fun k hk => hS k (by simp [keys] at hk ⊢; right; exact hk)
    rw [evalFS_cons, ih hs]
    simp only [coeff_cons, add_smul, Finset.sum_add_distrib]
    congr 1
    rw [Finset.sum_eq_single p.1]
    · simp
    · intro b _ hb; simp [Ne.symm hb]
    · intro h; exact absurd hp h

/-- **soundness of `eqv`** -/
theorem eqv_sound [DecidableEq R] (s t : FSum K R) (h : eqv s t = true) (φ : K → M) :
    evalFS φ s = evalFS φ t := by
  let S : Finset K := (keys s ++ keys t).toFinset
  have h1 : ∀ k ∈ keys s, k ∈ S := fun k hk => by simp [S, hk]
  have h2 : ∀ k ∈ keys t, k ∈ S := fun k hk => by simp [S, hk]
  rw [evalFS_eq_sum φ s S h1, evalFS_eq_sum φ t S h2]
  apply Finset.sum_congr rfl
  intro k hk
  have hk' : k ∈ keys s ++ keys t := by simpa [S] using hk
  unfold eqv at h
  rw [List.all_eq_true] at h
  have := h k hk'
  rw [beq_iff_eq] at this
  rw [this]

theorem evalFS_map_smul (φ : K → M) (c : R) (s : FSum K R) :
    evalFS φ (s.map fun p => (p.1, c * p.2)) = c • evalFS φ s := by
  induction s with
  | nil => simp
  | cons p s ih => simp only [List.map_cons, evalFS_cons, ih, smul_add, mul_smul]

end RenoVerif.FS
