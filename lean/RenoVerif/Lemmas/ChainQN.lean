/- S5 — quantum-number discipline on chains: the block-sparsity invariant, the sector theorem,
   and preservation by the structural operations.  Labels live in any additive commutative group
   `Q` (ℤ, ℤ², … — one or several conserved quantum numbers), in the all-left reading. -/
import RenoVerif.Lemmas.ChainDot

namespace RenoVerif.Chain
open Matrix

variable {R : Type} [CommRing R] {Q : Type} [AddCommGroup Q]

/-- every non-zero entry `A[l,σ,r]` connects labels with `qL l + σqn σ = qR r` -/
def SiteInv {d l m : ℕ} (A : Site R d l m) (qL : Fin l → Q) (sq : Fin d → Q) (qR : Fin m → Q) : Prop :=
  ∀ s i j, A s i j ≠ 0 → qL i + sq s = qR j

/-- physical quantum numbers of every site -/
def SigmaQ (Q : Type) : List ℕ → Type
  | [] => Unit
  | d :: ds => (Fin d → Q) × SigmaQ Q ds

/-- total quantum number of a configuration -/
def totalQ : {ds : List ℕ} → SigmaQ Q ds → Cfg ds → Q
  | [], _, _ => 0
  | _ :: _, (sq, sqs), (s, c) => sq s + totalQ sqs c

/-- the stored labels describe the non-zero blocks of every tensor -/
inductive ChainInv : {ds : List ℕ} → {l r : ℕ} → Chain R ds l r → (Fin l → Q) → SigmaQ Q ds → (Fin r → Q) → Prop
  | nil {l : ℕ} (q : Fin l → Q) : ChainInv (.nil l) q () q
  | cons {d l m r : ℕ} {ds : List ℕ} {A : Site R d l m} {rest : Chain R ds m r}
      {qL : Fin l → Q} {qM : Fin m → Q} {qR : Fin r → Q} {sq : Fin d → Q} {sqs : SigmaQ Q ds} :
      SiteInv A qL sq qM → ChainInv rest qM sqs qR → ChainInv (.cons A rest) qL (sq, sqs) qR

/-- **sector theorem**: a non-zero amplitude forces the configuration's total quantum number to
    equal the difference of the boundary labels (for a closed chain: `0 + Σσqn = qntot`). -/
theorem sector_of_inv : ∀ {ds : List ℕ} {l r : ℕ} {c : Chain R ds l r} {qL : Fin l → Q} {sqs : SigmaQ Q ds}
    {qR : Fin r → Q}, ChainInv c qL sqs qR → ∀ (cfg : Cfg ds) (i : Fin l) (j : Fin r),
    amp c cfg i j ≠ 0 → qL i + totalQ sqs cfg = qR j := by
  intro ds l r c qL sqs qR h
  induction h with
  | nil q =>
    intro cfg i j hne
    simp only [amp, Matrix.one_apply] at hne
    have : i = j := by by_contra hij; simp [hij] at hne
    subst this; simp [totalQ]
  | @cons d l m r ds A rest qL qM qR sq sqs hA _ ih =>
    intro cfg i j hne
    obtain ⟨s, cfg⟩ := cfg
    simp only [amp, Matrix.mul_apply] at hne
    obtain ⟨k, _, hk⟩ := Finset.exists_ne_zero_of_sum_ne_zero hne
    have h1 : A s i k ≠ 0 := left_ne_zero_of_mul hk
    have h2 : amp rest cfg k j ≠ 0 := right_ne_zero_of_mul hk
    have e1 := hA s i k h1
    have e2 := ih cfg k j h2
    simp only [totalQ]
    rw [← e2, ← e1]; abel

/-- closed chains: the amplitude vanishes outside the sector `qntot` -/
theorem zero_outside_sector {ds : List ℕ} (c : Chain R ds 1 1) (sqs : SigmaQ Q ds) (qntot : Q)
    (h : ChainInv c (fun _ => 0) sqs (fun _ => qntot)) (cfg : Cfg ds) (hq : totalQ sqs cfg ≠ qntot) :
    amp c cfg 0 0 = 0 := by
  by_contra hne
  have := sector_of_inv h cfg 0 0 hne
  simp at this
  exact hq this

/-! ### preservation -/

theorem siteInv_smul {d l m : ℕ} (A : Site R d l m) (x : R) (qL : Fin l → Q) (sq : Fin d → Q) (qR : Fin m → Q)
    (h : SiteInv A qL sq qR) : SiteInv (fun s => x • A s) qL sq qR := by
  intro s i j hne
  apply h s i j
  intro h0
  apply hne
  simp [Matrix.smul_apply, h0]

theorem siteInv_map {d l m : ℕ} (A : Site R d l m) (f : R →+* R) (qL : Fin l → Q) (sq : Fin d → Q) (qR : Fin m → Q)
    (h : SiteInv A qL sq qR) : SiteInv (fun s => (A s).map f) qL sq qR := by
  intro s i j hne
  apply h s i j
  intro h0
  apply hne
  simp [Matrix.map_apply, h0]

/-- labels of a block-diagonal sum: concatenation -/
def catQ {l l' : ℕ} (q : Fin l → Q) (q' : Fin l' → Q) : Fin (l + l') → Q :=
  fun i => Sum.elim q q' (finSumFinEquiv.symm i)

theorem siteInv_blk {d l m l' m' : ℕ} (A : Site R d l m) (B : Site R d l' m')
    (qL : Fin l → Q) (qL' : Fin l' → Q) (sq : Fin d → Q) (qR : Fin m → Q) (qR' : Fin m' → Q)
    (hA : SiteInv A qL sq qR) (hB : SiteInv B qL' sq qR') :
    SiteInv (fun s => blk (A s) (B s)) (catQ qL qL') sq (catQ qR qR') := by
  intro s i j hne
  simp only [blk, submatrix_apply, catQ] at hne ⊢
  rcases hi : finSumFinEquiv.symm i with a | a <;> rcases hj : finSumFinEquiv.symm j with b | b <;>
    simp only [hi, hj, fromBlocks_apply₁₁, fromBlocks_apply₁₂, fromBlocks_apply₂₁, fromBlocks_apply₂₂,
      Sum.elim_inl, Sum.elim_inr, Matrix.zero_apply, ne_eq, not_true_eq_false] at hne ⊢
  · exact hA s a b hne
  · exact hB s a b hne

/-- **add** keeps the invariant with concatenated labels (both operands in the same reading) -/
theorem chainInv_addC : ∀ {ds : List ℕ} {l r l' r' : ℕ} {a : Chain R ds l r} {b : Chain R ds l' r'}
    {qL : Fin l → Q} {qR : Fin r → Q} {qL' : Fin l' → Q} {qR' : Fin r' → Q} {sqs : SigmaQ Q ds},
    ChainInv a qL sqs qR → ChainInv b qL' sqs qR' → ChainInv (addC a b) (catQ qL qL') sqs (catQ qR qR') := by
  intro ds l r l' r' a b qL qR qL' qR' sqs ha
  induction ha generalizing l' r' qL' qR' with
  | nil q =>
    intro hb
    cases hb with
    | nil q' => exact ChainInv.nil _
  | cons hA _ ih =>
    intro hb
    cases hb with
    | cons hB hrest =>
      exact ChainInv.cons (siteInv_blk _ _ _ _ _ _ _ hA hB) (ih hrest)

/-- **scale** -/
theorem chainInv_scaleAt : ∀ {ds : List ℕ} {l r : ℕ} {a : Chain R ds l r} {qL : Fin l → Q} {qR : Fin r → Q}
    {sqs : SigmaQ Q ds} (k : ℕ) (x : R), ChainInv a qL sqs qR → ChainInv (scaleAt k x a) qL sqs qR := by
  intro ds l r a qL qR sqs k x h
  induction h generalizing k with
  | nil q => simp only [scaleAt]; exact ChainInv.nil (R := R) q
  | cons hA hrest ih =>
    cases k with
    | zero => exact ChainInv.cons (siteInv_smul _ x _ _ _ hA) hrest
    | succ k => exact ChainInv.cons hA (ih k)

/-- **conj** (labels unchanged: conjugation of a state keeps the block pattern) -/
theorem chainInv_mapC (f : R →+* R) : ∀ {ds : List ℕ} {l r : ℕ} {a : Chain R ds l r} {qL : Fin l → Q}
    {qR : Fin r → Q} {sqs : SigmaQ Q ds}, ChainInv a qL sqs qR → ChainInv (mapC f a) qL sqs qR := by
  intro ds l r a qL qR sqs h
  induction h with
  | nil q => exact ChainInv.nil q
  | cons hA _ ih => exact ChainInv.cons (siteInv_map _ f _ _ _ hA) ih

/-! operators: a non-zero entry `W[a,σ,σ',b]` satisfies `qa a + (σqn σ − σqn σ') = qb b` -/
def OpSiteInv {d l m : ℕ} (W : OpSite R d l m) (qa : Fin l → Q) (sq : Fin d → Q) (qb : Fin m → Q) : Prop :=
  ∀ s t i j, W s t i j ≠ 0 → qa i + (sq s - sq t) = qb j

inductive OpChainInv : {ds : List ℕ} → {l r : ℕ} → OpChain R ds l r → (Fin l → Q) → SigmaQ Q ds → (Fin r → Q) → Prop
  | nil {l : ℕ} (q : Fin l → Q) : OpChainInv (.nil l) q () q
  | cons {d l m r : ℕ} {ds : List ℕ} {W : OpSite R d l m} {rest : OpChain R ds m r}
      {qa : Fin l → Q} {qm : Fin m → Q} {qb : Fin r → Q} {sq : Fin d → Q} {sqs : SigmaQ Q ds} :
      OpSiteInv W qa sq qm → OpChainInv rest qm sqs qb → OpChainInv (.cons W rest) qa (sq, sqs) qb

/-- labels of the Kronecker bond of `W·ψ`: sums -/
def krQ {a l : ℕ} (qa : Fin a → Q) (q : Fin l → Q) : Fin (a * l) → Q :=
  fun i => qa (finProdFinEquiv.symm i).1 + q (finProdFinEquiv.symm i).2

theorem siteInv_apply {d a b l m : ℕ} (W : OpSite R d a b) (A : Site R d l m)
    (qa : Fin a → Q) (qb : Fin b → Q) (qL : Fin l → Q) (qR : Fin m → Q) (sq : Fin d → Q)
    (hW : OpSiteInv W qa sq qb) (hA : SiteInv A qL sq qR) :
    SiteInv (fun s => ∑ t, kr (W s t) (A t)) (krQ qa qL) sq (krQ qb qR) := by
  intro s i j hne
  simp only [Matrix.sum_apply] at hne
  obtain ⟨t, _, ht⟩ := Finset.exists_ne_zero_of_sum_ne_zero hne
  simp only [kr, submatrix_apply, kroneckerMap_apply] at ht
  have h1 := hW s t _ _ (left_ne_zero_of_mul ht)
  have h2 := hA t _ _ (right_ne_zero_of_mul ht)
  simp only [krQ]
  rw [← h1, ← h2]; abel

/-- **apply**: an operator whose labels run from `qa` to `qb` maps a state with labels
    `qL → qR` to one with labels `qa+qL → qb+qR`: the sector is shifted by the operator's charge -/
theorem chainInv_applyC : ∀ {ds : List ℕ} {a b l r : ℕ} {w : OpChain R ds a b} {x : Chain R ds l r}
    {qa : Fin a → Q} {qb : Fin b → Q} {qL : Fin l → Q} {qR : Fin r → Q} {sqs : SigmaQ Q ds},
    OpChainInv w qa sqs qb → ChainInv x qL sqs qR → ChainInv (applyC w x) (krQ qa qL) sqs (krQ qb qR) := by
  intro ds a b l r w x qa qb qL qR sqs hw
  induction hw generalizing l r qL qR with
  | nil q =>
    intro hx
    cases hx with
    | nil q' => exact ChainInv.nil _
  | cons hW _ ih =>
    intro hx
    cases hx with
    | cons hA hrest => exact ChainInv.cons (siteInv_apply _ _ _ _ _ _ _ hW hA) (ih hrest)

/-- a re-factorisation whose new tensors respect labels `qnew` on the new bond keeps the
    invariant (the kernel contract of the symmetry-blocked QR/SVD, C18) -/
theorem chainInv_replace2 {d e l m' k r : ℕ} {ds : List ℕ} (A' : Site R d l m') (B' : Site R e m' k)
    (rest : Chain R ds k r) (qL : Fin l → Q) (qnew : Fin m' → Q) (qK : Fin k → Q) (qR : Fin r → Q)
    (sq : Fin d → Q) (sq' : Fin e → Q) (sqs : SigmaQ Q ds)
    (hA : SiteInv A' qL sq qnew) (hB : SiteInv B' qnew sq' qK) (hrest : ChainInv rest qK sqs qR) :
    ChainInv (.cons A' (.cons B' rest)) qL (sq, (sq', sqs)) qR :=
  ChainInv.cons hA (ChainInv.cons hB hrest)

/-- masking: zeroing every entry that violates the label equation makes the site invariant -/
theorem siteInv_mask [DecidableEq Q] {d l m : ℕ} (A : Site R d l m) (qL : Fin l → Q) (sq : Fin d → Q) (qR : Fin m → Q) :
    SiteInv (fun s => Matrix.of fun i j => if qL i + sq s = qR j then A s i j else 0) qL sq qR := by
  intro s i j hne
  simp only [Matrix.of_apply] at hne
  by_contra h
  simp [h] at hne

end RenoVerif.Chain
