/- `GaussRat` is a field: the generic theorems (stated over any `CommRing`/`Field`) apply to the
   scalar type the drivers actually compute with. -/
import RenoVerif.Model.GaussRat
import Mathlib.Algebra.Field.Basic
import Mathlib.Algebra.Order.Field.Basic
import Mathlib.Algebra.Order.Ring.Rat
import Mathlib.Tactic.Ring
import Mathlib.Tactic.FieldSimp
import Mathlib.Tactic.Positivity
import Mathlib.Tactic.Linarith

namespace RenoVerif.GaussRat

theorem normSq_pos {a : GaussRat} (h : a ≠ 0) : 0 < a.normSq := by
  unfold normSq
  have : a.re ≠ 0 ∨ a.im ≠ 0 := by
    by_contra hc
    rw [not_or, not_not, not_not] at hc
    exact h (GaussRat.ext hc.1 hc.2)
  rcases this with h1 | h1
  · have := mul_self_pos.mpr h1; nlinarith [mul_self_nonneg a.im]
  · have := mul_self_pos.mpr h1; nlinarith [mul_self_nonneg a.re]

instance : CommRing GaussRat where
  add_assoc a b c := by ext <;> simp [add_assoc]
  zero_add a := by ext <;> simp
  add_zero a := by ext <;> simp
  add_comm a b := by ext <;> simp [add_comm]
  neg_add_cancel a := by ext <;> simp
  sub_eq_add_neg a b := by ext <;> simp [sub_eq_add_neg]
  mul_assoc a b c := by ext <;> simp <;> ring
  one_mul a := by ext <;> simp
  mul_one a := by ext <;> simp
  left_distrib a b c := by ext <;> simp <;> ring
  right_distrib a b c := by ext <;> simp <;> ring
  mul_comm a b := by ext <;> simp <;> ring
  zero_mul a := by ext <;> simp
  mul_zero a := by ext <;> simp
  nsmul := nsmulRec
  zsmul := zsmulRec

instance : Field GaussRat where
  exists_pair_ne := ⟨0, 1, by intro h; have := congrArg GaussRat.re h; simp at this⟩
  mul_inv_cancel a h := by
    have hp := (normSq_pos h).ne'
    ext
    · simp only [mul_re, inv_re, inv_im, one_re]
      rw [← mul_div_assoc, ← mul_div_assoc, ← sub_div, div_eq_one_iff_eq hp]; unfold normSq; ring
    · simp only [mul_im, inv_re, inv_im, one_im]
      rw [← mul_div_assoc, ← mul_div_assoc, ← add_div, div_eq_zero_iff]; left; ring
  inv_zero := by ext <;> simp [normSq]
  nnqsmul := _
  qsmul := _

/-- complex conjugation as a ring homomorphism -/
def conjHom : GaussRat →+* GaussRat where
  toFun := GaussRat.conj
  map_one' := by ext <;> simp [GaussRat.conj]
  map_mul' a b := by
    ext
    · simp [GaussRat.conj]
    · simp [GaussRat.conj]; ring
  map_zero' := by ext <;> simp [GaussRat.conj]
  map_add' a b := by
    ext
    · simp [GaussRat.conj]
    · simp [GaussRat.conj]; ring

end RenoVerif.GaussRat
