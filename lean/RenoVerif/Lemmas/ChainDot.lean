/- S3 lemmas, second part: bilinear `dot` through transfer matrices, isometric (canonical)
   chains, and application of an operator chain to a state chain. -/
import RenoVerif.Lemmas.Chain
import Mathlib.Algebra.BigOperators.Group.Finset.Basic
import Mathlib.Algebra.BigOperators.Ring.Finset
import Mathlib.Data.Fintype.Prod
import Mathlib.Data.Fintype.BigOperators
import Mathlib.LinearAlgebra.Matrix.ConjTranspose

namespace RenoVerif.Chain
open Matrix Kronecker

variable {R : Type} [CommRing R]

instance instFintypeCfg : (ds : List ℕ) → Fintype (Cfg ds)
  | [] => (inferInstance : Fintype Unit)
  | d :: ds => by
    haveI := instFintypeCfg ds
    exact (inferInstance : Fintype (Fin d × Cfg ds))

/-- `MatrixProduct.dot` (bilinear, no conjugation): `E ← Σ_p A_pᵀ · E · B_p`, site after site -/
def dotFrom : {ds : List ℕ} → {l r l' r' : ℕ} → Matrix (Fin l) (Fin l') R →
    Chain R ds l r → Chain R ds l' r' → Matrix (Fin r) (Fin r') R
  | _, _, _, _, _, E, .nil _, .nil _ => E
  | _, _, _, _, _, E, .cons A ra, .cons B rb => dotFrom (∑ p, (A p)ᵀ * E * B p) ra rb

theorem sum_cfg_cons {d : ℕ} {ds : List ℕ} {M : Type} [AddCommMonoid M] (f : Cfg (d :: ds) → M) :
    ∑ c : Cfg (d :: ds), f c = ∑ s : Fin d, ∑ c : Cfg ds, f (s, c) := by
  exact Fintype.sum_prod_type (f := f)

/-- **dot = Σ over configurations of the product of amplitudes** -/
theorem dotFrom_eq : ∀ {ds : List ℕ} {l r l' r' : ℕ} (E : Matrix (Fin l) (Fin l') R)
    (a : Chain R ds l r) (b : Chain R ds l' r'),
    dotFrom E a b = ∑ c : Cfg ds, (amp a c)ᵀ * E * amp b c
  | _, _, _, _, _, E, .nil _, .nil _ => by
    show E = ∑ c : Unit, _
    simp [amp]
  | _, _, _, _, _, E, .cons A ra, .cons B rb => by
    simp only [dotFrom]
    rw [dotFrom_eq _ ra rb, sum_cfg_cons, Finset.sum_comm]
    apply Finset.sum_congr rfl
    intro c _
    simp only [amp, Matrix.mul_sum, Matrix.sum_mul, transpose_mul, Matrix.mul_assoc]

/-- closed chains: `dot` is the plain sum of products of dense amplitudes -/
theorem dot_closed {ds : List ℕ} (a b : Chain R ds 1 1) :
    dotFrom (1 : Matrix (Fin 1) (Fin 1) R) a b 0 0 = ∑ c : Cfg ds, amp a c 0 0 * amp b c 0 0 := by
  rw [dotFrom_eq, Matrix.sum_apply]
  apply Finset.sum_congr rfl
  intro c _
  simp [Matrix.mul_apply]

section Iso
variable [StarRing R]

/-- left-isometric site: `Σ_σ A_σᴴ A_σ = 1` (what `check_left_canonical` tests) -/
def IsLeftIso {d l m : ℕ} (A : Site R d l m) : Prop := ∑ s, (A s)ᴴ * A s = 1

def AllLeftIso : {ds : List ℕ} → {l r : ℕ} → Chain R ds l r → Prop
  | _, _, _, .nil _ => True
  | _, _, _, .cons A rest => IsLeftIso A ∧ AllLeftIso rest

/-- a chain of left-isometric sites is an isometry as a whole: its amplitude matrices form an
    orthonormal set of columns (this is why the centre tensor carries the whole norm) -/
theorem gram_of_allLeftIso : ∀ {ds : List ℕ} {l r : ℕ} (a : Chain R ds l r), AllLeftIso a →
    ∑ c : Cfg ds, (amp a c)ᴴ * amp a c = 1
  | _, _, _, .nil _, _ => by
    show ∑ c : Unit, _ = _
    simp [amp]
  | _, _, _, .cons A rest, h => by
    rw [sum_cfg_cons, Finset.sum_comm]
    have h1 : ∀ c : Cfg _, ∑ s, (amp (.cons A rest) (s, c))ᴴ * amp (.cons A rest) (s, c)
        = (amp rest c)ᴴ * amp rest c := by
      intro c
      simp only [amp, conjTranspose_mul, Matrix.mul_assoc]
      rw [← Matrix.mul_sum]
      congr 1
      simp only [← Matrix.mul_assoc]
      rw [← Matrix.sum_mul, h.1, Matrix.one_mul]
    simp only [h1]
    exact gram_of_allLeftIso rest h.2

/-- a QR push with orthonormal `Q` leaves the pushed site left-isometric -/
theorem leftIso_of_orthonormal {d l m : ℕ} (Q : Site R d l m) (h : ∑ s, (Q s)ᴴ * Q s = 1) : IsLeftIso Q := h

end Iso

/-! ### operator chains and their application -/

abbrev OpSite (R : Type) (d l r : ℕ) := Fin d → Fin d → Matrix (Fin l) (Fin r) R

inductive OpChain (R : Type) : List ℕ → ℕ → ℕ → Type
  | nil (l : ℕ) : OpChain R [] l l
  | cons {d l m r : ℕ} {ds : List ℕ} (W : OpSite R d l m) (rest : OpChain R ds m r) : OpChain R (d :: ds) l r

def ampOp : {ds : List ℕ} → {l r : ℕ} → OpChain R ds l r → Cfg ds → Cfg ds → Matrix (Fin l) (Fin r) R
  | _, _, _, .nil _, _, _ => 1
  | _, _, _, .cons W rest, (s, c), (t, c') => W s t * ampOp rest c c'

/-- Kronecker product re-indexed to `Fin (l * l')`, first factor major (NumPy `reshape` of
    `einsum("apqb,cqd->acpbd")`) -/
def kr {l r l' r' : ℕ} (A : Matrix (Fin l) (Fin r) R) (B : Matrix (Fin l') (Fin r') R) :
    Matrix (Fin (l * l')) (Fin (r * r')) R :=
  (A ⊗ₖ B).submatrix finProdFinEquiv.symm finProdFinEquiv.symm

theorem kr_mul {l m r l' m' r' : ℕ} (A : Matrix (Fin l) (Fin m) R) (B : Matrix (Fin m) (Fin r) R)
    (A' : Matrix (Fin l') (Fin m') R) (B' : Matrix (Fin m') (Fin r') R) :
    kr A A' * kr B B' = kr (A * B) (A' * B') := by
  unfold kr
  rw [Matrix.submatrix_mul_equiv, ← Matrix.mul_kronecker_mul]

theorem kr_one (l l' : ℕ) : kr (1 : Matrix (Fin l) (Fin l) R) (1 : Matrix (Fin l') (Fin l') R) = 1 := by
  unfold kr
  rw [one_kronecker_one, submatrix_one_equiv]

theorem kr_sum_left {ι : Type} (s : Finset ι) {l r l' r' : ℕ} (f : ι → Matrix (Fin l) (Fin r) R)
    (B : Matrix (Fin l') (Fin r') R) : kr (∑ i ∈ s, f i) B = ∑ i ∈ s, kr (f i) B := by
  unfold kr
  ext i j
  simp [Matrix.sum_apply, Finset.sum_mul]

/-- `Mpo.apply` on a state: `(W·A)_σ = Σ_τ W_{στ} ⊗ A_τ` on every site -/
def applyC : {ds : List ℕ} → {a b l r : ℕ} → OpChain R ds a b → Chain R ds l r → Chain R ds (a * l) (b * r)
  | _, _, _, _, _, .nil a, .nil l => .nil (a * l)
  | _, _, _, _, _, .cons W wr, .cons A ar => .cons (fun s => ∑ t, kr (W s t) (A t)) (applyC wr ar)

/-- **apply**: the amplitudes of `W·ψ` are the operator amplitudes contracted with the state
    amplitudes over the ket configuration: `todense(W ψ) = todense(W) · todense(ψ)` -/
theorem amp_applyC : ∀ {ds : List ℕ} {a b l r : ℕ} (w : OpChain R ds a b) (x : Chain R ds l r) (σ : Cfg ds),
    amp (applyC w x) σ = ∑ τ : Cfg ds, kr (ampOp w σ τ) (amp x τ)
  | _, _, _, _, _, .nil a, .nil l, _ => by
    show _ = ∑ τ : Unit, _
    simp [applyC, amp, ampOp, kr_one]
  | _, _, _, _, _, .cons W wr, .cons A ar, (s, σ) => by
    simp only [applyC, amp]
    rw [amp_applyC wr ar σ, sum_cfg_cons, Matrix.sum_mul]
    apply Finset.sum_congr rfl
    intro t _
    rw [Matrix.mul_sum]
    apply Finset.sum_congr rfl
    intro τ _
    simp only [ampOp, amp]
    rw [kr_mul]

end RenoVerif.Chain
