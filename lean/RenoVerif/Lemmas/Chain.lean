/- S3 lemmas: amplitudes of sums, scalar multiples, conjugates and re-gauged chains. -/
import RenoVerif.Model.Chain
import Mathlib.Tactic.Abel

namespace RenoVerif.Chain
open Matrix

variable {R : Type} [CommRing R]

theorem blk_mul {l m r l' m' r' : ℕ} (A : Matrix (Fin l) (Fin m) R) (B : Matrix (Fin m) (Fin r) R)
    (A' : Matrix (Fin l') (Fin m') R) (B' : Matrix (Fin m') (Fin r') R) :
    blk A A' * blk B B' = blk (A * B) (A' * B') := by
  unfold blk
  rw [Matrix.submatrix_mul_equiv, fromBlocks_multiply]
  simp

theorem blk_one (l l' : ℕ) : blk (1 : Matrix (Fin l) (Fin l) R) (1 : Matrix (Fin l') (Fin l') R) = 1 := by
  unfold blk
  rw [fromBlocks_one, submatrix_one_equiv]

/-- amplitudes of the block-diagonal sum are the block-diagonal stack of the amplitudes -/
theorem amp_addC : ∀ {ds : List ℕ} {l r l' r' : ℕ} (a : Chain R ds l r) (b : Chain R ds l' r') (c : Cfg ds),
    amp (addC a b) c = blk (amp a c) (amp b c)
  | _, _, _, _, _, .nil l, .nil l', _ => by simp [addC, amp, blk_one]
  | _, _, _, _, _, .cons A ra, .cons B rb, (s, c) => by
    simp only [addC, amp]
    rw [amp_addC ra rb c, blk_mul]

theorem amp_lmul {d : ℕ} {ds : List ℕ} {l l' r : ℕ} (U : Matrix (Fin l') (Fin l) R)
    (a : Chain R (d :: ds) l r) (c : Cfg (d :: ds)) : amp (lmul U a) c = U * amp a c := by
  cases a with
  | cons A rest => obtain ⟨s, c⟩ := c; simp [lmul, amp, Matrix.mul_assoc]

theorem amp_rmul : ∀ {d : ℕ} {ds : List ℕ} {l r r' : ℕ} (a : Chain R (d :: ds) l r)
    (V : Matrix (Fin r) (Fin r') R) (c : Cfg (d :: ds)), amp (rmul a V) c = amp a c * V
  | _, [], _, _, _, .cons A (.nil _), V, (s, c) => by simp [rmul, amp]
  | _, _ :: _, _, _, _, .cons A rest, V, (s, c) => by
    simp only [rmul, amp]
    rw [amp_rmul rest V c, Matrix.mul_assoc]

theorem onesRow_blk_onesCol (x y : Matrix (Fin 1) (Fin 1) R) :
    onesRow 2 * blk x y * onesCol 2 = x + y := by
  ext i j
  have hi : i = 0 := Subsingleton.elim _ _
  have hj : j = 0 := Subsingleton.elim _ _
  subst hi; subst hj
  simp [Matrix.mul_apply, onesRow, onesCol, blk, Fin.sum_univ_succ, finSumFinEquiv, Fin.addCases]

/-- **add**: the closed chain built by `MatrixProduct.add` has amplitudes `amp a + amp b` -/
theorem amp_addClosed {d : ℕ} {ds : List ℕ} (a b : Chain R (d :: ds) 1 1) (c : Cfg (d :: ds)) :
    amp (addClosed a b) c = amp a c + amp b c := by
  unfold addClosed
  rw [amp_rmul, amp_lmul, amp_addC, onesRow_blk_onesCol]

/-- length of a chain -/
def len : {ds : List ℕ} → {l r : ℕ} → Chain R ds l r → ℕ
  | _, _, _, .nil _ => 0
  | _, _, _, .cons _ rest => 1 + len rest

/-- **scale**: multiplying the tensor of any one site by `x` multiplies every amplitude by `x` -/
theorem amp_scaleAt : ∀ {ds : List ℕ} {l r : ℕ} (k : ℕ) (x : R) (a : Chain R ds l r) (c : Cfg ds),
    k < ds.length → amp (scaleAt k x a) c = x • amp a c
  | _, _, _, k, x, .nil l, _, h => by simp at h
  | _, _, _, 0, x, .cons A rest, (s, c), _ => by simp [scaleAt, amp]
  | _, _, _, k+1, x, .cons A rest, (s, c), h => by
    simp only [scaleAt, amp]
    rw [amp_scaleAt k x rest c (by simpa using h), Matrix.mul_smul]

/-- **conj**: entrywise conjugation of every site conjugates every amplitude -/
theorem amp_mapC (f : R →+* R) : ∀ {ds : List ℕ} {l r : ℕ} (a : Chain R ds l r) (c : Cfg ds),
    amp (mapC f a) c = (amp a c).map f
  | _, _, _, .nil l, _ => by
    simp only [mapC, amp]
    ext i j; simp [Matrix.one_apply]
  | _, _, _, .cons A rest, (s, c) => by
    simp only [mapC, amp]
    rw [amp_mapC f rest c, Matrix.map_mul]

/-- one re-factorisation of a two-site tensor somewhere in the chain: the pair of site tensors
    `(A, B)` is replaced by `(A', B')` with the same two-site product (the bond between them may
    change its dimension).  QR / RQ pushes of `canonicalise`, the `U·(S Vᵀ)` / `(U S)·Vᵀ` updates of
    a lossless `compress`, the norm-balancing rescale for operators are all instances. -/
inductive Step : {ds : List ℕ} → {l r : ℕ} → Chain R ds l r → Chain R ds l r → Prop
  | here {d e l m m' k r : ℕ} {ds : List ℕ} (A : Site R d l m) (B : Site R e m k)
      (A' : Site R d l m') (B' : Site R e m' k) (rest : Chain R ds k r)
      (h : ∀ s t, A s * B t = A' s * B' t) :
      Step (.cons A (.cons B rest)) (.cons A' (.cons B' rest))
  | there {d l m r : ℕ} {ds : List ℕ} (A : Site R d l m) {c c' : Chain R ds m r} :
      Step c c' → Step (.cons A c) (.cons A c')

theorem amp_step : ∀ {ds : List ℕ} {l r : ℕ} {a b : Chain R ds l r}, Step a b → ∀ c, amp a c = amp b c := by
  intro ds l r a b h
  induction h with
  | here A B A' B' rest h =>
    intro c
    obtain ⟨s, t, c⟩ := c
    simp only [amp]
    rw [← Matrix.mul_assoc, ← Matrix.mul_assoc, h s t]
  | there A _ ih =>
    intro c
    obtain ⟨s, c⟩ := c
    simp only [amp]; rw [ih c]

/-- any finite sequence of re-factorisations (a full sweep, several sweeps, partial
    canonicalisation to any stop site, …) -/
inductive Steps : {ds : List ℕ} → {l r : ℕ} → Chain R ds l r → Chain R ds l r → Prop
  | refl {ds l r} (a : Chain R ds l r) : Steps a a
  | tail {ds l r} {a b c : Chain R ds l r} : Steps a b → Step b c → Steps a c

/-- **canonicalise / lossless compress preserve the represented object** -/
theorem amp_steps {ds : List ℕ} {l r : ℕ} {a b : Chain R ds l r} (h : Steps a b) : ∀ c, amp a c = amp b c := by
  induction h with
  | refl => intro c; rfl
  | tail _ hs ih => intro c; rw [ih c, amp_step hs c]

/-- the QR push to the right is a `Step`: `A = Q·Rm` sitewise, `B' = Rm·B` -/
theorem step_pushRight {d e l m m' k r : ℕ} {ds : List ℕ} (A : Site R d l m) (B : Site R e m k)
    (Q : Site R d l m') (Rm : Matrix (Fin m') (Fin m) R) (rest : Chain R ds k r)
    (hQR : ∀ s, Q s * Rm = A s) :
    Step (.cons A (.cons B rest)) (.cons Q (.cons (fun t => Rm * B t) rest)) :=
  Step.here A B Q _ rest (fun s t => by rw [← Matrix.mul_assoc, hQR])

/-- the push to the left: `B = Lm·Q` sitewise, `A' = A·Lm` -/
theorem step_pushLeft {d e l m m' k r : ℕ} {ds : List ℕ} (A : Site R d l m) (B : Site R e m k)
    (Q : Site R e m' k) (Lm : Matrix (Fin m) (Fin m') R) (rest : Chain R ds k r)
    (hLQ : ∀ t, Lm * Q t = B t) :
    Step (.cons A (.cons B rest)) (.cons (fun s => A s * Lm) (.cons Q rest)) :=
  Step.here A B _ Q rest (fun s t => by rw [Matrix.mul_assoc, hLQ])

end RenoVerif.Chain
