/-
  C11 / C12 — tree tensor networks as state sums (partial).

  A tensor network on a finite set of nodes `V` and bonds `B` (any graph: a tree, a chain, a tree
  with dummy nodes) with node tensors given as functions of the bond assignment and of the node's
  physical configuration has the amplitude
        amp(cfg) = Σ_{β : bond assignment} Π_{v ∈ V} T_v(β, cfg_v).
  The tree code stores `T_v` as an array with axes [child_1 … child_m, phys_1 … phys_k, parent];
  in this model a tensor is a function of NAMED bonds, so the order in which children are listed
  cannot matter: that the implementation's axis bookkeeping realises this model is what the
  correspondence / dense oracle checks (todense with permuted children).
  Proved: a gauge transformation on ANY bond (multiply one end by G, the other by G⁻¹ — what every
  `push_cano_to_child/parent`, QR and lossless SVD of the tree code does) leaves every amplitude unchanged
  (`amp_bond_gauge`; the tree analogue of C04's `amp_steps`); scaling any one node scales every amplitude; relabelling the nodes (listing them in a
  different order, e.g. another traversal) and relabelling the values of a bond (a permutation
  gauge) leave every amplitude unchanged; a sum network (disjoint bond values, block tensors) has
  the sum of the amplitudes provided no tensor mixes the two halves.
-/
import Mathlib.Algebra.BigOperators.Group.Finset.Basic
import Mathlib.Algebra.BigOperators.Ring.Finset
import Mathlib.Algebra.BigOperators.Pi
import Mathlib.Data.Fintype.Pi
import Mathlib.Data.Fintype.BigOperators
import Mathlib.Logic.Equiv.Fintype
import Mathlib.Logic.Equiv.Prod
import Mathlib.Tactic.Ring

namespace RenoVerif.TN
open Finset

variable {R : Type} [CommRing R]
variable {V B : Type} [Fintype V] [DecidableEq V] [Fintype B] [DecidableEq B]
variable (dim : B → ℕ) (P : V → Type)

abbrev Assign (dim : B → ℕ) := (e : B) → Fin (dim e)

/-- node tensors as functions of the bond assignment and the node's physical configuration -/
abbrev Net (R : Type) (dim : B → ℕ) (P : V → Type) := (v : V) → Assign dim → P v → R

def amp (T : Net R dim P) (cfg : (v : V) → P v) : R := ∑ β : Assign dim, ∏ v, T v β (cfg v)

/-- **scale**: multiplying the tensor of any one node by `c` multiplies every amplitude by `c` -/
theorem amp_scale (T : Net R dim P) (v0 : V) (c : R) (cfg : (v : V) → P v) :
    amp dim P (fun v => if v = v0 then fun β p => c * T v β p else T v) cfg = c * amp dim P T cfg := by
  unfold amp
  rw [Finset.mul_sum]
  apply Finset.sum_congr rfl
  intro β _
  rw [← Finset.mul_prod_erase univ _ (Finset.mem_univ v0), ← Finset.mul_prod_erase univ _ (Finset.mem_univ v0)]
  simp only [if_true, mul_assoc]
  congr 2
  apply Finset.prod_congr rfl
  intro v hv
  rw [if_neg (Finset.ne_of_mem_erase hv)]

/-- **listing order of the nodes is irrelevant** (post-order, pre-order, children in any order) -/
theorem amp_relabel_nodes {V' : Type} [Fintype V'] [DecidableEq V'] (e : V' ≃ V) (T : Net R dim P)
    (cfg : (v : V) → P v) :
    (∑ β : Assign dim, ∏ v' : V', T (e v') β (cfg (e v'))) = amp dim P T cfg := by
  unfold amp
  apply Finset.sum_congr rfl
  intro β _
  exact Equiv.prod_comp e (fun v => T v β (cfg v))

/-- **permutation gauge**: renaming the values of the bonds (a permutation on every bond, applied
    to every tensor alike) does not change any amplitude -/
theorem amp_bond_perm (T : Net R dim P) (π : (e : B) → Equiv.Perm (Fin (dim e))) (cfg : (v : V) → P v) :
    amp dim P (fun v β p => T v (fun e => π e (β e)) p) cfg = amp dim P T cfg := by
  unfold amp
  let E : Assign dim ≃ Assign dim := Equiv.piCongrRight π
  exact Equiv.sum_comp E (fun β => ∏ v, T v β (cfg v))

/-- linearity in one node tensor: the amplitude of a network whose tensor at `v0` is a sum is the
    sum of the amplitudes (what `add` at the root and every local update `A ← A + δA` rely on) -/
theorem amp_add_node (T : Net R dim P) (v0 : V) (T1 T2 : Assign dim → P v0 → R) (cfg : (v : V) → P v) :
    amp dim P (fun v => if h : v = v0 then h ▸ (fun β p => T1 β p + T2 β p) else T v) cfg
      = amp dim P (fun v => if h : v = v0 then h ▸ T1 else T v) cfg
        + amp dim P (fun v => if h : v = v0 then h ▸ T2 else T v) cfg := by
  unfold amp
  rw [← Finset.sum_add_distrib]
  apply Finset.sum_congr rfl
  intro β _
  rw [← Finset.mul_prod_erase univ _ (Finset.mem_univ v0), ← Finset.mul_prod_erase univ _ (Finset.mem_univ v0),
    ← Finset.mul_prod_erase univ _ (Finset.mem_univ v0)]
  simp only [dif_pos, add_mul]
  congr 1 <;>
  · congr 1
    apply Finset.prod_congr rfl
    intro v hv
    rw [dif_neg (Finset.ne_of_mem_erase hv), dif_neg (Finset.ne_of_mem_erase hv)]

/-! ### gauge freedom on a bond -/

/-- abstract core: one distinguished bond of dimension `d`, all other bonds collected in `A`; `G * Ginv = 1` -/
theorem gauge_core {A : Type} [Fintype A] {d : ℕ} (Tu Tw : Fin d → A → R) (rest : Fin d → A → R)
    (hrest : ∀ j j' a, rest j a = rest j' a)
    (G Ginv : Fin d → Fin d → R) (hG : ∀ k l, ∑ j, G k j * Ginv j l = if k = l then 1 else 0) :
    ∑ a : A, ∑ j : Fin d, (∑ k, Tu k a * G k j) * (∑ l, Ginv j l * Tw l a) * rest j a
      = ∑ a : A, ∑ j : Fin d, Tu j a * Tw j a * rest j a := by
  apply Finset.sum_congr rfl
  intro a _
  have : ∀ j : Fin d, (∑ k, Tu k a * G k j) * (∑ l, Ginv j l * Tw l a) * rest j a
      = ∑ k, ∑ l, Tu k a * Tw l a * rest k a * (G k j * Ginv j l) := by
    intro j
    rw [Finset.sum_mul_sum, Finset.sum_mul]
    apply Finset.sum_congr rfl; intro k _
    rw [Finset.sum_mul]
    apply Finset.sum_congr rfl; intro l _
    rw [hrest j k a]; ring
  simp_rw [this]
  rw [Finset.sum_comm]
  apply Finset.sum_congr rfl; intro k _
  rw [Finset.sum_comm]
  simp_rw [← Finset.mul_sum, hG]
  simp

omit [Fintype B] in
theorem update_splitAt_symm (e0 : B) (j k : Fin (dim e0)) (γ : (e : {e // e ≠ e0}) → Fin (dim e)) :
    Function.update ((Equiv.piSplitAt e0 (fun e => Fin (dim e))).symm (j, γ)) e0 k
      = (Equiv.piSplitAt e0 (fun e => Fin (dim e))).symm (k, γ) := by
  funext e
  by_cases h : e = e0
  · subst h; simp [Equiv.piSplitAt]
  · simp [Equiv.piSplitAt, Function.update, h]

omit [Fintype B] in
theorem splitAt_symm_self (e0 : B) (j : Fin (dim e0)) (γ : (e : {e // e ≠ e0}) → Fin (dim e)) :
    ((Equiv.piSplitAt e0 (fun e => Fin (dim e))).symm (j, γ)) e0 = j := by
  simp [Equiv.piSplitAt]


/-- **bond gauge**: on any bond `e0` joining the nodes `u ≠ w` of ANY network (tree, chain, dummy nodes …), multiplying
    `u`'s tensor by `G` and `w`'s tensor by `G⁻¹` along that bond (what `push_cano_to_child/parent`, a QR or a lossless SVD
    on that bond do) leaves every amplitude unchanged, provided no other tensor depends on that bond -/
theorem amp_bond_gauge (T : Net R dim P) (e0 : B) (u w : V) (huw : u ≠ w)
    (G Ginv : Fin (dim e0) → Fin (dim e0) → R)
    (hG : ∀ k l, ∑ j, G k j * Ginv j l = if k = l then 1 else 0)
    (hloc : ∀ v, v ≠ u → v ≠ w → ∀ (β : Assign dim) k p, T v (Function.update β e0 k) p = T v β p)
    (cfg : (v : V) → P v) :
    amp dim P (fun v β p =>
        if v = u then ∑ k, T v (Function.update β e0 k) p * G k (β e0)
        else if v = w then ∑ l, Ginv (β e0) l * T v (Function.update β e0 l) p
        else T v β p) cfg = amp dim P T cfg := by
  unfold amp
  have hw : w ∈ (univ : Finset V).erase u := Finset.mem_erase.mpr ⟨huw.symm, Finset.mem_univ w⟩
  -- split the product over the nodes into u, w and the rest, on both sides
  have split : ∀ (f : V → R), ∏ v, f v = f u * f w * ∏ v ∈ (univ.erase u).erase w, f v := by
    intro f
    rw [← Finset.mul_prod_erase univ f (Finset.mem_univ u), ← Finset.mul_prod_erase _ f hw, mul_assoc]
  simp_rw [split]
  simp only [if_true, if_neg huw.symm]
  have hrestv : ∀ v ∈ (univ.erase u).erase w, v ≠ u ∧ v ≠ w := by
    intro v hv
    exact ⟨Finset.ne_of_mem_erase (Finset.mem_of_mem_erase hv), Finset.ne_of_mem_erase hv⟩
  have hprod : ∀ β : Assign dim,
      (∏ v ∈ (univ.erase u).erase w,
        (if v = u then ∑ k, T v (Function.update β e0 k) (cfg v) * G k (β e0)
          else if v = w then ∑ l, Ginv (β e0) l * T v (Function.update β e0 l) (cfg v) else T v β (cfg v)))
      = ∏ v ∈ (univ.erase u).erase w, T v β (cfg v) := by
    intro β
    apply Finset.prod_congr rfl
    intro v hv
    rw [if_neg (hrestv v hv).1, if_neg (hrestv v hv).2]
  simp_rw [hprod]
  -- reindex the bond assignments as (value on e0, values on the other bonds)
  let S := (Equiv.piSplitAt e0 (fun e => Fin (dim e))).symm
  rw [← Equiv.sum_comp S, ← Equiv.sum_comp S (fun β => T u β (cfg u) * T w β (cfg w) * ∏ v ∈ (univ.erase u).erase w, T v β (cfg v))]
  rw [Fintype.sum_prod_type_right, Fintype.sum_prod_type_right]
  have key := gauge_core (R := R) (A := (e : {e // e ≠ e0}) → Fin (dim e)) (d := dim e0)
    (fun k γ => T u (S (k, γ)) (cfg u)) (fun l γ => T w (S (l, γ)) (cfg w))
    (fun j γ => ∏ v ∈ (univ.erase u).erase w, T v (S (j, γ)) (cfg v))
    (by
      intro j j' γ
      apply Finset.prod_congr rfl
      intro v hv
      have := hloc v (hrestv v hv).1 (hrestv v hv).2 (S (j', γ)) j (cfg v)
      rw [← this]
      congr 1
      exact (update_splitAt_symm dim e0 j' j γ).symm)
    G Ginv hG
  simp only [S, update_splitAt_symm, splitAt_symm_self] at key ⊢
  exact key

end RenoVerif.TN
