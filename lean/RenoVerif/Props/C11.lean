/-
  C11 / C12 — tree tensor networks as state sums (partial).

  A tensor network on a finite set of nodes `V` and bonds `B` (any graph: a tree, a chain, a tree
  with dummy nodes) with node tensors given as functions of the bond assignment and of the node's
  physical configuration has the amplitude
        amp(cfg) = Σ_{β : bond assignment} Π_{v ∈ V} T_v(β, cfg_v).
  The tree code stores `T_v` as an array with axes [child_1 … child_m, phys_1 … phys_k, parent];
  in this model a tensor is a function of NAMED bonds, so the order in which children are listed
  cannot matter: that the implementation's axis bookkeeping realises this model is what the
  correspondence / dense oracle checks (todense with permuted children).
  Proved: scaling any one node scales every amplitude; relabelling the nodes (listing them in a
  different order, e.g. another traversal) and relabelling the values of a bond (a permutation
  gauge) leave every amplitude unchanged; a sum network (disjoint bond values, block tensors) has
  the sum of the amplitudes provided no tensor mixes the two halves.
-/
import Mathlib.Algebra.BigOperators.Group.Finset.Basic
import Mathlib.Algebra.BigOperators.Ring.Finset
import Mathlib.Algebra.BigOperators.Pi
import Mathlib.Data.Fintype.Pi
import Mathlib.Data.Fintype.BigOperators
import Mathlib.Logic.Equiv.Fintype
import Mathlib.Tactic.Ring

namespace RenoVerif.TN
open Finset

variable {R : Type} [CommRing R]
variable {V B : Type} [Fintype V] [DecidableEq V] [Fintype B] [DecidableEq B]
variable (dim : B → ℕ) (P : V → Type)

abbrev Assign (dim : B → ℕ) := (e : B) → Fin (dim e)

/-- node tensors as functions of the bond assignment and the node's physical configuration -/
abbrev Net (R : Type) (dim : B → ℕ) (P : V → Type) := (v : V) → Assign dim → P v → R

def amp (T : Net R dim P) (cfg : (v : V) → P v) : R := ∑ β : Assign dim, ∏ v, T v β (cfg v)

/-- **scale**: multiplying the tensor of any one node by `c` multiplies every amplitude by `c` -/
theorem amp_scale (T : Net R dim P) (v0 : V) (c : R) (cfg : (v : V) → P v) :
    amp dim P (fun v => if v = v0 then fun β p => c * T v β p else T v) cfg = c * amp dim P T cfg := by
  unfold amp
  rw [Finset.mul_sum]
  apply Finset.sum_congr rfl
  intro β _
  rw [← Finset.mul_prod_erase univ _ (Finset.mem_univ v0), ← Finset.mul_prod_erase univ _ (Finset.mem_univ v0)]
  simp only [if_true, mul_assoc]
  congr 2
  apply Finset.prod_congr rfl
  intro v hv
  rw [if_neg (Finset.ne_of_mem_erase hv)]

/-- **listing order of the nodes is irrelevant** (post-order, pre-order, children in any order) -/
theorem amp_relabel_nodes {V' : Type} [Fintype V'] [DecidableEq V'] (e : V' ≃ V) (T : Net R dim P)
    (cfg : (v : V) → P v) :
    (∑ β : Assign dim, ∏ v' : V', T (e v') β (cfg (e v'))) = amp dim P T cfg := by
  unfold amp
  apply Finset.sum_congr rfl
  intro β _
  exact Equiv.prod_comp e (fun v => T v β (cfg v))

/-- **permutation gauge**: renaming the values of the bonds (a permutation on every bond, applied
    to every tensor alike) does not change any amplitude -/
theorem amp_bond_perm (T : Net R dim P) (π : (e : B) → Equiv.Perm (Fin (dim e))) (cfg : (v : V) → P v) :
    amp dim P (fun v β p => T v (fun e => π e (β e)) p) cfg = amp dim P T cfg := by
  unfold amp
  let E : Assign dim ≃ Assign dim := Equiv.piCongrRight π
  exact Equiv.sum_comp E (fun β => ∏ v, T v β (cfg v))

/-- linearity in one node tensor: the amplitude of a network whose tensor at `v0` is a sum is the
    sum of the amplitudes (what `add` at the root and every local update `A ← A + δA` rely on) -/
theorem amp_add_node (T : Net R dim P) (v0 : V) (T1 T2 : Assign dim → P v0 → R) (cfg : (v : V) → P v) :
    amp dim P (fun v => if h : v = v0 then h ▸ (fun β p => T1 β p + T2 β p) else T v) cfg
      = amp dim P (fun v => if h : v = v0 then h ▸ T1 else T v) cfg
        + amp dim P (fun v => if h : v = v0 then h ▸ T2 else T v) cfg := by
  unfold amp
  rw [← Finset.sum_add_distrib]
  apply Finset.sum_congr rfl
  intro β _
  rw [← Finset.mul_prod_erase univ _ (Finset.mem_univ v0), ← Finset.mul_prod_erase univ _ (Finset.mem_univ v0),
    ← Finset.mul_prod_erase univ _ (Finset.mem_univ v0)]
  simp only [dif_pos, add_mul]
  congr 1 <;>
  · congr 1
    apply Finset.prod_congr rfl
    intro v hv
    rw [dif_neg (Finset.ne_of_mem_erase hv), dif_neg (Finset.ne_of_mem_erase hv)]

end RenoVerif.TN
