/-
  C06 (trees) — conserved quantum numbers on a tree tensor network.  The block-sparsity invariant that the tree code
  maintains (`TTNS.get_qnmask`: labels of the children bonds + labels of the physical configuration = label of the node's
  own bond; the root's bond carries `qntot`) implies, for EVERY rooted tree, bond dimensions and labels in any additive
  group (one or several components), that every configuration with a non-zero amplitude lies in the sector `qntot`.
  The hypothesis is what `search_c06` (`tree_label_problems`) checks on the real node tensors after every operation and
  inside the sweeps; the conclusion is checked against the dense vector.
-/
import Mathlib.Algebra.BigOperators.Group.Finset.Basic
import Mathlib.Algebra.BigOperators.Ring.Finset
import Mathlib.Algebra.BigOperators.Pi
import Mathlib.Data.Fintype.Pi
import Mathlib.Data.Fintype.BigOperators
import Mathlib.Tactic.Ring
import Mathlib.Tactic.Abel
import Mathlib.Tactic.FinCases

open Finset
namespace RenoVerif.TreeQN

variable {R : Type} [CommRing R]
variable {V : Type} [Fintype V] [DecidableEq V]
variable {Q : Type} [AddCommGroup Q]

/-- A rooted tree network: every node `v` owns the bond to its parent (bond `v`, dimension `dim v`; the root's bond is
    the dummy bond of the total quantum number).  `parent v` is the upper end of bond `v` (irrelevant for the root).
    Node tensors are functions of the whole bond assignment and of the node's physical configuration. -/
structure TreeNet (R : Type) (V : Type) (Q : Type) where
  root : V
  parent : V → V
  dim : V → ℕ
  P : V → Type
  T : (v : V) → ((e : V) → Fin (dim e)) → P v → R
  /-- label of every value of every bond (for the root: the total quantum number) -/
  q : (e : V) → Fin (dim e) → Q
  /-- label of every physical configuration of a node (sum over its basis sets) -/
  sigma : (v : V) → P v → Q

variable (N : TreeNet R V Q)

def amp (cfg : (v : V) → N.P v) : R := ∑ β : ((e : V) → Fin (N.dim e)), ∏ v, N.T v β (cfg v)

/-- children of `v`: the non-root nodes whose parent is `v` -/
def kids (v : V) : Finset V := univ.filter fun c => c ≠ N.root ∧ N.parent c = v

/-- the block-sparsity invariant the tree code maintains (`check_qn` / `get_qnmask`): a non-zero entry of a node tensor
    has  Σ labels of its children bonds + label of its physical configuration = label of its own (parent) bond -/
def Inv : Prop :=
  ∀ v β p, N.T v β p ≠ 0 → (∑ c ∈ kids N v, N.q c (β c)) + N.sigma v p = N.q v (β v)

omit [CommRing R] in
theorem sum_kids (f : V → Q) : ∑ v, ∑ c ∈ kids N v, f c = ∑ c ∈ univ.erase N.root, f c := by
  unfold kids
  rw [Finset.sum_comm' (s := univ) (t := fun v => univ.filter fun c => c ≠ N.root ∧ N.parent c = v)
        (t' := univ.erase N.root) (s' := fun c => {N.parent c})]
  · apply Finset.sum_congr rfl
    intro c _
    rw [Finset.sum_singleton]
  · intro v c
    simp only [mem_univ, mem_filter, true_and, mem_erase, ne_eq, mem_singleton, and_true]
    constructor
    · rintro ⟨h1, h2⟩; exact ⟨h2.symm, h1⟩
    · rintro ⟨h1, h2⟩; exact ⟨h2, h1.symm⟩

/-- **sector theorem for trees**: if the invariant holds and the root's bond carries the single label `qntot`, every
    configuration with a non-zero amplitude has total physical label `qntot` -/
theorem sector_of_inv [NoZeroDivisors R] [Nontrivial R] (h : Inv N) (qntot : Q) (hroot : ∀ k, N.q N.root k = qntot)
    (cfg : (v : V) → N.P v) (hamp : amp N cfg ≠ 0) : ∑ v, N.sigma v (cfg v) = qntot := by
  unfold amp at hamp
  obtain ⟨β, _, hβ⟩ := Finset.exists_ne_zero_of_sum_ne_zero hamp
  have hv : ∀ v, N.T v β (cfg v) ≠ 0 := by
    intro v
    exact fun h0 => hβ (Finset.prod_eq_zero (Finset.mem_univ v) h0)
  have hsum : ∑ v, ((∑ c ∈ kids N v, N.q c (β c)) + N.sigma v (cfg v)) = ∑ v, N.q v (β v) :=
    Finset.sum_congr rfl fun v _ => h v β (cfg v) (hv v)
  rw [Finset.sum_add_distrib, sum_kids N (fun c => N.q c (β c))] at hsum
  rw [← Finset.add_sum_erase univ (fun v => N.q v (β v)) (Finset.mem_univ N.root), hroot] at hsum
  -- Σ_{c≠root} q_c + Σ σ = qntot + Σ_{c≠root} q_c
  have := add_left_cancel (a := ∑ c ∈ univ.erase N.root, N.q c (β c)) (b := ∑ v, N.sigma v (cfg v)) (c := qntot)
    (by rw [hsum]; abel)
  exact this

/-- contrapositive, as the code uses it: amplitudes outside the sector vanish -/
theorem amp_zero_outside_sector [NoZeroDivisors R] [Nontrivial R] (h : Inv N) (qntot : Q) (hroot : ∀ k, N.q N.root k = qntot)
    (cfg : (v : V) → N.P v) (hne : ∑ v, N.sigma v (cfg v) ≠ qntot) : amp N cfg = 0 := by
  by_contra h0
  exact hne (sector_of_inv N h qntot hroot cfg h0)

/-! non-vacuity: root 0 (dummy bond of dimension 1 labelled 1) with one child 1 (bond of dimension 2, labels 0 and 1),
    two-level sites with labels 0 and 1; the one-particle sector -/
private def ex : TreeNet ℤ (Fin 2) ℤ where
  root := 0
  parent := fun _ => 0
  dim := fun v => if v = 0 then 1 else 2
  P := fun _ => Fin 2
  q := fun v k => if v = 0 then 1 else (k.val : ℤ)
  sigma := fun _ p => (p.val : ℤ)
  T := fun v β p =>
    if v = 0 then (if ((β 1).val : ℤ) + (p.val : ℤ) = 1 then 1 else 0)
    else (if ((β 1).val : ℤ) = (p.val : ℤ) then 1 else 0)

example : amp ex (fun v => if v = 0 then (1 : Fin 2) else (0 : Fin 2)) = 1 := by decide
example : amp ex (fun _ => (1 : Fin 2)) = 0 := by decide
/-- the example network satisfies the invariant and the root hypothesis (the theorem's premises are satisfiable) -/
example : Inv ex ∧ ∀ k, ex.q ex.root k = 1 := by
  constructor
  · intro v β p hne
    fin_cases v
    · -- root: kids = {1}
      have hk : kids ex (0 : Fin 2) = {1} := by decide
      simp only [Fin.zero_eta, hk, Finset.sum_singleton]
      simp only [ex, Fin.zero_eta, if_true] at hne ⊢
      by_contra hcon
      exact hne (if_neg (by simpa using hcon))
    · have hk : kids ex (1 : Fin 2) = ∅ := by decide
      simp only [Fin.mk_one, hk, Finset.sum_empty, zero_add]
      simp only [ex, Fin.mk_one] at hne ⊢
      by_contra hcon
      apply hne
      simp at hcon ⊢
      exact fun h => hcon h.symm
  · intro k; simp [ex]

end RenoVerif.TreeQN
