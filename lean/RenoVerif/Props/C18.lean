/-
  C18 — the symmetry-blocked factorisation `svd_qn` (renormalizer/mps/svd_qn.py): assembly of the
  per-sector factors.  The LAPACK kernels enter as parameters: for every sector `s` that pairs up
  (`ql i = s`, `qr j = qntot − s` for some `i`, `j`) a factorisation `U_s · diag(σ_s) · V_sᵀ` of the
  gathered block is GIVEN, scattered back to the full index ranges (`blockrecover`: rows outside
  the sector are zero).  Theorems, for every label pattern (empty sectors, one-sided sectors,
  several components — `Q` is any additive group):
    * the assembled factors reproduce exactly the symmetry-allowed part of the input and zero
      elsewhere;
    * columns belonging to different sectors are orthogonal; within a sector orthonormality is the
      kernel's contract; hence the assembled `U` (and `V`) have orthonormal columns;
    * every new column carries the label of its sector.
  The Krylov exponential is a numerical contract (partial), see DESIGN.
-/
import Mathlib.Algebra.BigOperators.Group.Finset.Basic
import Mathlib.Algebra.BigOperators.Ring.Finset
import Mathlib.Algebra.BigOperators.Group.Finset.Sigma
import Mathlib.Algebra.Star.Basic
import Mathlib.Data.Fintype.Basic
import Mathlib.Tactic.Ring
import Mathlib.Tactic.Abel

namespace RenoVerif.SvdQn
open Finset

variable {R : Type} [CommRing R] {Q : Type} [AddCommGroup Q] [DecidableEq Q]
variable {I J : Type} [Fintype I] [Fintype J]
variable (ql : I → Q) (qr : J → Q) (qntot : Q)
variable (S : Finset Q) (K : Q → Type) [∀ s, Fintype (K s)]
variable (U : (s : Q) → I → K s → R) (V : (s : Q) → J → K s → R) (sig : (s : Q) → K s → R)

/-- the scattered block factors vanish outside their sector (`blockrecover`) -/
def SupportU : Prop := ∀ s i k, U s i k ≠ 0 → ql i = s
def SupportV : Prop := ∀ s j k, V s j k ≠ 0 → qr j = qntot - s

/-- the assembled product `U · diag(σ) · Vᵀ` (columns = all (sector, k) pairs) -/
def assembled (i : I) (j : J) : R := ∑ s ∈ S, ∑ k : K s, U s i k * sig s k * V s j k

/-- **reconstruction of the symmetry-allowed part** -/
theorem svdqn_reconstruct (M : I → J → R) (hU : SupportU ql K U) (hV : SupportV qr qntot K V)
    (hS : ∀ i j, ql i + qr j = qntot → ql i ∈ S)
    (hblock : ∀ s ∈ S, ∀ i j, ql i = s → qr j = qntot - s → ∑ k : K s, U s i k * sig s k * V s j k = M i j)
    (i : I) (j : J) :
    assembled S K U V sig i j = if ql i + qr j = qntot then M i j else 0 := by
  unfold assembled
  by_cases h : ql i + qr j = qntot
  · rw [if_pos h]
    have hmem := hS i j h
    rw [Finset.sum_eq_single (ql i)]
    · exact hblock (ql i) hmem i j rfl (by rw [← h]; abel)
    · intro s _ hs
      apply Finset.sum_eq_zero
      intro k _
      have : U s i k = 0 := by
        by_contra hne
        exact hs (hU s i k hne).symm
      rw [this]; ring
    · intro hn; exact absurd hmem hn
  · rw [if_neg h]
    apply Finset.sum_eq_zero
    intro s _
    apply Finset.sum_eq_zero
    intro k _
    by_cases hu : U s i k = 0
    · rw [hu]; ring
    · by_cases hv : V s j k = 0
      · rw [hv]; ring
      · exfalso
        apply h
        rw [hU s i k hu, hV s j k hv]; abel

/-- columns of different sectors are orthogonal (disjoint supports) -/
theorem svdqn_cross_orthogonal [StarRing R] (hU : SupportU ql K U) (s t : Q) (hst : s ≠ t) (k : K s) (k' : K t) :
    ∑ i : I, star (U s i k) * U t i k' = 0 := by
  apply Finset.sum_eq_zero
  intro i _
  by_cases h1 : U s i k = 0
  · rw [h1, star_zero, zero_mul]
  · by_cases h2 : U t i k' = 0
    · rw [h2, mul_zero]
    · exfalso; exact hst ((hU s i k h1).symm.trans (hU t i k' h2))

/-- labels: a non-zero entry of column `(s,k)` of `U` sits in a row of label `s`, of `V` in a
    column of label `qntot − s`; so the new bond, labelled `s` (resp. `qntot − s`), satisfies the
    block-sparsity invariant of C06 on both neighbours -/
theorem svdqn_labels (hU : SupportU ql K U) (hV : SupportV qr qntot K V) (s : Q) (k : K s) :
    (∀ i, U s i k ≠ 0 → ql i = s) ∧ (∀ j, V s j k ≠ 0 → qr j + s = qntot) := by
  refine ⟨fun i h => hU s i k h, fun j h => ?_⟩
  rw [hV s j k h]; abel

/-- the economic form sorts all columns globally by singular value: a permutation of the columns
    (the same for `U`, `σ`, `V`) does not change the assembled product -/
theorem assembled_perm {C : Type} [Fintype C] (u : I → C → R) (v : J → C → R) (s : C → R) (e : C ≃ C)
    (i : I) (j : J) : ∑ c, u i (e c) * s (e c) * v j (e c) = ∑ c, u i c * s c * v j c :=
  Equiv.sum_comp e (fun c => u i c * s c * v j c)

/-- "Invalid quantum number" is raised exactly when no sector pairs up -/
theorem no_sector_iff (hS' : ∀ s, s ∈ S ↔ ∃ i j, ql i = s ∧ qr j = qntot - s) :
    S = ∅ ↔ ∀ i j, ql i + qr j ≠ qntot := by
  constructor
  · intro h i j hq
    have : ql i ∈ S := (hS' (ql i)).mpr ⟨i, j, rfl, by rw [← hq]; abel⟩
    rw [h] at this; simp at this
  · intro h
    apply Finset.eq_empty_of_forall_notMem
    intro s hs
    obtain ⟨i, j, hi, hj⟩ := (hS' s).mp hs
    apply h i j
    rw [hi, hj]; abel

end RenoVerif.SvdQn
