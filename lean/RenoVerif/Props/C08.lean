/-
  C08 — DMRG energies are variational.  Every energy the optimiser reports is an eigenvalue (a
  Rayleigh quotient) of an effective Hamiltonian `Heff = Pᴴ H P` with `P` the isometry assembled
  from the canonical environment blocks (isometry: C04 `c04_block_isometry`).  Theorem: if
  `H − λ·1` is positive semidefinite (λ a lower bound of the spectrum of H in the sector) then so is
  `Heff − λ·1`: no eigenvalue, hence no reported energy, lies below λ.  Convergence to equality at
  full bond dimension and the interlacing of higher roots are numerical (partial).
-/
import Mathlib.LinearAlgebra.Matrix.PosDef
import Mathlib.Data.Int.Star

namespace RenoVerif.Variational
open Matrix

variable {n m : Type} [Fintype n] [Fintype m] [DecidableEq n] [DecidableEq m]
variable {K : Type} [CommRing K] [PartialOrder K] [StarRing K]

/-- **compression never lowers the spectrum** -/
theorem compression_lower_bound (H : Matrix n n K) (P : Matrix n m K) (lam : K)
    (hP : Pᴴ * P = 1) (hH : (H - lam • (1 : Matrix n n K)).PosSemidef) :
    (Pᴴ * H * P - lam • (1 : Matrix m m K)).PosSemidef := by
  have h := hH.conjTranspose_mul_mul_same P
  have e : Pᴴ * (H - lam • (1 : Matrix n n K)) * P = Pᴴ * H * P - lam • (1 : Matrix m m K) := by
    rw [Matrix.mul_sub, Matrix.sub_mul, Matrix.mul_smul, Matrix.smul_mul, Matrix.mul_one, hP]
  rw [e] at h
  exact h

/-- Rayleigh-quotient form: for every vector `x`, `xᴴ Heff x ≥ λ · xᴴx` -/
theorem rayleigh_lower_bound (H : Matrix n n K) (P : Matrix n m K) (lam : K)
    (hP : Pᴴ * P = 1) (hH : (H - lam • (1 : Matrix n n K)).PosSemidef) (x : m → K) :
    0 ≤ star x ⬝ᵥ ((Pᴴ * H * P - lam • (1 : Matrix m m K)) *ᵥ x) :=
  (compression_lower_bound H P lam hP hH).dotProduct_mulVec_nonneg x

/-- nesting: compressing again (a smaller bond dimension, a one-site update inside a two-site
    space, …) keeps the bound -/
theorem compression_nested {k : Type} [Fintype k] [DecidableEq k] (H : Matrix n n K) (P : Matrix n m K)
    (P2 : Matrix m k K) (lam : K) (hP : Pᴴ * P = 1) (hP2 : P2ᴴ * P2 = 1)
    (hH : (H - lam • (1 : Matrix n n K)).PosSemidef) :
    (P2ᴴ * (Pᴴ * H * P) * P2 - lam • (1 : Matrix k k K)).PosSemidef :=
  compression_lower_bound (Pᴴ * H * P) P2 lam hP2 (compression_lower_bound H P lam hP hH)

/-- targeting `ω`: `(H − ω)²` is positive semidefinite for Hermitian `H`, so its compressed
    minimum is ≥ 0 and is attained exactly by eigenvectors with eigenvalue ω -/
theorem omega_square_psd [StarOrderedRing K] (H : Matrix n n K) (hH : H.IsHermitian) (om : K) (hom : star om = om) :
    ((H - om • (1 : Matrix n n K)) * (H - om • (1 : Matrix n n K))).PosSemidef := by
  have hh : (H - om • (1 : Matrix n n K))ᴴ = H - om • (1 : Matrix n n K) := by
    rw [conjTranspose_sub, conjTranspose_smul, conjTranspose_one, hH.eq, hom]
  have := Matrix.posSemidef_conjTranspose_mul_self (H - om • (1 : Matrix n n K))
  rwa [hh] at this

/-- the state the optimiser returns is `ψ = P x` (environment isometry applied to the local
    eigenvector): its global energy form equals the local one … -/
theorem lifted_rayleigh (H : Matrix n n K) (P : Matrix n m K) (x : m → K) :
    star (P *ᵥ x) ⬝ᵥ (H *ᵥ (P *ᵥ x)) = star x ⬝ᵥ ((Pᴴ * H * P) *ᵥ x) := by
  rw [star_mulVec, dotProduct_mulVec, vecMul_vecMul, dotProduct_mulVec, vecMul_vecMul,
    ← dotProduct_mulVec, Matrix.mul_assoc]

/-- … and its norm equals the norm of the local vector -/
theorem lifted_norm (P : Matrix n m K) (hP : Pᴴ * P = 1) (x : m → K) :
    star (P *ᵥ x) ⬝ᵥ (P *ᵥ x) = star x ⬝ᵥ x := by
  rw [star_mulVec, dotProduct_mulVec, vecMul_vecMul, hP, vecMul_one]

/-- an eigenvalue of a matrix bounded below by `λ` (in the positive-semidefinite order) is `≥ λ` -/
theorem eigen_energy_ge [IsOrderedRing K] (A : Matrix m m K) (lam e : K) (x : m → K)
    (hA : (A - lam • (1 : Matrix m m K)).PosSemidef)
    (hx : A *ᵥ x = e • x) (hn : star x ⬝ᵥ x = 1) : lam ≤ e := by
  have h := hA.dotProduct_mulVec_nonneg x
  rw [sub_mulVec, smul_mulVec, one_mulVec, hx, dotProduct_sub, dotProduct_smul, dotProduct_smul, hn] at h
  simpa using h

/-- **the reported energy is variational and is the energy of the returned state**: with `λ` a lower
    bound of `H`, `P` the environment isometry, `(e, x)` a normalised eigenpair of the effective
    Hamiltonian (what every local solver — dense, Davidson, ARPACK — returns), the reported `e`
    satisfies `λ ≤ e`, the returned state `ψ = P x` is normalised and `⟨ψ|H|ψ⟩ = e`.
    (The L2 tie checks `PᴴP = 1` on the real tensors and `e = ⟨ψ|H|ψ⟩/⟨ψ|ψ⟩` on the real output.) -/
theorem reported_energy_variational [IsOrderedRing K] (H : Matrix n n K) (P : Matrix n m K) (lam e : K)
    (x : m → K) (hP : Pᴴ * P = 1) (hH : (H - lam • (1 : Matrix n n K)).PosSemidef)
    (hx : (Pᴴ * H * P) *ᵥ x = e • x) (hn : star x ⬝ᵥ x = 1) :
    lam ≤ e ∧ star (P *ᵥ x) ⬝ᵥ (P *ᵥ x) = 1 ∧ star (P *ᵥ x) ⬝ᵥ (H *ᵥ (P *ᵥ x)) = e := by
  refine ⟨eigen_energy_ge _ lam e x (compression_lower_bound H P lam hP hH) hx hn, ?_, ?_⟩
  · rw [lifted_norm P hP, hn]
  · rw [lifted_rayleigh, hx, dotProduct_smul, hn]; simp

/-- the same through two nested compressions (a sweep with a smaller bond dimension inside a larger
    variational space): the energy found in the smaller space is still bounded below by `λ` -/
theorem reported_energy_nested [IsOrderedRing K] {k : Type} [Fintype k] [DecidableEq k] (H : Matrix n n K)
    (P : Matrix n m K) (P2 : Matrix m k K) (lam e : K) (x : k → K) (hP : Pᴴ * P = 1) (hP2 : P2ᴴ * P2 = 1)
    (hH : (H - lam • (1 : Matrix n n K)).PosSemidef)
    (hx : (P2ᴴ * (Pᴴ * H * P) * P2) *ᵥ x = e • x) (hn : star x ⬝ᵥ x = 1) : lam ≤ e :=
  eigen_energy_ge _ lam e x (compression_nested H P P2 lam hP hP2 hH) hx hn

/-- several roots: the lifted states `P x`, `P y` have the overlap of the local vectors, so orthonormal
    local eigenvectors give orthonormal returned states -/
theorem lifted_inner (P : Matrix n m K) (hP : Pᴴ * P = 1) (x y : m → K) :
    star (P *ᵥ x) ⬝ᵥ (P *ᵥ y) = star x ⬝ᵥ y := by
  rw [star_mulVec, dotProduct_mulVec, vecMul_vecMul, hP, vecMul_one]

/-- … and the Hamiltonian matrix between lifted states is the effective one (state-averaged searches
    diagonalise exactly the restriction of `H` to the span of the returned states) -/
theorem lifted_matrix_element (H : Matrix n n K) (P : Matrix n m K) (x y : m → K) :
    star (P *ᵥ x) ⬝ᵥ (H *ᵥ (P *ᵥ y)) = star x ⬝ᵥ ((Pᴴ * H * P) *ᵥ y) := by
  rw [star_mulVec, dotProduct_mulVec, vecMul_vecMul, dotProduct_mulVec, vecMul_vecMul,
    ← dotProduct_mulVec, Matrix.mul_assoc]

/-- every one of the reported roots is bounded below by `λ` -/
theorem all_roots_ge [IsOrderedRing K] {ι : Type} (H : Matrix n n K) (P : Matrix n m K) (lam : K)
    (e : ι → K) (x : ι → m → K) (hP : Pᴴ * P = 1) (hH : (H - lam • (1 : Matrix n n K)).PosSemidef)
    (hx : ∀ i, (Pᴴ * H * P) *ᵥ x i = e i • x i) (hn : ∀ i, star (x i) ⬝ᵥ x i = 1) : ∀ i, lam ≤ e i :=
  fun i => (reported_energy_variational H P lam (e i) (x i) hP hH (hx i) (hn i)).1

/-- spectral mapping for the shifted square: an eigenvector of `H` with eigenvalue `μ` is an
    eigenvector of `(H − ω)²` with eigenvalue `(μ − ω)²`; the minimum `0` of the targeted functional
    is attained exactly at eigenvalue `ω`, and the targeted search orders eigenpairs by `(μ − ω)²` -/
theorem omega_square_eigen (H : Matrix n n K) (v : n → K) (mu om : K) (h : H *ᵥ v = mu • v) :
    ((H - om • (1 : Matrix n n K)) * (H - om • (1 : Matrix n n K))) *ᵥ v = ((mu - om) * (mu - om)) • v := by
  have h1 : (H - om • (1 : Matrix n n K)) *ᵥ v = (mu - om) • v := by
    rw [sub_mulVec, smul_mulVec, one_mulVec, h, sub_smul]
  rw [← mulVec_mulVec, h1, mulVec_smul, h1, smul_smul]

-- non-vacuity: a concrete instance (H = [[2,1],[1,2]] ≥ 1, P = first basis vector, eigenpair (2, 1))
-- meets every hypothesis of `reported_energy_variational`
private def exH : Matrix (Fin 2) (Fin 2) ℤ := !![2, 1; 1, 2]
private def exP : Matrix (Fin 2) (Fin 1) ℤ := !![1; 0]
private def exV : Matrix (Fin 1) (Fin 2) ℤ := !![1, 1]
private def exX : Fin 1 → ℤ := fun _ => 1
example : (1 : ℤ) ≤ 2 := by
  have hH : (exH - (1 : ℤ) • (1 : Matrix (Fin 2) (Fin 2) ℤ)).PosSemidef := by
    have h := Matrix.posSemidef_conjTranspose_mul_self exV
    have e : exVᴴ * exV = exH - (1 : ℤ) • (1 : Matrix (Fin 2) (Fin 2) ℤ) := by decide
    rwa [e] at h
  have hP : exPᴴ * exP = 1 := by decide
  have hx : (exPᴴ * exH * exP) *ᵥ exX = (2 : ℤ) • exX := by decide
  have hn : star exX ⬝ᵥ exX = 1 := by decide
  exact (reported_energy_variational exH exP 1 2 exX hP hH hx hn).1

end RenoVerif.Variational
