/-
  C08 — DMRG energies are variational.  Every energy the optimiser reports is an eigenvalue (a
  Rayleigh quotient) of an effective Hamiltonian `Heff = Pᴴ H P` with `P` the isometry assembled
  from the canonical environment blocks (isometry: C04 `c04_block_isometry`).  Theorem: if
  `H − λ·1` is positive semidefinite (λ a lower bound of the spectrum of H in the sector) then so is
  `Heff − λ·1`: no eigenvalue, hence no reported energy, lies below λ.  Convergence to equality at
  full bond dimension and the interlacing of higher roots are numerical (partial).
-/
import Mathlib.LinearAlgebra.Matrix.PosDef

namespace RenoVerif.Variational
open Matrix

variable {n m : Type} [Fintype n] [Fintype m] [DecidableEq n] [DecidableEq m]
variable {K : Type} [CommRing K] [PartialOrder K] [StarRing K]

/-- **compression never lowers the spectrum** -/
theorem compression_lower_bound (H : Matrix n n K) (P : Matrix n m K) (lam : K)
    (hP : Pᴴ * P = 1) (hH : (H - lam • (1 : Matrix n n K)).PosSemidef) :
    (Pᴴ * H * P - lam • (1 : Matrix m m K)).PosSemidef := by
  have h := hH.conjTranspose_mul_mul_same P
  have e : Pᴴ * (H - lam • (1 : Matrix n n K)) * P = Pᴴ * H * P - lam • (1 : Matrix m m K) := by
    rw [Matrix.mul_sub, Matrix.sub_mul, Matrix.mul_smul, Matrix.smul_mul, Matrix.mul_one, hP]
  rw [e] at h
  exact h

/-- Rayleigh-quotient form: for every vector `x`, `xᴴ Heff x ≥ λ · xᴴx` -/
theorem rayleigh_lower_bound (H : Matrix n n K) (P : Matrix n m K) (lam : K)
    (hP : Pᴴ * P = 1) (hH : (H - lam • (1 : Matrix n n K)).PosSemidef) (x : m → K) :
    0 ≤ star x ⬝ᵥ ((Pᴴ * H * P - lam • (1 : Matrix m m K)) *ᵥ x) :=
  (compression_lower_bound H P lam hP hH).dotProduct_mulVec_nonneg x

/-- nesting: compressing again (a smaller bond dimension, a one-site update inside a two-site
    space, …) keeps the bound -/
theorem compression_nested {k : Type} [Fintype k] [DecidableEq k] (H : Matrix n n K) (P : Matrix n m K)
    (P2 : Matrix m k K) (lam : K) (hP : Pᴴ * P = 1) (hP2 : P2ᴴ * P2 = 1)
    (hH : (H - lam • (1 : Matrix n n K)).PosSemidef) :
    (P2ᴴ * (Pᴴ * H * P) * P2 - lam • (1 : Matrix k k K)).PosSemidef :=
  compression_lower_bound (Pᴴ * H * P) P2 lam hP2 (compression_lower_bound H P lam hP hH)

/-- targeting `ω`: `(H − ω)²` is positive semidefinite for Hermitian `H`, so its compressed
    minimum is ≥ 0 and is attained exactly by eigenvectors with eigenvalue ω -/
theorem omega_square_psd [StarOrderedRing K] (H : Matrix n n K) (hH : H.IsHermitian) (om : K) (hom : star om = om) :
    ((H - om • (1 : Matrix n n K)) * (H - om • (1 : Matrix n n K))).PosSemidef := by
  have hh : (H - om • (1 : Matrix n n K))ᴴ = H - om • (1 : Matrix n n K) := by
    rw [conjTranspose_sub, conjTranspose_smul, conjTranspose_one, hH.eq, hom]
  have := Matrix.posSemidef_conjTranspose_mul_self (H - om • (1 : Matrix n n K))
  rwa [hh] at this

end RenoVerif.Variational
