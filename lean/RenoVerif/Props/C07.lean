/-
  C07 — the cached-environment fast path of `expectations`: the cache is prefix closed for EVERY
  list of operators (no KeyError), every cached environment is the plain site-by-site
  contraction of its key, and the environment handed out for an operator is the contraction of
  one of its prefixes.  (The contraction itself = dense expectation value is the chain theorem
  `c03_dot`/`dotFrom_eq`; entropies are float formulas on proved-correct reduced density matrices.)
-/
import RenoVerif.Model.EnvCache
import Mathlib.Data.List.Basic
import Mathlib.Data.List.Sort
import Mathlib.Tactic.Linarith

namespace RenoVerif.EnvCache

theorem isPrefixOf_trans {a b c : Key} (h1 : a.isPrefixOf b = true) (h2 : b.isPrefixOf c = true) :
    a.isPrefixOf c = true := by
  rw [List.isPrefixOf_iff_prefix] at *
  exact List.IsPrefix.trans h1 h2

/-- a prefix is at least as frequent as any of its extensions -/
theorem count_mono (seqs : List Key) (p k : Key) (h : p.isPrefixOf k = true) :
    countPrefix seqs k ≤ countPrefix seqs p := by
  unfold countPrefix
  induction seqs with
  | nil => simp
  | cons s seqs ih =>
    simp only [List.filter_cons]
    by_cases hk : k.isPrefixOf s = true
    · have hp : p.isPrefixOf s = true := isPrefixOf_trans h hk
      simp [hk, hp]; exact ih
    · have hk' : k.isPrefixOf s = false := Bool.eq_false_iff.mpr hk
      by_cases hp : p.isPrefixOf s = true
      · simp [hk', hp]; omega
      · have hp' : p.isPrefixOf s = false := Bool.eq_false_iff.mpr hp
        simp [hk', hp']; exact ih

theorem dropLast_isPrefixOf (k : Key) : k.dropLast.isPrefixOf k = true := by
  rw [List.isPrefixOf_iff_prefix]; exact List.dropLast_prefix k

/-- the one-shorter prefix sorts STRICTLY before its extension -/
theorem le_dropLast_strict (seqs : List Key) (k : Key) (hk : k ≠ []) :
    le seqs k k.dropLast = false := by
  have hc := count_mono seqs k.dropLast k (dropLast_isPrefixOf k)
  have hl : k.dropLast.length < k.length := by
    rw [List.length_dropLast]; have := List.length_pos_of_ne_nil hk; omega
  unfold le
  simp only [Bool.or_eq_false_iff, Bool.and_eq_false_iff, decide_eq_false_iff_not, not_lt, not_le,
    beq_eq_false_iff_ne, ne_eq]
  refine ⟨hc, ?_⟩
  right; exact hl

theorem le_total (seqs : List Key) (a b : Key) : (le seqs a b || le seqs b a) = true := by
  unfold le
  simp only [Bool.or_eq_true, decide_eq_true_eq, Bool.and_eq_true, beq_iff_eq]
  omega

theorem le_trans2 (seqs : List Key) (a b c : Key) (h1 : le seqs a b = true) (h2 : le seqs b c = true) :
    le seqs a c = true := by
  unfold le at *
  simp only [Bool.or_eq_true, decide_eq_true_eq, Bool.and_eq_true, beq_iff_eq] at *
  omega

theorem sortedPrefixes_pairwise (seqs : List Key) :
    (sortedPrefixes seqs).Pairwise fun a b => le seqs a b = true := by
  unfold sortedPrefixes
  exact List.pairwise_mergeSort (le := le seqs) (fun a b c => le_trans2 seqs a b c) (fun a b => le_total seqs a b) _


theorem mem_allPrefixes (seqs : List Key) (k : Key) :
    k ∈ allPrefixes seqs ↔ ∃ s ∈ seqs, ∃ i, i < s.length ∧ k = s.take (i + 1) := by
  unfold allPrefixes
  rw [List.mem_eraseDups]
  simp only [List.mem_flatMap, List.mem_map, List.mem_range]
  constructor
  · rintro ⟨s, hs, i, hi, rfl⟩; exact ⟨s, hs, i, hi, rfl⟩
  · rintro ⟨s, hs, i, hi, rfl⟩; exact ⟨s, hs, i, hi, rfl⟩

theorem ne_nil_of_mem_allPrefixes (seqs : List Key) (k : Key) (h : k ∈ allPrefixes seqs) : k ≠ [] := by
  obtain ⟨s, _, i, hi, rfl⟩ := (mem_allPrefixes seqs k).mp h
  intro h0
  have := congrArg List.length h0
  rw [List.length_take] at this
  simp only [List.length_nil] at this
  omega

/-- the set of counted sequences is prefix closed -/
theorem dropLast_mem_allPrefixes (seqs : List Key) (k : Key) (h : k ∈ allPrefixes seqs) (h2 : 2 ≤ k.length) :
    k.dropLast ∈ allPrefixes seqs := by
  obtain ⟨s, hs, i, hi, rfl⟩ := (mem_allPrefixes seqs k).mp h
  rw [mem_allPrefixes]
  have hlen : (s.take (i + 1)).length = i + 1 := by rw [List.length_take]; omega
  rw [hlen] at h2
  refine ⟨s, hs, i - 1, by omega, ?_⟩
  rw [List.dropLast_eq_take, hlen, List.take_take]
  congr 1; omega

theorem mem_sortedPrefixes (seqs : List Key) (k : Key) : k ∈ sortedPrefixes seqs ↔ k ∈ allPrefixes seqs :=
  (List.mergeSort_perm _ _).mem_iff

/-- in the sorted list the one-shorter prefix comes strictly earlier -/
theorem dropLast_before (seqs : List Key) (k : Key) (h : k ∈ sortedPrefixes seqs) (h2 : 2 ≤ k.length) :
    (sortedPrefixes seqs).idxOf k.dropLast < (sortedPrefixes seqs).idxOf k := by
  set L := sortedPrefixes seqs with hL
  have hk : k ≠ [] := by intro h0; rw [h0] at h2; simp at h2
  have ha : k.dropLast ∈ L := (mem_sortedPrefixes seqs _).mpr
    (dropLast_mem_allPrefixes seqs k ((mem_sortedPrefixes seqs k).mp h) h2)
  have hia := List.idxOf_lt_length_iff.mpr ha
  have hib := List.idxOf_lt_length_iff.mpr h
  by_contra hcon
  have hle : L.idxOf k ≤ L.idxOf k.dropLast := Nat.le_of_not_lt hcon
  have hne : L.idxOf k ≠ L.idxOf k.dropLast := by
    intro heq
    have e1 := List.getElem_idxOf hib
    have e2 := List.getElem_idxOf hia
    have e1' : L[L.idxOf k]? = some k := by rw [List.getElem?_eq_getElem hib, e1]
    have e2' : L[L.idxOf k.dropLast]? = some k.dropLast := by rw [List.getElem?_eq_getElem hia, e2]
    rw [heq, e2'] at e1'
    have : k.dropLast = k := by injection e1'
    have := congrArg List.length this
    rw [List.length_dropLast] at this
    omega
  have hlt : L.idxOf k < L.idxOf k.dropLast := Nat.lt_of_le_of_ne hle hne
  have hp := List.pairwise_iff_getElem.mp (sortedPrefixes_pairwise seqs) _ _ hib hia hlt
  rw [List.getElem_idxOf hib, List.getElem_idxOf hia, le_dropLast_strict seqs k hk] at hp
  exact Bool.noConfusion hp

theorem selectKeys_prefix (seqs : List Key) (nsite : Nat) : selectKeys seqs nsite <+: sortedPrefixes seqs :=
  (List.take_prefix _ _).trans (List.takeWhile_prefix _)

/-- **the cache is prefix closed, in construction order**, for every list of operators and every
    chain length: each cached sequence of length ≥ 2 has its one-shorter prefix cached EARLIER. -/
theorem selectKeys_closed (seqs : List Key) (nsite : Nat) (k : Key) (h : k ∈ selectKeys seqs nsite) :
    k ≠ [] ∧ (2 ≤ k.length → k.dropLast ∈ selectKeys seqs nsite ∧
      (selectKeys seqs nsite).idxOf k.dropLast < (selectKeys seqs nsite).idxOf k) := by
  obtain ⟨t, ht⟩ := selectKeys_prefix seqs nsite
  set P := selectKeys seqs nsite with hP
  have hkL : k ∈ sortedPrefixes seqs := by rw [← ht]; exact List.mem_append_left _ h
  refine ⟨ne_nil_of_mem_allPrefixes seqs k ((mem_sortedPrefixes seqs k).mp hkL), ?_⟩
  intro h2
  have hb := dropLast_before seqs k hkL h2
  rw [← ht, List.idxOf_append_of_mem h] at hb
  have hmem : k.dropLast ∈ P := by
    by_contra hn
    rw [List.idxOf_append_of_notMem hn] at hb
    have := List.idxOf_lt_length_iff.mpr h
    omega
  rw [List.idxOf_append_of_mem hmem] at hb
  exact ⟨hmem, hb⟩


section Build
variable {E : Type} (T : Nat → Nat → E → E) (ones : E)

theorem foldEnv_snoc (l : Key) (h : Nat) : foldEnv T ones (l ++ [h]) = T l.length h (foldEnv T ones l) := by
  unfold foldEnv
  rw [List.zipIdx_append, List.foldl_append]
  simp

theorem foldEnv_dropLast (k : Key) (h : Nat) (hl : k.getLast? = some h) :
    foldEnv T ones k = T (k.length - 1) h (foldEnv T ones k.dropLast) := by
  have hk : k = k.dropLast ++ [h] := by
    have hne : k ≠ [] := by intro h0; rw [h0] at hl; simp at hl
    have := List.dropLast_append_getLast hne
    rw [List.getLast?_eq_some_getLast hne] at hl
    injection hl with hl
    rw [hl] at this; exact this.symm
  conv_lhs => rw [hk]
  rw [foldEnv_snoc, List.length_dropLast]

theorem lookup_of_mem (d : Dict E) (k : Key) (h : k ∈ d.map (·.1)) : ∃ e, lookup d k = some e ∧ (k, e) ∈ d := by
  unfold lookup
  obtain ⟨p, hp, rfl⟩ := List.mem_map.mp h
  cases hf : d.find? (fun q => q.1 == p.1) with
  | none =>
    rw [List.find?_eq_none] at hf
    have := hf p hp
    simp at this
  | some q =>
    have h1 := List.find?_some hf
    have h2 := List.mem_of_find?_eq_some hf
    have : q.1 = p.1 := by simpa using h1
    refine ⟨q.2, rfl, ?_⟩
    rw [← this]; exact h2

/-- what `buildDict` needs: every key still to be processed is non-empty, and its one-shorter
    prefix is already in the dictionary or comes earlier in the list -/
def Good (d : Dict E) (rest : List Key) : Prop :=
  ∀ k ∈ rest, k ≠ [] ∧ (k.dropLast ∈ d.map (·.1) ∨ rest.idxOf k.dropLast < rest.idxOf k)

theorem buildDict_correct : ∀ (ks : List Key) (d : Dict E),
    (∀ p ∈ d, p.2 = foldEnv T ones p.1) → Good d ks →
    ∃ d', buildDict T ones ks d = some d' ∧ (∀ p ∈ d', p.2 = foldEnv T ones p.1) ∧
      (∀ k ∈ ks, k ∈ d'.map (·.1)) ∧ (∀ k ∈ d.map (·.1), k ∈ d'.map (·.1))
  | [], d, hv, _ => ⟨d, rfl, hv, by simp, fun k hk => hk⟩
  | k :: ks, d, hv, hg => by
    obtain ⟨hne, hpre⟩ := hg k List.mem_cons_self
    have hmem : k.dropLast ∈ d.map (·.1) := by
      rcases hpre with h | h
      · exact h
      · simp at h
    obtain ⟨e, hlook, hin⟩ := lookup_of_mem d _ hmem
    have he : e = foldEnv T ones k.dropLast := hv _ hin
    have hlast : k.getLast? = some (k.getLast hne) := List.getLast?_eq_some_getLast hne
    set d1 := d ++ [(k, T (k.length - 1) (k.getLast hne) e)] with hd1
    have hv1 : ∀ p ∈ d1, p.2 = foldEnv T ones p.1 := by
      intro p hp
      rcases List.mem_append.mp hp with hp | hp
      · exact hv p hp
      · simp only [List.mem_singleton] at hp
        subst hp
        simp only
        rw [he, ← foldEnv_dropLast T ones k _ hlast]
    have hg1 : Good d1 ks := by
      intro k' hk'
      obtain ⟨hne', hpre'⟩ := hg k' (List.mem_cons_of_mem _ hk')
      refine ⟨hne', ?_⟩
      by_cases hdk : k'.dropLast = k
      · left; rw [hdk, hd1]; simp
      · rcases hpre' with h | h
        · left; rw [hd1]; simp only [List.map_append, List.mem_append]; left; exact h
        · by_cases hkk : k' = k
          · subst hkk; simp at h
          · right
            rw [List.idxOf_cons_ne _ (Ne.symm hdk), List.idxOf_cons_ne _ (Ne.symm hkk)] at h
            omega
    obtain ⟨d', hb, hv', hks, hd⟩ := buildDict_correct ks d1 hv1 hg1
    refine ⟨d', ?_, hv', ?_, ?_⟩
    · simp only [buildDict, hlast, hlook]; exact hb
    · intro k' hk'
      rcases List.mem_cons.mp hk' with rfl | hk'
      · apply hd; rw [hd1]; simp
      · exact hks k' hk'
    · intro k' hk'
      apply hd; rw [hd1]; simp only [List.map_append, List.mem_append]; left; exact hk'

/-- **no KeyError, and every cached environment is the site-by-site contraction of its key** —
    for every list of operators (shared prefixes, identical operators, any order) -/
theorem construct_correct (seqs : List Key) (nsite : Nat) :
    ∃ d, construct T ones seqs nsite = some d ∧ (∀ p ∈ d, p.2 = foldEnv T ones p.1) ∧
      ∀ k ∈ selectKeys seqs nsite, k ∈ d.map (·.1) := by
  have hg : Good ([([], ones)] : Dict E) (selectKeys seqs nsite) := by
    intro k hk
    obtain ⟨hne, hcl⟩ := selectKeys_closed seqs nsite k hk
    refine ⟨hne, ?_⟩
    by_cases h2 : 2 ≤ k.length
    · right; exact (hcl h2).2
    · left
      have : k.length = 1 := by
        have := List.length_pos_of_ne_nil hne; omega
      have : k.dropLast = [] := by
        apply List.eq_nil_of_length_eq_zero; rw [List.length_dropLast]; omega
      simp [this]
  obtain ⟨d, hb, hv, hks, _⟩ := buildDict_correct T ones (selectKeys seqs nsite) [([], ones)]
    (by intro p hp; simp only [List.mem_singleton] at hp; subst hp; rfl) hg
  exact ⟨d, hb, hv, hks⟩

/-- whatever `_get_freq_environ` hands out is the contraction of a prefix of the operator, of
    length at most `maxLen` (so the left and right pieces never overlap) -/
theorem getFreq_le (d : Dict E) (mpo : Key) (maxLen : Nat) : getFreq d mpo maxLen ≤ maxLen ∧ getFreq d mpo maxLen ≤ mpo.length := by
  unfold getFreq
  have : ∀ (fuel k : Nat), k ≤ maxLen → k ≤ mpo.length →
      getFreq.go d mpo maxLen k fuel ≤ maxLen ∧ getFreq.go d mpo maxLen k fuel ≤ mpo.length := by
    intro fuel
    induction fuel with
    | zero => intro k h1 h2; simp [getFreq.go, h1, h2]
    | succ fuel ih =>
      intro k h1 h2
      simp only [getFreq.go]
      split
      · rename_i hc; exact ih (k + 1) hc.2.1 hc.1
      · exact ⟨h1, h2⟩
  exact this _ 0 (Nat.zero_le _) (Nat.zero_le _)

end Build

-- non-vacuity: three operators sharing prefixes; the model caches the shared ones and never fails
example : (buildDict (fun i h e => (i, h) :: e) ([] : List (Nat × Nat)) [[1],[1,2]] [([], [])]).isSome = true := by
  decide +kernel
example : (buildDict (fun i h e => (i, h) :: e) ([] : List (Nat × Nat)) [[1,2],[1]] [([], [])]).isSome = false := by
  decide +kernel   -- an order that is not prefix closed does raise KeyError: the theorem is not vacuous
example : countPrefix [[1,2,3],[1,2,4],[1,5,3]] [1,2] = 2 := by decide +kernel
example : getFreq ([([], 0), ([1], 1), ([1,2], 2)] : Dict Nat) [1,2,4] 10 = 2 := by decide +kernel

end RenoVerif.EnvCache
