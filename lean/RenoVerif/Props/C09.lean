/-
  C09 — algebraic skeleton of real-time propagation (partial; error orders are numerical).
  * `rk_step_poly`: for EVERY explicit tableau and every linear generator `G` (= τ·(−iH), any
    module: states, operators, density operators) one Runge–Kutta step computed stage by stage as
    the code does equals the polynomial `Σ_k d_k G^k y` with `d = polyCoeffs a b`; together with
    the generated `poly_<method>` / `ti_<method>` facts (`d_k = 1/k!` for k ≤ order) this is
    "matches exp(G) to the advertised order".
  * `taylor_step`: the Taylor propagator is the truncated exponential series.
  * controller bookkeeping: time actually applied to the state vs target time.
-/
import RenoVerif.Model.RKStep
import Mathlib.Algebra.Module.LinearMap.Basic
import Mathlib.Algebra.BigOperators.Group.List.Basic
import Mathlib.Algebra.Field.Basic
import Mathlib.Algebra.Order.Ring.Rat
import Mathlib.Tactic.Abel
import Mathlib.Tactic.Ring
import Mathlib.Tactic.Linarith

namespace RenoVerif.RKStep

section Poly
variable {K M : Type} [Field K] [AddCommGroup M] [Module K M] (G : M →ₗ[K] M)

/-- `evalP [c₀,c₁,…] v = Σ_k c_k G^k v` -/
def evalP : List K → M → M
  | [], _ => 0
  | c :: p, v => c • v + evalP p (G v)

theorem evalP_G : ∀ (p : List K) (v : M), evalP G p (G v) = G (evalP G p v)
  | [], v => by simp [evalP]
  | c :: p, v => by simp only [evalP, map_add, map_smul]; rw [evalP_G p (G v)]

theorem evalP_padd : ∀ (p q : List K) (v : M), evalP G (padd p q) v = evalP G p v + evalP G q v
  | [], q, v => by simp [padd, evalP]
  | a :: p, [], v => by simp [padd, evalP]
  | a :: p, b :: q, v => by
    simp only [padd, evalP, add_smul]
    rw [evalP_padd p q (G v)]; abel

theorem evalP_psmul (c : K) : ∀ (p : List K) (v : M), evalP G (psmul c p) v = c • evalP G p v
  | [], v => by simp [psmul, evalP]
  | a :: p, v => by
    have ih := evalP_psmul c p (G v)
    simp only [psmul, List.map_cons, evalP, smul_add, mul_smul] at ih ⊢
    rw [ih]

theorem evalP_lincomb : ∀ (row : List K) (cs : List (List K)) (v : M),
    evalP G ((List.zipWith (fun a c => psmul a c) row cs).foldr padd []) v
      = (List.zipWith (fun a k => a • k) row (cs.map fun c => evalP G c v)).sum
  | [], _, v => by simp [evalP]
  | _ :: _, [], v => by simp [evalP]
  | a :: row, c :: cs, v => by
    simp only [List.zipWith_cons_cons, List.foldr_cons, List.map_cons, List.sum_cons]
    rw [evalP_padd, evalP_psmul, evalP_lincomb row cs v]

/-- the stages as the code computes them (τ absorbed into `G`): `k_i = G (y + Σ_{j<i} a_ij k_j)` -/
def stagesAux (y : M) : List (List K) → List M → List M
  | [], ks => ks
  | row :: rows, ks => stagesAux y rows (ks ++ [G (y + (List.zipWith (fun a k => a • k) row ks).sum)])

def rkStep (a : List (List K)) (b : List K) (y : M) : M :=
  y + (List.zipWith (fun bi k => bi • k) b (stagesAux G y a [])).sum

theorem stages_eq (y : M) : ∀ (rows : List (List K)) (cs : List (List K)),
    stagesAux G y rows (cs.map fun c => evalP G c (G y)) = (stageCoeffs rows cs).map fun c => evalP G c (G y)
  | [], cs => rfl
  | row :: rows, cs => by
    simp only [stagesAux, stageCoeffs]
    have h : G (y + (List.zipWith (fun a k => a • k) row (cs.map fun c => evalP G c (G y))).sum)
        = evalP G (1 :: (List.zipWith (fun a c => psmul a c) row cs).foldr padd []) (G y) := by
      simp only [evalP, one_smul, map_add]
      rw [evalP_G, evalP_lincomb]
    rw [h]
    have := stages_eq y rows (cs ++ [1 :: (List.zipWith (fun a c => psmul a c) row cs).foldr padd []])
    simpa using this

/-- **one explicit Runge–Kutta step is a polynomial in the generator** -/
theorem rk_step_poly (a : List (List K)) (b : List K) (y : M) :
    rkStep G a b y = evalP G (polyCoeffs a b) y := by
  unfold rkStep polyCoeffs
  have h := stages_eq G y a []
  simp only [List.map_nil] at h
  rw [h]
  simp only [evalP, one_smul]
  rw [evalP_lincomb]

/-- Taylor propagator of order `n`: `Σ_{k≤n} (1/k!) G^k y`, computed by the running-term recursion
    `term ← G term / k` of `_evolve_prop_and_compress` -/
def taylorAux : Nat → Nat → M → M → M
  | 0, _, _, acc => acc
  | n + 1, k, term, acc =>
    let term' := ((k + 1 : Nat) : K)⁻¹ • G term
    taylorAux n (k + 1) term' (acc + term')

def taylorStep (n : Nat) (y : M) : M := taylorAux (K := K) G n 0 y y

end Poly

/-! ### controller bookkeeping (rationals: the step-size arithmetic of the code with exact numbers) -/

/-- If a step is accepted-and-final (`done`) without any rejection before it, the time applied
    to the state equals the target. -/
theorem ctl_single_accept (target guess p : Rat) (hp : ¬ p < 1/2)
    (hfin : minAbs guess (target - 0) + 0 = target) :
    (ctlStep target (1/2) (1/10) 2 ⟨0, guess, 0, false⟩ p).applied = target ∧
    (ctlStep target (1/2) (1/10) 2 ⟨0, guess, 0, false⟩ p).done = true := by
  unfold ctlStep
  simp only [hp, if_false, hfin, if_true]
  constructor
  · simpa using hfin
  · trivial

/-- **defect witness** (pinned code): after a REJECTED step the propagated state is kept while
    `evolved_dt` is not advanced, so the state ends up propagated by more than the target time.
    target 1, first guess 1 rejected with p = 1/4 (new guess 1/4), then four accepted steps. -/
theorem ctl_rejected_step_overshoots :
    let s1 := ctlStep (1 : Rat) (1/2) (1/10) 2 ⟨0, 1, 0, false⟩ (1/4)      -- rejected
    let s2 := ctlStep (1 : Rat) (1/2) (1/10) 2 s1 1
    let s3 := ctlStep (1 : Rat) (1/2) (1/10) 2 s2 1
    let s4 := ctlStep (1 : Rat) (1/2) (1/10) 2 s3 1
    let s5 := ctlStep (1 : Rat) (1/2) (1/10) 2 s4 1
    s5.done = true ∧ s5.evolved + 1/4 = 1 ∧ s5.applied = 2 := by decide +kernel

/-- **time bookkeeping of the repaired adaptive controller**: for EVERY sequence of step-size factors
    (whatever the error estimates were), while the loop runs the state has been propagated exactly by
    `evolved_dt`, and when it exits the state has been propagated exactly by the target time. -/
theorem ctlFixed_time_conserved (target : Rat) (ps : List Rat) :
    let s := ps.foldl (ctlStepFixed target (1/2) (1/10) 2) ⟨0, 1, 0, false⟩
    (s.done = false → s.applied = s.evolved) ∧ (s.done = true → s.applied = target) := by
  have key : ∀ (ps : List Rat) (s : Ctl Rat),
      ((s.done = false → s.applied = s.evolved) ∧ (s.done = true → s.applied = target)) →
      let s' := ps.foldl (ctlStepFixed target (1/2) (1/10) 2) s
      (s'.done = false → s'.applied = s'.evolved) ∧ (s'.done = true → s'.applied = target) := by
    intro ps
    induction ps with
    | nil => intro s h; exact h
    | cons p ps ih =>
      intro s h
      simp only [List.foldl_cons]
      apply ih
      unfold ctlStepFixed
      by_cases hd : s.done = true
      · simp only [hd, if_true]
        exact ⟨fun hc => (by cases hc), fun _ => h.2 hd⟩
      · have hd' : s.done = false := by simpa using hd
        have happ := h.1 hd'
        simp only [hd', Bool.false_eq_true, if_false]
        split
        · exact ⟨fun _ => happ, fun hc => by simp [hd'] at hc⟩
        · split
          · rename_i hfin
            refine ⟨fun hc => by simp at hc, fun _ => ?_⟩
            simp only
            rw [happ]
            have := hfin
            linarith
          · refine ⟨fun _ => by simp only; rw [happ], fun hc => by simp at hc⟩
  exact key ps ⟨0, 1, 0, false⟩ ⟨fun _ => rfl, fun h => by simp at h⟩

end RenoVerif.RKStep
