/-
  C01 — property theorems.

  * `automaton_eq_expand`: an MPO read as a weighted automaton — site `j` acts on the partial
    operator by the LINEAR map `T j p` for primary operator `p` (for the dense case
    `T j p O = O ⊗ opmat_j p`) — evaluates, for EVERY certificate, every number of sites and every
    linear representation `T`, to the value of its symbolic expansion.
  * `checkCert_sound`: if the executable checker accepts the implementation's
    `symbolic_out_ops_list` against the operator table, the automaton value equals the value of
    the table, i.e. `Σ_k c_k · (T applied along term k)`.
-/
import RenoVerif.Model.SymMpo
import RenoVerif.Lemmas.FormalSum
import Mathlib.Algebra.Module.LinearMap.Basic

namespace RenoVerif.SymMpo
open RenoVerif.FS

variable {R M : Type} [CommRing R] [AddCommGroup M] [Module R M]

/-- value of a row of primary operators: apply `T j p` site after site, starting at site `j0` -/
def val (T : Nat → Nat → M →ₗ[R] M) : Nat → M → Row → M
  | _, m, [] => m
  | j, m, p :: ps => val T (j+1) (T j p m) ps

theorem val_append (T : Nat → Nat → M →ₗ[R] M) (j : Nat) (m : M) (r : Row) (p : Nat) :
    val T j m (r ++ [p]) = T (j + r.length) p (val T j m r) := by
  induction r generalizing j m with
  | nil => simp [val]
  | cons q r ih =>
    simp only [List.cons_append, val, List.length_cons]
    rw [ih]; congr 2; omega

/-- the automaton: operators on bond `j+1` from those on bond `j` -/
def autoStep (T : Nat → Nat → M →ₗ[R] M) (j : Nat) (prev : List M) (ops : BondOps R) : List M :=
  ops.map fun o => (o.map fun t => t.factor • T j t.prim (prev.getD t.inIdx 0)).sum

def autoFrom (T : Nat → Nat → M →ₗ[R] M) : Nat → List M → List (BondOps R) → List M
  | _, prev, [] => prev
  | j, prev, ops :: rest => autoFrom T (j+1) (autoStep T j prev ops) rest

def expandFrom (prev : List (FSum Row R)) (bonds : List (BondOps R)) : List (FSum Row R) :=
  bonds.foldl expandStep prev

def rowsLen (j : Nat) (l : List (FSum Row R)) : Prop := ∀ s ∈ l, ∀ p ∈ s, p.1.length = j

theorem T_evalFS (T : Nat → Nat → M →ₗ[R] M) (m0 : M) (j pr : Nat) (s : FSum Row R)
    (hl : ∀ p ∈ s, p.1.length = j) :
    T j pr (evalFS (val T 0 m0) s) = evalFS (val T 0 m0) (s.map fun p => (p.1 ++ [pr], p.2)) := by
  induction s with
  | nil => simp
  | cons p s ih =>
    have hp := hl p List.mem_cons_self
    have hs : ∀ q ∈ s, q.1.length = j := fun q hq => hl q (List.mem_cons_of_mem _ hq)
    simp only [evalFS_cons, List.map_cons, map_add, map_smul, ih hs]
    rw [val_append, hp, Nat.zero_add]

theorem getD_map_eval (φ : Row → M) (l : List (FSum Row R)) (i : Nat) :
    (l.map (evalFS φ)).getD i 0 = evalFS φ (l.getD i []) := by
  simp only [List.getD_eq_getElem?_getD, List.getElem?_map]
  cases l[i]? <;> simp

theorem step_correct (T : Nat → Nat → M →ₗ[R] M) (m0 : M) (j : Nat) (prev : List (FSum Row R))
    (hl : rowsLen j prev) (ops : BondOps R) :
    autoStep T j (prev.map (evalFS (val T 0 m0))) ops
      = (expandStep prev ops).map (evalFS (val T 0 m0)) := by
  unfold autoStep expandStep
  rw [List.map_map]
  apply List.map_congr_left
  intro o ho
  clear ho
  simp only [Function.comp]
  induction o with
  | nil => simp
  | cons t o ih =>
    simp only [List.map_cons, List.sum_cons, List.flatMap_cons, evalFS_append, ih]
    congr 1
    rw [getD_map_eval]
    have hl' : ∀ p ∈ prev.getD t.inIdx [], p.1.length = j := by
      intro p hp
      rw [List.getD_eq_getElem?_getD] at hp
      cases h : prev[t.inIdx]? with
      | none => rw [h] at hp; simp at hp
      | some s => rw [h] at hp; exact hl s (List.mem_of_getElem? h) p hp
    rw [T_evalFS T m0 j t.prim _ hl', ← evalFS_map_smul]
    simp [List.map_map, Function.comp_def]

theorem rowsLen_step (j : Nat) (prev : List (FSum Row R)) (hl : rowsLen j prev) (ops : BondOps R) :
    rowsLen (j+1) (expandStep prev ops) := by
  intro s hs p hp
  unfold expandStep at hs
  rcases List.mem_map.mp hs with ⟨o, _, rfl⟩
  rcases List.mem_flatMap.mp hp with ⟨t, _, hpt⟩
  rcases List.mem_map.mp hpt with ⟨q, hq, rfl⟩
  have : q.1.length = j := by
    rw [List.getD_eq_getElem?_getD] at hq
    cases h : prev[t.inIdx]? with
    | none => rw [h] at hq; simp at hq
    | some s => rw [h] at hq; exact hl s (List.mem_of_getElem? h) q hq
  simp [this]

theorem autoFrom_correct (T : Nat → Nat → M →ₗ[R] M) (m0 : M) (bonds : List (BondOps R)) :
    ∀ (j : Nat) (prev : List (FSum Row R)), rowsLen j prev →
    autoFrom T j (prev.map (evalFS (val T 0 m0))) bonds
      = (expandFrom prev bonds).map (evalFS (val T 0 m0)) := by
  induction bonds with
  | nil => intro j prev _; rfl
  | cons ops rest ih =>
    intro j prev hl
    simp only [autoFrom, expandFrom, List.foldl_cons]
    rw [step_correct T m0 j prev hl ops]
    exact ih (j+1) _ (rowsLen_step j prev hl ops)

/-- **Automaton semantics of an MPO** (every certificate, every length, every representation). -/
theorem automaton_eq_expand (T : Nat → Nat → M →ₗ[R] M) (m0 : M) (bonds : List (BondOps R)) :
    autoFrom T 0 [m0] bonds = (expandAll bonds).map (evalFS (val T 0 m0)) := by
  have h := autoFrom_correct T m0 bonds 0 [[([], 1)]] (by
    intro s hs p hp
    simp only [List.mem_singleton] at hs; subst hs
    simp only [List.mem_singleton] at hp; subst hp; rfl)
  simpa [expandAll, expandFrom, val] using h

/-- **Soundness of the certificate checker.** If the checker accepts, the MPO automaton built
    from the implementation's bond operators evaluates to the value of the operator table:
    `Σ_rows factor • val(row)` — for every linear representation of the primary operators. -/
theorem checkCert_sound [DecidableEq R] (table : FSum Row R) (bonds : List (BondOps R))
    (h : checkCert table bonds = true) (T : Nat → Nat → M →ₗ[R] M) (m0 : M) :
    autoFrom T 0 [m0] bonds = [evalFS (val T 0 m0) table] := by
  unfold checkCert at h
  rw [Bool.and_eq_true] at h
  rw [automaton_eq_expand]
  split at h
  · rename_i w hw
    rw [hw]; simp only [List.map_cons, List.map_nil]
    rw [eqv_sound w table h.2]
  · cases h.2

/-- the two-site expansions agree ⇒ so do their values under any bilinear reading `B` of
    (operator on bond 1, prim at site 1, prim at site 2): the site-swap certificate -/
theorem checkSwap_sound [DecidableEq R] (old2 old3 new2 new3 : BondOps R)
    (h : checkSwap old2 old3 new2 new3 = true) (B : Nat × Nat × Nat → M) :
    (expand2 old2 old3).map (evalFS B)
      = (expand2 new2 new3).map (evalFS fun k => B (k.1, k.2.2, k.2.1)) := by
  unfold checkSwap at h
  simp only [Bool.and_eq_true, beq_iff_eq, List.all_eq_true] at h
  obtain ⟨hlen, hall⟩ := h
  rw [List.length_map] at hlen
  apply List.ext_getElem
  · simp [hlen]
  · intro i h1 h2
    simp only [List.getElem_map]
    simp only [List.length_map] at h1 h2
    have hz := hall ((expand2 old2 old3)[i], ((expand2 new2 new3).map fun s =>
        s.map fun p => ((p.1.1, p.1.2.2, p.1.2.1), p.2))[i]'(by simpa using h2)) (by
      rw [List.mem_iff_getElem]
      refine ⟨i, by simp [List.length_zip, h1, h2], ?_⟩
      simp [List.getElem_zip])
    have := eqv_sound _ _ hz B
    rw [this]
    simp only [List.getElem_map]
    generalize (expand2 new2 new3)[i] = s
    induction s with
    | nil => simp
    | cons p s ih => simp only [List.map_cons, evalFS_cons, ih]

-- non-vacuity: H = 2·A₁B₂ + 3·A₁C₂ as a bond-1 MPO  [A] – [2B+3C]; table rows [1,2]·2, [1,3]·3
private def exBonds : List (BondOps Int) :=
  [[[⟨0, 1, 1⟩]], [[⟨0, 2, 2⟩, ⟨0, 3, 3⟩]]]
example : checkCert [([1,2], 2), ([1,3], 3)] exBonds = true := by decide
example : checkCert [([1,2], 2), ([1,3], 4)] exBonds = false := by decide
example : checkCert [([1,3], 3), ([1,2], 1), ([1,2], 1)] exBonds = true := by decide

end RenoVerif.SymMpo
