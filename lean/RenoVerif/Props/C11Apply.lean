/-
  C11 / C12 / C02 (operator application on trees) — `TTNO.apply` in the recursive contraction model of `Props/C11Tree`:
  node by node the operator tensor is multiplied with the state tensor and summed over the incoming physical index; the
  state bond and the operator bond of every edge are merged into one bond with the row-major encoding
  `j = j_state * d_op + j_op` (the order of `output_indices` in the code).  Proved by mutual structural induction for
  EVERY tree shape and all dimensions: the contraction of the applied tree at the merged index equals the two-layer
  contraction of operator tree and state tree (`val_applyT`, `val_apply_root`) — i.e. the index bookkeeping of the merge
  (div / mod) is right at every node and every level.
  Tie (harness/c11.py `l2_apply_structure`): every node tensor returned by the real `TTNO.apply` on integer-valued random
  trees is compared entry by entry with the model tensor (einsum over the incoming physical indices, pairwise merge).
-/
import RenoVerif.Props.C11Tree
import Mathlib.Algebra.BigOperators.Intervals

open Finset
namespace RenoVerif.TreeVal

variable {R : Type} [CommRing R]

/-- sum over a product range, row-major flattening `j = a * n + b` (how the tree code merges an operator bond and a state
    bond into one bond when an operator is applied) -/
theorem sum_range_mul (m n : ℕ) (f : ℕ → R) :
    ∑ j ∈ range (m * n), f j = ∑ a ∈ range m, ∑ b ∈ range n, f (a * n + b) := by
  induction m with
  | zero => simp
  | succ m ih =>
    rw [Nat.succ_mul, Finset.sum_range_add, ih, Finset.sum_range_succ]

end RenoVerif.TreeVal

namespace RenoVerif.TreeVal
variable {R : Type} [CommRing R]

/-- an operator on a tree: like `TT`, with an outgoing and an incoming physical index (`ten js p_out p_in i`) and the
    physical dimension `pd` of the node -/
inductive OT (R : Type)
  | node (d : ℕ) (pd : ℕ) (ten : List ℕ → ℕ → ℕ → ℕ → R) (kids : List (OT R))

def OT.dim : OT R → ℕ | .node d _ _ _ => d

def divs : List ℕ → List ℕ → List ℕ
  | j :: js, d :: ds => (j / d) :: divs js ds
  | _, _ => []
def mods : List ℕ → List ℕ → List ℕ
  | j :: js, d :: ds => (j % d) :: mods js ds
  | _, _ => []

mutual
  /-- `TTNO.apply`: node by node, operator tensor times state tensor summed over the incoming physical index, the state
      bond and the operator bond of every edge merged into one bond (row-major, state index first: `j = j_state * d_op + j_op`,
      the order of `output_indices` in the code) -/
  def applyT : OT R → TT R → TT R
    | .node d_o pd tO ko, .node ds tS ks =>
      .node (ds * d_o)
        (fun js p i => ∑ q ∈ range pd,
          tO (mods js (ko.map OT.dim)) p q (i % d_o) * tS (divs js (ko.map OT.dim)) q (i / d_o))
        (applyL ko ks)
  def applyL : List (OT R) → List (TT R) → List (TT R)
    | o :: os, s :: ss => applyT o s :: applyL os ss
    | _, _ => []
end

mutual
  /-- the two-layer network (operator on top of state) contracted directly, the two bonds of every edge kept apart -/
  def val2 : OT R → TT R → Cf → ℕ → ℕ → R
    | .node _ pd tO ko, .node _ tS ks, .node p cs, io, is =>
      ∑ q ∈ range pd, val2L ko ks cs (fun jo js => tO jo p q io * tS js q is)
  def val2L : List (OT R) → List (TT R) → List Cf → (List ℕ → List ℕ → R) → R
    | [], [], _, f => f [] []
    | o :: os, s :: ss, c :: cs, f =>
      ∑ a ∈ range o.dim, ∑ b ∈ range s.dim, val2 o s c a b * val2L os ss cs (fun jo js => f (a :: jo) (b :: js))
    | _, _, _, _ => 0
end

theorem applyT_dim (o : OT R) (s : TT R) : (applyT o s).dim = s.dim * o.dim := by
  cases o; cases s; simp [applyT, TT.dim, OT.dim]

theorem valL_sum {ι : Type} (S : Finset ι) (ks : List (TT R)) (cs : List Cf) (g : ι → List ℕ → R) :
    valL ks cs (fun js => ∑ q ∈ S, g q js) = ∑ q ∈ S, valL ks cs (g q) := by
  classical
  induction S using Finset.induction_on with
  | empty => simp [valL_zero]
  | insert q S hq ih =>
    simp only [Finset.sum_insert hq]
    rw [valL_add, ih]

end RenoVerif.TreeVal

namespace RenoVerif.TreeVal
variable {R : Type} [CommRing R]

mutual
  def sameO : OT R → TT R → Prop
    | .node _ _ _ ko, .node _ _ ks => sameOL ko ks
  def sameOL : List (OT R) → List (TT R) → Prop
    | [], [] => True
    | o :: os, s :: ss => sameO o s ∧ sameOL os ss
    | _, _ => False
end

theorem divmod_enc (a b n : ℕ) (hb : b < n) : (a * n + b) / n = a ∧ (a * n + b) % n = b := by
  have hn : 0 < n := Nat.lt_of_le_of_lt (Nat.zero_le b) hb
  constructor
  · rw [Nat.add_comm, Nat.add_mul_div_right _ _ hn, Nat.div_eq_of_lt hb, Nat.zero_add]
  · rw [Nat.add_comm, Nat.add_mul_mod_self_right, Nat.mod_eq_of_lt hb]

mutual
  /-- **`TTNO.apply` is the two-layer contraction**: on the merged bond index `is * d_op + io` the contraction of the
      applied tree equals the contraction of operator tree and state tree together, for every tree shape -/
  theorem val_applyT : ∀ (o : OT R) (s : TT R) (c : Cf), sameO o s → ∀ io is, io < o.dim →
      val (applyT o s) c (is * o.dim + io) = val2 o s c io is
    | .node d_o pd tO ko, .node ds tS ks, .node p cs, h, io, is, hio => by
      simp only [applyT, val, val2, OT.dim] at hio ⊢
      obtain ⟨h1, h2⟩ := divmod_enc is io d_o hio
      rw [h1, h2, valL_sum]
      apply Finset.sum_congr rfl
      intro q _
      exact valL_apply ko ks cs h (fun jo js => tO jo p q io * tS js q is)
  theorem valL_apply : ∀ (ko : List (OT R)) (ks : List (TT R)) (cs : List Cf), sameOL ko ks →
      ∀ F : List ℕ → List ℕ → R,
      valL (applyL ko ks) cs (fun js => F (mods js (ko.map OT.dim)) (divs js (ko.map OT.dim))) = val2L ko ks cs F
    | [], [], _, _, F => by simp [applyL, valL, val2L, divs, mods]
    | [], _ :: _, _, h, _ => by simp [sameOL] at h
    | _ :: _, [], _, h, _ => by simp [sameOL] at h
    | o :: os, s :: ss, [], _, F => by simp [applyL, valL, val2L]
    | o :: os, s :: ss, c :: cs, h, F => by
      obtain ⟨hos, hrest⟩ := h
      simp only [applyL, valL, val2L, List.map_cons, applyT_dim]
      rw [sum_range_mul, Finset.sum_comm]
      apply Finset.sum_congr rfl
      intro a ha
      apply Finset.sum_congr rfl
      intro b _
      have ha' : a < o.dim := Finset.mem_range.mp ha
      obtain ⟨h1, h2⟩ := divmod_enc b a o.dim ha'
      rw [val_applyT o s c hos a b ha']
      congr 1
      have : (fun js => F (mods ((b * o.dim + a) :: js) (o.dim :: os.map OT.dim)) (divs ((b * o.dim + a) :: js) (o.dim :: os.map OT.dim)))
          = fun js => (fun jo js' => F (a :: jo) (b :: js')) (mods js (os.map OT.dim)) (divs js (os.map OT.dim)) := by
        funext js; simp only [divs, mods, h1, h2]
      rw [this]
      exact valL_apply os ss cs hrest (fun jo js' => F (a :: jo) (b :: js'))
end

/-- at the root both parent bonds are the dummy bond of dimension 1 -/
theorem val_apply_root (o : OT R) (s : TT R) (c : Cf) (h : sameO o s) (ho : 0 < o.dim) :
    val (applyT o s) c 0 = val2 o s c 0 0 := by
  simpa using val_applyT o s c h 0 0 ho

end RenoVerif.TreeVal
