/-
  C13 — operations return new objects and never disturb their inputs (effect model).
  For every finite program of derive / mutate / observe steps: well-formedness (no two live objects
  share a mutable cell) is an invariant, a derivation never changes what any existing object
  represents, an in-place modification of one object never changes any other object, and a
  measurement changes nothing.  The tie to the code is the observed write and sharing sets of the
  real methods (search_c13 / c13.py), which must stay inside these three classes.
-/
import RenoVerif.Model.Effects
import Mathlib.Data.List.Basic
import Mathlib.Data.List.Nodup

namespace RenoVerif.Effects

theorem getD_foldl_set_of_notMem (g : Nat → Nat) : ∀ (cs : List Nat) (h : List Nat) (c : Nat), c ∉ cs →
    (cs.foldl (fun h c' => h.set c' (g (h.getD c' 0))) h).getD c 0 = h.getD c 0
  | [], h, c, _ => rfl
  | c' :: cs, h, c, hn => by
    simp only [List.foldl_cons]
    rw [getD_foldl_set_of_notMem g cs _ c (fun hc => hn (List.mem_cons_of_mem _ hc))]
    have hne : c' ≠ c := fun e => hn (e ▸ List.mem_cons_self)
    simp [List.getD_eq_getElem?_getD, List.getElem?_set, hne]

theorem length_foldl_set (g : Nat → Nat) : ∀ (cs : List Nat) (h : List Nat),
    (cs.foldl (fun h c' => h.set c' (g (h.getD c' 0))) h).length = h.length
  | [], h => rfl
  | c :: cs, h => by simp only [List.foldl_cons]; rw [length_foldl_set g cs]; simp

/-- **measurement changes nothing** -/
theorem observe_frame (s : St) (i j : Nat) : read (step s (.observe i)) j = read s j := rfl

/-- **in-place modification of `i` never changes another object `j`** (given no shared cells) -/
theorem mutate_frame (s : St) (hwf : WF s) (i j : Nat) (hij : i ≠ j) (hi : i < s.objs.length) (hj : j < s.objs.length)
    (g : Nat → Nat) : read (step s (.mutate i g)) j = read s j := by
  unfold read step
  simp only
  apply List.map_congr_left
  intro c hc
  apply getD_foldl_set_of_notMem
  intro hci
  -- c belongs to both object i and object j: contradicts disjointness
  have hnd := hwf.2
  have oi : s.objs.getD i [] = s.objs[i] := by simp [List.getD_eq_getElem?_getD, hi]
  have oj : s.objs.getD j [] = s.objs[j] := by simp [List.getD_eq_getElem?_getD, hj]
  rw [oi] at hci; rw [oj] at hc
  have hpw := (List.nodup_flatten.mp hnd).2
  rcases Nat.lt_or_gt_of_ne hij with h | h
  · have := (List.pairwise_iff_getElem.mp hpw) i j hi hj h
    exact (List.disjoint_left.mp this) hci hc
  · have := (List.pairwise_iff_getElem.mp hpw) j i hj hi h
    exact (List.disjoint_left.mp this) hc hci

/-- **a derivation never changes what an existing object represents** -/
theorem derive_frame (s : St) (hwf : WF s) (i j : Nat) (hj : j < s.objs.length) (f : Nat → Nat) :
    read (step s (.derive i f)) j = read s j := by
  unfold read step
  simp only
  have oj : (s.objs ++ [List.map (fun x => x + s.heap.length) (List.range (List.map f (read s i)).length)]).getD j []
      = s.objs.getD j [] := by
    simp [List.getD_eq_getElem?_getD, List.getElem?_append_left hj]
  rw [oj]
  apply List.map_congr_left
  intro c hc
  have hlt : c < s.heap.length := by
    have : s.objs.getD j [] = s.objs[j] := by simp [List.getD_eq_getElem?_getD, hj]
    rw [this] at hc
    exact hwf.1 _ (List.getElem_mem hj) c hc
  simp [List.getD_eq_getElem?_getD, List.getElem?_append_left hlt]

/-- the result of a derivation owns only fresh cells: it shares nothing with any existing object -/
theorem derive_fresh (s : St) (hwf : WF s) (i : Nat) (f : Nat → Nat) :
    ∀ c ∈ (step s (.derive i f)).objs.getLast?.getD [], ∀ o ∈ s.objs, c ∉ o := by
  intro c hc o ho hco
  have hlt := hwf.1 o ho c hco
  simp only [step, List.getLast?_append, List.getLast?_singleton, Option.getD_some, Option.some_or] at hc
  rcases List.mem_map.mp hc with ⟨k, _, rfl⟩
  omega

/-- **well-formedness is an invariant of every step**, hence of every program -/
theorem wf_step (s : St) (hwf : WF s) (op : Op) : WF (step s op) := by
  cases op with
  | observe i => exact hwf
  | mutate i g =>
    constructor
    · intro o ho c hc
      simp only [step] at ho ⊢
      rw [length_foldl_set]
      exact hwf.1 o ho c hc
    · exact hwf.2
  | derive i f =>
    constructor
    · intro o ho c hc
      simp only [step, List.mem_append, List.mem_singleton] at ho
      simp only [step, List.length_append]
      rcases ho with ho | rfl
      · have := hwf.1 o ho c hc; omega
      · rcases List.mem_map.mp hc with ⟨k, hk, rfl⟩
        have := List.mem_range.mp hk
        omega
    · simp only [step, List.flatten_append, List.flatten_cons, List.flatten_nil, List.append_nil]
      rw [List.nodup_append]
      refine ⟨hwf.2, ?_, ?_⟩
      · apply List.Nodup.map_on
        · intro a _ b _ h; omega
        · exact List.nodup_range
      · intro a ha b hb
        rcases List.mem_flatten.mp ha with ⟨o, ho, hao⟩
        have hlt := hwf.1 o ho a hao
        rcases List.mem_map.mp hb with ⟨k, _, rfl⟩
        omega

theorem wf_run (ops : List Op) : ∀ (s : St), WF s → WF (run s ops) := by
  induction ops with
  | nil => intro s h; exact h
  | cons op ops ih => intro s h; exact ih _ (wf_step s h op)

/-- **no interference over histories**: a program whose in-place steps all address objects other
    than `j` (and arbitrary derivations and measurements, of `j` too) leaves `j` unchanged -/
theorem no_interference (j : Nat) : ∀ (ops : List Op) (s : St), WF s → j < s.objs.length →
    (∀ op ∈ ops, ∀ i g, op = Op.mutate i g → i ≠ j ∧ i < s.objs.length) →
    read (run s ops) j = read s j := by
  intro ops
  induction ops with
  | nil => intro s _ _ _; rfl
  | cons op ops ih =>
    intro s hwf hj hops
    have hlen : s.objs.length ≤ (step s op).objs.length := by
      cases op <;> simp [step]
    have h1 : read (step s op) j = read s j := by
      cases op with
      | observe i => rfl
      | derive i f => exact derive_frame s hwf i j hj f
      | mutate i g =>
        obtain ⟨hne, hi⟩ := hops _ List.mem_cons_self i g rfl
        exact mutate_frame s hwf i j hne hi hj g
    show read (run (step s op) ops) j = read s j
    rw [ih (step s op) (wf_step s hwf op) (by omega) (fun op' hop' i g he => by
      obtain ⟨a, b⟩ := hops op' (List.mem_cons_of_mem _ hop') i g he
      exact ⟨a, by omega⟩), h1]

-- non-vacuity: a concrete two-object heap is well formed; mutating one leaves the other alone
example : WF ⟨[5, 6, 7], [[0, 1], [2]]⟩ := by
  constructor
  · decide
  · decide
example : read (run ⟨[5, 6, 7], [[0, 1], [2]]⟩ [.derive 0 (· + 1), .mutate 0 (· * 2), .mutate 2 (· + 9)]) 1 = [7] := by
  decide

end RenoVerif.Effects
