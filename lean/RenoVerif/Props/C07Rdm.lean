/-
  C07 (reduced density matrices) — the one-site reduced density matrix through environments, for every chain length,
  bond and physical dimensions, every gauge: summing ψ ψ* over the configurations of all other sites equals
  Tr(G_L · M_s · G_R · M_{s′}ᴴ) with the Gram matrices (identity-operator environments) of the left and right parts;
  `gramL` is the transfer recursion `dotFrom` of the conjugated chain with the chain (what `Environ` computes); in the
  mixed-canonical gauge it reduces to Tr(M_s M_{s′}ᴴ); the result is Hermitian.  (`calc_1site_rdm` of the pinned tree
  returned the complex conjugate of this for complex states: defect D24.)  Tie: dense oracle of search_c07 (RDM values);
  the two-site / electronic RDMs and the entropies are decided by the dense oracle only.
-/
import RenoVerif.Lemmas.ChainDot
import Mathlib.LinearAlgebra.Matrix.Trace

namespace RenoVerif.Chain
open Matrix

variable {R : Type} [CommRing R] [StarRing R]

/-- Gram matrix of the left part (the left environment of the identity operator) -/
def gramL {ds : List ℕ} {l m : ℕ} (a : Chain R ds l m) : Matrix (Fin m) (Fin m) R :=
  ∑ c : Cfg ds, (amp a c)ᴴ * amp a c

/-- Gram matrix of the right part (the right environment of the identity operator) -/
def gramR {ds : List ℕ} {k r : ℕ} (b : Chain R ds k r) : Matrix (Fin k) (Fin k) R :=
  ∑ c : Cfg ds, amp b c * (amp b c)ᴴ

/-- scalar (1×1) amplitude of the configuration (cL, s, cR) of the chain `a ++ [M] ++ b` -/
def amp3 {ds1 ds2 : List ℕ} {d m k : ℕ} (a : Chain R ds1 1 m) (M : Site R d m k) (b : Chain R ds2 k 1)
    (cL : Cfg ds1) (s : Fin d) (cR : Cfg ds2) : R := (amp a cL * M s * amp b cR) 0 0

theorem one_by_one_mul_star (X Y : Matrix (Fin 1) (Fin 1) R) : X 0 0 * star (Y 0 0) = trace (X * Yᴴ) := by
  simp [Matrix.trace, Matrix.mul_apply, Matrix.conjTranspose_apply]

/-- **one-site reduced density matrix through environments** (any gauge): summing `ψ(…s…) ψ(…s'…)*` over all
    configurations of the other sites gives `Tr(G_L · M_s · G_R · M_{s'}ᴴ)` with the Gram matrices of the two parts -/
theorem rdm1_env {ds1 ds2 : List ℕ} {d m k : ℕ} (a : Chain R ds1 1 m) (M : Site R d m k) (b : Chain R ds2 k 1)
    (s s' : Fin d) :
    ∑ cL : Cfg ds1, ∑ cR : Cfg ds2, amp3 a M b cL s cR * star (amp3 a M b cL s' cR)
      = trace (gramL a * M s * gramR b * (M s')ᴴ) := by
  unfold amp3 gramL gramR
  simp_rw [one_by_one_mul_star]
  simp_rw [Matrix.conjTranspose_mul, Matrix.sum_mul, Matrix.mul_sum, Matrix.sum_mul, Matrix.trace_sum]
  apply Finset.sum_congr rfl; intro cL _
  apply Finset.sum_congr rfl; intro cR _
  -- tr(A M B Bᴴ M'ᴴ Aᴴ) = tr(Aᴴ A M B Bᴴ M'ᴴ)
  have e : amp a cL * M s * amp b cR * ((amp b cR)ᴴ * ((M s')ᴴ * (amp a cL)ᴴ))
      = (amp a cL * (M s * amp b cR * (amp b cR)ᴴ * (M s')ᴴ)) * (amp a cL)ᴴ := by
    simp only [Matrix.mul_assoc]
  rw [e, Matrix.trace_mul_comm]
  simp only [Matrix.mul_assoc]

/-- in the mixed-canonical gauge both environments are identities: `ρ(s,s') = Tr(M_s M_{s'}ᴴ)` -/
theorem rdm1_canonical {ds1 ds2 : List ℕ} {d m k : ℕ} (a : Chain R ds1 1 m) (M : Site R d m k) (b : Chain R ds2 k 1)
    (ha : gramL a = 1) (hb : gramR b = 1) (s s' : Fin d) :
    ∑ cL : Cfg ds1, ∑ cR : Cfg ds2, amp3 a M b cL s cR * star (amp3 a M b cL s' cR) = trace (M s * (M s')ᴴ) := by
  rw [rdm1_env, ha, hb, Matrix.one_mul, Matrix.mul_one]

/-- a left-canonical left part has the identity as environment (C04: `gram_of_allLeftIso`) -/
theorem gramL_of_allLeftIso {ds : List ℕ} {l m : ℕ} (a : Chain R ds l m) (h : AllLeftIso a) : gramL a = 1 :=
  gram_of_allLeftIso a h

/-- the left environment is what the library's transfer recursion (`Environ` with the identity operator, i.e. `dot` of the
    conjugated chain with the chain) computes -/
theorem gramL_eq_dotFrom {ds : List ℕ} {l m : ℕ} (a : Chain R ds l m) :
    gramL a = dotFrom (1 : Matrix (Fin l) (Fin l) R) (mapC (starRingEnd R) a) a := by
  rw [dotFrom_eq]
  unfold gramL
  apply Finset.sum_congr rfl
  intro c _
  rw [amp_mapC, Matrix.mul_one]
  rfl

/-- the reduced density matrix is Hermitian -/
theorem rdm1_hermitian {ds1 ds2 : List ℕ} {d m k : ℕ} (a : Chain R ds1 1 m) (M : Site R d m k) (b : Chain R ds2 k 1)
    (s s' : Fin d) :
    star (∑ cL : Cfg ds1, ∑ cR : Cfg ds2, amp3 a M b cL s cR * star (amp3 a M b cL s' cR))
      = ∑ cL : Cfg ds1, ∑ cR : Cfg ds2, amp3 a M b cL s' cR * star (amp3 a M b cL s cR) := by
  simp only [star_sum, star_mul', star_star, mul_comm]

end RenoVerif.Chain

namespace RenoVerif.Chain
variable {R : Type} [CommRing R] [StarRing R]
/-- non-vacuity: an empty left part has the identity as environment -/
example (l : ℕ) : gramL (R := R) (Chain.nil l) = 1 := by
  unfold gramL
  show ∑ c : Unit, _ = _
  simp [amp]

open Matrix in
/-- **trace of the one-site reduced density matrix = ⟨ψ|ψ⟩** (any gauge): the diagonal of the environment formula
    sums to the squared norm of the dense state -/
theorem rdm1_trace {ds1 ds2 : List ℕ} {d m k : ℕ} (a : Chain R ds1 1 m) (M : Site R d m k) (b : Chain R ds2 k 1) :
    ∑ s : Fin d, trace (gramL a * M s * gramR b * (M s)ᴴ)
      = ∑ s : Fin d, ∑ cL : Cfg ds1, ∑ cR : Cfg ds2, amp3 a M b cL s cR * star (amp3 a M b cL s cR) := by
  refine Finset.sum_congr rfl fun s _ => ?_
  rw [rdm1_env]

open Matrix in
/-- in the mixed-canonical gauge the trace is the squared Frobenius norm of the centre tensor -/
theorem rdm1_trace_canonical {ds1 ds2 : List ℕ} {d m k : ℕ} (a : Chain R ds1 1 m) (M : Site R d m k) (b : Chain R ds2 k 1)
    (hL : gramL a = 1) (hR : gramR b = 1) :
    ∑ s : Fin d, ∑ cL : Cfg ds1, ∑ cR : Cfg ds2, amp3 a M b cL s cR * star (amp3 a M b cL s cR)
      = ∑ s : Fin d, trace (M s * (M s)ᴴ) := by
  rw [← rdm1_trace]; simp [hL, hR]

end RenoVerif.Chain
