/-
  C06 — conserved quantum numbers are never violated.
  (1) Matrix level (any scalars, any label group): block-sparsity invariant ⇒ zero amplitude outside
      the sector; preserved by add / scale / conj / apply (sector shifted by the operator's charge)
      / label-respecting re-factorisation / masking.
  (2) Executable checker `checkInv` that is run on the support pattern and stored labels of the
      implementation's tensors: accepted ⇒ every chained path of non-zero entries carries total
      physical quantum number `qntot`.
-/
import RenoVerif.Lemmas.ChainQN
import RenoVerif.Model.QN

namespace RenoVerif.Chain
variable {R : Type} [CommRing R] {Q : Type} [AddCommGroup Q]

theorem c06_sector {ds : List ℕ} (c : Chain R ds 1 1) (sqs : SigmaQ Q ds) (qntot : Q)
    (h : ChainInv c (fun _ => 0) sqs (fun _ => qntot)) (cfg : Cfg ds) (hq : totalQ sqs cfg ≠ qntot) :
    amp c cfg 0 0 = 0 := zero_outside_sector c sqs qntot h cfg hq

theorem c06_add {ds : List ℕ} {l r l' r' : ℕ} {a : Chain R ds l r} {b : Chain R ds l' r'}
    {qL : Fin l → Q} {qR : Fin r → Q} {qL' : Fin l' → Q} {qR' : Fin r' → Q} {sqs : SigmaQ Q ds}
    (ha : ChainInv a qL sqs qR) (hb : ChainInv b qL' sqs qR') :
    ChainInv (addC a b) (catQ qL qL') sqs (catQ qR qR') := chainInv_addC ha hb

theorem c06_scale {ds : List ℕ} {l r : ℕ} {a : Chain R ds l r} {qL : Fin l → Q} {qR : Fin r → Q}
    {sqs : SigmaQ Q ds} (k : ℕ) (x : R) (h : ChainInv a qL sqs qR) : ChainInv (scaleAt k x a) qL sqs qR :=
  chainInv_scaleAt k x h

theorem c06_conj (f : R →+* R) {ds : List ℕ} {l r : ℕ} {a : Chain R ds l r} {qL : Fin l → Q}
    {qR : Fin r → Q} {sqs : SigmaQ Q ds} (h : ChainInv a qL sqs qR) : ChainInv (mapC f a) qL sqs qR :=
  chainInv_mapC f h

/-- applying an operator of charge `q` (labels `0 → q`) to a state of sector `qntot` gives a state
    whose amplitudes vanish outside sector `q + qntot` -/
theorem c06_apply_shifts_sector {ds : List ℕ} (w : OpChain R ds 1 1) (x : Chain R ds 1 1) (sqs : SigmaQ Q ds)
    (q qntot : Q) (hw : OpChainInv w (fun _ => 0) sqs (fun _ => q)) (hx : ChainInv x (fun _ => 0) sqs (fun _ => qntot))
    (cfg : Cfg ds) (i : Fin (1 * 1)) (j : Fin (1 * 1)) (hne : amp (applyC w x) cfg i j ≠ 0) :
    totalQ sqs cfg = q + qntot := by
  have h := sector_of_inv (chainInv_applyC hw hx) cfg i j hne
  simpa [krQ] using h

end RenoVerif.Chain

namespace RenoVerif.QN

theorem Q2.ext2 {x y : Q2} (h1 : x.a = y.a) (h2 : x.b = y.b) : x = y := by
  cases x; cases y; simp_all

theorem Q2.add_assoc2 (x y z : Q2) : x + y + z = x + (y + z) := by
  apply Q2.ext2 <;> show _ + _ + _ = _ + (_ + _) <;> omega

/-- end of a path: the right index of its last entry -/
def pathEnd : List (Nat × Nat × Nat) → Nat → Nat
  | [], l => l
  | e :: es, _ => pathEnd es e.2.2

/-- **soundness of the executable checker**: along every chained path of non-zero entries the
    left label plus the physical quantum numbers of the path equals the right label -/
theorem path_sum : ∀ (L : Labels) (sqs : List (List Q2)) (sups : List Support) (es : List (Nat × Nat × Nat))
    (l : Nat) (x : Q2), checkSites L sqs sups = true → isPath sups es l = true →
    L.head?.bind (·[l]?) = some x →
    L.getLast?.bind (·[pathEnd es l]?) = some (x + pathSigma sqs es)
  | [], _, _, _, _, _, h, _, _ => by simp [checkSites] at h
  | [q], [], [], [], l, x, _, _, hx => by
    simp only [List.head?_cons, Option.bind_some] at hx
    simp only [List.getLast?_singleton, Option.bind_some, pathEnd, pathSigma, hx]
    congr 1; apply Q2.ext2 <;> show _ = _ + (0 : Int) <;> omega
  | [q], [], [], _ :: _, _, _, _, hp, _ => by simp [isPath] at hp
  | [q], _ :: _, _, _, _, _, h, _, _ => by simp [checkSites] at h
  | [q], [], _ :: _, _, _, _, h, _, _ => by simp [checkSites] at h
  | qL :: qR :: rest, [], _, _, _, _, h, _, _ => by simp [checkSites] at h
  | qL :: qR :: rest, _ :: _, [], _, _, _, h, _, _ => by simp [checkSites] at h
  | qL :: qR :: rest, sq :: sqs, s :: sups, [], _, _, _, hp, _ => by simp [isPath] at hp
  | qL :: qR :: rest, sq :: sqs, s :: sups, e :: es, l, x, h, hp, hx => by
    simp only [checkSites, Bool.and_eq_true, List.all_eq_true] at h
    simp only [isPath, Bool.and_eq_true, beq_iff_eq, List.contains_iff_mem] at hp
    obtain ⟨⟨hl, hmem⟩, hrest⟩ := hp
    have hok := h.1 e hmem
    simp only [List.head?_cons, Option.bind_some] at hx
    unfold entryOK at hok
    rw [hl, hx] at hok
    cases hs : sq[e.2.1]? with
    | none => rw [hs] at hok; simp at hok
    | some sg =>
      cases hy : qR[e.2.2]? with
      | none => rw [hs, hy] at hok; simp at hok
      | some y =>
        rw [hs, hy] at hok
        simp only [beq_iff_eq] at hok
        have ih := path_sum (qR :: rest) sqs sups es e.2.2 y h.2 hrest (by simp [hy])
        simp only [pathEnd, pathSigma]
        have hg : sq.getD e.2.1 0 = sg := by simp [List.getD_eq_getElem?_getD, hs]
        rw [hg, ← Q2.add_assoc2, hok]
        simpa using ih

/-- accepted by `checkInv` ⇒ every closed path carries exactly `qntot` -/
theorem checkInv_sector (qn : Labels) (qnidx : Nat) (qntot : Q2) (sqs : List (List Q2)) (sups : List Support)
    (h : checkInv qn qnidx qntot sqs sups = true) (es : List (Nat × Nat × Nat))
    (hp : isPath sups es 0 = true) (hend : pathEnd es 0 = 0) : pathSigma sqs es = qntot := by
  unfold checkInv at h
  simp only [Bool.and_eq_true, beq_iff_eq] at h
  obtain ⟨⟨h0, hn⟩, hs⟩ := h
  have := path_sum _ sqs sups es 0 0 hs hp (by simp [h0])
  rw [hn, hend] at this
  simp only [Option.bind_some, List.getElem?_cons_zero, Option.some.injEq] at this
  rw [this]
  apply Q2.ext2 <;> show _ = (0 : Int) + _ <;> omega

/-- the pinned `add` (defect D1) concatenated the UN-moved labels of its first operand: a
    concrete two-site witness (single-particle sector; operand centres 0 and 1) on which the stale
    labels are rejected by the checker while the moved ones are accepted. -/
theorem add_stale_breaks_inv :
    let sq : List Q2 := [⟨0,0⟩, ⟨1,0⟩]
    let sups : List Support := [[(0,0,0),(0,1,1),(0,0,2),(0,1,3)], [(0,1,0),(1,0,0),(2,1,0),(3,0,0)]]
    let qa : Labels := [[⟨0,0⟩], [⟨1,0⟩, ⟨0,0⟩], [⟨0,0⟩]]      -- centre 0: bond 1 holds RIGHT labels
    let qb : Labels := [[⟨0,0⟩], [⟨0,0⟩, ⟨1,0⟩], [⟨0,0⟩]]      -- centre 1: bond 1 holds LEFT labels
    checkInv (addLabels qa 0 qb 1 ⟨1,0⟩) 1 ⟨1,0⟩ [sq, sq] sups = true ∧
    checkInv (addLabelsStale qa qb) 1 ⟨1,0⟩ [sq, sq] sups = false := by decide

end RenoVerif.QN
