/-
  C16 — harmonic-oscillator symbols (scaled number basis, exact rational / Gaussian-rational
  entries).  For EVERY basis size the truncated code matrices are restrictions of these infinite
  matrices, so the statements below are the "product in written order up to truncation at the
  highest level" claims for every size `N`, every `s = √(1/2ω)` and every origin `x0`.
  Partial: general powers `x^k`, `p^k` (k > 2), DVR variants and the sine-DVR integrals are
  validated numerically only.
-/
import RenoVerif.Model.SHO
import RenoVerif.Lemmas.GaussRatField
import Mathlib.Algebra.BigOperators.Group.Finset.Basic
import Mathlib.Algebra.BigOperators.Ring.Finset
import Mathlib.Algebra.BigOperators.Intervals
import Mathlib.Tactic.Ring
import Mathlib.Tactic.Linarith
import Mathlib.Tactic.SplitIfs
import Mathlib.Tactic.FieldSimp
import Mathlib.Tactic.NormNum

namespace RenoVerif.SHO
open RenoVerif Finset

theorem foldl_eq_sum (f : Nat → G) (N : Nat) :
    (List.range N).foldl (fun acc k => acc + f k) 0 = ∑ k ∈ Finset.range N, f k := by
  induction N with
  | zero => simp
  | succ N ih => rw [List.range_succ, List.foldl_append, ih, Finset.sum_range_succ]; simp

theorem mulM_eq (a c : IM) (m n : Nat) : mulM a c m n = ∑ k ∈ Finset.range (n + 3), a m k * c k n := by
  unfold mulM; exact foldl_eq_sum _ _

/-- lower band of the right factor: entries more than two rows below the diagonal vanish -/
def Band2 (c : IM) : Prop := ∀ k n, n + 2 < k → c k n = 0

/-- `mulM` IS the infinite matrix product for such right factors: the sum is stable -/
theorem mulM_stable (a c : IM) (hc : Band2 c) (m n K : Nat) (hK : n + 3 ≤ K) :
    ∑ k ∈ Finset.range K, a m k * c k n = mulM a c m n := by
  rw [mulM_eq]
  obtain ⟨d, rfl⟩ := Nat.exists_eq_add_of_le hK
  rw [Finset.sum_range_add]
  have : ∑ x ∈ Finset.range d, a m (n + 3 + x) * c (n + 3 + x) n = 0 := by
    apply Finset.sum_eq_zero
    intro x _
    rw [hc _ _ (by omega), mul_zero]
  rw [this, add_zero]

theorem ofNat_mul (j k : Nat) : ofNat j * ofNat k = ofNat (j * k) := by
  apply GaussRat.ext <;> simp [ofNat]

macro "ite_zero" : tactic =>
  `(tactic| (split_ifs <;> first | (exfalso; omega) | simp))

theorem sum_single (N : Nat) (f : Nat → G) (k0 : Nat) (hk0 : k0 < N) (h : ∀ k, k ≠ k0 → f k = 0) :
    ∑ k ∈ Finset.range N, f k = f k0 := by
  rw [Finset.sum_eq_single k0]
  · intro k _ hk; exact h k hk
  · intro hk; exact absurd (Finset.mem_range.mpr hk0) hk

theorem mul_b_b : mulM b b = b_b := by
  funext m n
  rw [mulM_eq]
  by_cases h : m + 2 = n
  · rw [sum_single _ _ (m + 1) (by omega)]
    · subst h
      have e1 : (if m + 1 = m + 1 then ofNat (m + 1) else (0 : G)) = ofNat (m + 1) := if_pos rfl
      have e2 : (if m + 1 + 1 = m + 2 then ofNat (m + 2) else (0 : G)) = ofNat (m + 2) := if_pos rfl
      simp only [b, b_b, e1, e2, if_true, ofNat_mul]
      congr 1
      have : m + 2 - 1 = m + 1 := by omega
      rw [this]; ring
    · intro k hk; simp only [b]; ite_zero
  · rw [Finset.sum_eq_zero]
    · simp only [b_b, if_neg h]
    · intro k _; simp only [b]; ite_zero

theorem mul_bd_bd : mulM bd bd = bd_bd := by
  funext m n
  rw [mulM_eq]
  by_cases h : m = n + 2
  · rw [sum_single _ _ (n + 1) (by omega)]
    · subst h; simp only [bd, bd_bd, if_true, mul_one]
    · intro k hk; simp only [bd]; ite_zero
  · rw [Finset.sum_eq_zero]
    · simp only [bd_bd, if_neg h]
    · intro k _; simp only [bd]; ite_zero

theorem ofNat_zero : ofNat 0 = 0 := by apply GaussRat.ext <;> simp [ofNat]

theorem mul_bd_b : mulM bd b = bd_b := by
  funext m n
  rw [mulM_eq]
  by_cases h : m = n
  · subst h
    by_cases h0 : m = 0
    · subst h0
      rw [Finset.sum_eq_zero]
      · simp only [bd_b, if_true, ofNat_zero]
      · intro k _; simp only [bd, b]; ite_zero
    · rw [sum_single _ _ (m - 1) (by omega)]
      · have e1 : m = m - 1 + 1 := by omega
        simp only [bd, b, bd_b, if_pos e1, if_pos e1.symm, if_true, one_mul]
      · intro k hk; simp only [bd, b]; ite_zero
  · rw [Finset.sum_eq_zero]
    · simp only [bd_b, if_neg h]
    · intro k _; simp only [bd, b]; ite_zero

theorem mul_b_bd : mulM b bd = b_bd := by
  funext m n
  rw [mulM_eq]
  by_cases h : m = n
  · subst h
    rw [sum_single _ _ (m + 1) (by omega)]
    · simp only [bd, b, b_bd, if_true, mul_one]
    · intro k hk; simp only [bd, b]; ite_zero
  · rw [Finset.sum_eq_zero]
    · simp only [b_bd, if_neg h]
    · intro k _; simp only [bd, b]; ite_zero

/-- canonical commutation relation `[b, b†] = 1` (exact at the untruncated level; after
    truncation to `N` levels it holds on the block `m, n < N − 1`) -/
theorem ccr_b : subM (mulM b bd) (mulM bd b) = oneM := by
  rw [mul_b_bd, mul_bd_b]
  funext m n
  simp only [subM, b_bd, bd_b, oneM]
  by_cases h : m = n
  · simp only [h, if_true]; apply GaussRat.ext <;> simp [ofNat]
  · simp [h]


/-! ### algebra of banded infinite matrices -/

theorem mulM_add_left (a a' c : IM) : mulM (addM a a') c = addM (mulM a c) (mulM a' c) := by
  funext m n; simp only [mulM_eq, addM, add_mul, Finset.sum_add_distrib]
theorem mulM_add_right (a c c' : IM) : mulM a (addM c c') = addM (mulM a c) (mulM a c') := by
  funext m n; simp only [mulM_eq, addM, mul_add, Finset.sum_add_distrib]
theorem mulM_sub_left (a a' c : IM) : mulM (subM a a') c = subM (mulM a c) (mulM a' c) := by
  funext m n; simp only [mulM_eq, subM, sub_mul, Finset.sum_sub_distrib]
theorem mulM_sub_right (a c c' : IM) : mulM a (subM c c') = subM (mulM a c) (mulM a c') := by
  funext m n; simp only [mulM_eq, subM, mul_sub, Finset.sum_sub_distrib]
theorem mulM_smul_left (x : G) (a c : IM) : mulM (smulM x a) c = smulM x (mulM a c) := by
  funext m n; simp only [mulM_eq, smulM, Finset.mul_sum, mul_assoc]
theorem mulM_smul_right (x : G) (a c : IM) : mulM a (smulM x c) = smulM x (mulM a c) := by
  funext m n; simp only [mulM_eq, smulM, Finset.mul_sum]
  apply Finset.sum_congr rfl; intro k _; ring
theorem mulM_one_right (a : IM) : mulM a oneM = a := by
  funext m n
  rw [mulM_eq, sum_single _ _ n (by omega)]
  · simp [oneM]
  · intro k hk; simp [oneM, hk]
theorem mulM_one_left (a : IM) (ha : Band2 a) : mulM oneM a = a := by
  funext m n
  rw [mulM_eq]
  by_cases h : m < n + 3
  · rw [sum_single _ _ m h]
    · simp [oneM]
    · intro k hk; simp [oneM, Ne.symm hk]
  · rw [Finset.sum_eq_zero, ha m n (by omega)]
    intro k hk
    have : k < n + 3 := Finset.mem_range.mp hk
    simp only [oneM]; rw [if_neg (by omega), zero_mul]

theorem band_b : Band2 b := by intro k n h; simp only [b]; rw [if_neg (by omega)]
theorem band_bd : Band2 bd := by intro k n h; simp only [bd]; rw [if_neg (by omega)]
theorem band_add (a c : IM) (ha : Band2 a) (hc : Band2 c) : Band2 (addM a c) := by
  intro k n h; simp [addM, ha k n h, hc k n h]
theorem band_sub (a c : IM) (ha : Band2 a) (hc : Band2 c) : Band2 (subM a c) := by
  intro k n h; simp [subM, ha k n h, hc k n h]
theorem band_smul (x : G) (a : IM) (ha : Band2 a) : Band2 (smulM x a) := by
  intro k n h; simp [smulM, ha k n h]

/-- `(b† + b)²` -/
theorem sq_bd_add_b : mulM (addM bd b) (addM bd b) = addM (addM (addM bd_bd bd_b) b_bd) b_b := by
  rw [mulM_add_left, mulM_add_right, mulM_add_right, mul_bd_bd, mul_bd_b, mul_b_bd, mul_b_b]
  funext m n; simp only [addM]; ring
/-- `(b† − b)²` -/
theorem sq_bd_sub_b : mulM (subM bd b) (subM bd b) = addM (subM (subM bd_bd bd_b) b_bd) b_b := by
  rw [mulM_sub_left, mulM_sub_right, mulM_sub_right, mul_bd_bd, mul_bd_b, mul_b_bd, mul_b_b]
  funext m n; simp only [addM, subM]; ring
theorem bdb_mul_bd_sub_b : mulM (addM bd b) (subM bd b) = subM (addM (subM bd_bd bd_b) b_bd) b_b := by
  rw [mulM_add_left, mulM_sub_right, mulM_sub_right, mul_bd_bd, mul_bd_b, mul_b_bd, mul_b_b]
  funext m n; simp only [addM, subM]; ring
theorem bd_sub_b_mul_bdb : mulM (subM bd b) (addM bd b) = subM (subM (addM bd_bd bd_b) b_bd) b_b := by
  rw [mulM_sub_left, mulM_add_right, mulM_add_right, mul_bd_bd, mul_bd_b, mul_b_bd, mul_b_b]
  funext m n; simp only [addM, subM]; ring

theorem ofRat_mul (p q : Rat) : ofRat p * ofRat q = ofRat (p * q) := by
  apply GaussRat.ext <;> simp [ofRat]
theorem ofRat_add (p q : Rat) : ofRat p + ofRat q = ofRat (p + q) := by
  apply GaussRat.ext <;> simp [ofRat]

/-- **`x^2` symbol = x·x**, every origin `x0`, every `s` -/
theorem x_sq (P : Par) : some (mulM (xM P) (xM P)) = opmat P "x^2" := by
  have hb : Band2 (xM P) := band_add _ _ (band_smul _ _ (band_add _ _ band_bd band_b))
    (band_smul _ _ (by intro k n h; simp only [oneM]; rw [if_neg (by omega)]))
  have e : mulM (xM P) (xM P) =
      addM (smulM (ofRat P.s) (addM (smulM (ofRat P.s) (mulM (addM bd b) (addM bd b))) (smulM (ofRat P.x0) (addM bd b))))
        (smulM (ofRat P.x0) (xM P)) := by
    conv_lhs => unfold xM
    rw [mulM_add_left, mulM_smul_left, mulM_smul_left, mulM_add_right, mulM_smul_right, mulM_smul_right,
      mulM_one_right]
    have := mulM_one_left (xM P) hb
    unfold xM at this
    rw [this]
    rfl
  have h2 : ofRat 2 = 2 := by
    have h : (2 : G) = 1 + 1 := one_add_one_eq_two.symm
    rw [h]; apply GaussRat.ext <;> simp [ofRat] <;> norm_num
  simp only [opmat]
  rw [e, sq_bd_add_b]
  congr 1
  funext m n
  simp only [addM, smulM, xM, oneM]
  split_ifs <;> simp only [← ofRat_mul, h2] <;> ring

/-- **`p^2` symbol = p·p** -/
theorem p_sq (P : Par) (hs : P.s ≠ 0) : some (mulM (pM P) (pM P)) = opmat P "p^2" := by
  simp only [opmat, pM]
  rw [mulM_smul_left, mulM_smul_right, sq_bd_sub_b]
  congr 1
  funext m n
  simp only [addM, subM, smulM]
  have h1 : iG * ofRat (1 / (2 * P.s)) * (iG * ofRat (1 / (2 * P.s))) = 0 - ofRat (1 / (4 * P.s * P.s)) := by
    apply GaussRat.ext <;> simp [iG, ofRat] <;> field_simp <;> ring
  rw [← mul_assoc, h1]

/-- `y p` with `y = x − x0 = s(b†+b)`: the product in the written order -/
theorem y_p (P : Par) (hs : P.s ≠ 0) :
    some (mulM (smulM (ofRat P.s) (addM bd b)) (pM P)) = opmat P "y p" := by
  simp only [opmat, pM]
  rw [mulM_smul_left, mulM_smul_right, bdb_mul_bd_sub_b]
  congr 1
  funext m n
  simp only [addM, subM, smulM]
  have h1 : ofRat P.s * (iG * ofRat (1 / (2 * P.s))) = (⟨0, 1/2⟩ : G) := by
    apply GaussRat.ext <;> simp [iG, ofRat] <;> field_simp
  rw [← mul_assoc, h1]
  have h2 : (⟨0, -1/2⟩ : G) = -(⟨0, 1/2⟩ : G) := by apply GaussRat.ext <;> simp <;> ring
  rw [h2]; ring

/-- `p y`: the other order — differs from `y p` exactly by the commutator -/
theorem p_y (P : Par) (hs : P.s ≠ 0) :
    some (mulM (pM P) (smulM (ofRat P.s) (addM bd b))) = opmat P "p y" := by
  simp only [opmat, pM]
  rw [mulM_smul_left, mulM_smul_right, bd_sub_b_mul_bdb]
  congr 1
  funext m n
  simp only [addM, subM, smulM]
  have h1 : iG * ofRat (1 / (2 * P.s)) * ofRat P.s = (⟨0, 1/2⟩ : G) := by
    apply GaussRat.ext <;> simp [iG, ofRat] <;> field_simp
  rw [← mul_assoc, h1]
  have h2 : (⟨0, -1/2⟩ : G) = -(⟨0, 1/2⟩ : G) := by apply GaussRat.ext <;> simp <;> ring
  rw [h2]; ring

/-- canonical commutator `[y, p] = i` (hence `[x, p] = i` for every origin) -/
theorem ccr_xp (P : Par) (hs : P.s ≠ 0) :
    subM (mulM (smulM (ofRat P.s) (addM bd b)) (pM P)) (mulM (pM P) (smulM (ofRat P.s) (addM bd b)))
      = smulM iG oneM := by
  have h1 := y_p P hs
  have h2 := p_y P hs
  simp only [opmat, Option.some.injEq] at h1 h2
  rw [h1, h2]
  funext m n
  simp only [subM, addM, smulM, b_b, bd_bd, bd_b, b_bd, oneM]
  by_cases h : m = n
  · subst h
    simp only [if_true, if_neg (show ¬ m + 2 = m by omega), if_neg (show ¬ m = m + 2 by omega)]
    apply GaussRat.ext <;> simp [ofNat, iG] <;> ring
  · simp only [if_neg h]
    split_ifs <;> (apply GaussRat.ext <;> simp [ofNat, iG])

-- the pinned table (defect D5) returned `p y` for the symbol "x p": the two closed forms differ
example : (smulM (⟨0, -1/2⟩ : G) (subM (addM (subM b_b bd_bd) bd_b) b_bd)) 0 0
    ≠ (smulM (⟨0, -1/2⟩ : G) (addM (subM (subM b_b bd_bd) bd_b) b_bd)) 0 0 := by decide +kernel

end RenoVerif.SHO
