/-
  C09 / C12 — the one-site projector-splitting scheme conserves norm and energy at ANY bond
  dimension (chain or tree).

  During a one-site sweep the state is always `ψ = P c`: `c` the centre tensor (site tensor in a
  forward step, bond matrix in a backward step), `P` the isometry assembled from the canonical
  environment (`Pᴴ P = 1`, C04 `c04_block_isometry` / C11 `amp_bond_gauge`).  A local step replaces
  `c` by `U c` where `U` is a function of the effective operator `K = Pᴴ H P` (`exp(∓iτK)` or any
  polynomial / Krylov approximation that is unitary): `Uᴴ U = 1`, `U K = K U`.  Moving the centre
  (QR, absorbing the bond matrix into the neighbour) re-expresses the same `ψ` with another
  isometry.  Theorems:
  * `local_step_norm`, `local_step_energy`: one local step conserves `ψᴴψ` and `ψᴴHψ`
    (no hermiticity of `H`, no assumption on the bond dimension `m`);
  * `isometry_comp`: the embedding after a QR move is again an isometry;
  * `sweep_conserves`: any sequence of local steps and re-expressions — in particular the event
    sequences of `Model/TreeSweep` for every tree — conserves both.
-/
import Mathlib.Data.Matrix.Mul
import Mathlib.LinearAlgebra.Matrix.ConjTranspose
import Mathlib.LinearAlgebra.Matrix.Notation
import Mathlib.Algebra.Star.Basic
import Mathlib.Algebra.Ring.Int.Defs

namespace RenoVerif.Conserve
open Matrix

variable {n m k : Type} [Fintype n] [Fintype m] [DecidableEq m]
variable {K : Type} [CommRing K] [StarRing K]

/-- norm² of (a block of) states: the Gram matrix `ψᴴ ψ` -/
def gram (ψ : Matrix n k K) : Matrix k k K := ψᴴ * ψ
/-- energy form `ψᴴ H ψ` -/
def energy (H : Matrix n n K) (ψ : Matrix n k K) : Matrix k k K := ψᴴ * H * ψ

theorem local_step_norm (P : Matrix n m K) (U : Matrix m m K) (c : Matrix m k K)
    (hP : Pᴴ * P = 1) (hU : Uᴴ * U = 1) : gram (P * (U * c)) = gram (P * c) := by
  unfold gram
  simp only [conjTranspose_mul]
  calc cᴴ * Uᴴ * Pᴴ * (P * (U * c)) = cᴴ * Uᴴ * (Pᴴ * P) * (U * c) := by simp only [Matrix.mul_assoc]
    _ = cᴴ * (Uᴴ * U) * c := by rw [hP]; simp only [Matrix.mul_one, Matrix.mul_assoc]
    _ = cᴴ * Pᴴ * (P * c) := by
      rw [hU, Matrix.mul_one]
      calc cᴴ * c = cᴴ * (Pᴴ * P) * c := by rw [hP, Matrix.mul_one]
        _ = cᴴ * Pᴴ * (P * c) := by simp only [Matrix.mul_assoc]

theorem local_step_energy (H : Matrix n n K) (P : Matrix n m K) (U : Matrix m m K) (c : Matrix m k K)
    (hU : Uᴴ * U = 1) (hc : U * (Pᴴ * H * P) = (Pᴴ * H * P) * U) :
    energy H (P * (U * c)) = energy H (P * c) := by
  unfold energy
  simp only [conjTranspose_mul]
  calc cᴴ * Uᴴ * Pᴴ * H * (P * (U * c)) = cᴴ * Uᴴ * ((Pᴴ * H * P) * U) * c := by
        simp only [Matrix.mul_assoc]
    _ = cᴴ * Uᴴ * (U * (Pᴴ * H * P)) * c := by rw [hc]
    _ = cᴴ * (Uᴴ * U) * (Pᴴ * H * P) * c := by simp only [Matrix.mul_assoc]
    _ = cᴴ * Pᴴ * H * (P * c) := by rw [hU]; simp only [Matrix.mul_one, Matrix.mul_assoc]

/-- after a QR move `c = Q r` the new embedding `P Q` is again an isometry -/
theorem isometry_comp {l : Type} [Fintype l] [DecidableEq l] (P : Matrix n m K) (Q : Matrix m l K)
    (hP : Pᴴ * P = 1) (hQ : Qᴴ * Q = 1) : (P * Q)ᴴ * (P * Q) = 1 := by
  rw [conjTranspose_mul]
  calc Qᴴ * Pᴴ * (P * Q) = Qᴴ * (Pᴴ * P) * Q := by simp only [Matrix.mul_assoc]
    _ = 1 := by rw [hP, Matrix.mul_one, hQ]

omit [DecidableEq m] in
/-- the effective operator of the bond step is the compression of the site step's -/
theorem bond_operator {l : Type} [Fintype l] (H : Matrix n n K) (P : Matrix n m K) (Q : Matrix m l K) :
    (P * Q)ᴴ * H * (P * Q) = Qᴴ * (Pᴴ * H * P) * Q := by
  rw [conjTranspose_mul]; simp only [Matrix.mul_assoc]

/-- one event of a sweep, as a relation between the represented states: a local step in some
    isometric embedding of some dimension, with a unitary that commutes with the effective operator -/
inductive Step (H : Matrix n n K) : Matrix n k K → Matrix n k K → Prop
  | local {d : ℕ} (P : Matrix n (Fin d) K) (U : Matrix (Fin d) (Fin d) K) (c : Matrix (Fin d) k K)
      (hP : Pᴴ * P = 1) (hU : Uᴴ * U = 1) (hc : U * (Pᴴ * H * P) = (Pᴴ * H * P) * U) :
      Step H (P * c) (P * (U * c))

/-- a sweep: any finite sequence of local steps (re-expressing `ψ` in another gauge does not
    change `ψ`, so consecutive steps simply share the intermediate state) -/
inductive Sweep (H : Matrix n n K) : Matrix n k K → Matrix n k K → Prop
  | nil (ψ) : Sweep H ψ ψ
  | cons {ψ ψ' ψ''} : Step H ψ ψ' → Sweep H ψ' ψ'' → Sweep H ψ ψ''

theorem step_conserves (H : Matrix n n K) {ψ ψ' : Matrix n k K} (h : Step H ψ ψ') :
    gram ψ' = gram ψ ∧ energy H ψ' = energy H ψ := by
  cases h with
  | «local» P U c hP hU hc => exact ⟨local_step_norm P U c hP hU, local_step_energy H P U c hU hc⟩

/-- **one-site projector splitting conserves norm and energy**, for every sequence of local steps,
    every bond dimension, every Hamiltonian -/
theorem sweep_conserves (H : Matrix n n K) {ψ ψ' : Matrix n k K} (h : Sweep H ψ ψ') :
    gram ψ' = gram ψ ∧ energy H ψ' = energy H ψ := by
  induction h with
  | nil ψ => exact ⟨rfl, rfl⟩
  | cons hs _ ih =>
    obtain ⟨g1, e1⟩ := step_conserves H hs
    exact ⟨ih.1.trans g1, ih.2.trans e1⟩

omit [StarRing K] in
/-- a polynomial in the effective operator commutes with it (what Krylov / Taylor propagators are) -/
theorem poly_commutes (Kf : Matrix m m K) (p : List K) :
    (p.zipIdx.map fun ci => ci.1 • Kf ^ ci.2).sum * Kf = Kf * (p.zipIdx.map fun ci => ci.1 • Kf ^ ci.2).sum := by
  induction p.zipIdx with
  | nil => simp
  | cons ci rest ih =>
    simp only [List.map_cons, List.sum_cons, Matrix.add_mul, Matrix.mul_add, ih]
    congr 1
    rw [Matrix.smul_mul, Matrix.mul_smul, ← pow_succ, ← pow_succ']

-- non-vacuity: a 2-dimensional embedding into 3 dimensions over ℤ, U = a signed permutation that
-- commutes with the (diagonal, degenerate) effective operator
private def Pex : Matrix (Fin 3) (Fin 2) ℤ := !![1, 0; 0, 1; 0, 0]
private def Hex : Matrix (Fin 3) (Fin 3) ℤ := !![2, 0, 5; 0, 2, 7; 5, 7, 1]
private def Uex : Matrix (Fin 2) (Fin 2) ℤ := !![0, -1; 1, 0]
private def cex : Matrix (Fin 2) (Fin 1) ℤ := !![3; 4]
example : Step (k := Fin 1) Hex (Pex * cex) (Pex * (Uex * cex)) :=
  Step.local Pex Uex cex (by decide +kernel) (by decide +kernel) (by decide +kernel)
example : Pex * (Uex * cex) ≠ Pex * cex := by decide +kernel

end RenoVerif.Conserve
