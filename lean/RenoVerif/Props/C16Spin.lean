/-
  C16 — spin matrices obey the Pauli algebra; a symbol written as a product is the matrix product
  in the written order; multi-electron matrices place a single 1 at the documented position and
  multiply like one-particle transition operators.
-/
import RenoVerif.Model.Spin
import Mathlib.Data.Matrix.Basis
import Mathlib.Tactic.Ring

namespace RenoVerif.Spin

@[ext] theorem GI.ext' {x y : GI} (h1 : x.re = y.re) (h2 : x.im = y.im) : x = y := by
  cases x; cases y; simp_all
@[simp] theorem GI.mul_re (x y : GI) : (x * y).re = x.re * y.re - x.im * y.im := rfl
@[simp] theorem GI.mul_im (x y : GI) : (x * y).im = x.re * y.im + x.im * y.re := rfl
@[simp] theorem GI.add_re (x y : GI) : (x + y).re = x.re + y.re := rfl
@[simp] theorem GI.add_im (x y : GI) : (x + y).im = x.im + y.im := rfl
@[simp] theorem GI.one_re : (1 : GI).re = 1 := rfl
@[simp] theorem GI.one_im : (1 : GI).im = 0 := rfl
@[simp] theorem GI.zero_re : (0 : GI).re = 0 := rfl
@[simp] theorem GI.zero_im : (0 : GI).im = 0 := rfl

@[simp] theorem M2.mul_a (x y : M2) : (x * y).a = x.a * y.a + x.b * y.c := rfl
@[simp] theorem M2.mul_b (x y : M2) : (x * y).b = x.a * y.b + x.b * y.d := rfl
@[simp] theorem M2.mul_c (x y : M2) : (x * y).c = x.c * y.a + x.d * y.c := rfl
@[simp] theorem M2.mul_d (x y : M2) : (x * y).d = x.c * y.b + x.d * y.d := rfl
@[ext] theorem M2.ext' {x y : M2} (h1 : x.a = y.a) (h2 : x.b = y.b) (h3 : x.c = y.c) (h4 : x.d = y.d) : x = y := by
  cases x; cases y; simp_all

theorem M2.mul_assoc' (x y z : M2) : x * y * z = x * (y * z) := by
  ext <;> simp <;> ring
theorem M2.one_mul' (x : M2) : 1 * x = x := by
  ext <;> simp [show (1 : M2).a = 1 from rfl, show (1 : M2).b = 0 from rfl, show (1 : M2).c = 0 from rfl,
    show (1 : M2).d = 1 from rfl]
theorem M2.mul_one' (x : M2) : x * 1 = x := by
  ext <;> simp [show (1 : M2).a = 1 from rfl, show (1 : M2).b = 0 from rfl, show (1 : M2).c = 0 from rfl,
    show (1 : M2).d = 1 from rfl]

theorem foldl_mul (w : List Sym) (x : M2) : w.foldl (fun acc s => acc * s.mat) x = x * wordMat w := by
  induction w generalizing x with
  | nil => simp [wordMat, M2.mul_one']
  | cons s w ih =>
    simp only [List.foldl_cons, wordMat]
    rw [ih, ih (1 * s.mat), M2.one_mul', M2.mul_assoc']

/-- **a product symbol denotes the matrix product in the written order**, every pair of words -/
theorem wordMat_append (u v : List Sym) : wordMat (u ++ v) = wordMat u * wordMat v := by
  unfold wordMat
  rw [List.foldl_append, foldl_mul]
  rfl

theorem wordMat_cons (s : Sym) (w : List Sym) : wordMat (s :: w) = s.mat * wordMat w := by
  have := wordMat_append [s] w
  simpa [wordMat, M2.one_mul'] using this

/-! ### the Pauli algebra (finite table: `decide` over all cases is a proof) -/
open RenoVerif.Spin.Sym

theorem pauli_square : ∀ s ∈ [X, Y, Z], s.mat * s.mat = 1 := by decide
theorem pauli_cyclic : X.mat * Y.mat = smul gi Z.mat ∧ Y.mat * Z.mat = smul gi X.mat ∧ Z.mat * X.mat = smul gi Y.mat := by decide
theorem pauli_anticommute : X.mat * Y.mat + Y.mat * X.mat = 0 ∧ Y.mat * Z.mat + Z.mat * Y.mat = 0 ∧
    Z.mat * X.mat + X.mat * Z.mat = 0 := by decide
theorem iY_def : iY.mat = smul gi Y.mat := by decide
theorem ladder_def : P.mat + P.mat = X.mat + smul gi Y.mat ∧ M.mat + M.mat = X.mat - smul gi Y.mat := by decide
theorem ladder_commutator : P.mat * M.mat - M.mat * P.mat = Z.mat ∧ P.mat * M.mat + M.mat * P.mat = 1 ∧
    P.mat * P.mat = 0 ∧ M.mat * M.mat = 0 := by decide
theorem identity_neutral : ∀ s ∈ [I, X, Y, iY, Z, P, M], I.mat * s.mat = s.mat ∧ s.mat * I.mat = s.mat := by decide
theorem ladder_z : Z.mat * P.mat = P.mat ∧ P.mat * Z.mat = smul ⟨-1, 0⟩ P.mat ∧
    Z.mat * M.mat = smul ⟨-1, 0⟩ M.mat ∧ M.mat * Z.mat = M.mat := by decide

/-! ### multi-electron tables -/
open Matrix

/-- the accepted two-symbol products are matrix units with the single 1 where the docs say -/
theorem multiE_adagA (n : ℕ) (i j r c : Fin n) :
    multiE .adagA i j r c = some ((Matrix.single i j (1 : ℤ)) r c) := by
  simp only [multiE, Matrix.single_apply, Fin.ext_iff, Option.some.injEq]
  congr 1; apply propext; constructor <;> (rintro ⟨h1, h2⟩; exact ⟨h1.symm, h2.symm⟩)

theorem multiE_aAdag (n : ℕ) (i j r c : Fin n) :
    multiE .aAdag i j r c = some ((Matrix.single j i (1 : ℤ)) r c) := by
  simp only [multiE, Matrix.single_apply, Fin.ext_iff, Option.some.injEq]
  congr 1; apply propext; constructor <;> (rintro ⟨h1, h2⟩; exact ⟨h1.symm, h2.symm⟩)

/-- transition operators multiply as `(a†_i a_j)(a†_k a_l) = δ_jk a†_i a_l`, any number of states -/
theorem transition_mul (n : ℕ) (i j k l : Fin n) :
    Matrix.single i j (1 : ℤ) * Matrix.single k l 1 = if j = k then Matrix.single i l 1 else 0 := by
  by_cases h : j = k
  · subst h; simp
  · rw [if_neg h, Matrix.single_mul_single_of_ne (h := h)]

/-- with a vacuum state: `a†_i = |i+1⟩⟨0|`, `a_i = ⟨i+1| … |0⟩`, and `a†_i a_j` is their product -/
theorem vac_adagA_is_product (n : ℕ) (i j : Fin n) :
    (Matrix.single i.succ (0 : Fin (n + 1)) (1 : ℤ)) * Matrix.single 0 j.succ 1 = Matrix.single i.succ j.succ 1 := by
  simp

/-- the table entry the class stores for "a a^†" (`|j+1⟩⟨i+1|`) is NOT the product `a_i a†_j = δ_ij |0⟩⟨0|`
    (open finding of C16: the symbol denotes the normal-ordered transition operator instead) -/
theorem vac_aAdag_table_ne_product :
    (Matrix.single (0 : Fin 2) (1 : Fin 2) (1 : ℤ)) * Matrix.single (1 : Fin 2) (0 : Fin 2) (1 : ℤ)
      ≠ Matrix.single (1 : Fin 2) (1 : Fin 2) (1 : ℤ) := by
  intro h
  have := congrFun (congrFun h 0) 0
  simp [Matrix.single_apply] at this

-- non-vacuity / sanity
example : wordMat [X, Y, Z] = smul gi 1 := by decide
example : opMat ["sigma_+", "sigma_-"] = some ⟨1, 0, 0, 0⟩ := by decide
example : opMat ["sigma_w"] = none := by decide

end RenoVerif.Spin
