/-
  C20 — property theorems: weak duality (any vertex cover is at least as large as any
  matching) and soundness of the certificate checker that is run on the REAL outputs of
  `bipartite_vertex_cover` for both algorithms.
-/
import RenoVerif.Model.Cover
import Batteries.Data.List.Perm

namespace RenoVerif.Cover

theorem lt_of_getD_true (c : List Bool) (i : Nat) (h : c.getD i false = true) : i < c.length := by
  rw [List.getD_eq_getElem?_getD] at h
  cases hh : c[i]? with
  | none => rw [hh] at h; simp at h
  | some b => exact (List.getElem?_eq_some_iff.mp hh).1

/-- a list of distinct indices at which `c` is true is no longer than `countTrue c` -/
theorem nodup_true_le (c : List Bool) (l : List Nat) (hn : l.Nodup)
    (ht : ∀ i ∈ l, c.getD i false = true) : l.length ≤ countTrue c := by
  unfold countTrue trueIdx
  apply List.Subperm.length_le
  apply List.subperm_of_subset hn
  intro i hi
  have h := ht i hi
  rw [List.mem_filter, List.mem_range]
  exact ⟨lt_of_getD_true c i h, h⟩

/-- **Weak duality.**  If `ps` is a matching (no `U` vertex and no `V` vertex used twice) all
    of whose edges are covered by `(cU, cV)`, then `|ps| ≤ |cover|`. -/
theorem weak_duality (ps : List (Nat × Nat)) (cU cV : List Bool)
    (hu : (ps.map (·.1)).Nodup) (hv : (ps.map (·.2)).Nodup)
    (hc : ∀ e ∈ ps, coversEdge cU cV e = true) :
    ps.length ≤ countTrue cU + countTrue cV := by
  let A := ps.filter fun e => cU.getD e.1 false
  let B := ps.filter fun e => !(cU.getD e.1 false)
  have hlen : ps.length = A.length + B.length := by
    have := List.length_eq_countP_add_countP (fun e : Nat × Nat => cU.getD e.1 false) (l := ps)
    simp only [List.countP_eq_length_filter] at this
    simp only [A, B]
    rw [this]
    congr 2
    apply List.filter_congr
    intro e _
    simp
  have hA : A.length ≤ countTrue cU := by
    have := nodup_true_le cU (A.map (·.1)) (hu.sublist (List.Sublist.map _ List.filter_sublist)) (by
      intro i hi
      rcases List.mem_map.mp hi with ⟨e, he, rfl⟩
      exact (List.mem_filter.mp he).2)
    simpa using this
  have hB : B.length ≤ countTrue cV := by
    have := nodup_true_le cV (B.map (·.2)) (hv.sublist (List.Sublist.map _ List.filter_sublist)) (by
      intro i hi
      rcases List.mem_map.mp hi with ⟨e, he, rfl⟩
      have h1 := (List.mem_filter.mp he)
      have h2 := hc e h1.1
      unfold coversEdge at h2
      have h3 : cU.getD e.1 false = false := by simpa using h1.2
      rw [h3] at h2
      simpa using h2)
    simpa using this
  omega

theorem mem_edgesOf (g : Graph) (e : Nat × Nat) : isEdge g e = true → e ∈ edgesOf g := by
  intro h
  unfold isEdge at h
  unfold edgesOf
  rw [List.mem_flatMap]
  rw [List.getD_eq_getElem?_getD] at h
  cases hh : g[e.1]? with
  | none => rw [hh] at h; simp at h
  | some adj =>
    rw [hh] at h
    refine ⟨(adj, e.1), ?_, ?_⟩
    · rw [List.mem_zipIdx_iff_getElem?]; exact hh
    · simp only [List.mem_map]
      exact ⟨e.2, by simpa using h, rfl⟩

def IsCover (g : Graph) (cU cV : List Bool) : Prop := ∀ e ∈ edgesOf g, coversEdge cU cV e = true

/-- a matching of `g`: edges of `g`, no endpoint repeated -/
def IsMatching (g : Graph) (ps : List (Nat × Nat)) : Prop :=
  (∀ e ∈ ps, e ∈ edgesOf g) ∧ (ps.map (·.1)).Nodup ∧ (ps.map (·.2)).Nodup

/-- any cover is at least as large as any matching -/
theorem cover_ge_matching (g : Graph) (ps : List (Nat × Nat)) (cU cV : List Bool)
    (hm : IsMatching g ps) (hc : IsCover g cU cV) : ps.length ≤ countTrue cU + countTrue cV :=
  weak_duality ps cU cV hm.2.1 hm.2.2 (fun e he => hc e (hm.1 e he))

/-- **Soundness of the certificate checker.**  If `checkCert` accepts the implementation's cover
    together with a matching table, then the cover touches every edge, it is a MINIMUM vertex
    cover, the matching is a MAXIMUM matching, and |cover| = |matching| (König). -/
theorem checkCert_sound (g : Graph) (cU cV : List Bool) (m : List (Option Nat))
    (h : checkCert g cU cV m = true) :
    IsCover g cU cV ∧ IsMatching g (pairs m) ∧
    countTrue cU + countTrue cV = (pairs m).length ∧
    (∀ cU' cV', IsCover g cU' cV' → countTrue cU + countTrue cV ≤ countTrue cU' + countTrue cV') ∧
    (∀ ps', IsMatching g ps' → ps'.length ≤ (pairs m).length) := by
  unfold checkCert at h
  simp only [Bool.and_eq_true, List.all_eq_true, decide_eq_true_eq, beq_iff_eq] at h
  obtain ⟨⟨⟨⟨he, hu⟩, hv⟩, hcov⟩, hsz⟩ := h
  have hM : IsMatching g (pairs m) := ⟨fun e h => mem_edgesOf g e (he e h), hu, hv⟩
  have hC : IsCover g cU cV := hcov
  refine ⟨hC, hM, hsz, ?_, ?_⟩
  · intro cU' cV' hc'
    rw [hsz]; exact cover_ge_matching g _ cU' cV' hM hc'
  · intro ps' hm'
    rw [← hsz]; exact cover_ge_matching g ps' cU cV hm' hC

-- non-vacuity: a path graph u0–v0–u1–v1 has cover {v0, u1}… accepted; a non-cover is rejected
example : checkCert [[0],[0,1]] [false,true] [true,false] [some 0, some 1] = true := by decide
example : checkCert [[0],[0,1]] [false,true] [false,false] [some 0, some 1] = false := by decide
example : (coverHungarian [[0],[0,1]]).toOption = some ([true,true],[false,false]) := by decide +kernel
example : (coverHungarian [[0,1],[0],[0]]).toOption = some ([true,false,false],[true,false]) := by decide +kernel

end RenoVerif.Cover

namespace RenoVerif.Cover

/-! ### the König closure model itself: whenever `new_konig` returns (none of its assertions
    fires), the returned tables cover every edge — for every graph and every matching table. -/

def AllMarked (g : Graph) (vU vV : List Bool) : Prop :=
  ∀ u, vU.getD u false = true → ∀ v ∈ g.getD u [], vV.getD v false = true

def Grows (a b : List Bool) : Prop := a.length = b.length ∧ ∀ i, a.getD i false = true → b.getD i false = true

theorem grows_refl (a : List Bool) : Grows a a := ⟨rfl, fun _ h => h⟩
theorem grows_trans {a b c : List Bool} (h1 : Grows a b) (h2 : Grows b c) : Grows a c :=
  ⟨h1.1.trans h2.1, fun i h => h2.2 i (h1.2 i h)⟩

theorem getD_set_true (l : List Bool) (i j : Nat) (hj : j < l.length) :
    (l.set j true).getD i false = (if i = j then true else l.getD i false) := by
  simp only [List.getD_eq_getElem?_getD, List.getElem?_set]
  by_cases h : j = i
  · subst h; simp [hj]
  · simp [h, Ne.symm h]

theorem grows_set (l : List Bool) (j : Nat) (hj : j < l.length) : Grows l (l.set j true) := by
  refine ⟨by simp, fun i h => ?_⟩
  rw [getD_set_true l i j hj]; split <;> simp_all

/-- the inner loop marks every neighbour in its list, and only adds marks -/
theorem scan_spec (matchV : List (Option Nat)) : ∀ (vs wait : List Nat) (vV : List Bool) (wait' : List Nat) (vV' : List Bool),
    (∀ v ∈ vs, v < vV.length) → scan matchV vs wait vV = .ok (wait', vV') →
    Grows vV vV' ∧ ∀ v ∈ vs, vV'.getD v false = true
  | [], wait, vV, wait', vV', _, h => by
    simp only [scan, Except.ok.injEq, Prod.mk.injEq] at h
    obtain ⟨_, rfl⟩ := h
    exact ⟨grows_refl _, by simp⟩
  | v :: vs, wait, vV, wait', vV', hb, h => by
    have hv : v < vV.length := hb v List.mem_cons_self
    have hvs : ∀ x ∈ vs, x < vV.length := fun x hx => hb x (List.mem_cons_of_mem _ hx)
    simp only [scan] at h
    split at h
    · rename_i hmark
      obtain ⟨g1, g2⟩ := scan_spec matchV vs wait vV wait' vV' hvs h
      refine ⟨g1, fun x hx => ?_⟩
      rcases List.mem_cons.mp hx with rfl | hx
      · exact g1.2 _ hmark
      · exact g2 x hx
    · split at h
      · cases h
      · split at h
        · cases h
        · have hlen : (vV.set v true).length = vV.length := by simp
          obtain ⟨g1, g2⟩ := scan_spec matchV vs _ (vV.set v true) wait' vV' (by simpa [hlen] using hvs) h
          refine ⟨grows_trans (grows_set vV v hv) g1, fun x hx => ?_⟩
          rcases List.mem_cons.mp hx with rfl | hx
          · apply g1.2; rw [getD_set_true vV _ _ hv]; simp
          · exact g2 x hx

theorem konigLoop_spec (g : Graph) (matchV : List (Option Nat)) (nV : Nat)
    (hg : ∀ adj ∈ g, ∀ v ∈ adj, v < nV) :
    ∀ (fuel : Nat) (wait : List Nat) (vU vV vU' vV' : List Bool), vV.length = nV →
    (∀ u ∈ wait, u < vU.length) → (∀ o ∈ matchV, ∀ u, o = some u → u < vU.length) →
    AllMarked g vU vV → konigLoop g matchV fuel wait vU vV = .ok (vU', vV') → AllMarked g vU' vV'
  | 0, _, _, _, _, _, _, _, _, _, h => by simp [konigLoop] at h
  | fuel+1, [], vU, vV, vU', vV', _, _, _, hinv, h => by
    simp only [konigLoop, Except.ok.injEq, Prod.mk.injEq] at h
    obtain ⟨rfl, rfl⟩ := h; exact hinv
  | fuel+1, u :: wait, vU, vV, vU', vV', hlen, hw, hm, hinv, h => by
    simp only [konigLoop] at h
    split at h
    · cases h
    · rename_i wait1 vV1 hscan
      have hadj : ∀ v ∈ g.getD u [], v < vV.length := by
        intro v hv
        rw [hlen]
        rw [List.getD_eq_getElem?_getD] at hv
        cases hgu : g[u]? with
        | none => rw [hgu] at hv; simp at hv
        | some adj => rw [hgu] at hv; exact hg adj (List.mem_of_getElem? hgu) v hv
      obtain ⟨g1, g2⟩ := scan_spec matchV _ wait vV wait1 vV1 hadj hscan
      have hu : u < vU.length := hw u List.mem_cons_self
      apply konigLoop_spec g matchV nV hg fuel wait1 (vU.set u true) vV1 vU' vV' (by rw [← g1.1]; exact hlen) ?_ ?_ ?_ h
      · -- every element of the new worklist is in range
        intro x hx
        simp only [List.length_set]
        -- new worklist entries come from the old worklist or from matchV
        have : ∀ (vs wait0 : List Nat) (vV0 : List Bool) (w1 : List Nat) (vV2 : List Bool),
            scan matchV vs wait0 vV0 = .ok (w1, vV2) → (∀ y ∈ wait0, y < vU.length) → ∀ y ∈ w1, y < vU.length := by
          intro vs
          induction vs with
          | nil => intro wait0 vV0 w1 vV2 hs hw0 y hy; simp only [scan, Except.ok.injEq, Prod.mk.injEq] at hs; rw [← hs.1] at hy; exact hw0 y hy
          | cons v vs ih =>
            intro wait0 vV0 w1 vV2 hs hw0 y hy
            simp only [scan] at hs
            split at hs
            · exact ih _ _ _ _ hs hw0 y hy
            · split at hs
              · cases hs
              · rename_i u' hu'
                split at hs
                · cases hs
                · refine ih _ _ _ _ hs ?_ y hy
                  intro z hz
                  rcases List.mem_cons.mp hz with rfl | hz
                  · have hmem : matchV.getD v none ∈ matchV := by
                      rw [List.getD_eq_getElem?_getD] at hu' ⊢
                      cases hq : matchV[v]? with
                      | none => rw [hq] at hu'; simp at hu'
                      | some o => simp [List.mem_of_getElem? hq]
                    exact hm _ hmem _ hu'
                  · exact hw0 z hz
        exact this _ _ _ _ _ hscan (fun y hy => hw y (List.mem_cons_of_mem _ hy)) x hx
      · intro o ho u0 hou; simp only [List.length_set]; exact hm o ho u0 hou
      · -- invariant for the enlarged visited set
        intro u0 hu0 v hv
        rw [getD_set_true vU u0 u hu] at hu0
        by_cases hEq : u0 = u
        · subst hEq; exact g2 v hv
        · simp only [hEq, if_false] at hu0
          exact g1.2 v (hinv u0 hu0 v hv)

/-- **König closure returns a cover** (for every graph, every matching table, whatever the order in
    which the worklist is processed here: the set-`pop` order of the code only permutes it) -/
theorem konig_cover (g : Graph) (nU nV : Nat) (matchV : List (Option Nat)) (cU cV : List Bool)
    (hg : ∀ adj ∈ g, ∀ v ∈ adj, v < nV) (hgl : g.length ≤ nU)
    (hm : ∀ o ∈ matchV, ∀ u, o = some u → u < nU)
    (h : konig g nU nV matchV = .ok (cU, cV)) :
    ∀ u, u < nU → ∀ v ∈ g.getD u [], cU.getD u true = true ∨ cV.getD v false = true := by
  unfold konig at h
  simp only at h
  split at h
  · cases h
  · rename_i vU vV hloop
    simp only [Except.ok.injEq, Prod.mk.injEq] at h
    obtain ⟨rfl, rfl⟩ := h
    have hinv := konigLoop_spec g matchV nV hg _ _ _ _ vU vV (by simp) (by
        intro u hu; simp only [List.length_replicate]; exact List.mem_range.mp (List.mem_filter.mp hu).1)
      (by intro o ho u hou; simp only [List.length_replicate]; exact hm o ho u hou)
      (by
        intro u hu
        exfalso
        rw [List.getD_eq_getElem?_getD, List.getElem?_replicate] at hu
        split at hu <;> simp at hu) hloop
    intro u _ v hv
    by_cases hvis : vU.getD u false = true
    · right; exact hinv u hvis v hv
    · left
      simp only [List.getD_eq_getElem?_getD, List.getElem?_map] at hvis ⊢
      cases hq : vU[u]? with
      | none => simp
      | some b => rw [hq] at hvis; simp at hvis; simp [hvis]

end RenoVerif.Cover

namespace RenoVerif.Cover

/-! ### consequence for operator bonds: a certified minimum cover is no larger than either side of the incidence matrix -/

theorem countTrue_replicate (n : Nat) : countTrue (List.replicate n true) = n := by
  unfold countTrue trueIdx
  rw [List.filter_eq_self.mpr]
  · simp
  · intro i hi
    simp only [List.length_replicate, List.mem_range] at hi
    simp [List.getD_eq_getElem?_getD, hi]

theorem countTrue_nil : countTrue [] = 0 := by simp [countTrue, trueIdx]

theorem edge_u_lt (g : Graph) (e : Nat × Nat) (he : e ∈ edgesOf g) : e.1 < g.length := by
  unfold edgesOf at he
  simp only [List.mem_flatMap, List.mem_map] at he
  obtain ⟨⟨adj, u⟩, hmem, v, _, rfl⟩ := he
  have := List.mem_zipIdx hmem
  simp at this
  omega

/-- **the bond dimension never exceeds the number of distinct left partial terms** (rows of the incidence matrix): a
    certified minimum cover is no larger than the set of all U vertices -/
theorem minCover_le_rows (g : Graph) (cU cV : List Bool) (m : List (Option Nat)) (h : checkCert g cU cV m = true) :
    countTrue cU + countTrue cV ≤ g.length := by
  have hmin := (checkCert_sound g cU cV m h).2.2.2.1 (List.replicate g.length true) []
    (by
      intro e he
      have hu := edge_u_lt g e he
      simp [coversEdge, List.getD_eq_getElem?_getD, hu])
  rwa [countTrue_replicate, countTrue_nil, Nat.add_zero] at hmin

/-- … nor the number of distinct right partial terms (columns) -/
theorem minCover_le_cols (g : Graph) (cU cV : List Bool) (m : List (Option Nat)) (h : checkCert g cU cV m = true)
    (nV : Nat) (hV : ∀ e ∈ edgesOf g, e.2 < nV) : countTrue cU + countTrue cV ≤ nV := by
  have hmin := (checkCert_sound g cU cV m h).2.2.2.1 [] (List.replicate nV true)
    (by
      intro e he
      have hv := hV e he
      simp [coversEdge, List.getD_eq_getElem?_getD, hv])
  rwa [countTrue_replicate, countTrue_nil, Nat.zero_add] at hmin

end RenoVerif.Cover
