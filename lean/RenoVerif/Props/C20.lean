/-
  C20 — property theorems: weak duality (any vertex cover is at least as large as any
  matching) and soundness of the certificate checker that is run on the REAL outputs of
  `bipartite_vertex_cover` for both algorithms.
-/
import RenoVerif.Model.Cover
import Batteries.Data.List.Perm

namespace RenoVerif.Cover

theorem lt_of_getD_true (c : List Bool) (i : Nat) (h : c.getD i false = true) : i < c.length := by
  rw [List.getD_eq_getElem?_getD] at h
  cases hh : c[i]? with
  | none => rw [hh] at h; simp at h
  | some b => exact (List.getElem?_eq_some_iff.mp hh).1

/-- a list of distinct indices at which `c` is true is no longer than `countTrue c` -/
theorem nodup_true_le (c : List Bool) (l : List Nat) (hn : l.Nodup)
    (ht : ∀ i ∈ l, c.getD i false = true) : l.length ≤ countTrue c := by
  unfold countTrue trueIdx
  apply List.Subperm.length_le
  apply List.subperm_of_subset hn
  intro i hi
  have h := ht i hi
  rw [List.mem_filter, List.mem_range]
  exact ⟨lt_of_getD_true c i h, h⟩

/-- **Weak duality.**  If `ps` is a matching (no `U` vertex and no `V` vertex used twice) all
    of whose edges are covered by `(cU, cV)`, then `|ps| ≤ |cover|`. -/
theorem weak_duality (ps : List (Nat × Nat)) (cU cV : List Bool)
    (hu : (ps.map (·.1)).Nodup) (hv : (ps.map (·.2)).Nodup)
    (hc : ∀ e ∈ ps, coversEdge cU cV e = true) :
    ps.length ≤ countTrue cU + countTrue cV := by
  let A := ps.filter fun e => cU.getD e.1 false
  let B := ps.filter fun e => !(cU.getD e.1 false)
  have hlen : ps.length = A.length + B.length := by
    have := List.length_eq_countP_add_countP (fun e : Nat × Nat => cU.getD e.1 false) (l := ps)
    simp only [List.countP_eq_length_filter] at this
    simp only [A, B]
    rw [this]
    congr 2
    apply List.filter_congr
    intro e _
    simp
  have hA : A.length ≤ countTrue cU := by
    have := nodup_true_le cU (A.map (·.1)) (hu.sublist (List.Sublist.map _ List.filter_sublist)) (by
      intro i hi
      rcases List.mem_map.mp hi with ⟨e, he, rfl⟩
      exact (List.mem_filter.mp he).2)
    simpa using this
  have hB : B.length ≤ countTrue cV := by
    have := nodup_true_le cV (B.map (·.2)) (hv.sublist (List.Sublist.map _ List.filter_sublist)) (by
      intro i hi
      rcases List.mem_map.mp hi with ⟨e, he, rfl⟩
      have h1 := (List.mem_filter.mp he)
      have h2 := hc e h1.1
      unfold coversEdge at h2
      have h3 : cU.getD e.1 false = false := by simpa using h1.2
      rw [h3] at h2
      simpa using h2)
    simpa using this
  omega

theorem mem_edgesOf (g : Graph) (e : Nat × Nat) : isEdge g e = true → e ∈ edgesOf g := by
  intro h
  unfold isEdge at h
  unfold edgesOf
  rw [List.mem_flatMap]
  rw [List.getD_eq_getElem?_getD] at h
  cases hh : g[e.1]? with
  | none => rw [hh] at h; simp at h
  | some adj =>
    rw [hh] at h
    refine ⟨(adj, e.1), ?_, ?_⟩
    · rw [List.mem_zipIdx_iff_getElem?]; exact hh
    · simp only [List.mem_map]
      exact ⟨e.2, by simpa using h, rfl⟩

def IsCover (g : Graph) (cU cV : List Bool) : Prop := ∀ e ∈ edgesOf g, coversEdge cU cV e = true

/-- a matching of `g`: edges of `g`, no endpoint repeated -/
def IsMatching (g : Graph) (ps : List (Nat × Nat)) : Prop :=
  (∀ e ∈ ps, e ∈ edgesOf g) ∧ (ps.map (·.1)).Nodup ∧ (ps.map (·.2)).Nodup

/-- any cover is at least as large as any matching -/
theorem cover_ge_matching (g : Graph) (ps : List (Nat × Nat)) (cU cV : List Bool)
    (hm : IsMatching g ps) (hc : IsCover g cU cV) : ps.length ≤ countTrue cU + countTrue cV :=
  weak_duality ps cU cV hm.2.1 hm.2.2 (fun e he => hc e (hm.1 e he))

/-- **Soundness of the certificate checker.**  If `checkCert` accepts the implementation's cover
    together with a matching table, then the cover touches every edge, it is a MINIMUM vertex
    cover, the matching is a MAXIMUM matching, and |cover| = |matching| (König). -/
theorem checkCert_sound (g : Graph) (cU cV : List Bool) (m : List (Option Nat))
    (h : checkCert g cU cV m = true) :
    IsCover g cU cV ∧ IsMatching g (pairs m) ∧
    countTrue cU + countTrue cV = (pairs m).length ∧
    (∀ cU' cV', IsCover g cU' cV' → countTrue cU + countTrue cV ≤ countTrue cU' + countTrue cV') ∧
    (∀ ps', IsMatching g ps' → ps'.length ≤ (pairs m).length) := by
  unfold checkCert at h
  simp only [Bool.and_eq_true, List.all_eq_true, decide_eq_true_eq, beq_iff_eq] at h
  obtain ⟨⟨⟨⟨he, hu⟩, hv⟩, hcov⟩, hsz⟩ := h
  have hM : IsMatching g (pairs m) := ⟨fun e h => mem_edgesOf g e (he e h), hu, hv⟩
  have hC : IsCover g cU cV := hcov
  refine ⟨hC, hM, hsz, ?_, ?_⟩
  · intro cU' cV' hc'
    rw [hsz]; exact cover_ge_matching g _ cU' cV' hM hc'
  · intro ps' hm'
    rw [← hsz]; exact cover_ge_matching g ps' cU cV hm' hC

-- non-vacuity: a path graph u0–v0–u1–v1 has cover {v0, u1}… accepted; a non-cover is rejected
example : checkCert [[0],[0,1]] [false,true] [true,false] [some 0, some 1] = true := by decide
example : checkCert [[0],[0,1]] [false,true] [false,false] [some 0, some 1] = false := by decide
example : (coverHungarian [[0],[0,1]]).toOption = some ([true,true],[false,false]) := by decide +kernel
example : (coverHungarian [[0,1],[0],[0]]).toOption = some ([true,false,false],[true,false]) := by decide +kernel

end RenoVerif.Cover
