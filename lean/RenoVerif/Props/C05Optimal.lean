/-
  C05 — keeping the LARGEST singular values is the optimal truncation.  `_update_ms` keeps the first
  `m_trunc` entries of the spectrum it is handed (`sigma[:m_trunc]`); `svd_qn` hands it the values
  sorted globally (across symmetry blocks) in descending order.  Theorem: for a non-negative descending
  spectrum, the model's discarded weight `discarded σ m` (Model/Trunc) is ≤ the weight discarded by ANY
  other choice of `m` values — every length, every `m`.  The L2 tie checks the hypotheses (non-negative,
  descending) on the spectrum of every truncating `_update_ms` call of real `compress` sweeps.
-/
import RenoVerif.Model.Trunc
import Mathlib.Data.List.Sort
import Mathlib.Algebra.Order.BigOperators.Group.List
import Mathlib.Algebra.Order.Ring.Rat
import Mathlib.Tactic.Linarith

namespace RenoVerif.TruncOpt

/-- dropping the head of a descending list never increases the sum of a prefix -/
theorem take_tail_le : ∀ (l : List ℚ) (x : ℚ) (m : ℕ), (x :: l).Pairwise (· ≥ ·) → m ≤ l.length →
    (l.take m).sum ≤ ((x :: l).take m).sum
  | _, _, 0, _, _ => by simp
  | [], _, k + 1, _, h => by simp at h
  | y :: t, x, k + 1, hp, h => by
    have hxy : x ≥ y := (List.pairwise_cons.1 hp).1 y (by simp)
    have ih := take_tail_le t y k (List.pairwise_cons.1 hp).2 (by simpa using h)
    simp only [List.take_succ_cons, List.sum_cons] at *
    linarith

/-- **keeping the largest weights is optimal**: in a descending list of weights, no choice of `m`
    entries (sublist) has a larger sum than the first `m` -/
theorem keep_largest_optimal {s w : List ℚ} (hs : s.Sublist w) (hw : w.Pairwise (· ≥ ·)) :
    s.sum ≤ (w.take s.length).sum := by
  induction hs with
  | slnil => simp
  | cons x h ih =>
    exact le_trans (ih (List.pairwise_cons.1 hw).2) (take_tail_le _ x _ hw h.length_le)
  | cons_cons x h ih =>
    simp only [List.length_cons, List.take_succ_cons, List.sum_cons]
    have := ih (List.pairwise_cons.1 hw).2
    linarith

/-- hence the discarded weight of the prefix choice is minimal: total − kept -/
theorem discarded_minimal {s w : List ℚ} (hs : s.Sublist w) (hw : w.Pairwise (· ≥ ·)) :
    w.sum - (w.take s.length).sum ≤ w.sum - s.sum := by
  have := keep_largest_optimal hs hw; linarith

open RenoVerif.Trunc

/-- the weights `σ_i²` of a spectrum -/
def weights (σ : List ℚ) : List ℚ := σ.map fun s => s * s

theorem normSq_eq_sum (σ : List ℚ) : normSq σ = (weights σ).sum := by
  induction σ with
  | nil => rfl
  | cons s t ih => simp only [normSq, weights, List.foldr_cons, List.map_cons, List.sum_cons] at *; rw [ih]

/-- the model's discarded weight (keep the first `m`) is total − kept prefix -/
theorem discarded_eq (σ : List ℚ) (m : ℕ) :
    discarded σ m = (weights σ).sum - ((weights σ).take m).sum := by
  have h := List.sum_take_add_sum_drop (weights σ) m
  rw [discarded, normSq_eq_sum]
  have e : weights (σ.drop m) = (weights σ).drop m := by simp [weights, List.map_drop]
  rw [e]; linarith

/-- a non-negative descending spectrum has descending weights -/
theorem weights_sorted : ∀ (σ : List ℚ), (∀ s ∈ σ, 0 ≤ s) → σ.Pairwise (· ≥ ·) → (weights σ).Pairwise (· ≥ ·)
  | [], _, _ => by simp [weights]
  | x :: t, h0, hp => by
    have hp' := List.pairwise_cons.1 hp
    simp only [weights, List.map_cons]
    refine List.pairwise_cons.2 ⟨?_, weights_sorted t (fun s hs => h0 s (by simp [hs])) hp'.2⟩
    intro w hw
    obtain ⟨y, hy, rfl⟩ := List.mem_map.1 hw
    have hy0 : 0 ≤ y := h0 y (by simp [hy])
    have hxy : x ≥ y := hp'.1 y hy
    show x * x ≥ y * y
    nlinarith

/-- **the truncation `compress` performs (keep the first `m` singular values of the descending
    spectrum) discards the least possible weight among all choices of `m` values** -/
theorem discarded_optimal (σ : List ℚ) (h0 : ∀ s ∈ σ, 0 ≤ s) (hp : σ.Pairwise (· ≥ ·))
    {s : List ℚ} (hs : s.Sublist (weights σ)) :
    discarded σ s.length ≤ (weights σ).sum - s.sum := by
  rw [discarded_eq]; exact discarded_minimal hs (weights_sorted σ h0 hp)

-- non-vacuity on a concrete spectrum: keeping {3,1} of (3,2,1) discards more than keeping {3,2}
example : discarded [3, 2, 1] 2 ≤ (weights [3, 2, 1]).sum - ([9, 1] : List ℚ).sum := by
  have hs : ([9, 1] : List ℚ).Sublist (weights [3, 2, 1]) := by
    have e : weights [3, 2, 1] = [9, 4, 1] := by norm_num [weights]
    rw [e]; exact (List.Sublist.refl _).cons_cons 1 |>.cons 4 |>.cons_cons 9
  exact discarded_optimal [3, 2, 1] (by decide) (by decide) hs

example : ([5, 1] : List ℚ).sum ≤ (([5, 3, 1] : List ℚ).take 2).sum := by
  have h : ([5, 1] : List ℚ).Sublist [5, 3, 1] := by decide
  exact keep_largest_optimal h (by decide)
/-- `svd_qn`: the singular values of all symmetry blocks, sorted globally in descending order -/
def globalSpectrum (blocks : List (List ℚ)) : List ℚ := blocks.flatten.mergeSort (fun a b => decide (a ≥ b))

theorem globalSpectrum_perm (blocks : List (List ℚ)) : (globalSpectrum blocks).Perm blocks.flatten :=
  List.mergeSort_perm _ _

theorem globalSpectrum_sorted (blocks : List (List ℚ)) : (globalSpectrum blocks).Pairwise (· ≥ ·) := by
  have h := List.pairwise_mergeSort (le := fun a b : ℚ => decide (a ≥ b))
    (fun a b c hab hbc => by simp only [decide_eq_true_eq] at *; exact le_trans hbc hab)
    (fun a b => by simp only [Bool.or_eq_true, decide_eq_true_eq]; exact le_total b a) blocks.flatten
  simpa [globalSpectrum] using h

theorem globalSpectrum_nonneg (blocks : List (List ℚ)) (h0 : ∀ b ∈ blocks, ∀ s ∈ b, 0 ≤ s) :
    ∀ s ∈ globalSpectrum blocks, 0 ≤ s := by
  intro s hs
  have : s ∈ blocks.flatten := (globalSpectrum_perm blocks).mem_iff.1 hs
  obtain ⟨b, hb, hsb⟩ := List.mem_flatten.1 this
  exact h0 b hb s hsb

/-- **block-diagonal SVD followed by the global sort truncates optimally**: keeping the first `m` values of the
    globally sorted spectrum discards no more weight than any other choice of `m` values from all blocks -/
theorem global_truncation_optimal (blocks : List (List ℚ)) (h0 : ∀ b ∈ blocks, ∀ s ∈ b, 0 ≤ s)
    {s : List ℚ} (hs : s.Sublist (weights (globalSpectrum blocks))) :
    discarded (globalSpectrum blocks) s.length ≤ (weights blocks.flatten).sum - s.sum := by
  have h := discarded_optimal (globalSpectrum blocks) (globalSpectrum_nonneg blocks h0) (globalSpectrum_sorted blocks) hs
  have e : (weights (globalSpectrum blocks)).sum = (weights blocks.flatten).sum :=
    ((globalSpectrum_perm blocks).map _).sum_eq
  rwa [e] at h

/-- the global sort is needed: cutting the block-ordered concatenation `[3,1] ++ [2]` after two values
    discards weight 4, the sorted one discards 1 -/
example : discarded ([[3, 1], [2]] : List (List ℚ)).flatten 2 = 4 ∧ discarded (globalSpectrum [[3, 1], [2]]) 2 = 1 := by
  constructor
  · norm_num [discarded, normSq]
  · have e : globalSpectrum [[3, 1], [2]] = [3, 2, 1] := by
      refine List.Perm.eq_of_pairwise (le := (· ≥ ·)) (fun a b _ _ h1 h2 => le_antisymm h2 h1)
        (globalSpectrum_sorted _) (by decide) ((globalSpectrum_perm _).trans ?_)
      show [3, 1, 2].Perm [3, 2, 1]
      exact (List.Perm.swap 2 1 []).cons 3
    rw [e]; norm_num [discarded, normSq]
end RenoVerif.TruncOpt
