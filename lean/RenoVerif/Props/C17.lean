/-
  C17 — Jordan–Wigner sign logic.
  * `simplify_word`: for EVERY word over {σz, σ+, σ−} of any length, the product of the 2×2
    matrices equals `(−1)^{n_permute}` times the product of the simplified word that
    `simplify_op` emits (all σz moved to the front and cancelled pairwise).
  * `jw_swap_table`: the Jordan–Wigner site-swap rule of `table_row_swapped_jw` is the fermionic
    swap conjugation, for the whole alphabet of site operators the code admits (10 × 10 cases).
-/
import RenoVerif.Model.JW
import Mathlib.Data.Matrix.Basic
import Mathlib.Data.Matrix.Mul
import Mathlib.LinearAlgebra.Matrix.Notation
import Mathlib.Algebra.BigOperators.Group.List.Basic
import Mathlib.Tactic.Ring
import Mathlib.Tactic.FinCases
import Mathlib.Tactic.NormNum

namespace RenoVerif.JW
open Matrix

abbrev M2 := Matrix (Fin 2) (Fin 2) ℤ

def Sym.m : Sym → M2
  | .Z => !![1, 0; 0, -1]
  | .P => !![0, 1; 0, 0]
  | .M => !![0, 0; 1, 0]

def prodM (w : List Sym) : M2 := (w.map Sym.m).prod

def nzc (w : List Sym) : Nat := (w.filter (· == .Z)).length

/-- number of (non-σz, later σz) pairs -/
def pairs : List Sym → Nat
  | [] => 0
  | .Z :: rest => pairs rest
  | _ :: rest => pairs rest + nzc rest

/-- the code's left-to-right counting loop computes exactly these two numbers -/
theorem go_eq : ∀ (w : List Sym) (nz nn np : Nat),
    simplifyWord.go w nz nn np = (nz + nzc w, np + nn * nzc w + pairs w)
  | [], nz, nn, np => by simp [simplifyWord.go, nzc, pairs]
  | .Z :: rest, nz, nn, np => by
    rw [simplifyWord.go, go_eq rest]
    simp only [nzc, pairs, List.filter_cons, beq_self_eq_true, if_true, List.length_cons, Prod.mk.injEq]
    constructor <;> ring
  | .P :: rest, nz, nn, np => by
    rw [simplifyWord.go, go_eq rest]
    have : nzc (Sym.P :: rest) = nzc rest := by simp [nzc, List.filter_cons]
    simp only [this, pairs, Prod.mk.injEq]
    · exact ⟨trivial, by ring⟩
    all_goals (intro h; cases h)
  | .M :: rest, nz, nn, np => by
    rw [simplifyWord.go, go_eq rest]
    have : nzc (Sym.M :: rest) = nzc rest := by simp [nzc, List.filter_cons]
    simp only [this, pairs, Prod.mk.injEq]
    · exact ⟨trivial, by ring⟩
    all_goals (intro h; cases h)

theorem ZZ : Sym.m .Z * Sym.m .Z = 1 := by
  ext i j; fin_cases i <;> fin_cases j <;> simp [Sym.m, Matrix.mul_apply, Fin.sum_univ_two]
theorem PZ : Sym.m .P * Sym.m .Z = -(Sym.m .Z * Sym.m .P) := by
  ext i j; fin_cases i <;> fin_cases j <;> simp [Sym.m, Matrix.mul_apply, Fin.sum_univ_two]
theorem MZ : Sym.m .M * Sym.m .Z = -(Sym.m .Z * Sym.m .M) := by
  ext i j; fin_cases i <;> fin_cases j <;> simp [Sym.m, Matrix.mul_apply, Fin.sum_univ_two]

theorem anti_pow (s : Sym) (hs : s ≠ .Z) (k : Nat) :
    Sym.m s * (Sym.m .Z) ^ k = ((-1 : ℤ) ^ k) • ((Sym.m .Z) ^ k * Sym.m s) := by
  have hsz : Sym.m s * Sym.m .Z = -(Sym.m .Z * Sym.m s) := by
    cases s with
    | Z => exact absurd rfl hs
    | P => exact PZ
    | M => exact MZ
  induction k with
  | zero => simp
  | succ k ih =>
    rw [pow_succ, ← Matrix.mul_assoc, ih, Matrix.smul_mul, Matrix.mul_assoc, hsz]
    rw [Matrix.mul_neg, ← Matrix.mul_assoc, pow_succ]
    rw [smul_neg, mul_neg_one, neg_smul]

def nonZ (w : List Sym) : List Sym := w.filter (· != .Z)

/-- normal form: `Π w = (−1)^{pairs w} · σz^{#σz} · Π (non-σz symbols in order)` -/
theorem prodM_normal : ∀ w : List Sym,
    prodM w = ((-1 : ℤ) ^ pairs w) • ((Sym.m .Z) ^ nzc w * prodM (nonZ w))
  | [] => by simp [prodM, pairs, nzc, nonZ]
  | .Z :: rest => by
    have ih := prodM_normal rest
    have h1 : prodM (Sym.Z :: rest) = Sym.m .Z * prodM rest := by simp [prodM]
    have h2 : nzc (Sym.Z :: rest) = nzc rest + 1 := by simp [nzc, List.filter_cons]
    have h3 : nonZ (Sym.Z :: rest) = nonZ rest := by simp [nonZ, List.filter_cons]
    rw [h1, ih, h2, h3, pairs, Matrix.mul_smul, ← Matrix.mul_assoc, ← pow_succ']
  | .P :: rest => by
    have ih := prodM_normal rest
    have h1 : prodM (Sym.P :: rest) = Sym.m .P * prodM rest := by simp [prodM]
    have h2 : nzc (Sym.P :: rest) = nzc rest := by simp [nzc, List.filter_cons]
    have h3 : nonZ (Sym.P :: rest) = Sym.P :: nonZ rest := by simp [nonZ, List.filter_cons]
    have h4 : prodM (Sym.P :: nonZ rest) = Sym.m .P * prodM (nonZ rest) := by simp [prodM]
    rw [h1, ih, h2, h3, h4, pairs, Matrix.mul_smul, ← Matrix.mul_assoc, anti_pow _ (by intro h; cases h),
      Matrix.smul_mul, smul_smul, Matrix.mul_assoc, pow_add]
    all_goals (intro h; cases h)
  | .M :: rest => by
    have ih := prodM_normal rest
    have h1 : prodM (Sym.M :: rest) = Sym.m .M * prodM rest := by simp [prodM]
    have h2 : nzc (Sym.M :: rest) = nzc rest := by simp [nzc, List.filter_cons]
    have h3 : nonZ (Sym.M :: rest) = Sym.M :: nonZ rest := by simp [nonZ, List.filter_cons]
    have h4 : prodM (Sym.M :: nonZ rest) = Sym.m .M * prodM (nonZ rest) := by simp [prodM]
    rw [h1, ih, h2, h3, h4, pairs, Matrix.mul_smul, ← Matrix.mul_assoc, anti_pow _ (by intro h; cases h),
      Matrix.smul_mul, smul_smul, Matrix.mul_assoc, pow_add]
    all_goals (intro h; cases h)

theorem Zpow (k : Nat) : (Sym.m .Z) ^ k = if k % 2 = 1 then Sym.m .Z else 1 := by
  induction k using Nat.strong_induction_on with
  | _ k ih =>
    match k with
    | 0 => simp
    | 1 => simp
    | k + 2 =>
      rw [pow_add, pow_two, ZZ, Matrix.mul_one, ih k (by omega)]
      have : (k + 2) % 2 = k % 2 := by omega
      rw [this]

theorem neg_one_pow_mod (n : Nat) : ((-1 : ℤ) ^ n) = if n % 2 = 1 then -1 else 1 := by
  rcases Nat.even_or_odd n with h | h
  · have : n % 2 = 0 := Nat.even_iff.mp h
    simp [h.neg_one_pow, this]
  · have : n % 2 = 1 := Nat.odd_iff.mp h
    simp [h.neg_one_pow, this]

/-- **`simplify_op` is exact on every word of every length** -/
theorem simplify_word (w : List Sym) :
    prodM w = signOf (simplifyWord w).1 • prodM (simplifyWord w).2 := by
  have hgo := go_eq w 0 0 0
  simp only [Nat.zero_add, Nat.zero_mul] at hgo
  unfold simplifyWord
  simp only [hgo]
  rw [prodM_normal w, Zpow, neg_one_pow_mod]
  by_cases hz : nzc w % 2 = 1 <;> by_cases hp : pairs w % 2 = 1 <;>
    simp [hz, hp, signOf, prodM, nonZ]

/-- **Jordan–Wigner swap table**: exhaustive over the admitted site-operator alphabet -/
theorem jw_swap_table : (siteWords.all fun a => siteWords.all fun b => swapOK a b) = true := by
  decide +kernel

/-- the list-matrix evaluator used by the driver agrees with the theorem on all words ≤ 5 (test) -/
theorem simplifyOK_upto5 : ((wordsUpTo 5).all simplifyOK) = true := by decide +kernel

-- non-vacuity
example : simplifyWord [.P, .Z, .M, .Z, .Z] = (true, [.Z, .P, .M]) := by decide
example : swapJW [.Z, .P] [.M] = (-1, [.P], [.Z, .M]) := by decide

end RenoVerif.JW
