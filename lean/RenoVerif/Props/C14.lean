/-
  C14 — property theorems for the crash-safety part: for every initial directory (everything any
  sequence of earlier crashes, of this or of the earlier rename-based protocol, can leave behind), every
  number of steps and every crash instant.

  History: on the pinned tree `dump_dict` moved F to F.bak before writing (and deleted an existing backup
  first).  The model of that protocol satisfied the property only after the first completed dump of a job
  object; the excluded point was run on the real code: a job restarted into ⟨partial F, complete B⟩ destroys the
  complete backup during its first dump (defect D40, `restart_first_dump_unprotected` of the old model).
  The code was repaired (write a temporary file, `os.replace`); the model below is the repaired protocol and
  the theorems hold at full strength, the first dump of a restarted job included.
-/
import RenoVerif.Model.DumpProto

namespace RenoVerif.Dump

/-- whatever the directory looked like before, a completed dump leaves `F = complete k`, no backup, no temporary -/
theorem dumpFinal_eq (k : Nat) (d : Dir) : dumpFinal k d = ⟨.complete k, .absent, .absent⟩ := by
  obtain ⟨f, b, t⟩ := d
  cases b <;> simp [dumpFinal, dumpOps, apply, FileSt.exists]

/-- **no dump ever loses the newest complete result**: if a complete result file of step ≥ j exists when the dump of
    step k ≥ j starts, every visible state of that dump holds a complete result file of step ≥ j -/
theorem dump_preserves (k j : Nat) (hjk : j ≤ k) (d : Dir) (h : d.good j = true) :
    ∀ d' ∈ dumpTrace k d, d'.good j = true := by
  obtain ⟨f, b, t⟩ := d
  intro d' hd'
  cases hb : b.exists <;>
    simp [dumpTrace, dumpOps, traceOps, apply, hb] at hd' <;>
    rcases hd' with hd' | hd' | hd' | hd' | hd' <;> (try rcases hd' with hd' | hd') <;>
    subst_vars <;> simp_all [Dir.good, FileSt.goodFor]

/-- in particular a result left by an earlier run survives the first dump of a restarted job -/
theorem dump_preserves_any (k : Nat) (d : Dir) (h : d.hasComplete = true) :
    ∀ d' ∈ dumpTrace k d, d'.hasComplete = true :=
  dump_preserves k 0 (Nat.zero_le k) d h

/-- during the dump of step `k+1` that starts from the directory left by the completed dump of step `k`, every
    visible directory state holds a complete file of step ≥ k -/
theorem dump_step_safe (k : Nat) :
    ∀ d' ∈ dumpTrace (k+1) ⟨.complete k, .absent, .absent⟩, d'.good k = true :=
  dump_preserves (k+1) k (Nat.le_succ k) _ (by simp [Dir.good, FileSt.goodFor])

theorem runTrace_safe (n k : Nat) :
    ∀ p ∈ runTrace n (k+1) ⟨.complete k, .absent, .absent⟩, p.2.good (p.1 - 1) = true := by
  induction n generalizing k with
  | zero => intro p h; simp [runTrace] at h
  | succ n ih =>
    intro p h
    simp only [runTrace, List.mem_append, List.mem_map] at h
    rcases h with ⟨d', hd', rfl⟩ | h
    · simpa using dump_step_safe k d' hd'
    · rw [dumpFinal_eq] at h
      exact ih (k+1) p h

/-- **Crash safety (full strength).**  For EVERY initial directory `d0`, every number `n` of dumps of a job whose
    first dump has step `k0`, and every instant:
    (a) during the first dump, a complete result file that was in the directory (left by an earlier run) is still there;
    (b) during every later dump of step `k > k0`, a complete result file of step `k` or `k−1` of this job is there. -/
theorem dump_crash_safe (d0 : Dir) (n k0 : Nat) :
    ∀ p ∈ runTrace (n+1) k0 d0,
      (p.1 = k0 → d0.hasComplete = true → p.2.hasComplete = true) ∧ (k0 < p.1 → p.2.good (p.1 - 1) = true) := by
  intro p h
  simp only [runTrace, List.mem_append, List.mem_map] at h
  rcases h with ⟨d', hd', rfl⟩ | h
  · exact ⟨fun _ hc => dump_preserves_any k0 d0 hc d' hd', fun hk => absurd hk (Nat.lt_irrefl _)⟩
  · rw [dumpFinal_eq] at h
    refine ⟨fun hk => ?_, fun _ => runTrace_safe n k0 p h⟩
    -- states of later dumps have step > k0
    have : ∀ (m k : Nat) (d : Dir), ∀ q ∈ runTrace m k d, k ≤ q.1 := by
      intro m
      induction m with
      | zero => intro k d q hq; simp [runTrace] at hq
      | succ m ih =>
        intro k d q hq
        simp only [runTrace, List.mem_append, List.mem_map] at hq
        rcases hq with ⟨_, _, rfl⟩ | hq
        · exact Nat.le_refl _
        · exact Nat.le_of_succ_le (ih (k+1) _ q hq)
    have := this n (k0+1) _ p h
    omega

/-- the step index of every state of a run lies in the dumped range -/
theorem runTrace_steps (n k : Nat) (d : Dir) : ∀ p ∈ runTrace n k d, k ≤ p.1 ∧ p.1 < k + n := by
  induction n generalizing k d with
  | zero => intro p h; simp [runTrace] at h
  | succ n ih =>
    intro p h
    simp only [runTrace, List.mem_append, List.mem_map] at h
    rcases h with ⟨d', _, rfl⟩ | h
    · simp
    · have := ih (k+1) _ p h; omega

/-- the temporary file is never relied upon: a directory whose only complete archive is a stale temporary file is
    (rightly) not counted as holding a result -/
example : (⟨.part 3, .absent, .complete 9⟩ : Dir).hasComplete = false := by decide

-- non-vacuity: a concrete 3-step run from the directory a crash of the OLD protocol leaves behind
example : (runTrace 3 1 ⟨.part 7, .complete 6, .absent⟩).length = 13 := by decide
example : ((runTrace 3 1 ⟨.part 7, .complete 6, .absent⟩).all fun p => p.2.hasComplete) = true := by decide
example : ((runTrace 3 1 ⟨.part 7, .complete 6, .absent⟩).filter fun p => 1 < p.1).all
    (fun p => p.2.good (p.1 - 1)) = true := by decide
example : dumpTrace 2 ⟨.complete 1, .absent, .absent⟩ =
    [⟨.complete 1, .absent, .absent⟩, ⟨.complete 1, .absent, .part 2⟩, ⟨.complete 1, .absent, .complete 2⟩,
     ⟨.complete 2, .absent, .absent⟩] := by decide
example : dumpTrace 1 ⟨.part 7, .complete 6, .part 7⟩ =
    [⟨.part 7, .complete 6, .part 7⟩, ⟨.part 7, .complete 6, .part 1⟩, ⟨.part 7, .complete 6, .complete 1⟩,
     ⟨.complete 1, .complete 6, .absent⟩, ⟨.complete 1, .absent, .absent⟩] := by decide

end RenoVerif.Dump
