/-
  C14 — property theorems for the crash-safety part: for every initial directory, every
  number of steps and every crash instant.
-/
import RenoVerif.Model.DumpProto

namespace RenoVerif.Dump

/-- whatever the directory looked like before, a completed dump leaves exactly
    `F = complete k`, `B = absent` -/
theorem dumpFinal_eq (k : Nat) (d : Dir) : dumpFinal k d = ⟨.complete k, .absent⟩ := by
  obtain ⟨f, b⟩ := d
  cases f <;> cases b <;> simp [dumpFinal, dumpOps, apply, FileSt.exists]

/-- during the dump of step `k+1` that starts from the directory left by the completed dump
    of step `k`, every visible directory state holds a complete file of step ≥ k -/
theorem dump_step_safe (k : Nat) :
    ∀ d' ∈ dumpTrace (k+1) ⟨.complete k, .absent⟩, d'.good k = true := by
  intro d' h
  simp [dumpTrace, dumpOps, traceOps, apply, FileSt.exists] at h
  rcases h with h | h | h | h | h <;> subst h <;> simp [Dir.good, FileSt.goodFor]

/-- states of a run: after the first dump every later dump starts from `⟨complete, absent⟩` -/
theorem runTrace_safe (n k : Nat) :
    ∀ p ∈ runTrace n (k+1) ⟨.complete k, .absent⟩, p.2.good (p.1 - 1) = true := by
  induction n generalizing k with
  | zero => intro p h; simp [runTrace] at h
  | succ n ih =>
    intro p h
    simp only [runTrace, List.mem_append, List.mem_map] at h
    rcases h with ⟨d', hd', rfl⟩ | h
    · simpa using dump_step_safe k d' hd'
    · rw [dumpFinal_eq] at h
      exact ih (k+1) p h

/-- **Crash safety.**  For EVERY initial directory `d0` (including everything an earlier crash
    can leave behind), every number `n` of dumps and every instant: once the first dump of the
    job (step `k0`) has completed, every visible directory state during a later dump of step
    `k > k0` contains a complete result file of step `k` or `k-1`. -/
theorem dump_crash_safe (d0 : Dir) (n k0 : Nat) :
    ∀ p ∈ runTrace (n+1) k0 d0, k0 < p.1 → p.2.good (p.1 - 1) = true := by
  intro p h hk
  simp only [runTrace, List.mem_append, List.mem_map] at h
  rcases h with ⟨d', _, rfl⟩ | h
  · simp at hk
  · rw [dumpFinal_eq] at h
    exact runTrace_safe n k0 p h

/-- the step index of every state of a run lies in the dumped range -/
theorem runTrace_steps (n k : Nat) (d : Dir) : ∀ p ∈ runTrace n k d, k ≤ p.1 ∧ p.1 < k + n := by
  induction n generalizing k d with
  | zero => intro p h; simp [runTrace] at h
  | succ n ih =>
    intro p h
    simp only [runTrace, List.mem_append, List.mem_map] at h
    rcases h with ⟨d', _, rfl⟩ | h
    · simp
    · have := ih (k+1) _ p h; omega

/-- outside the property's claim, recorded: a job RESTARTED into `⟨partial, complete j⟩` (what a
    crash inside `savez` leaves) removes the good backup during its first dump before anything
    new is complete. -/
theorem restart_first_dump_unprotected (j i : Nat) :
    ∃ d' ∈ dumpTrace 1 ⟨.part i, .complete j⟩, d'.good 0 = false := by
  refine ⟨⟨.part i, .absent⟩, ?_, ?_⟩
  · simp [dumpTrace, dumpOps, traceOps, apply, FileSt.exists]
  · simp [Dir.good, FileSt.goodFor]

-- non-vacuity: a concrete 3-step run from a dirty directory has 3·(≥4) states, all later ones good
example : (runTrace 3 1 ⟨.part 7, .complete 6⟩).length = 16 := by decide
example : ((runTrace 3 1 ⟨.part 7, .complete 6⟩).filter fun p => 1 < p.1).all
    (fun p => p.2.good (p.1 - 1)) = true := by decide
example : dumpTrace 2 ⟨.complete 1, .absent⟩ =
    [⟨.complete 1, .absent⟩, ⟨.absent, .complete 1⟩, ⟨.part 2, .complete 1⟩,
     ⟨.complete 2, .complete 1⟩, ⟨.complete 2, .absent⟩] := by decide

end RenoVerif.Dump
