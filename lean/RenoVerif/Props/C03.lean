/-
  C03 — state and operator arithmetic agrees with dense linear algebra, in any gauge.
  Every statement is about `amp` (the dense amplitude), for every chain length, every bond and
  physical dimension, every commutative ring of scalars; none mentions quantum-number labels, the
  centre or the sweep direction, and `amp` is invariant under every re-gauging (`amp_steps`), so
  the statements hold whatever the gauge history of the operands.
-/
import RenoVerif.Lemmas.ChainDot
import Mathlib.Tactic.Ring

namespace RenoVerif.Chain
open Matrix

variable {R : Type} [CommRing R]

/-- sum -/
theorem c03_add {d : ℕ} {ds : List ℕ} (a b : Chain R (d :: ds) 1 1) (c : Cfg (d :: ds)) :
    amp (addClosed a b) c = amp a c + amp b c := amp_addClosed a b c

/-- difference (`a - b` is `a.add(b.scale(-1))`, the scaled site being arbitrary) -/
theorem c03_sub {d : ℕ} {ds : List ℕ} (a b : Chain R (d :: ds) 1 1) (k : ℕ) (hk : k < (d :: ds).length)
    (c : Cfg (d :: ds)) : amp (addClosed a (scaleAt k (-1) b)) c = amp a c - amp b c := by
  rw [amp_addClosed, amp_scaleAt k (-1) b c hk]; simp [sub_eq_add_neg]

/-- scalar multiple, whichever site carries the centre -/
theorem c03_scale {ds : List ℕ} {l r : ℕ} (k : ℕ) (x : R) (a : Chain R ds l r) (c : Cfg ds)
    (hk : k < ds.length) : amp (scaleAt k x a) c = x • amp a c := amp_scaleAt k x a c hk

/-- complex conjugate -/
theorem c03_conj (f : R →+* R) {ds : List ℕ} {l r : ℕ} (a : Chain R ds l r) (c : Cfg ds) :
    amp (mapC f a) c = (amp a c).map f := amp_mapC f a c

/-- bilinear product of two chains = sum over configurations of products of amplitudes;
    inner product / norm / distance are `dot (conj a) b` etc. -/
theorem c03_dot {ds : List ℕ} (a b : Chain R ds 1 1) :
    dotFrom (1 : Matrix (Fin 1) (Fin 1) R) a b 0 0 = ∑ c : Cfg ds, amp a c 0 0 * amp b c 0 0 := dot_closed a b

theorem c03_inner (f : R →+* R) {ds : List ℕ} (a b : Chain R ds 1 1) :
    dotFrom (1 : Matrix (Fin 1) (Fin 1) R) (mapC f a) b 0 0 = ∑ c : Cfg ds, f (amp a c 0 0) * amp b c 0 0 := by
  rw [dot_closed]; simp [amp_mapC]

/-- operator on state (and, with a flattened pair index, operator on operator / density operator) -/
theorem c03_apply {ds : List ℕ} {a b l r : ℕ} (w : OpChain R ds a b) (x : Chain R ds l r) (σ : Cfg ds) :
    amp (applyC w x) σ = ∑ τ : Cfg ds, kr (ampOp w σ τ) (amp x τ) := amp_applyC w x σ

/-- `distance`: the combination `⟨a|a⟩ + ⟨b|b⟩ − ⟨a|b⟩ − conj⟨a|b⟩` the implementation computes from
    three chain contractions is the squared Euclidean distance of the dense vectors (`f` = complex
    conjugation: any involutive ring homomorphism) -/
theorem c03_distance (f : R →+* R) (hf : ∀ x, f (f x) = x) {ds : List ℕ} (a b : Chain R ds 1 1) :
    dotFrom (1 : Matrix (Fin 1) (Fin 1) R) (mapC f a) a 0 0
      + dotFrom (1 : Matrix (Fin 1) (Fin 1) R) (mapC f b) b 0 0
      - dotFrom (1 : Matrix (Fin 1) (Fin 1) R) (mapC f a) b 0 0
      - f (dotFrom (1 : Matrix (Fin 1) (Fin 1) R) (mapC f a) b 0 0)
    = ∑ c : Cfg ds, f (amp a c 0 0 - amp b c 0 0) * (amp a c 0 0 - amp b c 0 0) := by
  rw [c03_inner, c03_inner, c03_inner, map_sum, ← Finset.sum_add_distrib, ← Finset.sum_sub_distrib,
    ← Finset.sum_sub_distrib]
  refine Finset.sum_congr rfl fun c _ => ?_
  rw [map_mul, hf, map_sub]; ring

/-- Hermitian symmetry of the inner product: `⟨b|a⟩ = conj ⟨a|b⟩` (what `distance` relies on when it
    subtracts `l1dotl2.conjugate()` instead of contracting a fourth time) -/
theorem c03_inner_symm (f : R →+* R) (hf : ∀ x, f (f x) = x) {ds : List ℕ} (a b : Chain R ds 1 1) :
    dotFrom (1 : Matrix (Fin 1) (Fin 1) R) (mapC f b) a 0 0
      = f (dotFrom (1 : Matrix (Fin 1) (Fin 1) R) (mapC f a) b 0 0) := by
  rw [c03_inner, c03_inner, map_sum]
  refine Finset.sum_congr rfl fun c _ => ?_
  rw [map_mul, hf, mul_comm]

/-- squared norm: `⟨a|a⟩ = Σ_c conj(a_c)·a_c` -/
theorem c03_norm_sq (f : R →+* R) {ds : List ℕ} (a : Chain R ds 1 1) :
    dotFrom (1 : Matrix (Fin 1) (Fin 1) R) (mapC f a) a 0 0 = ∑ c : Cfg ds, f (amp a c 0 0) * amp a c 0 0 :=
  c03_inner f a a

/-- arithmetic followed by any canonicalisation / lossless compression is still correct -/
theorem c03_add_then_regauge {d : ℕ} {ds : List ℕ} (a b : Chain R (d :: ds) 1 1) (x : Chain R (d :: ds) 1 1)
    (h : Steps (addClosed a b) x) (c : Cfg (d :: ds)) : amp x c = amp a c + amp b c := by
  rw [← amp_steps h c, amp_addClosed]

/-- operands may be re-gauged arbitrarily before the operation -/
theorem c03_add_gauge_invariant {d : ℕ} {ds : List ℕ} (a a' b b' : Chain R (d :: ds) 1 1)
    (ha : Steps a a') (hb : Steps b b') (c : Cfg (d :: ds)) :
    amp (addClosed a' b') c = amp (addClosed a b) c := by
  rw [amp_addClosed, amp_addClosed, amp_steps ha c, amp_steps hb c]

-- non-vacuity: two concrete 2-site integer chains
private def exA : Chain ℤ [2, 2] 1 1 :=
  .cons (fun s => !![(s.val : ℤ) + 1, 2]) (.cons (fun s => !![1; (s.val : ℤ)]) (.nil 1))
private def exB : Chain ℤ [2, 2] 1 1 :=
  .cons (fun s => !![(3 : ℤ) * s.val]) (.cons (fun _ => !![(5 : ℤ)]) (.nil 1))
private def exCfg : Cfg [2, 2] := ((1 : Fin 2), ((1 : Fin 2), ()))
example : amp (addClosed exA exB) exCfg 0 0 = 4 + 15 := by
  rw [c03_add]; simp [exA, exB, exCfg, amp, Matrix.mul_apply, Fin.sum_univ_succ]

end RenoVerif.Chain
