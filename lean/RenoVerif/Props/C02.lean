/-
  C02 — TTNO certificates.  `checkCert_sound`: if the executable checker accepts the
  implementation's symbolic TTNO (any rooted tree, any number of basis sets per node, dummy nodes
  anywhere, any decomposition algorithm) against the operator table, then for EVERY interpretation
  `φ` of rows (one local operator key per node, post-order) in any module the root operator's
  expansion has the value of the table, `Σ_k c_k • φ(term_k)`.  With `φ(row) = ⊗_node opmat(node,key)`
  — which does not depend on the order in which the nodes are listed — two trees over the same
  degrees of freedom therefore denote the same operator as the chain (C01).
  The contraction semantics of a tree (analogue of `automaton_eq_expand`) is proved in
  Props/C02Auto.lean (`autoTree_eq_expand`, `accepted_tree_contracts`).
-/
import RenoVerif.Model.SymTree
import RenoVerif.Lemmas.FormalSum
import Mathlib.LinearAlgebra.BilinearMap

namespace RenoVerif.SymTree
open RenoVerif.FS

variable {R M : Type} [CommRing R] [AddCommGroup M] [Module R M]

theorem checkCert_sound [DecidableEq R] (table : FSum Row R) (nodes : List (Node R))
    (h : checkCert table nodes = true) :
    ∃ w, (expandTree nodes).getLast? = some [w] ∧ ∀ φ : Row → M, evalFS φ w = evalFS φ table := by
  unfold checkCert at h
  rw [Bool.and_eq_true] at h
  split at h
  · rename_i w hw
    exact ⟨w, hw, fun φ => eqv_sound w table h.2 φ⟩
  · cases h.2

theorem evalFS_map_row {M1 M2 : Type} [AddCommGroup M1] [Module R M1] [AddCommGroup M2] [Module R M2]
    (φ1 : Row → M1) (φ2 : Row → M2) (φ : Row → M) (B : M1 →ₗ[R] M2 →ₗ[R] M)
    (hφ : ∀ r r', φ (r ++ r') = B (φ1 r) (φ2 r')) (p : Row × R) (b : FSum Row R) :
    evalFS φ (b.map fun q => (p.1 ++ q.1, p.2 * q.2)) = B (p.2 • φ1 p.1) (evalFS φ2 b) := by
  induction b with
  | nil => simp
  | cons q b ihb =>
    simp only [List.map_cons, evalFS_cons, map_add, ihb, hφ, map_smul, LinearMap.smul_apply, mul_smul]
    rw [smul_comm]

/-- the product of formal sums denotes the product of values, for any bilinear pairing of the
    interpretations (`φ (r ++ r') = B (φ₁ r) (φ₂ r')`): the step that combines children -/
theorem evalFS_fsMul {M1 M2 : Type} [AddCommGroup M1] [Module R M1] [AddCommGroup M2] [Module R M2]
    (φ1 : Row → M1) (φ2 : Row → M2) (φ : Row → M) (B : M1 →ₗ[R] M2 →ₗ[R] M)
    (hφ : ∀ r r', φ (r ++ r') = B (φ1 r) (φ2 r')) (a b : FSum Row R) :
    evalFS φ (fsMul a b) = B (evalFS φ1 a) (evalFS φ2 b) := by
  induction a with
  | nil => simp [fsMul]
  | cons p a ih =>
    have hcons : fsMul (p :: a) b = (b.map fun q => (p.1 ++ q.1, p.2 * q.2)) ++ fsMul a b := rfl
    rw [hcons, evalFS_append, ih, evalFS_cons, map_add, LinearMap.add_apply,
      evalFS_map_row φ1 φ2 φ B hφ p b]

-- non-vacuity: a three-node tree (two leaves, one root with a dummy key 0) for H = 2·A⊗B + 3·A⊗C
private def exNodes : List (Node Int) :=
  [⟨[], [[⟨[], 1, 1⟩]]⟩,                                   -- leaf 0: operator A
   ⟨[], [[⟨[], 2, 2⟩, ⟨[], 3, 3⟩]]⟩,                       -- leaf 1: 2B + 3C
   ⟨[0, 1], [[⟨[0, 0], 0, 1⟩]]⟩]                           -- root (dummy): product of the children
example : checkCert [([1, 2, 0], 2), ([1, 3, 0], 3)] exNodes = true := by decide
example : checkCert [([1, 2, 0], 2), ([1, 3, 0], 4)] exNodes = false := by decide

end RenoVerif.SymTree
