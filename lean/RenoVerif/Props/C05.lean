/-
  C05 — truncation respects the bond limit; single-cut error = discarded weight.
-/
import RenoVerif.Model.Trunc
import Mathlib.LinearAlgebra.Matrix.Trace
import Mathlib.LinearAlgebra.Matrix.ConjTranspose
import Mathlib.Data.Matrix.Mul
import Mathlib.Algebra.Order.Ring.Rat
import Mathlib.Tactic.Ring
import Mathlib.Tactic.Linarith

namespace RenoVerif.Trunc

theorem aboveThr_le_len (thr : Rat) (σ : List Rat) : aboveThr thr σ ≤ σ.length :=
  List.length_filter_le _ _

theorem thresholdM_le_len (thr : Rat) (σ : List Rat) (hne : σ ≠ []) : thresholdM thr σ ≤ σ.length := by
  unfold thresholdM
  have h1 := aboveThr_le_len thr σ
  have h2 : 1 ≤ σ.length := List.length_pos_of_ne_nil hne
  omega

/-- at least one state survives the threshold criterion (the all-zero tensor of defect D10 cannot occur) -/
theorem thresholdM_pos (thr : Rat) (σ : List Rat) : 1 ≤ thresholdM thr σ := by
  unfold thresholdM; omega

/-- fixed criterion: never more than the configured limit of that bond, never more than available -/
theorem fixedM_le (maxDims : List Nat) (n idx : Nat) (left : Bool) (m : Nat)
    (h : fixedM maxDims n idx left = some m) :
    m ≤ n ∧ ∃ lim, maxDims[if left then idx + 1 else idx]? = some lim ∧ m ≤ lim := by
  unfold fixedM at h
  cases hl : maxDims[if left then idx + 1 else idx]? with
  | none => rw [hl] at h; simp at h
  | some lim =>
    rw [hl] at h; simp only [Option.map_some, Option.some.injEq] at h
    subst h
    exact ⟨Nat.min_le_right _ _, lim, rfl, Nat.min_le_left _ _⟩

/-- **bond limit**: whichever criterion involving `fixed` is selected, the kept count obeys the
    per-bond limit (with the code's left/right bond-index convention) -/
theorem computeM_le_limit (crit : Criteria) (hc : crit ≠ .threshold) (thr : Rat) (maxDims : List Nat)
    (σ : List Rat) (idx : Nat) (left : Bool) (m : Nat) (h : computeM crit thr maxDims σ idx left = some m) :
    ∃ lim, maxDims[if left then idx + 1 else idx]? = some lim ∧ m ≤ lim := by
  cases crit with
  | threshold => exact absurd rfl hc
  | fixed => exact (fixedM_le _ _ _ _ _ h).2
  | both =>
    simp only [computeM] at h
    cases hf : fixedM maxDims σ.length idx left with
    | none => rw [hf] at h; simp at h
    | some f =>
      rw [hf] at h; simp only [Option.map_some, Option.some.injEq] at h
      obtain ⟨_, lim, hl, hle⟩ := fixedM_le _ _ _ _ _ hf
      exact ⟨lim, hl, by omega⟩

theorem computeM_le_len (crit : Criteria) (thr : Rat) (maxDims : List Nat) (σ : List Rat) (idx : Nat)
    (left : Bool) (m : Nat) (hne : σ ≠ []) (h : computeM crit thr maxDims σ idx left = some m) : m ≤ σ.length := by
  cases crit with
  | threshold => simp only [computeM, Option.some.injEq] at h; subst h; exact thresholdM_le_len _ _ hne
  | fixed => exact (fixedM_le _ _ _ _ _ h).1
  | both =>
    simp only [computeM] at h
    cases hf : fixedM maxDims σ.length idx left with
    | none => rw [hf] at h; simp at h
    | some f =>
      rw [hf] at h; simp only [Option.map_some, Option.some.injEq] at h
      have := thresholdM_le_len thr σ hne; omega

/-- `both` is the smaller of the two counts -/
theorem computeM_both (thr : Rat) (maxDims : List Nat) (σ : List Rat) (idx : Nat) (left : Bool) (f : Nat)
    (hf : fixedM maxDims σ.length idx left = some f) :
    computeM .both thr maxDims σ idx left = some (min (thresholdM thr σ) f) := by
  simp [computeM, hf]

/-- for a non-increasing spectrum the entries above the threshold form a prefix: the kept states
    are exactly the `thresholdM` largest ones -/
theorem threshold_prefix (c : Rat) : ∀ (σ : List Rat), σ.Pairwise (· ≥ ·) → (∀ s ∈ σ, 0 ≤ s) →
    σ.filter (fun s => decide (c < s * s)) = σ.take (σ.filter fun s => decide (c < s * s)).length
  | [], _, _ => by simp
  | s :: σ, hs, hn => by
    have hs' := (List.pairwise_cons.mp hs)
    have ih := threshold_prefix c σ hs'.2 (fun x hx => hn x (List.mem_cons_of_mem _ hx))
    by_cases h : c < s * s
    · simp only [List.filter_cons, h, decide_true, if_true, List.length_cons, List.take_succ_cons]
      rw [← ih]
    · -- nothing later can pass: every later entry is ≤ s and non-negative
      have hall : σ.filter (fun x => decide (c < x * x)) = [] := by
        rw [List.filter_eq_nil_iff]
        intro x hx
        have hxs : x ≤ s := hs'.1 x hx
        have hx0 : 0 ≤ x := hn x (List.mem_cons_of_mem _ hx)
        have : x * x ≤ s * s := mul_le_mul hxs hxs hx0 (le_trans hx0 hxs)
        simp only [decide_eq_true_eq, not_lt]
        linarith
      simp [List.filter_cons, h, hall]

/-- no entry of a flat two-entry spectrum exceeds the threshold 0.9 (the situation of defect D10):
    the kept count is nevertheless 1 -/
theorem flat_spectrum_keeps_one : aboveThr (9/10) [1, 1] = 0 ∧ thresholdM (9/10) [1, 1] = 1 := by decide +kernel

theorem normSq_append (a b : List Rat) : normSq (a ++ b) = normSq a + normSq b := by
  induction a with
  | nil => simp [normSq]
  | cons x a ih =>
    simp only [List.cons_append, normSq, List.foldr_cons] at ih ⊢
    rw [ih]; ring

/-- kept weight + discarded weight = total weight; hence the norm never grows at a cut -/
theorem kept_add_discarded (σ : List Rat) (m : Nat) :
    normSq (σ.take m) + discarded σ m = normSq σ := by
  unfold discarded
  rw [← normSq_append, List.take_append_drop]

theorem normSq_nonneg (σ : List Rat) : 0 ≤ normSq σ := by
  induction σ with
  | nil => simp [normSq]
  | cons x σ ih =>
    simp only [normSq, List.foldr_cons] at ih ⊢
    have := mul_self_nonneg x
    linarith

theorem kept_le_total (σ : List Rat) (m : Nat) : normSq (σ.take m) ≤ normSq σ := by
  have h1 := kept_add_discarded σ m
  have h2 : 0 ≤ discarded σ m := normSq_nonneg _
  linarith

/-! ### single cut, as matrices: `ψ = U·D·Vᴴ` with orthonormal columns -/
section SVD
open Matrix
variable {K : Type} [CommRing K] [StarRing K] {n m k : ℕ}

/-- Frobenius norm² of `U·D·Vᴴ` with `UᴴU = 1`, `VᴴV = 1` is `tr(DᴴD)`.
    With `D` the kept singular values this is the norm of the truncated state; with `D` the
    dropped ones (the difference `ψ − ψ_M = U·(D − D_M)·Vᴴ`) it is the truncation error:
    error² = Σ discarded σ², norm² = Σ kept σ². -/
theorem frobenius_of_orthonormal_factors (U : Matrix (Fin n) (Fin k) K) (V : Matrix (Fin m) (Fin k) K)
    (D : Matrix (Fin k) (Fin k) K) (hU : Uᴴ * U = 1) (hV : Vᴴ * V = 1) :
    trace ((U * D * Vᴴ)ᴴ * (U * D * Vᴴ)) = trace (Dᴴ * D) := by
  rw [conjTranspose_mul, conjTranspose_mul, conjTranspose_conjTranspose]
  have h1 : V * (Dᴴ * Uᴴ) * (U * D * Vᴴ) = V * (Dᴴ * D * Vᴴ) := by
    simp only [Matrix.mul_assoc]
    rw [← Matrix.mul_assoc Uᴴ U, hU, Matrix.one_mul]
  rw [h1, ← Matrix.mul_assoc, Matrix.trace_mul_comm, ← Matrix.mul_assoc, ← Matrix.mul_assoc]
  rw [hV, Matrix.one_mul]

/-- the difference of the full and the truncated expansion is again of the form `U·D'·Vᴴ` -/
theorem truncation_difference (U : Matrix (Fin n) (Fin k) K) (V : Matrix (Fin m) (Fin k) K)
    (D DM : Matrix (Fin k) (Fin k) K) : U * D * Vᴴ - U * DM * Vᴴ = U * (D - DM) * Vᴴ := by
  rw [Matrix.mul_sub, Matrix.sub_mul]

end SVD

-- non-vacuity / exact behaviour on concrete spectra
example : thresholdM (1/2) [3, 2, 1, 0] = 2 := by decide +kernel
example : computeM .both (1/10) [1, 2, 3, 1] [3, 2, 1] 1 true = some 3 := by decide +kernel
example : computeM .both (1/10) [1, 2, 3, 1] [3, 2, 1] 1 false = some 2 := by decide +kernel
example : computeM .fixed (1/10) [1] [3, 2, 1] 1 true = none := by decide +kernel

end RenoVerif.Trunc
