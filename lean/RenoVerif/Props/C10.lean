/-
  C10 — imaginary-time / thermal propagation (partial: convergence to the Gibbs state is C09's
  numerical part in imaginary time).  Proved here:
  * a bond-dimension-1 operator chain (the closed-form propagator of a purely local vibrational
    Hamiltonian) has dense matrix elements equal to the PRODUCT of its local factors, i.e. it is the
    tensor product `⊗_i e^{x h_i}`; a scalar `e^{shift·x}` multiplied into one site multiplies the
    whole operator;
  * the one-step Runge–Kutta / Taylor skeleton of C09 holds verbatim for the generator `−τH`
    (those theorems are over an arbitrary linear generator);
  * phase bookkeeping of `evolve_exact`: the offset phase belongs to the RESULT's prefactor and
    the input is left untouched — with a decidable witness that the pinned code (defect D3) does
    neither.
-/
import RenoVerif.Lemmas.ChainDot
import Mathlib.Algebra.Module.LinearMap.Basic
import Mathlib.Algebra.Order.Ring.Rat

namespace RenoVerif.Chain
open Matrix

variable {R : Type} [CommRing R]

/-- one local matrix per site -/
def LocalOps (R : Type) : List ℕ → Type
  | [] => Unit
  | d :: ds => (Fin d → Fin d → R) × LocalOps R ds

/-- the bond-1 operator chain built from local matrices (`exact_propagator`) -/
def toOpChain : {ds : List ℕ} → LocalOps R ds → OpChain R ds 1 1
  | [], _ => .nil 1
  | _ :: _, (h, rest) => .cons (fun s t => Matrix.of fun _ _ => h s t) (toOpChain rest)

def locProd : {ds : List ℕ} → LocalOps R ds → Cfg ds → Cfg ds → R
  | [], _, _, _ => 1
  | _ :: _, (h, rest), (s, σ), (t, τ) => h s t * locProd rest σ τ

/-- **closed-form propagator**: dense matrix element = product of local matrix elements -/
theorem bond1_dense : ∀ {ds : List ℕ} (L : LocalOps R ds) (σ τ : Cfg ds),
    ampOp (toOpChain L) σ τ 0 0 = locProd L σ τ
  | [], _, _, _ => by simp [toOpChain, ampOp, locProd]
  | _ :: _, (h, rest), (s, σ), (t, τ) => by
    simp only [toOpChain, ampOp, locProd]
    rw [Matrix.mul_apply, Fintype.sum_unique, Fin.default_eq_zero, bond1_dense rest σ τ]
    simp

/-- scaling one local factor (the `e^{shift·x}` that `exact_propagator` multiplies in at `qnidx`) -/
def scaleLocal : {ds : List ℕ} → ℕ → R → LocalOps R ds → LocalOps R ds
  | [], _, _, u => u
  | _ :: _, 0, c, (h, rest) => (fun s t => c * h s t, rest)
  | _ :: _, k+1, c, (h, rest) => (h, scaleLocal k c rest)

theorem locProd_scale : ∀ {ds : List ℕ} (k : ℕ) (c : R) (L : LocalOps R ds) (σ τ : Cfg ds), k < ds.length →
    locProd (scaleLocal k c L) σ τ = c * locProd L σ τ
  | [], _, _, _, _, _, h => by simp at h
  | _ :: _, 0, c, (h, rest), (s, σ), (t, τ), _ => by simp [scaleLocal, locProd, mul_assoc]
  | _ :: _, k+1, c, (h, rest), (s, σ), (t, τ), hk => by
    simp only [scaleLocal, locProd]
    rw [locProd_scale k c rest σ τ (by simpa using hk)]; ring

end RenoVerif.Chain

namespace RenoVerif.Phase
variable {K M : Type} [Field K] [AddCommGroup M] [Module K M]

/-- a state = scalar prefactor × tensor part -/
structure S (K M : Type) where
  coeff : K
  vec : M

def repr (s : S K M) : M := s.coeff • s.vec

/-- `evolve_exact` as it must be: returns (input afterwards, result) -/
def evolveExactFixed (U : M →ₗ[K] M) (phase : K) (s : S K M) : S K M × S K M :=
  (s, ⟨s.coeff * phase, U s.vec⟩)

/-- `evolve_exact` of the pinned code: the phase is multiplied into the INPUT's prefactor after
    the result (which copied the old prefactor) has been built -/
def evolveExactPinned (U : M →ₗ[K] M) (phase : K) (s : S K M) : S K M × S K M :=
  (⟨s.coeff * phase, s.vec⟩, ⟨s.coeff, U s.vec⟩)

/-- **phase bookkeeping**: result·prefactor = phase · U (input·prefactor), and the input is unchanged -/
theorem evolveExactFixed_spec (U : M →ₗ[K] M) (phase : K) (s : S K M) :
    repr (evolveExactFixed U phase s).2 = phase • U (repr s) ∧ (evolveExactFixed U phase s).1 = s := by
  constructor
  · simp only [evolveExactFixed, repr, map_smul, smul_smul, mul_comm]
  · rfl

/-- the pinned variant violates both halves (K = M = ℚ, U = id, phase = 2, state (1, 1)) -/
theorem evolveExactPinned_violates :
    let r := evolveExactPinned (K := ℚ) (M := ℚ) LinearMap.id 2 ⟨1, 1⟩
    repr r.2 ≠ (2 : ℚ) • (LinearMap.id : ℚ →ₗ[ℚ] ℚ) (repr (⟨1, 1⟩ : S ℚ ℚ)) ∧ repr r.1 ≠ repr (⟨1, 1⟩ : S ℚ ℚ) := by
  simp [evolveExactPinned, repr]

end RenoVerif.Phase
