/-
  C10 — imaginary-time / thermal propagation (partial: convergence to the Gibbs state is C09's
  numerical part in imaginary time).  Proved here:
  * a bond-dimension-1 operator chain (the closed-form propagator of a purely local vibrational
    Hamiltonian) has dense matrix elements equal to the PRODUCT of its local factors, i.e. it is the
    tensor product `⊗_i e^{x h_i}`; a scalar `e^{shift·x}` multiplied into one site multiplies the
    whole operator;
  * the one-step Runge–Kutta / Taylor skeleton of C09 holds verbatim for the generator `−τH`
    (those theorems are over an arbitrary linear generator);
  * phase bookkeeping of `evolve_exact`: the offset phase belongs to the RESULT's prefactor and
    the input is left untouched — with a decidable witness that the pinned code (defect D3) does
    neither.
-/
import RenoVerif.Lemmas.ChainDot
import Mathlib.Algebra.Module.LinearMap.Basic
import Mathlib.Algebra.Order.Ring.Rat
import Mathlib.LinearAlgebra.Matrix.Trace
import Mathlib.LinearAlgebra.Matrix.Notation
import Mathlib.Tactic.FinCases
import Mathlib.Tactic.Ring
import Mathlib.Tactic.FieldSimp

namespace RenoVerif.Chain
open Matrix

variable {R : Type} [CommRing R]

/-- one local matrix per site -/
def LocalOps (R : Type) : List ℕ → Type
  | [] => Unit
  | d :: ds => (Fin d → Fin d → R) × LocalOps R ds

/-- the bond-1 operator chain built from local matrices (`exact_propagator`) -/
def toOpChain : {ds : List ℕ} → LocalOps R ds → OpChain R ds 1 1
  | [], _ => .nil 1
  | _ :: _, (h, rest) => .cons (fun s t => Matrix.of fun _ _ => h s t) (toOpChain rest)

def locProd : {ds : List ℕ} → LocalOps R ds → Cfg ds → Cfg ds → R
  | [], _, _, _ => 1
  | _ :: _, (h, rest), (s, σ), (t, τ) => h s t * locProd rest σ τ

/-- **closed-form propagator**: dense matrix element = product of local matrix elements -/
theorem bond1_dense : ∀ {ds : List ℕ} (L : LocalOps R ds) (σ τ : Cfg ds),
    ampOp (toOpChain L) σ τ 0 0 = locProd L σ τ
  | [], _, _, _ => by simp [toOpChain, ampOp, locProd]
  | _ :: _, (h, rest), (s, σ), (t, τ) => by
    simp only [toOpChain, ampOp, locProd]
    rw [Matrix.mul_apply, Fintype.sum_unique, Fin.default_eq_zero, bond1_dense rest σ τ]
    simp

/-- scaling one local factor (the `e^{shift·x}` that `exact_propagator` multiplies in at `qnidx`) -/
def scaleLocal : {ds : List ℕ} → ℕ → R → LocalOps R ds → LocalOps R ds
  | [], _, _, u => u
  | _ :: _, 0, c, (h, rest) => (fun s t => c * h s t, rest)
  | _ :: _, k+1, c, (h, rest) => (h, scaleLocal k c rest)

theorem locProd_scale : ∀ {ds : List ℕ} (k : ℕ) (c : R) (L : LocalOps R ds) (σ τ : Cfg ds), k < ds.length →
    locProd (scaleLocal k c L) σ τ = c * locProd L σ τ
  | [], _, _, _, _, _, h => by simp at h
  | _ :: _, 0, c, (h, rest), (s, σ), (t, τ), _ => by simp [scaleLocal, locProd, mul_assoc]
  | _ :: _, k+1, c, (h, rest), (s, σ), (t, τ), hk => by
    simp only [scaleLocal, locProd]
    rw [locProd_scale k c rest σ τ (by simpa using hk)]; ring

end RenoVerif.Chain

namespace RenoVerif.Phase
variable {K M : Type} [Field K] [AddCommGroup M] [Module K M]

/-- a state = scalar prefactor × tensor part -/
structure S (K M : Type) where
  coeff : K
  vec : M

def repr (s : S K M) : M := s.coeff • s.vec

/-- `evolve_exact` as it must be: returns (input afterwards, result) -/
def evolveExactFixed (U : M →ₗ[K] M) (phase : K) (s : S K M) : S K M × S K M :=
  (s, ⟨s.coeff * phase, U s.vec⟩)

/-- `evolve_exact` of the pinned code: the phase is multiplied into the INPUT's prefactor after
    the result (which copied the old prefactor) has been built -/
def evolveExactPinned (U : M →ₗ[K] M) (phase : K) (s : S K M) : S K M × S K M :=
  (⟨s.coeff * phase, s.vec⟩, ⟨s.coeff, U s.vec⟩)

/-- **phase bookkeeping**: result·prefactor = phase · U (input·prefactor), and the input is unchanged -/
theorem evolveExactFixed_spec (U : M →ₗ[K] M) (phase : K) (s : S K M) :
    repr (evolveExactFixed U phase s).2 = phase • U (repr s) ∧ (evolveExactFixed U phase s).1 = s := by
  constructor
  · simp only [evolveExactFixed, repr, map_smul, smul_smul, mul_comm]
  · rfl

/-- the pinned variant violates both halves (K = M = ℚ, U = id, phase = 2, state (1, 1)) -/
theorem evolveExactPinned_violates :
    let r := evolveExactPinned (K := ℚ) (M := ℚ) LinearMap.id 2 ⟨1, 1⟩
    repr r.2 ≠ (2 : ℚ) • (LinearMap.id : ℚ →ₗ[ℚ] ℚ) (repr (⟨1, 1⟩ : S ℚ ℚ)) ∧ repr r.1 ≠ repr (⟨1, 1⟩ : S ℚ ℚ) := by
  simp [evolveExactPinned, repr]

end RenoVerif.Phase

namespace RenoVerif.Thermal
open Matrix

variable {n : Type} [Fintype n] [DecidableEq n] {K : Type} [CommRing K] [StarRing K]

/-- **purification**: the expectation value the code computes on the purified state `A` (an `MpDm`: a matrix with a
    physical and an auxiliary index), `⟨A, O A⟩ = Tr(Aᴴ O A)`, is `Tr(O ρ)` with `ρ = A Aᴴ` -/
theorem purification_expectation (A O : Matrix n n K) : trace (Aᴴ * O * A) = trace (O * (A * Aᴴ)) := by
  rw [Matrix.mul_assoc, Matrix.trace_mul_comm, Matrix.mul_assoc]

/-- `m` steps with a Hermitian one-step propagator `U = e^{−τH}` applied to the maximally entangled state (the identity)
    give `A = U^m`, hence `ρ = A Aᴴ = U^(2m)`: propagating the purification to β/2 yields the density operator of β -/
theorem thermal_steps (U : Matrix n n K) (hU : Uᴴ = U) (m : ℕ) : (U ^ m) * (U ^ m)ᴴ = U ^ (2 * m) := by
  rw [Matrix.conjTranspose_pow, hU, ← pow_add, two_mul]

/-- normalising the purified state after every step (`normalize("mps_and_coeff")`) only rescales `ρ`: the ratio
    `Tr(Oρ)/Tr(ρ)` reported as thermal average is unaffected -/
theorem purification_scale (A O : Matrix n n K) (c : K) :
    trace (O * ((c • A) * (c • A)ᴴ)) = (c * star c) * trace (O * (A * Aᴴ)) := by
  simp only [Matrix.conjTranspose_smul, Matrix.smul_mul, Matrix.mul_smul, Matrix.trace_smul, smul_eq_mul]
  ring

/-- the two together: after `m` normalised steps the reported average of `O` is `Tr(O U^{2m}) / Tr(U^{2m})`, whatever the
    (non-zero) normalisation constants were -/
theorem thermal_average {F : Type} [Field F] [StarRing F] (U O : Matrix n n F) (hU : Uᴴ = U) (m : ℕ) (c : F)
    (hc : c * star c ≠ 0) :
    trace (O * ((c • U ^ m) * (c • U ^ m)ᴴ)) / trace ((c • U ^ m) * (c • U ^ m)ᴴ)
      = trace (O * U ^ (2 * m)) / trace (U ^ (2 * m)) := by
  have h1 := purification_scale (U ^ m) O c
  have h2 := purification_scale (U ^ m) (1 : Matrix n n F) c
  rw [Matrix.one_mul, Matrix.one_mul] at h2
  rw [h1, h2, thermal_steps U hU m, mul_div_mul_left _ _ hc]

example : (!![2, 0; 0, 3] : Matrix (Fin 2) (Fin 2) ℚ)ᴴ = !![2, 0; 0, 3] := by
  ext i j; fin_cases i <;> fin_cases j <;> simp [Matrix.conjTranspose_apply]

end RenoVerif.Thermal
