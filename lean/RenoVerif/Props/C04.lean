/-
  C04 — canonicalisation and lossless compression preserve the represented object; sites behind
  the centre are isometries.  The QR / SVD kernels enter as parameters with their contract
  (`Q·R = A`, `QᴴQ = 1`): the theorems hold for EVERY kernel output satisfying the contract.
-/
import RenoVerif.Lemmas.ChainDot

namespace RenoVerif.Chain
open Matrix

variable {R : Type} [CommRing R]

/-- any finite sequence of bond re-factorisations that keep the two-site tensors (QR pushes in
    either direction, to any stop site; lossless SVD updates; operator norm balancing) leaves
    every amplitude unchanged -/
theorem c04_regauge_preserves {ds : List ℕ} {l r : ℕ} {a b : Chain R ds l r} (h : Steps a b) (c : Cfg ds) :
    amp a c = amp b c := amp_steps h c

/-- the right-moving push of `_push_cano`/`_update_ms` is such a re-factorisation whenever `Q·R = A` -/
theorem c04_pushRight_is_step {d e l m m' k r : ℕ} {ds : List ℕ} (A : Site R d l m) (B : Site R e m k)
    (Q : Site R d l m') (Rm : Matrix (Fin m') (Fin m) R) (rest : Chain R ds k r) (hQR : ∀ s, Q s * Rm = A s) :
    Step (.cons A (.cons B rest)) (.cons Q (.cons (fun t => Rm * B t) rest)) := step_pushRight A B Q Rm rest hQR

theorem c04_pushLeft_is_step {d e l m m' k r : ℕ} {ds : List ℕ} (A : Site R d l m) (B : Site R e m k)
    (Q : Site R e m' k) (Lm : Matrix (Fin m) (Fin m') R) (rest : Chain R ds k r) (hLQ : ∀ t, Lm * Q t = B t) :
    Step (.cons A (.cons B rest)) (.cons (fun s => A s * Lm) (.cons Q rest)) := step_pushLeft A B Q Lm rest hLQ

/-- lossless truncated SVD update: if `A = U·S·Vᵀ` sitewise with the kept columns, then keeping
    `U` and multiplying `S·Vᵀ` into the neighbour is a re-factorisation (bond may shrink) -/
theorem c04_svd_update_is_step {d e l m m' k r : ℕ} {ds : List ℕ} (A : Site R d l m) (B : Site R e m k)
    (U : Site R d l m') (S : Matrix (Fin m') (Fin m') R) (Vt : Matrix (Fin m') (Fin m) R)
    (rest : Chain R ds k r) (h : ∀ s, U s * (S * Vt) = A s) :
    Step (.cons A (.cons B rest)) (.cons U (.cons (fun t => (S * Vt) * B t) rest)) :=
  step_pushRight A B U (S * Vt) rest h

/-- operator norm balancing `u·c, vt/c`: scaling the two factors inversely is a re-factorisation -/
theorem c04_rescale_is_step {d e l m k r : ℕ} {ds : List ℕ} (A : Site R d l m) (B : Site R e m k)
    (x y : R) (hxy : x * y = 1) (rest : Chain R ds k r) :
    Step (.cons A (.cons B rest)) (.cons (fun s => x • A s) (.cons (fun t => y • B t) rest)) :=
  Step.here A B _ _ rest (fun s t => by
    rw [Matrix.smul_mul, Matrix.mul_smul, smul_smul, hxy, one_smul])

section Iso
variable [StarRing R]

/-- after the sweep every site behind the centre is left-isometric, hence the whole block is an
    isometry (Gram matrix of its amplitude matrices is the identity) -/
theorem c04_block_isometry {ds : List ℕ} {l r : ℕ} (a : Chain R ds l r) (h : AllLeftIso a) :
    ∑ c : Cfg ds, (amp a c)ᴴ * amp a c = 1 := gram_of_allLeftIso a h

end Iso

/-! dimension bookkeeping of one left-to-right sweep with economic factorisations (no QN blocks):
    the new right bond of a site is `min (Dleft·d) Dold`. -/
def sweepR : List ℕ → List ℕ → ℕ → List ℕ
  | d :: ds, Dold :: Ds, D => let D' := min (D * d) Dold; D' :: sweepR ds Ds D'
  | _, _, _ => []

/-- cumulative products of the physical dimensions to the left of each bond -/
def prefixProds : List ℕ → ℕ → List ℕ
  | [], _ => []
  | d :: ds, D => (D * d) :: prefixProds ds (D * d)

/-- no bond dimension grows -/
theorem sweepR_le_old : ∀ (ds Ds : List ℕ) (D : ℕ), List.Forall₂ (· ≤ ·) (sweepR ds Ds D) (Ds.take (sweepR ds Ds D).length)
  | [], _, _ => by simp [sweepR]
  | _ :: _, [], _ => by simp [sweepR]
  | d :: ds, Dold :: Ds, D => by
    simp only [sweepR, List.length_cons, List.take_succ_cons]
    exact List.Forall₂.cons (Nat.min_le_right _ _) (sweepR_le_old ds Ds _)

theorem prefixProds_mono : ∀ (ds : List ℕ) (D D' : ℕ), D ≤ D' →
    List.Forall₂ (· ≤ ·) (prefixProds ds D) (prefixProds ds D')
  | [], _, _, _ => by simp [prefixProds]
  | d :: ds, D, D', h => by
    simp only [prefixProds]
    exact List.Forall₂.cons (Nat.mul_le_mul_right d h) (prefixProds_mono ds _ _ (Nat.mul_le_mul_right d h))

/-- after the sweep every bond is bounded by the product of the physical dimensions to its left
    (times the incoming bond); the mirror sweep gives the bound from the right -/
theorem sweepR_le_prefix : ∀ (ds Ds : List ℕ) (D : ℕ),
    List.Forall₂ (· ≤ ·) (sweepR ds Ds D) ((prefixProds ds D).take (sweepR ds Ds D).length)
  | [], _, _ => by simp [sweepR]
  | _ :: _, [], _ => by simp [sweepR]
  | d :: ds, Dold :: Ds, D => by
    simp only [sweepR, prefixProds, List.length_cons, List.take_succ_cons]
    refine List.Forall₂.cons (Nat.min_le_left _ _) ?_
    have h1 := sweepR_le_prefix ds Ds (min (D * d) Dold)
    have h2 := prefixProds_mono ds (min (D * d) Dold) (D * d) (Nat.min_le_left _ _)
    -- compose the two pointwise inequalities
    have h3 : ∀ (xs ys zs : List ℕ), List.Forall₂ (· ≤ ·) xs (ys.take xs.length) →
        List.Forall₂ (· ≤ ·) ys zs → List.Forall₂ (· ≤ ·) xs (zs.take xs.length) := by
      intro xs
      induction xs with
      | nil => intro ys zs _ _; simp
      | cons x xs ih =>
        intro ys zs hxy hyz
        cases hyz with
        | nil => simp at hxy
        | cons hyz1 hyzr =>
          simp only [List.length_cons, List.take_succ_cons] at hxy ⊢
          cases hxy with
          | cons hx hr => exact List.Forall₂.cons (Nat.le_trans hx hyz1) (ih _ _ hr hyzr)
    exact h3 _ _ _ h1 h2

example : sweepR [2, 3, 2] [5, 7, 1] 1 = [2, 6, 1] := by decide

end RenoVerif.Chain
