/-
  C15 — property theorems: the symbolic operator algebra is a homomorphism into ANY algebra
  `A` over the scalars, for every interpretation `I` of (simple symbol, DoF) and every expression.
-/
import RenoVerif.Model.OpAlg
import Mathlib.Algebra.Algebra.Basic
import Mathlib.Algebra.BigOperators.Group.List.Basic
import Mathlib.Algebra.BigOperators.Ring.List
import Mathlib.Algebra.Field.Basic
import Mathlib.Tactic.Abel

namespace RenoVerif.OpAlg

variable {R A : Type} [CommRing R] [Ring A] [Algebra R A] (I : String → Nat → A)

/-- ordered product of the interpreted simple symbols -/
def base (l : List Atom) : A := (l.map fun t => I t.sym t.dof).prod
def den (a : Op R) : A := algebraMap R A a.factor * base I a.atoms
def denS (s : OpSum R) : A := (s.map (den I)).sum

theorem base_append (l m : List Atom) : base I (l ++ m) = base I l * base I m := by
  simp [base, List.prod_append]

/-- product of operators denotes the product, in the written order -/
theorem den_mul (a b : Op R) : den I (a.mul b) = den I a * den I b := by
  simp only [den, Op.mul, base_append, map_mul, mul_assoc]
  congr 1
  rw [← mul_assoc, Algebra.commutes, mul_assoc]

theorem den_smul (a : Op R) (c : R) : den I (a.smul c) = c • den I a := by
  simp only [den, Op.smul, Algebra.smul_def]
  rw [mul_comm a.factor c, map_mul, mul_assoc]

theorem den_neg (a : Op R) : den I a.neg = - den I a := by
  simp [den, Op.neg]

theorem denS_nil : denS I ([] : OpSum R) = 0 := rfl
theorem denS_cons (a : Op R) (s : OpSum R) : denS I (a :: s) = den I a + denS I s := by
  simp [denS]

theorem denS_add (s t : OpSum R) : denS I (s.add t) = denS I s + denS I t := by
  simp [denS, OpSum.add, List.sum_append]

theorem denS_neg (s : OpSum R) : denS I s.neg = - denS I s := by
  induction s with
  | nil => simp [denS, OpSum.neg]
  | cons a s ih =>
    have : OpSum.neg (a :: s) = a.neg :: OpSum.neg s := rfl
    rw [this, denS_cons, denS_cons, ih, den_neg]; abel

theorem denS_sub (s t : OpSum R) : denS I (s.sub t) = denS I s - denS I t := by
  have : s.sub t = s.add t.neg := rfl
  rw [this, denS_add, denS_neg]; abel

theorem denS_smul (s : OpSum R) (c : R) : denS I (s.smul c) = c • denS I s := by
  induction s with
  | nil => simp [denS, OpSum.smul]
  | cons a s ih =>
    have : OpSum.smul (a :: s) c = a.smul c :: OpSum.smul s c := rfl
    rw [this, denS_cons, denS_cons, ih, den_smul, smul_add]

theorem denS_mul_single (a : Op R) (t : OpSum R) :
    denS I (t.map fun b => a.mul b) = den I a * denS I t := by
  induction t with
  | nil => simp [denS]
  | cons b t ih => simp only [List.map_cons, denS_cons, ih, den_mul, mul_add]

/-- distributivity: a product of sums denotes the product of the denotations -/
theorem denS_mul (s t : OpSum R) : denS I (s.mul t) = denS I s * denS I t := by
  induction s with
  | nil => simp [denS, OpSum.mul]
  | cons a s ih =>
    have : OpSum.mul (a :: s) t = (t.map fun b => a.mul b) ++ OpSum.mul s t := rfl
    rw [this]
    have h2 := denS_add I (t.map fun b => a.mul b) (OpSum.mul s t)
    simp only [OpSum.add] at h2
    rw [h2, ih, denS_mul_single, denS_cons, add_mul]

/-- removing identity factors does not change the denoted operator (given `I "I" d = 1`) -/
theorem base_filter_I (hI : ∀ d, I "I" d = 1) (l : List Atom) :
    base I (l.filter fun t => !t.isI) = base I l := by
  induction l with
  | nil => rfl
  | cons t l ih =>
    by_cases h : t.isI = true
    · have hs : t.sym = "I" := by simpa [Atom.isI] using h
      simp only [List.filter_cons, h, Bool.not_true, Bool.false_eq_true, if_false]
      rw [ih]
      simp [base, hs, hI]
    · have h' : t.isI = false := by simpa using h
      simp only [List.filter_cons, h', Bool.not_false, if_true]
      simp only [base, List.map_cons, List.prod_cons] at ih ⊢
      rw [ih]

theorem base_all_I (hI : ∀ d, I "I" d = 1) (l : List Atom) (h : l.all Atom.isI = true) :
    base I l = 1 := by
  induction l with
  | nil => rfl
  | cons t l ih =>
    simp only [List.all_cons, Bool.and_eq_true] at h
    have hs : t.sym = "I" := by simpa [Atom.isI] using h.1
    simp only [base, List.map_cons, List.prod_cons, hs, hI, one_mul]
    exact ih h.2

theorem den_squeeze (hI : ∀ d, I "I" d = 1) (a a' : Op R) (h : a.squeeze = .ok a') :
    den I a' = den I a := by
  unfold Op.squeeze at h
  split at h
  · rename_i hid
    have hall : a.atoms.all Atom.isI = true := by
      simp only [Op.isIdentity, Bool.and_eq_true] at hid; exact hid.2
    cases hat : a.atoms with
    | nil => rw [hat] at h; simp at h; rw [← h]
    | cons t l =>
      rw [hat] at h
      simp only [Except.ok.injEq] at h
      rw [← h]
      simp only [den]
      rw [base_all_I I hI a.atoms hall]
      simp [base, hI]
  · split at h
    · cases h
    · simp only [Except.ok.injEq] at h
      rw [← h]; simp only [den]; rw [base_filter_I I hI]

theorem denS_squeezeAll (hI : ∀ d, I "I" d = 1) (s s' : OpSum R) (h : squeezeAll s = .ok s') :
    denS I s' = denS I s := by
  induction s generalizing s' with
  | nil => simp [squeezeAll] at h; rw [← h]
  | cons a s ih =>
    simp only [squeezeAll] at h
    split at h
    · rename_i a' s'' ha hs
      simp only [Except.ok.injEq] at h
      rw [← h, denS_cons, denS_cons, den_squeeze I hI a a' ha, ih s'' hs]
    · cases h
    · cases h

/-- two operators that are "the same term" denote multiples of one common operator -/
theorem base_eq_of_sameTerm (a b : Op R) (h : sameTerm a b = true) : base I a.atoms = base I b.atoms := by
  unfold sameTerm at h
  have h' : a.atoms.map (fun t => (t.sym, t.dof)) = b.atoms.map (fun t => (t.sym, t.dof)) := by
    simpa using h
  have : ∀ l : List Atom, base I l = ((l.map fun t => (t.sym, t.dof)).map fun p => I p.1 p.2).prod := by
    intro l; simp [base, List.map_map, Function.comp_def]
  rw [this, this, h']

theorem denS_same (op : Op R) (l : OpSum R) (h : ∀ o ∈ l, sameTerm op o = true) :
    denS I l = algebraMap R A (sumFactors l) * base I op.atoms := by
  induction l with
  | nil => simp [denS, sumFactors]
  | cons o l ih =>
    have ho := h o (List.mem_cons_self)
    rw [denS_cons, ih (fun o' ho' => h o' (List.mem_cons_of_mem _ ho'))]
    simp only [den, sumFactors, List.foldr_cons, map_add, add_mul]
    rw [base_eq_of_sameTerm I op o ho]

theorem denS_filter_split (p : Op R → Bool) (l : OpSum R) :
    denS I l = denS I (l.filter p) + denS I (l.filter fun o => !p o) := by
  induction l with
  | nil => simp [denS]
  | cons o l ih =>
    by_cases h : p o = true
    · simp only [List.filter_cons, h, Bool.not_true, if_true, Bool.false_eq_true, if_false, denS_cons]
      rw [ih]; abel
    · have h' : p o = false := by simpa using h
      simp only [List.filter_cons, h', Bool.not_false, if_true, Bool.false_eq_true, if_false, denS_cons]
      rw [ih]; abel

/-- merging equal terms never changes the denoted operator -/
theorem denS_merge (n : Nat) (s : OpSum R) (hn : s.length ≤ n) : denS I (merge n s) = denS I s := by
  induction n generalizing s with
  | zero =>
    have : s = [] := List.eq_nil_of_length_eq_zero (by omega)
    subst this; rfl
  | succ n ih =>
    cases s with
    | nil => rfl
    | cons op rest =>
      simp only [merge, denS_cons]
      have hlen : (rest.filter fun o => !sameTerm op o).length ≤ n := by
        have := List.length_filter_le (fun o => !sameTerm op o) rest
        simp only [List.length_cons] at hn; omega
      rw [ih _ hlen, denS_filter_split I (sameTerm op) rest,
        denS_same I op (rest.filter (sameTerm op)) (fun o ho => (List.mem_filter.mp ho).2)]
      simp only [den, map_add, add_mul]; abel

/-- **simplify** splits the sum into what it keeps and what it drops, exactly -/
theorem denS_simplify_split (hI : ∀ d, I "I" d = 1) (small : R → Bool) (s k d : OpSum R)
    (hk : simplify small s = .ok k) (hd : dropped small s = .ok d) :
    denS I s = denS I k + denS I d ∧ ∀ o ∈ d, small o.factor = true := by
  unfold simplify at hk; unfold dropped at hd
  cases hs : squeezeAll s with
  | error e => rw [hs] at hk; cases hk
  | ok s' =>
    rw [hs] at hk hd
    simp only [Except.ok.injEq] at hk hd
    constructor
    · rw [← denS_squeezeAll I hI s s' hs, ← denS_merge I s'.length s' (Nat.le_refl _), ← hk, ← hd]
      rw [denS_filter_split I (fun o => small o.factor)]; abel
    · intro o ho; rw [← hd] at ho; exact (List.mem_filter.mp ho).2

/-- with tolerance 0 (`small f ↔ f = 0`) simplification is exact -/
theorem denS_simplify0 (hI : ∀ d, I "I" d = 1) (s k : OpSum R) [DecidableEq R]
    (hk : simplify (fun f => f == 0) s = .ok k) : denS I k = denS I s := by
  cases hd : dropped (fun f : R => f == 0) s with
  | error e =>
    unfold simplify at hk; unfold dropped at hd
    cases hs : squeezeAll s <;> simp [hs] at hk hd
  | ok d =>
    obtain ⟨h1, h2⟩ := denS_simplify_split I hI _ s k d hk hd
    have hz : denS I d = 0 := by
      have : ∀ l : OpSum R, (∀ o ∈ l, o.factor = 0) → denS I l = 0 := by
        intro l; induction l with
        | nil => intro _; rfl
        | cons o l ih =>
          intro h
          rw [denS_cons, ih (fun o' ho' => h o' (List.mem_cons_of_mem _ ho'))]
          simp [den, h o List.mem_cons_self]
      exact this d (fun o ho => by simpa using h2 o ho)
    rw [h1, hz, add_zero]

/-- no two remaining terms of `merge` are the same term -/
theorem merge_no_same (n : Nat) (s : OpSum R) :
    (merge n s).Pairwise (fun a b => sameTerm a b = false) := by
  induction n generalizing s with
  | zero => simp [merge]
  | succ n ih =>
    cases s with
    | nil => simp [merge]
    | cons op rest =>
      simp only [merge, List.pairwise_cons]
      refine ⟨?_, ih _⟩
      intro b hb
      -- every element of merge n other has the atoms of some element of other
      have key : ∀ (m : Nat) (l : OpSum R), ∀ b ∈ merge m l, ∃ o ∈ l, o.atoms = b.atoms := by
        intro m; induction m with
        | zero => intro l b hb; simp [merge] at hb
        | succ m ihm =>
          intro l b hb
          cases l with
          | nil => simp [merge] at hb
          | cons o l =>
            simp only [merge, List.mem_cons] at hb
            rcases hb with rfl | hb
            · exact ⟨o, List.mem_cons_self, rfl⟩
            · obtain ⟨o', ho', h⟩ := ihm _ b hb
              exact ⟨o', List.mem_cons_of_mem _ (List.mem_filter.mp ho').1, h⟩
      obtain ⟨o, ho, hat⟩ := key n _ b hb
      have hns := (List.mem_filter.mp ho).2
      simp only [Bool.not_eq_true'] at hns
      simp only [sameTerm] at hns ⊢
      rw [← hat]; exact hns

theorem denS_div {K : Type} [Field K] [Algebra K A] (I : String → Nat → A) (s : OpSum K) (c : K) :
    denS I (s.div c) = c⁻¹ • denS I s := by
  unfold OpSum.div; exact denS_smul I s c⁻¹

/-! ### every expression program -/

section Program
variable {K B : Type} [Field K] [DecidableEq K] [Ring B] [Algebra K B] (J : String → Nat → B)

/-- the mathematical meaning of an expression in the algebra `B` -/
def evalMath : Expr K → B
  | .atom o => den J o
  | .add a b => evalMath a + evalMath b
  | .sub a b => evalMath a - evalMath b
  | .neg a => - evalMath a
  | .mul a b => evalMath a * evalMath b
  | .smul a c => c • evalMath a
  | .div a c => c⁻¹ • evalMath a
  | .simp0 a => evalMath a

/-- **Homomorphism theorem for programs.** Whatever expression is built from the public
    arithmetic, if the model evaluates it without error to the term list `s`, then `s` denotes
    the mathematical value of the expression, in every algebra and under every interpretation
    of the simple symbols in which `I` is the unit. -/
theorem den_eval (hI : ∀ d, J "I" d = 1) : ∀ (e : Expr K) (s : OpSum K),
    evalModel e = .ok s → denS J s = evalMath J e := by
  intro e
  induction e with
  | atom o => intro s h; simp only [evalModel, Except.ok.injEq] at h; rw [← h]; simp [denS, evalMath]
  | add a b iha ihb =>
    intro s h
    simp only [evalModel, bind, Except.bind] at h
    split at h; · cases h
    rename_i x hx
    split at h; · cases h
    rename_i y hy
    simp only [pure, Except.pure, Except.ok.injEq] at h
    rw [← h, denS_add, iha x hx, ihb y hy]; rfl
  | sub a b iha ihb =>
    intro s h
    simp only [evalModel, bind, Except.bind] at h
    split at h; · cases h
    rename_i x hx
    split at h; · cases h
    rename_i y hy
    simp only [pure, Except.pure, Except.ok.injEq] at h
    rw [← h, denS_sub, iha x hx, ihb y hy]; rfl
  | neg a iha =>
    intro s h
    simp only [evalModel, bind, Except.bind] at h
    split at h; · cases h
    rename_i x hx
    simp only [pure, Except.pure, Except.ok.injEq] at h
    rw [← h, denS_neg, iha x hx]; rfl
  | mul a b iha ihb =>
    intro s h
    simp only [evalModel, bind, Except.bind] at h
    split at h; · cases h
    rename_i x hx
    split at h; · cases h
    rename_i y hy
    simp only [pure, Except.pure, Except.ok.injEq] at h
    rw [← h, denS_mul, iha x hx, ihb y hy]; rfl
  | smul a c iha =>
    intro s h
    simp only [evalModel, bind, Except.bind] at h
    split at h; · cases h
    rename_i x hx
    simp only [pure, Except.pure, Except.ok.injEq] at h
    rw [← h, denS_smul, iha x hx]; rfl
  | div a c iha =>
    intro s h
    simp only [evalModel, bind, Except.bind] at h
    split at h; · cases h
    rename_i x hx
    simp only [pure, Except.pure, Except.ok.injEq] at h
    rw [← h, denS_div, iha x hx]; rfl
  | simp0 a iha =>
    intro s h
    simp only [evalModel, bind, Except.bind] at h
    split at h; · cases h
    rename_i x hx
    rw [denS_simplify0 J hI x s h, iha x hx]; rfl

end Program

-- non-vacuity: a concrete program over ℚ evaluates without error and merges terms
private def X0 : Op Rat := ⟨[⟨"X", 0, [0]⟩], 1/2⟩
private def Y1 : Op Rat := ⟨[⟨"Y", 1, [0]⟩], 2⟩
private def I2 : Op Rat := ⟨[⟨"I", 2, [0]⟩], 1⟩
example : evalModel (.simp0 (.add (.mul (.atom X0) (.atom I2)) (.atom X0)))
    = .ok [⟨[⟨"X", 0, [0]⟩], 1⟩] := by decide +kernel
example : evalModel (.simp0 (.sub (.atom X0) (.atom X0))) = (.ok [] : Except Err (OpSum Rat)) := by decide +kernel
example : (⟨[⟨"X", 0, [0]⟩, ⟨"I", 1, [1]⟩], (1:Rat)⟩ : Op Rat).squeeze = .error .assertQn := by decide +kernel

end RenoVerif.OpAlg
