/-
  C19 — property theorems (generic part).  The per-method obligations
  (`order_…`, `nodes_…`, `ti_…`) live in `RenoVerif/Gen/RKProps.lean`, which the
  translator regenerates from /repo/renormalizer/utils/rk.py on every run.
-/
import RenoVerif.Model.RKTree

namespace RenoVerif.RK

/-- The enumeration of rooted forests is complete, for every size. -/
theorem forests_complete : ∀ f : F, f ∈ F.forests f.size := by
  intro f
  induction f with
  | nil => simp [F.size, F.forests]
  | br c s ihc ihs =>
    have hsz : (F.br c s).size = (c.size + s.size) + 1 := by simp [F.size]; omega
    rw [hsz, F.forests]
    simp only [List.mem_flatMap, List.mem_map]
    refine ⟨⟨c.size, List.mem_range.mpr (by omega)⟩, List.mem_attach _ _, c, ihc, s, ?_, rfl⟩
    have : c.size + s.size - c.size = s.size := by omega
    rw [this]; exact ihs

/-- `orderOK` is a sound and complete decision of "all order conditions up to p":
    it quantifies over EVERY rooted tree with at most `p` nodes. -/
theorem orderOK_sound (a : Mat) (b : Vec) (p : Nat) (h : orderOK a b p = true) :
    ∀ c : F, c.size < p → Phi a b c * (((1 + c.size) * c.G : Nat) : Rat) = 1 := by
  intro c hc
  unfold orderOK at h
  rw [List.all_eq_true] at h
  have h1 := h c.size (List.mem_range.mpr hc)
  rw [List.all_eq_true] at h1
  have h2 := h1 c (forests_complete c)
  unfold condOK at h2
  exact eq_of_beq h2

/-- if a violation is reported, it is a genuine violated tree condition -/
theorem firstViolation_sound (a : Mat) (b : Vec) (p : Nat) (c : F)
    (h : firstViolation a b p = some c) : condOK a b c = false := by
  unfold firstViolation at h
  have := List.find?_some h
  simpa using this

/-- no violation reported iff all conditions hold -/
theorem firstViolation_none (a : Mat) (b : Vec) (p : Nat) :
    firstViolation a b p = none ↔ orderOK a b p = true := by
  unfold firstViolation orderOK
  simp [List.find?_eq_none, List.all_eq_true]

/-- Taylor propagator coefficients are exactly 1/k! -/
theorem taylorCoeff_spec (order k : Nat) (hk : k ≤ order) :
    (taylorCoeff order).getD k 0 = 1 / ((fact k : Nat) : Rat) := by
  unfold taylorCoeff
  simp [List.getD, List.getElem?_map, List.getElem?_range (show k < order + 1 by omega)]

/-- γ of the tall tree with k+1 nodes is (k+1)! -/
theorem tall_size (k : Nat) : (tall k).size = k := by
  induction k with
  | zero => rfl
  | succ k ih => simp [tall, F.size, ih]; omega

theorem tall_gamma (k : Nat) : (1 + (tall k).size) * (tall k).G = fact (k+1) := by
  induction k with
  | zero => rfl
  | succ k ih =>
    have hs := tall_size k
    simp only [tall, F.size, F.G, fact] at *
    rw [hs] at ih ⊢
    simp only [Nat.add_zero, Nat.mul_one]
    rw [ih, show 1 + (1 + k) = k + 1 + 1 by omega]

-- non-vacuity: classical RK4 satisfies order 4, not order 5; a wrong b entry breaks a named tree
private def rk4a : Mat := [[0,0,0,0],[1/2,0,0,0],[0,1/2,0,0],[0,0,1,0]]
private def rk4b : Vec := [1/6,1/3,1/3,1/6]
example : orderOK rk4a rk4b 4 = true := by decide +kernel
example : orderOK rk4a rk4b 5 = false := by decide +kernel
example : firstViolation rk4a [1/6,1/3,1/3,1/5] 4 = some .nil := by decide +kernel
example : firstViolation [[0,0,0,0],[1/2,0,0,0],[0,1/2,0,0],[0,0,1/2,0]] rk4b 4
    = some (.br .nil .nil) := by decide +kernel
example : tiTaylorOK rk4a rk4b 4 = true := by decide +kernel

end RenoVerif.RK
