/-
  C11 (arithmetic on trees) — a tree tensor network contracted recursively, node by node (Model: `TT`, `val`): the
  contraction of a subtree is a function of the index of its parent bond; the dense amplitude is `val root cfg 0`.
  Proved by structural (mutual) induction over EVERY tree shape, all bond and physical dimensions, any commutative ring:
  * `val_addT`, `val_addRoot`: `TTNS.add` (every bond the direct sum of the two bonds, every tensor block diagonal, the
    root tensor the sum of its two blocks) represents the SUM of the two dense vectors; for single-node trees the plain
    sum of the tensors (defect D23 of the pinned tree);
  * `val_scaleRoot`: scaling the root tensor scales the dense vector.
  Tie (harness/c11.py `l2_add_structure`): the tensors returned by the real `TTNS.add` on integer-valued random trees are
  compared entry by entry with the block structure of `addT` / `addRoot`; that `todense` is this recursive contraction is
  checked by `l2_tree_invariances` (state sum of the raw tensors vs the dense walk of the built TTNS).
-/
import Mathlib.Algebra.BigOperators.Group.Finset.Basic
import Mathlib.Algebra.BigOperators.Ring.Finset
import Mathlib.Algebra.BigOperators.Intervals
import Mathlib.Tactic.Ring

open Finset
namespace RenoVerif.TreeVal

variable {R : Type} [CommRing R]

/-- a tree tensor network, node by node: dimension `d` of the bond to the parent, node tensor
    `ten (indices of the children bonds) (physical index) (index of the parent bond)`, ordered children -/
inductive TT (R : Type)
  | node (d : ℕ) (ten : List ℕ → ℕ → ℕ → R) (kids : List (TT R))

/-- a physical configuration of the same shape: one (combined) physical index per node -/
inductive Cf
  | node (p : ℕ) (kids : List Cf)

def TT.dim : TT R → ℕ | .node d _ _ => d

mutual
  /-- contraction of the subtree below (and including) a node, as a function of the index of its parent bond -/
  def val : TT R → Cf → ℕ → R
    | .node _ ten kids, .node p cs, i => valL kids cs (fun js => ten js p i)
  /-- contract the children one after the other -/
  def valL : List (TT R) → List Cf → (List ℕ → R) → R
    | [], _, f => f []
    | _ :: _, [], _ => 0
    | k :: ks, c :: cs, f => ∑ j ∈ range k.dim, val k c j * valL ks cs (fun js => f (j :: js))
end

/-- keep `g` on index lists that lie in the FIRST block of every child bond (`js_k < ds_k`), zero elsewhere -/
def r1 : List ℕ → (List ℕ → R) → List ℕ → R
  | [], g, js => g js
  | _ :: _, _, [] => 0
  | d :: ds, g, j :: js => if j < d then r1 ds (fun t => g (j :: t)) js else 0

/-- keep `g` (with indices shifted back) on index lists that lie in the SECOND block of every child bond -/
def r2 : List ℕ → (List ℕ → R) → List ℕ → R
  | [], g, js => g js
  | _ :: _, _, [] => 0
  | d :: ds, g, j :: js => if d ≤ j then r2 ds (fun t => g ((j - d) :: t)) js else 0

mutual
  /-- `TTNS.add` below the root: every bond becomes the direct sum of the two bonds, every tensor block diagonal -/
  def addT : TT R → TT R → TT R
    | .node d1 t1 k1, .node d2 t2 k2 =>
      .node (d1 + d2)
        (fun js p i => if i < d1 then r1 (k1.map TT.dim) (fun t => t1 t p i) js
                       else r2 (k1.map TT.dim) (fun t => t2 t p (i - d1)) js)
        (addL k1 k2)
  def addL : List (TT R) → List (TT R) → List (TT R)
    | a :: as, b :: bs => addT a b :: addL as bs
    | _, _ => []
end

mutual
  /-- the two trees have the same shape (same number of children everywhere) -/
  def same : TT R → TT R → Prop
    | .node _ _ k1, .node _ _ k2 => sameL k1 k2
  def sameL : List (TT R) → List (TT R) → Prop
    | [], [] => True
    | a :: as, b :: bs => same a b ∧ sameL as bs
    | _, _ => False
end

theorem addT_dim (a b : TT R) : (addT a b).dim = a.dim + b.dim := by
  cases a; cases b; simp [addT, TT.dim]

theorem valL_zero : ∀ (ks : List (TT R)) (cs : List Cf), valL ks cs (fun _ => (0 : R)) = 0
  | [], _ => by simp [valL]
  | _ :: _, [] => by simp [valL]
  | k :: ks, c :: cs => by
    simp only [valL]
    apply Finset.sum_eq_zero
    intro j _
    rw [valL_zero ks cs, mul_zero]

mutual
  /-- **direct sum below the root**: the contraction of the sum tree, as a function of the index of the parent bond, is
      the first summand's on the first block and the second summand's on the second block -/
  theorem val_addT : ∀ (a b : TT R) (c : Cf), same a b → ∀ i,
      val (addT a b) c i = if i < a.dim then val a c i else val b c (i - a.dim)
    | .node d1 t1 k1, .node d2 t2 k2, .node p cs, h, i => by
      simp only [addT, val, TT.dim]
      by_cases hi : i < d1
      · simp only [hi, if_true]
        exact valL_r1 k1 k2 cs h (fun t => t1 t p i)
      · simp only [hi, if_false]
        exact valL_r2 k1 k2 cs h (fun t => t2 t p (i - d1))
  theorem valL_r1 : ∀ (ka kb : List (TT R)) (cs : List Cf), sameL ka kb → ∀ g : List ℕ → R,
      valL (addL ka kb) cs (r1 (ka.map TT.dim) g) = valL ka cs g
    | [], [], _, _, g => by simp [addL, valL, r1]
    | [], _ :: _, _, h, _ => by simp [sameL] at h
    | _ :: _, [], _, h, _ => by simp [sameL] at h
    | a :: as, b :: bs, [], _, g => by simp [addL, valL]
    | a :: as, b :: bs, c :: cs, h, g => by
      obtain ⟨hab, hrest⟩ := h
      simp only [addL, valL, List.map_cons, addT_dim]
      rw [Finset.sum_range_add]
      have h2 : ∑ x ∈ range b.dim, val (addT a b) c (a.dim + x) *
          valL (addL as bs) cs (fun js => r1 (a.dim :: as.map TT.dim) g ((a.dim + x) :: js)) = 0 := by
        apply Finset.sum_eq_zero
        intro x _
        have : (fun js => r1 (a.dim :: as.map TT.dim) g ((a.dim + x) :: js)) = fun _ => (0 : R) := by
          funext js; simp [r1]
        rw [this, valL_zero, mul_zero]
      rw [h2, add_zero]
      apply Finset.sum_congr rfl
      intro j hj
      have hj' : j < a.dim := Finset.mem_range.mp hj
      rw [val_addT a b c hab j, if_pos hj']
      have : (fun js => r1 (a.dim :: as.map TT.dim) g (j :: js)) = r1 (as.map TT.dim) (fun t => g (j :: t)) := by
        funext js; simp [r1, hj']
      rw [this, valL_r1 as bs cs hrest]
  theorem valL_r2 : ∀ (ka kb : List (TT R)) (cs : List Cf), sameL ka kb → ∀ g : List ℕ → R,
      valL (addL ka kb) cs (r2 (ka.map TT.dim) g) = valL kb cs g
    | [], [], _, _, g => by simp [addL, valL, r2]
    | [], _ :: _, _, h, _ => by simp [sameL] at h
    | _ :: _, [], _, h, _ => by simp [sameL] at h
    | a :: as, b :: bs, [], _, g => by simp [addL, valL]
    | a :: as, b :: bs, c :: cs, h, g => by
      obtain ⟨hab, hrest⟩ := h
      simp only [addL, valL, List.map_cons, addT_dim]
      rw [Finset.sum_range_add]
      have h1 : ∑ x ∈ range a.dim, val (addT a b) c x *
          valL (addL as bs) cs (fun js => r2 (a.dim :: as.map TT.dim) g (x :: js)) = 0 := by
        apply Finset.sum_eq_zero
        intro x hx
        have hx' : x < a.dim := Finset.mem_range.mp hx
        have : (fun js => r2 (a.dim :: as.map TT.dim) g (x :: js)) = fun _ => (0 : R) := by
          funext js; simp [r2, Nat.not_le.mpr hx']
        rw [this, valL_zero, mul_zero]
      rw [h1, zero_add]
      apply Finset.sum_congr rfl
      intro j _
      rw [val_addT a b c hab (a.dim + j), if_neg (by omega), Nat.add_sub_cancel_left]
      have : (fun js => r2 (a.dim :: as.map TT.dim) g ((a.dim + j) :: js)) = r2 (as.map TT.dim) (fun t => g (j :: t)) := by
        funext js; simp [r2]
      rw [this, valL_r2 as bs cs hrest]
end

theorem valL_add : ∀ (ks : List (TT R)) (cs : List Cf) (f g : List ℕ → R),
    valL ks cs (fun js => f js + g js) = valL ks cs f + valL ks cs g
  | [], _, f, g => by simp [valL]
  | _ :: _, [], f, g => by simp [valL]
  | k :: ks, c :: cs, f, g => by
    simp only [valL]
    rw [← Finset.sum_add_distrib]
    apply Finset.sum_congr rfl
    intro j _
    rw [valL_add ks cs (fun js => f (j :: js)) (fun js => g (j :: js)), mul_add]

theorem valL_smul : ∀ (ks : List (TT R)) (cs : List Cf) (x : R) (f : List ℕ → R),
    valL ks cs (fun js => x * f js) = x * valL ks cs f
  | [], _, x, f => by simp [valL]
  | _ :: _, [], x, f => by simp [valL]
  | k :: ks, c :: cs, x, f => by
    simp only [valL]
    rw [Finset.mul_sum]
    apply Finset.sum_congr rfl
    intro j _
    rw [valL_smul ks cs x (fun js => f (j :: js))]; ring

/-- `TTNS.add` at the root: the parent bond of the root is the dummy bond of dimension 1 and stays so; the root tensor is
    the sum of the two blocks.  For a single-node tree (no children) this is the plain sum of the two tensors. -/
def addRoot : TT R → TT R → TT R
  | .node _ t1 k1, .node _ t2 k2 =>
    .node 1 (fun js p i => r1 (k1.map TT.dim) (fun t => t1 t p i) js + r2 (k1.map TT.dim) (fun t => t2 t p i) js) (addL k1 k2)

/-- **`add` is the sum of the dense vectors**, for every tree shape, all bond and physical dimensions -/
theorem val_addRoot (a b : TT R) (c : Cf) (h : same a b) (i : ℕ) :
    val (addRoot a b) c i = val a c i + val b c i := by
  obtain ⟨d1, t1, k1⟩ := a
  obtain ⟨d2, t2, k2⟩ := b
  obtain ⟨p, cs⟩ := c
  simp only [addRoot, val]
  rw [valL_add, valL_r1 k1 k2 cs h, valL_r2 k1 k2 cs h]

/-- scaling the root tensor scales the dense vector (`TTNS.scale`) -/
def scaleRoot (x : R) : TT R → TT R
  | .node d t k => .node d (fun js p i => x * t js p i) k

theorem val_scaleRoot (x : R) (a : TT R) (c : Cf) (i : ℕ) : val (scaleRoot x a) c i = x * val a c i := by
  obtain ⟨d, t, k⟩ := a
  obtain ⟨p, cs⟩ := c
  simp only [scaleRoot, val]
  exact valL_smul k cs x _

/-- single-node trees: `add` is the plain sum of the two tensors (the pinned tree returned `other`: defect D23) -/
example (t1 t2 : List ℕ → ℕ → ℕ → R) (p i : ℕ) :
    val (addRoot (.node 1 t1 []) (.node 1 t2 [])) (.node p []) i = t1 [] p i + t2 [] p i := by
  have h : addL ([] : List (TT R)) [] = [] := by simp [addL]
  simp [addRoot, val, r1, r2, h, valL]

end RenoVerif.TreeVal
