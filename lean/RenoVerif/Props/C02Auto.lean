/-
  C02 — contraction semantics of a symbolic TTNO (tree analogue of `automaton_eq_expand` of C01).

  `autoTree ι nodes` is what contracting the tree does: the operator `k` leaving node `i` is
      Σ_terms factor • (Π_children  value(child c, operator t.ins[c]))  *  ι i t.key
  in any `R`-algebra `A` (`ι i key` = the local operator `key` of node `i`, embedded in the operator
  algebra of the whole system; children are multiplied in child order, the node's own operator last —
  the order is immaterial for operators on different sites, and the theorem does not need that).
  `autoTree_eq_expand`: for every well-formed node list this value is the value of the formal
  expansion `expandTree` under `φ(row) = ordered product of ι over the nodes of the subtree in
  post-order`.  With `checkCert_sound` (Props/C02): an accepted certificate contracts to
  `Σ_k c_k • Π_nodes ι(node, key_k(node))`, i.e. the operator table, for every tree shape.
-/
import RenoVerif.Model.SymTree
import RenoVerif.Lemmas.FormalSum
import RenoVerif.Props.C02
import Mathlib.Algebra.Algebra.Basic
import Mathlib.Algebra.BigOperators.Group.List.Basic

namespace RenoVerif.SymTree
open RenoVerif.FS

variable {R A : Type} [CommRing R] [Ring A] [Algebra R A]

/-- ordered product of the local operators `ι node key` over a node list and a row of keys -/
def rowVal (ι : Nat → Nat → A) (s : List Nat) (row : Row) : A :=
  ((s.zip row).map fun vk => ι vk.1 vk.2).prod

theorem rowVal_append (ι : Nat → Nat → A) (s s' : List Nat) (r r' : Row) (h : r.length = s.length) :
    rowVal ι (s ++ s') (r ++ r') = rowVal ι s r * rowVal ι s' r' := by
  unfold rowVal
  rw [List.zip_append h.symm, List.map_append, List.prod_append]

/-- post-order node lists of all subtrees (node `i`'s subtree = its children's subtrees, then `i`) -/
def subsOf (nodes : List (Node R)) : List (List Nat) :=
  nodes.foldl (fun subs n => subs ++ [(n.children.flatMap fun c => subs.getD c []) ++ [subs.length]]) []

def kidsVal (done : List (List A)) (cs : List (Nat × Nat)) : A :=
  (cs.map fun ci => (done.getD ci.1 []).getD ci.2 0).prod

/-- contraction of one node: every outgoing operator from the incoming ones and the local operators -/
def autoNode (ι : Nat → Nat → A) (i : Nat) (done : List (List A)) (n : Node R) : List A :=
  n.ops.map fun o => (o.map fun t => t.factor • (kidsVal done (n.children.zip t.ins) * ι i t.key)).sum

def autoTree (ι : Nat → Nat → A) (nodes : List (Node R)) : List (List A) :=
  nodes.foldl (fun done n => done ++ [autoNode ι done.length done n]) []

/-- every term has one incoming index per child (part of `wellFormed`) -/
def ArityOk (nodes : List (Node R)) : Prop :=
  ∀ n ∈ nodes, ∀ o ∈ n.ops, ∀ t ∈ o, t.ins.length = n.children.length

omit [CommRing R] in
theorem arityOk_of_wellFormed (nodes : List (Node R)) (h : wellFormed nodes = true) : ArityOk nodes := by
  intro n hn o ho t ht
  unfold wellFormed at h
  rw [List.all_eq_true] at h
  obtain ⟨i, hi⟩ := List.mem_iff_getElem.mp hn
  obtain ⟨hi1, hi2⟩ := hi
  have hmem : (n, i) ∈ nodes.zipIdx := by
    rw [List.mem_zipIdx_iff_getElem?]
    simp [← hi2, hi1]
  have := h (n, i) hmem
  simp only [Bool.and_eq_true, List.all_eq_true] at this
  have := (this.2 o ho t ht).1
  simpa using this

/-! ### formal-sum lemmas in an algebra -/

theorem evalFS_map_row_alg (φ1 φ2 φ : Row → A) (n : Nat)
    (hφ : ∀ r r', r.length = n → φ (r ++ r') = φ1 r * φ2 r') (p : Row × R) (hp : p.1.length = n)
    (b : FSum Row R) :
    evalFS φ (b.map fun q => (p.1 ++ q.1, p.2 * q.2)) = (p.2 • φ1 p.1) * evalFS φ2 b := by
  induction b with
  | nil => simp
  | cons q b ih =>
    simp only [List.map_cons, evalFS_cons, ih, hφ _ _ hp, mul_add]
    rw [smul_mul_smul_comm]

theorem evalFS_fsMul_alg (φ1 φ2 φ : Row → A) (n : Nat)
    (hφ : ∀ r r', r.length = n → φ (r ++ r') = φ1 r * φ2 r') (a b : FSum Row R)
    (ha : ∀ p ∈ a, p.1.length = n) :
    evalFS φ (fsMul a b) = evalFS φ1 a * evalFS φ2 b := by
  induction a with
  | nil => simp [fsMul]
  | cons p a ih =>
    have hcons : fsMul (p :: a) b = (b.map fun q => (p.1 ++ q.1, p.2 * q.2)) ++ fsMul a b := rfl
    rw [hcons, evalFS_append, ih (fun q hq => ha q (List.mem_cons_of_mem _ hq)), evalFS_cons, add_mul,
      evalFS_map_row_alg φ1 φ2 φ n hφ p (ha p List.mem_cons_self)]

theorem fsMul_len (a b : FSum Row R) (n m : Nat) (ha : ∀ p ∈ a, p.1.length = n)
    (hb : ∀ p ∈ b, p.1.length = m) : ∀ p ∈ fsMul a b, p.1.length = n + m := by
  intro p hp
  unfold fsMul at hp
  rw [List.mem_flatMap] at hp
  obtain ⟨x, hx, hp⟩ := hp
  rw [List.mem_map] at hp
  obtain ⟨y, hy, rfl⟩ := hp
  simp [ha x hx, hb y hy]

theorem evalFS_flatMap {T : Type} (φ : Row → A) (o : List T) (f : T → FSum Row R) :
    evalFS φ (o.flatMap f) = (o.map fun t => evalFS φ (f t)).sum := by
  induction o with
  | nil => simp
  | cons t o ih => simp [List.flatMap_cons, evalFS_append, ih]

theorem getD_of_lt {α : Type} (l : List α) (k : Nat) (d : α) (h : k < l.length) : l.getD k d = l[k] := by simp [h]
theorem getD_of_ge {α : Type} (l : List α) (k : Nat) (d : α) (h : l.length ≤ k) : l.getD k d = d := by simp [h]

/-! ### one node -/

section node
variable (ι : Nat → Nat → A) (E : List (List (FSum Row R))) (S : List (List Nat)) (D : List (List A))

theorem kids_lemma
    (H : ∀ c k, (D.getD c []).getD k 0 = evalFS (rowVal ι (S.getD c [])) ((E.getD c []).getD k []))
    (L : ∀ c k, ∀ p ∈ (E.getD c []).getD k [], p.1.length = (S.getD c []).length)
    (cs : List (Nat × Nat)) : ∀ (acc : FSum Row R) (sacc : List Nat),
      (∀ p ∈ acc, p.1.length = sacc.length) →
      (∀ p ∈ cs.foldl (fun acc ci => fsMul acc ((E.getD ci.1 []).getD ci.2 [])) acc,
          p.1.length = (sacc ++ cs.flatMap fun ci => S.getD ci.1 []).length) ∧
      evalFS (rowVal ι (sacc ++ cs.flatMap fun ci => S.getD ci.1 []))
          (cs.foldl (fun acc ci => fsMul acc ((E.getD ci.1 []).getD ci.2 [])) acc)
        = evalFS (rowVal ι sacc) acc * kidsVal D cs := by
  induction cs with
  | nil => intro acc sacc hacc; exact ⟨by simpa using hacc, by simp [kidsVal]⟩
  | cons ci cs ih =>
    intro acc sacc hacc
    have hlen := fsMul_len acc ((E.getD ci.1 []).getD ci.2 []) sacc.length (S.getD ci.1 []).length hacc
      (L ci.1 ci.2)
    have hlen' : ∀ p ∈ fsMul acc ((E.getD ci.1 []).getD ci.2 []), p.1.length = (sacc ++ S.getD ci.1 []).length := by
      intro p hp; rw [hlen p hp, List.length_append]
    obtain ⟨h1, h2⟩ := ih (fsMul acc ((E.getD ci.1 []).getD ci.2 [])) (sacc ++ S.getD ci.1 []) hlen'
    have hs : sacc ++ S.getD ci.1 [] ++ cs.flatMap (fun ci => S.getD ci.1 [])
        = sacc ++ (ci :: cs).flatMap fun ci => S.getD ci.1 [] := by
      simp [List.flatMap_cons, List.append_assoc]
    rw [hs] at h1 h2
    refine ⟨by simpa [List.foldl_cons] using h1, ?_⟩
    rw [List.foldl_cons, h2,
      evalFS_fsMul_alg (rowVal ι sacc) (rowVal ι (S.getD ci.1 [])) (rowVal ι (sacc ++ S.getD ci.1 [])) sacc.length
        (fun r r' hr => rowVal_append ι _ _ _ _ hr) _ _ hacc, ← H]
    simp [kidsVal, mul_assoc]

theorem term_lemma (sk : List Nat) (i key : Nat) (c : R) (kids : FSum Row R)
    (hk : ∀ p ∈ kids, p.1.length = sk.length) :
    evalFS (rowVal ι (sk ++ [i])) (kids.map fun p => (p.1 ++ [key], c * p.2))
      = c • (evalFS (rowVal ι sk) kids * ι i key) := by
  induction kids with
  | nil => simp
  | cons p kids ih =>
    have hp := hk p List.mem_cons_self
    simp only [List.map_cons, evalFS_cons, ih (fun q hq => hk q (List.mem_cons_of_mem _ hq)),
      rowVal_append ι sk [i] p.1 [key] hp, add_mul, smul_add, mul_smul, smul_mul_assoc]
    simp [rowVal]

/-- value and row length of every operator of one node -/
theorem node_lemma
    (H : ∀ c k, (D.getD c []).getD k 0 = evalFS (rowVal ι (S.getD c [])) ((E.getD c []).getD k []))
    (L : ∀ c k, ∀ p ∈ (E.getD c []).getD k [], p.1.length = (S.getD c []).length)
    (i : Nat) (n : Node R) (har : ∀ o ∈ n.ops, ∀ t ∈ o, t.ins.length = n.children.length) (k : Nat) :
    (∀ p ∈ (expandNode E n).getD k [], p.1.length = ((n.children.flatMap fun c => S.getD c []) ++ [i]).length) ∧
    (autoNode ι i D n).getD k 0
      = evalFS (rowVal ι ((n.children.flatMap fun c => S.getD c []) ++ [i])) ((expandNode E n).getD k []) := by
  unfold expandNode autoNode
  by_cases hk : k < n.ops.length
  · rw [getD_of_lt _ _ _ (by simpa using hk), getD_of_lt _ _ _ (by simpa using hk)]
    simp only [List.getElem_map]
    have ho : n.ops[k] ∈ n.ops := List.getElem_mem hk
    generalize n.ops[k] = o at ho
    have key : ∀ t ∈ o,
        (∀ p ∈ (List.zip n.children t.ins).foldl (fun acc ci => fsMul acc ((E.getD ci.1 []).getD ci.2 [])) [([], 1)],
          p.1.length = (n.children.flatMap fun c => S.getD c []).length) ∧
        evalFS (rowVal ι (n.children.flatMap fun c => S.getD c []))
          ((List.zip n.children t.ins).foldl (fun acc ci => fsMul acc ((E.getD ci.1 []).getD ci.2 [])) [([], 1)])
          = kidsVal D (n.children.zip t.ins) := by
      intro t ht
      have hz : (n.children.zip t.ins).flatMap (fun ci => S.getD ci.1 []) = n.children.flatMap fun c => S.getD c [] := by
        have : (n.children.zip t.ins).flatMap (fun ci => S.getD ci.1 [])
            = ((n.children.zip t.ins).map Prod.fst).flatMap fun c => S.getD c [] := by
          rw [List.flatMap_map]
        rw [this, List.map_fst_zip (by rw [har o ho t ht])]
      have := kids_lemma ι E S D H L (n.children.zip t.ins) [([], 1)] [] (by simp)
      rw [hz] at this
      simpa [rowVal] using this
    constructor
    · intro p hp
      rw [List.mem_flatMap] at hp
      obtain ⟨t, ht, hp⟩ := hp
      rw [List.mem_map] at hp
      obtain ⟨q, hq, rfl⟩ := hp
      simp [(key t ht).1 q hq]
    · rw [evalFS_flatMap]
      congr 1
      apply List.map_congr_left
      intro t ht
      rw [term_lemma ι _ i t.key t.factor _ (key t ht).1, (key t ht).2]
  · have hk' : n.ops.length ≤ k := Nat.le_of_not_lt hk
    rw [getD_of_ge _ _ _ (by simpa using hk'), getD_of_ge _ _ _ (by simpa using hk')]
    simp
end node

/-! ### the whole tree -/

theorem getD_snoc {α : Type} (l : List α) (x d : α) (c : Nat) :
    (l ++ [x]).getD c d = if c < l.length then l.getD c d else if c = l.length then x else d := by
  rcases Nat.lt_trichotomy c l.length with h | h | h
  · simp [h, List.getElem?_append_left h]
  · subst h; simp
  · have h1 : ¬ c < l.length := by omega
    have h2 : ¬ c = l.length := by omega
    have h3 : l.length + 1 ≤ c := by omega
    simp [h1, h2, h3]

theorem expandTree_snoc (nodes : List (Node R)) (n : Node R) :
    expandTree (nodes ++ [n]) = expandTree nodes ++ [expandNode (expandTree nodes) n] := by
  simp [expandTree, List.foldl_append]

omit [CommRing R] in
theorem subsOf_snoc (nodes : List (Node R)) (n : Node R) :
    subsOf (nodes ++ [n]) = subsOf nodes
      ++ [(n.children.flatMap fun c => (subsOf nodes).getD c []) ++ [(subsOf nodes).length]] := by
  simp [subsOf, List.foldl_append]

theorem autoTree_snoc (ι : Nat → Nat → A) (nodes : List (Node R)) (n : Node R) :
    autoTree ι (nodes ++ [n]) = autoTree ι nodes ++ [autoNode ι (autoTree ι nodes).length (autoTree ι nodes) n] := by
  simp [autoTree, List.foldl_append]

theorem tree_inv (ι : Nat → Nat → A) (nodes : List (Node R)) (har : ArityOk nodes) :
    (expandTree nodes).length = nodes.length ∧ (subsOf nodes).length = nodes.length ∧
    (autoTree ι nodes).length = nodes.length ∧
    (∀ c k, ((autoTree ι nodes).getD c []).getD k 0
        = evalFS (rowVal ι ((subsOf nodes).getD c [])) (((expandTree nodes).getD c []).getD k [])) ∧
    (∀ c k, ∀ p ∈ ((expandTree nodes).getD c []).getD k [], p.1.length = ((subsOf nodes).getD c []).length) := by
  induction nodes using List.reverseRecOn with
  | nil => simp [expandTree, subsOf, autoTree]
  | append_singleton nodes n ih =>
    have har' : ArityOk nodes := fun m hm => har m (List.mem_append_left _ hm)
    obtain ⟨hE, hS, hD, H, L⟩ := ih har'
    have hn := har n (by simp)
    rw [expandTree_snoc, subsOf_snoc, autoTree_snoc]
    refine ⟨by simp [hE], by simp [hS], by simp [hD], ?_, ?_⟩
    · intro c k
      rw [getD_snoc, getD_snoc, getD_snoc, hE, hS, hD]
      split
      · exact H c k
      · split
        · exact (node_lemma ι _ _ _ H L nodes.length n hn k).2
        · simp
    · intro c k
      rw [getD_snoc, getD_snoc, hE, hS]
      split
      · exact L c k
      · split
        · exact (node_lemma ι _ _ _ H L nodes.length n hn k).1
        · simp

/-- **contracting the tree = evaluating the formal expansion**, for every node and outgoing operator -/
theorem autoTree_eq_expand (ι : Nat → Nat → A) (nodes : List (Node R)) (h : wellFormed nodes = true)
    (c k : Nat) :
    ((autoTree ι nodes).getD c []).getD k 0
      = evalFS (rowVal ι ((subsOf nodes).getD c [])) (((expandTree nodes).getD c []).getD k []) :=
  (tree_inv ι nodes (arityOk_of_wellFormed nodes h)).2.2.2.1 c k

/-- **an accepted certificate contracts to the operator table**: for any rooted tree, any local
    operator embedding `ι` into any `R`-algebra, the root operator computed by the contraction is
    `Σ_k c_k • Π_{nodes in post-order} ι node key_k(node)`. -/
theorem accepted_tree_contracts [DecidableEq R] (ι : Nat → Nat → A) (table : FSum Row R) (nodes : List (Node R))
    (h : checkCert table nodes = true) :
    ((autoTree ι nodes).getD (nodes.length - 1) []).getD 0 0
      = evalFS (rowVal ι ((subsOf nodes).getD (nodes.length - 1) [])) table := by
  obtain ⟨w, hw, hφ⟩ := checkCert_sound (M := A) table nodes h
  have hwf : wellFormed nodes = true := by
    unfold checkCert at h
    simp only [Bool.and_eq_true] at h
    exact h.1.1
  have hinv := tree_inv ι nodes (arityOk_of_wellFormed nodes hwf)
  rw [autoTree_eq_expand ι nodes hwf, ← hφ]
  congr 1
  have hlen := hinv.1
  rw [List.getLast?_eq_getElem?] at hw
  rw [← hlen, List.getD_eq_getElem?_getD (l := expandTree nodes), hw]
  simp

-- non-vacuity: the three-node example of Props/C02 in the algebra ℤ with ι node key = key + 1
private def exNodes2 : List (Node Int) :=
  [⟨[], [[⟨[], 1, 1⟩]]⟩, ⟨[], [[⟨[], 2, 2⟩, ⟨[], 3, 3⟩]]⟩, ⟨[0, 1], [[⟨[0, 0], 0, 1⟩]]⟩]
example : checkCert [([1, 2, 0], 2), ([1, 3, 0], 3)] exNodes2 = true := by decide
example : subsOf exNodes2 = [[0], [1], [0, 1, 2]] := by decide
example : autoTree (fun _ k => (k : Int) + 1) exNodes2 = [[2], [18], [36]] := by decide

end RenoVerif.SymTree
