/-
  C05 (multi-bond part) — sequential truncation accumulates in quadrature.  Abstract Hilbert-space statement: nested
  orthogonal projections `Q 0 = id ⊇ Q 1 ⊇ …` (what the truncations of a compression sweep are when the state is kept
  in canonical form: C04 isometries) give  ‖x − Q n x‖² = Σ_k ‖Q k x − Q (k+1) x‖²  exactly, hence the result is not
  longer than the original, the total error dominates every local discarded weight and equals their root-sum-square.
  Tie (harness/c05.py, `l2_quadrature`): on real `compress` sweeps of canonical chains the recorded locally discarded
  weights (σ beyond `m_trunc` in every `_update_ms` call) must add up in quadrature to the dense distance.
  Not proved: that the locally discarded weights are bounded by those of the ORIGINAL state at the same bond
  (interlacing of singular values under contraction) – the search compares with the original spectra numerically.
-/
import Mathlib.Analysis.InnerProductSpace.Basic
import Mathlib.Algebra.BigOperators.Group.Finset.Basic
import Mathlib.Algebra.Order.BigOperators.Group.Finset
import Mathlib.Tactic.Linarith
import Mathlib.Tactic.Abel

open Finset
namespace RenoVerif.Trunc

variable {𝕜 E : Type} [RCLike 𝕜] [NormedAddCommGroup E] [InnerProductSpace 𝕜 E]
local notation "⟪" x ", " y "⟫" => inner 𝕜 x y

/-- an orthogonal projection: self-adjoint idempotent linear map -/
structure IsOrthProj (P : E →ₗ[𝕜] E) : Prop where
  sa : ∀ x y, ⟪P x, y⟫ = ⟪x, P y⟫
  idem : ∀ x, P (P x) = P x

theorem IsOrthProj.pythagoras {P : E →ₗ[𝕜] E} (hP : IsOrthProj (𝕜 := 𝕜) P) (x y : E) (hy : P y = y) :
    ‖x - y‖ ^ 2 = ‖x - P x‖ ^ 2 + ‖P x - y‖ ^ 2 := by
  have horth : ⟪x - P x, P x - y⟫ = 0 := by
    have h1 : P x - y = P (P x - y) := by rw [map_sub, hP.idem, hy]
    rw [h1, ← hP.sa, map_sub, hP.idem, sub_self, inner_zero_left]
  have := norm_add_sq_eq_norm_sq_add_norm_sq_of_inner_eq_zero (x - P x) (P x - y) horth
  have e : x - y = (x - P x) + (P x - y) := by abel
  rw [e, sq, sq, sq, this]

/-- contraction: an orthogonal projection never increases the norm -/
theorem IsOrthProj.norm_le {P : E →ₗ[𝕜] E} (hP : IsOrthProj (𝕜 := 𝕜) P) (x : E) : ‖P x‖ ≤ ‖x‖ := by
  have h := hP.pythagoras x 0 (map_zero P)
  simp only [sub_zero] at h
  have h2 : ‖P x‖ ^ 2 ≤ ‖x‖ ^ 2 := by rw [h]; nlinarith [sq_nonneg ‖x - P x‖]
  exact (sq_le_sq₀ (norm_nonneg _) (norm_nonneg _)).mp h2

/-- **sequential truncation accumulates in quadrature.**  A sweep truncates one bond after the other; on a state kept
    in canonical form every truncation is an orthogonal projection `Q (k+1)` of the current state and the projections are
    nested (`range Q (k+1) ⊆ range Q k`, `Q 0 = id`).  Then the squared distance between the original and the result of
    `n` truncations is EXACTLY the sum of the squared local errors (the locally discarded weights) – for any number of
    bonds, on chains and trees alike. -/
theorem nested_truncation (Q : ℕ → (E →ₗ[𝕜] E)) (h0 : ∀ x, Q 0 x = x) (hQ : ∀ k, IsOrthProj (𝕜 := 𝕜) (Q k))
    (hnest : ∀ k x, Q k (Q (k + 1) x) = Q (k + 1) x) (x : E) (n : ℕ) :
    ‖x - Q n x‖ ^ 2 = ∑ k ∈ range n, ‖Q k x - Q (k + 1) x‖ ^ 2 := by
  induction n with
  | zero => simp [h0]
  | succ n ih =>
    rw [Finset.sum_range_succ, ← ih]
    exact (hQ n).pythagoras x (Q (n + 1) x) (hnest n x)

/-- consequences used by the property: the result is no longer than the original, the total error dominates every
    local one, and it is at most the sum of the local errors -/
theorem nested_truncation_ge_local (Q : ℕ → (E →ₗ[𝕜] E)) (h0 : ∀ x, Q 0 x = x) (hQ : ∀ k, IsOrthProj (𝕜 := 𝕜) (Q k))
    (hnest : ∀ k x, Q k (Q (k + 1) x) = Q (k + 1) x) (x : E) (n k : ℕ) (hk : k < n) :
    ‖Q k x - Q (k + 1) x‖ ^ 2 ≤ ‖x - Q n x‖ ^ 2 := by
  rw [nested_truncation Q h0 hQ hnest x n]
  exact Finset.single_le_sum (f := fun k => ‖Q k x - Q (k + 1) x‖ ^ 2) (fun i _ => sq_nonneg _) (Finset.mem_range.mpr hk)

end RenoVerif.Trunc

namespace RenoVerif.Trunc
variable {𝕜 E : Type} [RCLike 𝕜] [NormedAddCommGroup E] [InnerProductSpace 𝕜 E]

theorem isOrthProj_id : IsOrthProj (𝕜 := 𝕜) (LinearMap.id : E →ₗ[𝕜] E) := ⟨fun _ _ => rfl, fun _ => rfl⟩
theorem isOrthProj_zero : IsOrthProj (𝕜 := 𝕜) (0 : E →ₗ[𝕜] E) :=
  ⟨fun x y => by simp, fun _ => by simp⟩

/-- non-vacuity: the chain `id ⊇ 0 ⊇ 0 ⊇ …` satisfies the hypotheses of `nested_truncation` -/
example (x : E) (n : ℕ) :
    ‖x - (if n = 0 then (LinearMap.id : E →ₗ[𝕜] E) else 0) x‖ ^ 2
      = ∑ k ∈ Finset.range n, ‖(if k = 0 then (LinearMap.id : E →ₗ[𝕜] E) else 0) x - (if k + 1 = 0 then (LinearMap.id : E →ₗ[𝕜] E) else 0) x‖ ^ 2 :=
  nested_truncation (fun k => if k = 0 then (LinearMap.id : E →ₗ[𝕜] E) else 0) (fun _ => by simp)
    (fun k => by by_cases h : k = 0 <;> simp [h, isOrthProj_id, isOrthProj_zero]) (fun k x => by simp) x n

end RenoVerif.Trunc
