/-
  C17 — the Jordan–Wigner ladder operators satisfy the canonical anticommutation relations, for
  EVERY number of orbitals.

  `generate_ladder_operator` builds `a_j = (Π_{l<j} Z_l) · s_j` and `a†_j = (Π_{l<j} Z_l) · s†_j`
  from site operators.  In any ring, if the site operators obey the one-site relations
  (`Z² = 1`, `Z s = − s Z`, `s² = 0`, `s s† + s† s = 1`) and operators on different sites commute,
  then `{a_i, a†_j} = δ_ij`, `{a_i, a_j} = 0`, `{a†_i, a†_j} = 0` for all `i, j`.
  By the universal property of the CAR algebra every polynomial in the `a, a†` — in particular
  the second-quantised Hamiltonian of `qc_model` — therefore acts as the fermionic operator with
  the same coefficients in the same orbital order; the one-site relations are proved for the
  2×2 matrices of `Props/C17.lean`.
-/
import RenoVerif.Props.C17
import Mathlib.Algebra.Group.Commute.Defs
import Mathlib.Algebra.Ring.Commute
import Mathlib.Algebra.BigOperators.Group.List.Basic
import Mathlib.Tactic.NoncommRing
import Mathlib.Tactic.IntervalCases

namespace RenoVerif.JW.CAR

/-- site operators of a spin chain: `Z i`, `s i` (the code's "+") and `sd i` (the code's "-") -/
structure SiteOps (A : Type) [Ring A] where
  n : ℕ                      -- number of (spin) orbitals = sites
  Z : ℕ → A
  s : ℕ → A
  sd : ℕ → A
  zz : ∀ i, i < n → Z i * Z i = 1
  zs : ∀ i, i < n → Z i * s i = -(s i * Z i)
  zsd : ∀ i, i < n → Z i * sd i = -(sd i * Z i)
  ss : ∀ i, i < n → s i * s i = 0
  sdsd : ∀ i, i < n → sd i * sd i = 0
  anti : ∀ i, i < n → s i * sd i + sd i * s i = 1
  cZZ : ∀ i j, i < n → j < n → i ≠ j → Commute (Z i) (Z j)
  cZs : ∀ i j, i < n → j < n → i ≠ j → Commute (Z i) (s j)
  cZsd : ∀ i j, i < n → j < n → i ≠ j → Commute (Z i) (sd j)
  css : ∀ i j, i < n → j < n → i ≠ j → Commute (s i) (s j)
  cssd : ∀ i j, i < n → j < n → i ≠ j → Commute (s i) (sd j)
  csdsd : ∀ i j, i < n → j < n → i ≠ j → Commute (sd i) (sd j)

variable {A : Type} [Ring A] (O : SiteOps A)

/-- the σz string `Z_0 Z_1 … Z_{j-1}` -/
def str (j : ℕ) : A := ((List.range j).map O.Z).prod
def a (j : ℕ) : A := str O j * O.s j
def ad (j : ℕ) : A := str O j * O.sd j

theorem str_zero : str O 0 = 1 := by simp [str]
theorem str_succ (j : ℕ) : str O (j + 1) = str O j * O.Z j := by
  simp [str, List.range_succ]

theorem cZZ_all (i j : ℕ) (hi : i < O.n) (hj : j < O.n) : Commute (O.Z i) (O.Z j) := by
  by_cases h : i = j
  · subst h; exact Commute.refl _
  · exact O.cZZ i j hi hj h

/-- the string commutes with anything that commutes with its factors -/
theorem str_commute (j : ℕ) (x : A) (h : ∀ k < j, Commute (O.Z k) x) : Commute (str O j) x := by
  induction j with
  | zero => rw [str_zero]; exact Commute.one_left x
  | succ j ih =>
    rw [str_succ]
    exact Commute.mul_left (ih fun k hk => h k (Nat.lt_succ_of_lt hk)) (h j (Nat.lt_succ_self j))

theorem Z_commute_str (k j : ℕ) (hk : k < O.n) (hj : j ≤ O.n) : Commute (O.Z k) (str O j) :=
  (str_commute O j (O.Z k) fun l hl => cZZ_all O l k (by omega) hk).symm

theorem str_commute_str (i j : ℕ) (hi : i ≤ O.n) (hj : j ≤ O.n) : Commute (str O i) (str O j) :=
  str_commute O i (str O j) fun k hk => Z_commute_str O k j (by omega) hj

theorem str_sq (j : ℕ) (hj : j ≤ O.n) : str O j * str O j = 1 := by
  induction j with
  | zero => simp [str_zero]
  | succ j ih =>
    rw [str_succ]
    have hc : O.Z j * str O j = str O j * O.Z j := (Z_commute_str O j j (by omega) (by omega)).eq
    calc str O j * O.Z j * (str O j * O.Z j)
        = str O j * (O.Z j * str O j) * O.Z j := by noncomm_ring
      _ = str O j * str O j * (O.Z j * O.Z j) := by rw [hc]; noncomm_ring
      _ = 1 := by rw [ih (by omega), O.zz j (by omega)]; simp

/-- a site operator of site `i` that anticommutes with `Z i` anticommutes with every longer string -/
theorem str_anticommute (i : ℕ) (x : A) (hz : O.Z i * x = -(x * O.Z i))
    (hc : ∀ k, k < O.n → k ≠ i → Commute (O.Z k) x) : ∀ j, i < j → j ≤ O.n → str O j * x = -(x * str O j) := by
  intro j hij hjn
  induction j with
  | zero => omega
  | succ j ih =>
    rw [str_succ]
    rcases Nat.lt_or_ge i j with h | h
    · have hj : O.Z j * x = x * O.Z j := (hc j (by omega) (by omega)).eq
      calc str O j * O.Z j * x = str O j * (O.Z j * x) := by noncomm_ring
        _ = str O j * x * O.Z j := by rw [hj]; noncomm_ring
        _ = -(x * (str O j * O.Z j)) := by rw [ih h (by omega)]; noncomm_ring
    · have hij' : i = j := by omega
      subst hij'
      have hs : str O i * x = x * str O i := (str_commute O i x fun k hk => hc k (by omega) (by omega)).eq
      calc str O i * O.Z i * x = str O i * (O.Z i * x) := by noncomm_ring
        _ = -(str O i * x * O.Z i) := by rw [hz]; noncomm_ring
        _ = -(x * (str O i * O.Z i)) := by rw [hs]; noncomm_ring

/-- generic off-diagonal relation: for `i < j`, `(str i · x)(str j · y) + (str j · y)(str i · x) = 0` -/
theorem anticomm_lt (i j : ℕ) (hij : i < j) (hjn : j < O.n) (x y : A)
    (hzx : O.Z i * x = -(x * O.Z i)) (hcx : ∀ k, k < O.n → k ≠ i → Commute (O.Z k) x)
    (hcy : ∀ k, k < O.n → k ≠ j → Commute (O.Z k) y) (hxy : Commute x y) :
    (str O i * x) * (str O j * y) + (str O j * y) * (str O i * x) = 0 := by
  have h1 : str O j * x = -(x * str O j) := str_anticommute O i x hzx hcx j hij (by omega)
  have h2 : y * str O i = str O i * y := (str_commute O i y fun k hk => hcy k (by omega) (by omega)).eq.symm
  have h3 : str O j * str O i = str O i * str O j := (str_commute_str O j i (by omega) (by omega)).eq
  have h4 : y * x = x * y := hxy.eq.symm
  have e1 : (str O i * x) * (str O j * y) = -(str O i * str O j * (x * y)) := by
    calc (str O i * x) * (str O j * y) = str O i * (x * str O j) * y := by noncomm_ring
      _ = str O i * (-(str O j * x)) * y := by rw [h1]; noncomm_ring
      _ = -(str O i * str O j * (x * y)) := by noncomm_ring
  have e2 : (str O j * y) * (str O i * x) = str O i * str O j * (x * y) := by
    calc (str O j * y) * (str O i * x) = str O j * (y * str O i) * x := by noncomm_ring
      _ = str O j * str O i * (y * x) := by rw [h2]; noncomm_ring
      _ = str O i * str O j * (x * y) := by rw [h3, h4]
  rw [e1, e2]; simp

/-- generic diagonal relation -/
theorem same_site (i : ℕ) (hi : i < O.n) (x y : A) (hcx : ∀ k, k < O.n → k ≠ i → Commute (O.Z k) x) :
    (str O i * x) * (str O i * y) = x * y := by
  have hs : x * str O i = str O i * x := (str_commute O i x fun k hk => hcx k (by omega) (by omega)).eq.symm
  calc (str O i * x) * (str O i * y) = str O i * (x * str O i) * y := by noncomm_ring
    _ = str O i * str O i * (x * y) := by rw [hs]; noncomm_ring
    _ = x * y := by rw [str_sq O i (by omega)]; simp

/-! ### the canonical anticommutation relations -/

theorem car_a_ad_same (i : ℕ) (hi : i < O.n) : a O i * ad O i + ad O i * a O i = 1 := by
  unfold a ad
  rw [same_site O i hi _ _ (fun k hk hne => O.cZs k i hk hi hne),
    same_site O i hi _ _ (fun k hk hne => O.cZsd k i hk hi hne), O.anti i hi]

theorem car_a_a_same (i : ℕ) (hi : i < O.n) : a O i * a O i = 0 := by
  unfold a; rw [same_site O i hi _ _ (fun k hk hne => O.cZs k i hk hi hne), O.ss i hi]

theorem car_ad_ad_same (i : ℕ) (hi : i < O.n) : ad O i * ad O i = 0 := by
  unfold ad; rw [same_site O i hi _ _ (fun k hk hne => O.cZsd k i hk hi hne), O.sdsd i hi]

theorem car_a_a_lt (i j : ℕ) (h : i < j) (hj : j < O.n) : a O i * a O j + a O j * a O i = 0 :=
  anticomm_lt O i j h hj _ _ (O.zs i (by omega)) (fun k hk hne => O.cZs k i hk (by omega) hne)
    (fun k hk hne => O.cZs k j hk hj hne) (O.css i j (by omega) hj (by omega))

theorem car_a_ad_lt (i j : ℕ) (h : i < j) (hj : j < O.n) : a O i * ad O j + ad O j * a O i = 0 :=
  anticomm_lt O i j h hj _ _ (O.zs i (by omega)) (fun k hk hne => O.cZs k i hk (by omega) hne)
    (fun k hk hne => O.cZsd k j hk hj hne) (O.cssd i j (by omega) hj (by omega))

theorem car_ad_a_lt (i j : ℕ) (h : i < j) (hj : j < O.n) : ad O i * a O j + a O j * ad O i = 0 :=
  anticomm_lt O i j h hj _ _ (O.zsd i (by omega)) (fun k hk hne => O.cZsd k i hk (by omega) hne)
    (fun k hk hne => O.cZs k j hk hj hne) (O.cssd j i hj (by omega) (by omega)).symm

theorem car_ad_ad_lt (i j : ℕ) (h : i < j) (hj : j < O.n) : ad O i * ad O j + ad O j * ad O i = 0 :=
  anticomm_lt O i j h hj _ _ (O.zsd i (by omega)) (fun k hk hne => O.cZsd k i hk (by omega) hne)
    (fun k hk hne => O.cZsd k j hk hj hne) (O.csdsd i j (by omega) hj (by omega))

/-- **CAR, all pairs of orbitals of a chain of any length**:
    `{a_i, a†_j} = δ_ij`, `{a_i, a_j} = 0`, `{a†_i, a†_j} = 0` -/
theorem car (i j : ℕ) (hi : i < O.n) (hj : j < O.n) :
    a O i * ad O j + ad O j * a O i = (if i = j then 1 else 0) ∧
    a O i * a O j + a O j * a O i = 0 ∧ ad O i * ad O j + ad O j * ad O i = 0 := by
  rcases Nat.lt_trichotomy i j with h | h | h
  · have hne : i ≠ j := by omega
    exact ⟨by rw [if_neg hne]; exact car_a_ad_lt O i j h hj, car_a_a_lt O i j h hj, car_ad_ad_lt O i j h hj⟩
  · subst h
    refine ⟨by rw [if_pos rfl]; exact car_a_ad_same O i hi, by rw [car_a_a_same O i hi]; simp,
      by rw [car_ad_ad_same O i hi]; simp⟩
  · have hne : i ≠ j := by omega
    refine ⟨?_, ?_, ?_⟩
    · rw [if_neg hne, add_comm]; exact car_ad_a_lt O j i h hi
    · rw [add_comm]; exact car_a_a_lt O j i h hi
    · rw [add_comm]; exact car_ad_ad_lt O j i h hi

/-- number operators: `n_i = a†_i a_i = s†_i s_i` carries no string -/
theorem number_local (i : ℕ) (hi : i < O.n) : ad O i * a O i = O.sd i * O.s i := by
  unfold a ad; exact same_site O i hi _ _ (fun k hk hne => O.cZsd k i hk hi hne)

/-- the site operator a model symbol stands for -/
def siteOp : Nat × Sym → A
  | (k, .Z) => O.Z k
  | (k, .P) => O.s k
  | (k, .M) => O.sd k

/-- the symbol list of `generate_ladder_operator` (Model/JW `ladder`) multiplies out to `a_j` / `a†_j` -/
theorem ladder_prod (j : ℕ) : ((ladder j false).map (siteOp O)).prod = a O j ∧
    ((ladder j true).map (siteOp O)).prod = ad O j := by
  have h : ((List.range j).map fun l => siteOp O (l, Sym.Z)) = (List.range j).map O.Z := by
    apply List.map_congr_left; intro l _; rfl
  constructor <;>
    simp [ladder, a, ad, str, List.map_append, List.prod_append, List.map_map, Function.comp_def, siteOp, h]

/-! ### the one-site relations hold for the 2×2 matrices of the implementation -/
open Matrix in
theorem one_site_relations :
    Sym.m .Z * Sym.m .Z = 1 ∧ Sym.m .Z * Sym.m .P = -(Sym.m .P * Sym.m .Z) ∧
    Sym.m .Z * Sym.m .M = -(Sym.m .M * Sym.m .Z) ∧ Sym.m .P * Sym.m .P = 0 ∧ Sym.m .M * Sym.m .M = 0 ∧
    Sym.m .P * Sym.m .M + Sym.m .M * Sym.m .P = 1 := by
  refine ⟨?_, ?_, ?_, ?_, ?_, ?_⟩ <;>
    (ext i j; fin_cases i <;> fin_cases j <;> simp [Sym.m, Matrix.mul_apply, Fin.sum_univ_two])

/-! ### non-vacuity: a genuine two-site chain in 4×4 integer matrices (Kronecker products) -/
abbrev M4 := Matrix (Fin 4) (Fin 4) ℤ
private def I2 : M2 := 1
/-- Kronecker product of two 2×2 matrices, row-major index `2·i₁ + i₂` -/
def kron (x y : M2) : M4 := fun i j =>
  x ⟨i.val / 2, by omega⟩ ⟨j.val / 2, by omega⟩ * y ⟨i.val % 2, by omega⟩ ⟨j.val % 2, by omega⟩

def site2 (x : M2) (k : ℕ) : M4 := if k = 0 then kron x I2 else kron I2 x

def twoSites : SiteOps M4 where
  n := 2
  Z := site2 (Sym.m .Z)
  s := site2 (Sym.m .P)
  sd := site2 (Sym.m .M)
  zz := by intro i hi; interval_cases i <;> decide +kernel
  zs := by intro i hi; interval_cases i <;> decide +kernel
  zsd := by intro i hi; interval_cases i <;> decide +kernel
  ss := by intro i hi; interval_cases i <;> decide +kernel
  sdsd := by intro i hi; interval_cases i <;> decide +kernel
  anti := by intro i hi; interval_cases i <;> decide +kernel
  cZZ := by intro i j hi hj h; interval_cases i <;> interval_cases j <;> first | omega | (unfold Commute SemiconjBy; decide +kernel)
  cZs := by intro i j hi hj h; interval_cases i <;> interval_cases j <;> first | omega | (unfold Commute SemiconjBy; decide +kernel)
  cZsd := by intro i j hi hj h; interval_cases i <;> interval_cases j <;> first | omega | (unfold Commute SemiconjBy; decide +kernel)
  css := by intro i j hi hj h; interval_cases i <;> interval_cases j <;> first | omega | (unfold Commute SemiconjBy; decide +kernel)
  cssd := by intro i j hi hj h; interval_cases i <;> interval_cases j <;> first | omega | (unfold Commute SemiconjBy; decide +kernel)
  csdsd := by intro i j hi hj h; interval_cases i <;> interval_cases j <;> first | omega | (unfold Commute SemiconjBy; decide +kernel)

/-- the relations are not vacuous and not trivial: `a_1` carries the string (`a_1 ≠ s_1`) -/
example : a twoSites 0 * ad twoSites 1 + ad twoSites 1 * a twoSites 0 = 0 := car_a_ad_lt twoSites 0 1 (by omega) (by decide)
example : a twoSites 1 ≠ twoSites.s 1 := by decide +kernel

end RenoVerif.JW.CAR
