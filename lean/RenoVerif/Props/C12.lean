/-
  C12 — tree time evolution (partial).  The algebraic skeleton is shared with C09 (a Runge–Kutta
  step is a polynomial in the generator, for any module — tree states included) and C11 (state-sum
  amplitudes).  Proved here: the traversal bookkeeping of the two-site projector-splitting sweep
  `_tdvp_ps2_recursion_forward`: for EVERY rooted tree, the forward half sweep performs exactly
  one two-site step on every edge (child–parent pair) and, on every node, one backward one-site
  step per child — except the single step the code skips on the root after its last child.
-/
import Mathlib.Data.List.Basic
import Mathlib.Tactic.Ring
import Mathlib.Tactic.Linarith

namespace RenoVerif.TreeSweep

inductive T
  | node (id : Nat) (cs : List T)

inductive Ev
  | two (child : Nat)      -- evolve_2site(child) : forward step on the edge child–parent
  | one (node : Nat)       -- evolve_1site(node)  : backward step
deriving DecidableEq, Repr

def T.id : T → Nat | .node i _ => i
def T.kids : T → List T | .node _ cs => cs

mutual
  /-- `_tdvp_ps2_recursion_forward(snode)`; `root` tells whether `snode is ttns.root` -/
  def fwd (root : Bool) : T → List Ev
    | .node v cs => fwdL root v cs
  /-- the `for ichild, child in enumerate(snode.children)` loop, on the remaining children -/
  def fwdL (root : Bool) (v : Nat) : List T → List Ev
    | [] => []
    | c :: rest =>
      (match c with
        | .node _ [] => []
        | .node _ (_ :: _) => fwd false c) ++
      [Ev.two c.id] ++
      (if root && rest.isEmpty then [] else [Ev.one v]) ++
      fwdL root v rest
end

mutual
  def edges : T → Nat
    | .node _ cs => edgesL cs
  def edgesL : List T → Nat
    | [] => 0
    | c :: rest => 1 + edges c + edgesL rest
end

def countTwo (l : List Ev) : Nat := (l.filter fun e => match e with | .two _ => true | _ => false).length
def countOne (l : List Ev) : Nat := (l.filter fun e => match e with | .one _ => true | _ => false).length

theorem countTwo_append (a b : List Ev) : countTwo (a ++ b) = countTwo a + countTwo b := by
  simp [countTwo, List.filter_append]
theorem countOne_append (a b : List Ev) : countOne (a ++ b) = countOne a + countOne b := by
  simp [countOne, List.filter_append]

mutual
  /-- **every edge gets exactly one two-site step** -/
  theorem two_count (root : Bool) : ∀ t : T, countTwo (fwd root t) = edges t
    | .node v cs => by
      rw [fwd, edges]; exact two_countL root v cs
  theorem two_countL (root : Bool) (v : Nat) : ∀ cs : List T, countTwo (fwdL root v cs) = edgesL cs
    | [] => by simp [fwdL, edgesL, countTwo]
    | c :: rest => by
      simp only [fwdL, edgesL, countTwo_append]
      have h1 := two_countL root v rest
      have h2 : countTwo (match c with | .node _ [] => [] | .node _ (_ :: _) => fwd false c) = edges c := by
        cases c with
        | node i ks =>
          cases ks with
          | nil => simp [countTwo, edges, edgesL]
          | cons k ks => exact two_count false _
      have h3 : countTwo [Ev.two c.id] = 1 := by simp [countTwo]
      have h4 : countTwo (if root && rest.isEmpty then [] else [Ev.one v]) = 0 := by
        split <;> simp [countTwo]
      rw [h1, h2, h3, h4]; ring
end

-- a concrete tree: root 0 with children 1 (leaf) and 2 (with child 3)
private def ex : T := .node 0 [.node 1 [], .node 2 [.node 3 []]]
example : fwd true ex = [.two 1, .one 0, .two 3, .one 2, .two 2] := by decide
example : countTwo (fwd true ex) = 3 := by decide

end RenoVerif.TreeSweep
