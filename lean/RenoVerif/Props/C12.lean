/-
  C12 — tree time evolution (partial).  The algebraic skeleton is shared with C09 (a Runge–Kutta
  step is a polynomial in the generator, for any module — tree states included) and C11 (state-sum
  amplitudes).  Proved here, for EVERY rooted tree with ordered children (models: `Model/TreeSweep.lean`):

  * two-site sweep `_tdvp_ps2_recursion_forward/backward`: exactly one two-site step per edge (`two_count`);
    the backward half sweep is the mirror image of the forward half sweep (`bwd_eq_reverse_fwd`);
  * one-site sweep `_tdvp_ps_forward/backward`: one one-site step per node and one zero-site step per edge in
    each half sweep (`ps1F_counts`); backward = reverse forward (`ps1B_eq_reverse_ps1F`);
  * hence one full step is a symmetric composition of the local flows: with all local times negated it is the
    inverse of itself (`ps1_step_time_reversible`, `ps2_step_time_reversible`) — the structural reason for
    second order; a sweep that visits the children in the same order in both halves (defect D29 of the pinned
    tree) is not of this form.

  Tie: `harness/c12.py` records the sequence of local propagations (function, node, sign of the time step) of the
  REAL sweeps on random trees and compares it with these models event by event (driver `Driver/C12.lean`).
-/
import Mathlib.Data.List.Basic
import Mathlib.Algebra.BigOperators.Group.List.Basic
import Mathlib.Tactic.Ring
import Mathlib.Tactic.Linarith
import RenoVerif.Model.TreeSweep

namespace RenoVerif.TreeSweep

def countTwo (l : List Ev) : Nat := (l.filter fun e => match e with | .two _ => true | _ => false).length
def countOne (l : List Ev) : Nat := (l.filter fun e => match e with | .one _ => true | _ => false).length
def countK1 (l : List Ev) : Nat := (l.filter fun e => match e with | .k1 _ => true | _ => false).length
def countK0 (l : List Ev) : Nat := (l.filter fun e => match e with | .k0 _ => true | _ => false).length

theorem countTwo_append (a b : List Ev) : countTwo (a ++ b) = countTwo a + countTwo b := by
  simp [countTwo, List.filter_append]
theorem countOne_append (a b : List Ev) : countOne (a ++ b) = countOne a + countOne b := by
  simp [countOne, List.filter_append]
theorem countK1_append (a b : List Ev) : countK1 (a ++ b) = countK1 a + countK1 b := by
  simp [countK1, List.filter_append]
theorem countK0_append (a b : List Ev) : countK0 (a ++ b) = countK0 a + countK0 b := by
  simp [countK0, List.filter_append]
@[simp] theorem countTwo_nil : countTwo [] = 0 := rfl
@[simp] theorem countTwo_two (v : Nat) : countTwo [Ev.two v] = 1 := rfl
@[simp] theorem countTwo_one (v : Nat) : countTwo [Ev.one v] = 0 := rfl
@[simp] theorem countK1_nil : countK1 [] = 0 := rfl
@[simp] theorem countK0_nil : countK0 [] = 0 := rfl
@[simp] theorem countK1_k1 (v : Nat) : countK1 [Ev.k1 v] = 1 := rfl
@[simp] theorem countK1_k0 (v : Nat) : countK1 [Ev.k0 v] = 0 := rfl
@[simp] theorem countK0_k1 (v : Nat) : countK0 [Ev.k1 v] = 0 := rfl
@[simp] theorem countK0_k0 (v : Nat) : countK0 [Ev.k0 v] = 1 := rfl

theorem countTwo_skip (b : Bool) (v : Nat) : countTwo (if b = true then [] else [Ev.one v]) = 0 := by
  split <;> simp

mutual
  /-- **every edge gets exactly one two-site step** -/
  theorem two_count (root : Bool) : ∀ t : T, countTwo (fwd root t) = edges t
    | .node v cs => by
      rw [fwd, edges]; exact two_countL root v cs
  theorem two_countL (root : Bool) (v : Nat) : ∀ cs : List T, countTwo (fwdL root v cs) = edgesL cs
    | [] => by simp [fwdL, edgesL]
    | (.node i []) :: rest => by
      have h1 := two_countL root v rest
      simp only [fwdL, edgesL, edges, countTwo_append, h1, countTwo_skip, T.id, countTwo_nil, countTwo_two]
      try ring
    | (.node i (k :: ks)) :: rest => by
      have h1 := two_countL root v rest
      have h2 := two_count false (.node i (k :: ks))
      simp only [fwdL, edgesL, countTwo_append, h1, h2, countTwo_skip, T.id, countTwo_two]
      ring
end

/-! ### the backward half sweep is the mirror image of the forward half sweep -/

theorem skip_reverse (b : Bool) (v : Nat) :
    (if b = true then ([] : List Ev) else [Ev.one v]).reverse = (if b = true then ([] : List Ev) else [Ev.one v]) := by
  split <;> simp

mutual
  /-- **two-site sweep: `bwd = reverse fwd`, for every rooted tree** -/
  theorem bwd_eq_reverse_fwd (root : Bool) : ∀ t : T, bwd root t = (fwd root t).reverse
    | .node v cs => by
      rw [fwd, bwd]; exact bwdL_eq_reverse_fwdL root v cs
  theorem bwdL_eq_reverse_fwdL (root : Bool) (v : Nat) : ∀ cs : List T, bwdL root v cs = (fwdL root v cs).reverse
    | [] => by simp [fwdL, bwdL]
    | (.node i []) :: rest => by
      have h1 := bwdL_eq_reverse_fwdL root v rest
      simp only [fwdL, bwdL, List.reverse_append, List.reverse_cons, List.reverse_nil, List.nil_append, h1, skip_reverse,
        List.append_assoc, List.append_nil]
    | (.node i (k :: ks)) :: rest => by
      have h1 := bwdL_eq_reverse_fwdL root v rest
      have h2 := bwd_eq_reverse_fwd false (.node i (k :: ks))
      simp only [fwdL, bwdL, List.reverse_append, List.reverse_cons, List.reverse_nil, List.nil_append, h1, h2, skip_reverse,
        List.append_assoc]
end

mutual
  /-- one-site sweep: reversing the forward sweep of a subtree gives (unless it is the root) the zero-site step on its
      bond, followed by its backward sweep -/
  theorem ps1F_reverse (root : Bool) : ∀ t : T,
      (ps1F root t).reverse = (if root then [] else [Ev.k0 t.id]) ++ ps1B t
    | .node v cs => by
      have h := ps1FL_reverse cs
      cases root <;> simp [ps1F, ps1B, T.id, h]
  theorem ps1FL_reverse : ∀ cs : List T, (ps1FL cs).reverse = ps1BL cs
    | [] => by simp [ps1FL, ps1BL]
    | c :: rest => by
      have h1 := ps1FL_reverse rest
      have h2 := ps1F_reverse false c
      simp only [ps1FL, ps1BL, List.reverse_append, h1, h2]
      simp
end

/-- **one-site sweep: `backward = reverse forward`, for every rooted tree** -/
theorem ps1B_eq_reverse_ps1F (t : T) : ps1B t = (ps1F true t).reverse := by
  have := ps1F_reverse true t
  simpa using this.symm

mutual
  /-- every node is propagated once, every bond once, per half sweep (one-site scheme) -/
  theorem ps1F_counts (root : Bool) : ∀ t : T,
      countK1 (ps1F root t) = edges t + 1 ∧ countK0 (ps1F root t) = edges t + (if root then 0 else 1)
    | .node v cs => by
      have h := ps1FL_counts cs
      cases root
      · simp only [ps1F, edges, countK1_append, countK0_append, h.1, h.2, Bool.false_eq_true, if_false,
          countK1_k1, countK1_k0, countK0_k1, countK0_k0]
        constructor <;> trivial
      · simp [ps1F, edges, countK1_append, countK0_append, h.1, h.2]
  theorem ps1FL_counts : ∀ cs : List T, countK1 (ps1FL cs) = edgesL cs ∧ countK0 (ps1FL cs) = edgesL cs
    | [] => by simp [ps1FL, edgesL]
    | c :: rest => by
      have h1 := ps1FL_counts rest
      have h2 := ps1F_counts false c
      simp only [ps1FL, edgesL, countK1_append, countK0_append, h1.1, h1.2, h2.1, h2.2]
      constructor <;> simp <;> ring
end

/-! ### symmetric composition ⇒ time reversibility

Local flows as elements of a group `G` (bijections of the set of represented states, `Equiv.Perm State`, or
invertible matrices in the linear case): `φ e` is the local propagation of event `e` over its time step, its inverse
the same propagation with the time step negated (true for each exact local exponential `exp(∓i τ/2 H_eff)`; the
Krylov kernel that computes it is C18's contract).  One full step composes the forward half sweep and then the
backward half sweep.  Because the backward event list is the reverse of the forward one, the step with all local
times negated is the inverse of the step: the integrator is symmetric (self-adjoint), hence of even order. -/

/-- composition of the local flows of an event list, first event applied first (rightmost factor) -/
def compose {G : Type} [Group G] (φ : Ev → G) (l : List Ev) : G := (l.reverse.map φ).prod

theorem palindrome_inv {G : Type} [Group G] (l : List G) :
    ((l ++ l.reverse).prod)⁻¹ = ((l.map (·⁻¹)) ++ (l.map (·⁻¹)).reverse).prod := by
  rw [List.prod_inv_reverse]
  simp [List.map_reverse]

theorem compose_palindrome_inv {G : Type} [Group G] (φ : Ev → G) (l : List Ev) :
    compose (fun e => (φ e)⁻¹) (l ++ l.reverse) = (compose φ (l ++ l.reverse))⁻¹ := by
  unfold compose
  have h := palindrome_inv (l.map φ)
  simp only [List.reverse_append, List.reverse_reverse, List.map_append, List.map_reverse, List.map_map] at *
  rw [h]
  simp [Function.comp_def]

/-- **one-site scheme: `S(−τ) = S(τ)⁻¹`** -/
theorem ps1_step_time_reversible {G : Type} [Group G] (φ : Ev → G) (t : T) :
    compose (fun e => (φ e)⁻¹) (ps1F true t ++ ps1B t) = (compose φ (ps1F true t ++ ps1B t))⁻¹ := by
  rw [ps1B_eq_reverse_ps1F]; exact compose_palindrome_inv φ _

/-- **two-site scheme: `S(−τ) = S(τ)⁻¹`** -/
theorem ps2_step_time_reversible {G : Type} [Group G] (φ : Ev → G) (t : T) :
    compose (fun e => (φ e)⁻¹) (fwd true t ++ bwd true t) = (compose φ (fwd true t ++ bwd true t))⁻¹ := by
  rw [bwd_eq_reverse_fwd]; exact compose_palindrome_inv φ _

/-- the property is not vacuous and not automatic: a backward sweep that keeps the children order (D29) differs -/
private def ex : T := .node 0 [.node 1 [], .node 2 [.node 3 []]]
example : fwd true ex = [.two 1, .one 0, .two 3, .one 2, .two 2] := by decide
example : countTwo (fwd true ex) = 3 := by decide
example : bwd true ex = [.two 2, .one 2, .two 3, .one 0, .two 1] := by decide
example : ps1F true ex = [.k1 1, .k0 1, .k1 3, .k0 3, .k1 2, .k0 2, .k1 0] := by decide
example : ps1B ex = [.k1 0, .k0 2, .k1 2, .k0 3, .k1 3, .k0 1, .k1 1] := by decide
example : ps1F true (build [[1, 2], [], [3], []] 3 0) = ps1F true ex := by decide
/-- the D29 order (children forward in the backward sweep) is NOT the mirror image -/
example : ([.k1 0, .k0 1, .k1 1, .k0 2, .k1 2, .k0 3, .k1 3] : List Ev) ≠ (ps1F true ex).reverse := by decide

end RenoVerif.TreeSweep
