/-
  C18 (Krylov exponential, algebraic part) — exactness on an invariant Krylov space.  If the Lanczos recurrence closes
  (`A V = V T`: "happy breakdown", start vectors in small invariant subspaces, diagonal / rank-deficient operators),
  then `p(A) V = V p(T)` for EVERY polynomial `p`, hence `p(A) v = β V p(T) e₁` for the start vector `v = β V e₁`: the
  small-matrix function evaluated by the routine reproduces the large one exactly on that space.  The analytic step
  (the exponential as a limit of polynomials, the a-posteriori error estimate for a non-closed recurrence) and the
  floating-point Lanczos process are not modelled: numerical contract (search_c18).
-/
import Mathlib.LinearAlgebra.Matrix.Polynomial
import Mathlib.Algebra.Polynomial.AlgebraMap
import Mathlib.Data.Matrix.Mul

open Matrix Polynomial
namespace RenoVerif.Krylov

variable {n m : Type} [Fintype n] [Fintype m] [DecidableEq n] [DecidableEq m]
variable {K : Type} [CommRing K]

/-- an invariant Krylov basis: `A V = V T` (the Lanczos recurrence after a "happy breakdown": the residual vanishes and
    the tridiagonal matrix `T` represents `A` on the span of the columns of `V`) -/
theorem pow_intertwine (A : Matrix n n K) (T : Matrix m m K) (V : Matrix n m K) (h : A * V = V * T) (k : ℕ) :
    A ^ k * V = V * T ^ k := by
  induction k with
  | zero => simp
  | succ k ih => rw [pow_succ, Matrix.mul_assoc, h, ← Matrix.mul_assoc, ih, Matrix.mul_assoc, ← pow_succ]

/-- **exactness on an invariant Krylov space**: for every polynomial `p`, `p(A) V = V p(T)`; with the start vector
    `v = β V e₁` this is `p(A) v = β V p(T) e₁` — what the Krylov routine returns with `p` the (polynomial on the spectrum
    representing the) exponential.  No orthogonality of `V` is needed for this direction. -/
theorem poly_intertwine (A : Matrix n n K) (T : Matrix m m K) (V : Matrix n m K) (h : A * V = V * T) (p : K[X]) :
    (aeval A p) * V = V * (aeval T p) := by
  induction p using Polynomial.induction_on' with
  | add p q hp hq => simp only [map_add, Matrix.add_mul, Matrix.mul_add, hp, hq]
  | monomial k a =>
    simp only [aeval_monomial, Matrix.algebraMap_eq_diagonal]
    rw [Matrix.mul_assoc, pow_intertwine A T V h k]
    rw [← Matrix.mul_assoc, ← Matrix.mul_assoc]
    congr 1
    ext i j
    simp [Matrix.mul_apply, Matrix.diagonal_apply, mul_comm]

theorem krylov_exact (A : Matrix n n K) (T : Matrix m m K) (V : Matrix n m K) (h : A * V = V * T) (p : K[X])
    (e : m → K) (β : K) : (aeval A p) *ᵥ (β • (V *ᵥ e)) = β • (V *ᵥ ((aeval T p) *ᵥ e)) := by
  rw [Matrix.mulVec_smul, Matrix.mulVec_mulVec, poly_intertwine A T V h p, ← Matrix.mulVec_mulVec]

end RenoVerif.Krylov

namespace RenoVerif.Krylov
open Matrix
/-- non-vacuity: a diagonal operator with the full identity basis (`V = 1`, `T = A`) closes the recurrence -/
example (A : Matrix (Fin 3) (Fin 3) ℚ) (p : Polynomial ℚ) (e : Fin 3 → ℚ) :
    (Polynomial.aeval A p) *ᵥ ((2 : ℚ) • ((1 : Matrix (Fin 3) (Fin 3) ℚ) *ᵥ e)) = (2 : ℚ) • ((1 : Matrix (Fin 3) (Fin 3) ℚ) *ᵥ ((Polynomial.aeval A p) *ᵥ e)) :=
  krylov_exact A A 1 (by simp) p e 2
end RenoVerif.Krylov
