import RenoVerif.Model.RKTree
import RenoVerif.Props.C19
import RenoVerif.Gen.RK
import RenoVerif.Gen.RKProps
import RenoVerif.Model.Cover
import RenoVerif.Props.C20
import RenoVerif.Model.DumpProto
import RenoVerif.Props.C14
