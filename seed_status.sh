#!/bin/sh
for f in /tmp/eval_C*_m*.json; do python3 - "$f" <<'PY'
import json,sys,os
f=sys.argv[1]
try:
    d=json.load(open(f))
    ck=[(c['rc'], (c['signatures'] or c['no_failing_input'] or c['infra'])[:2]) for c in d.get('checks',[])]
    print(os.path.basename(f)[5:-5], 'clean',d.get('demo_clean_rc'),'patched',d.get('demo_patched_rc'),'applies',d.get('patch_applies'),'caught',d.get('caught'),'tests_changed',len(d.get('tests_changed') or {}), ck)
except Exception as e:
    print(os.path.basename(f)[5:-5], 'pending')
PY
done
