#!/usr/bin/env python3
"""Regenerate the table of seeded changes in DESIGN.md (between the markers) from seeded/*/meta.json and seeded/notes.json."""
import glob
import json
import os

V = os.path.dirname(os.path.abspath(__file__))
notes = json.load(open(os.path.join(V, "seeded", "notes.json")))
rows = []
n_total = n_missed = 0
for d in sorted(glob.glob(os.path.join(V, "seeded", "C*"))):
    n = os.path.basename(d)
    m = json.load(open(os.path.join(d, "meta.json")))
    e = m["evaluation"]
    sigs = []
    for c in e.get("checks", []):
        for x in c["signatures"]:
            if x not in sigs:
                sigs.append(x)
    what = m.get("what", "").split(". ")[0][:150].replace("|", "/")
    first = e.get("first_evaluation_checks")
    missed = n in notes
    n_total += 1
    n_missed += 1 if missed and not notes[n].startswith("(") else 0
    rows.append(f"| {n} | {what} | {'no → strengthened' if missed and not notes[n].startswith('(') else 'yes'} | `{'`, `'.join(sigs[:2])}` | {notes.get(n, '')} |")
table = ("| seed | change (first sentence of the agent's description) | caught at first | signatures now (first two) | what was added |\n"
         "|------|------|------|------|------|\n" + "\n".join(rows))
p = os.path.join(V, "DESIGN.md")
s = open(p).read()
a, b = "<!-- SEEDTABLE:BEGIN -->", "<!-- SEEDTABLE:END -->"
s = s[:s.index(a) + len(a)] + f"\n{n_total} seeded changes, {n_missed} missed by the first version of the check that met them (all caught now).\n\n" + table + "\n" + s[s.index(b):]
open(p, "w").write(s)
print(n_total, n_missed)
