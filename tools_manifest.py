#!/usr/bin/env python3
"""Regenerates MANIFEST.json from the table below (kept in one place so it is always valid)."""
import json, os
HERE = os.path.dirname(os.path.abspath(__file__))
props = [json.loads(l) for l in open(os.path.join(HERE, "properties.jsonl"))]
ids = [p["id"] for p in props]

def P(text, note, tech, ref, category="proof"):
    return dict(category=category, text=text, note=note, technique=tech, design_ref=ref)

LEAN_TB = ("Trusted: Lean 4.33 kernel, axioms propext/Classical.choice/Quot.sound only (audited by #print axioms on every run; no sorry/native_decide), "
           "Lean evaluator for the model drivers, the Python harness and NumPy/SciPy as dense oracle. ")

CHECKS = {
 "C01": P("Lean: every symbolic MPO certificate whose expansion equals the operator table evaluates, as a weighted automaton, to the value of the table for every linear "
          "representation (automaton_eq_expand, checkCert_sound), swap certificates (checkSwap_sound), formal-sum equivalence (eqv_sound). The checker runs on the REAL "
          "symbolic_out_ops_list of Mpo() for all three algorithms (exact for graph algorithms, residual for QR), on the operator table vs an independently computed formal sum of "
          "the input terms, and after random try_swap_site sequences. Dense Kronecker-sum oracle as failing-input search.",
          LEAN_TB + "Numeric assembly (op_mat, float products) and the identification MPO contraction = automaton with T(O)=O(x)opmat are validated by the oracle, not proved.",
          "Lean 4 proof of a sound certificate checker + automaton semantics; certificates validated on real output", "§6 C01, §10.2"),
 "C02": P("Lean: soundness of the tree certificate checker (root expansion = table for every interpretation), bilinear child combination. Certificates extracted from the real "
          "symbolic_ttno for random trees (dummy / multi-set nodes, all builders' shapes) and three algorithms are validated against an independent post-order table. Dense oracle "
          "TTNO.todense vs Kronecker sum vs chain MPO vs permuted children.",
          LEAN_TB + "Contraction semantics of a tree is proved in an abstract R-algebra (autoTree_eq_expand, accepted_tree_contracts); numeric node tensors and the identification of that algebra with the dense tensor product are validated by the oracle. tn imports only with the print_tree shim.",
          "Lean 4 proof of a sound tree-certificate checker; certificates validated on real output", "§6 C02, §10.2"),
 "C03": P("Lean: dense amplitudes of add / sub / scale / conj / dot / inner / distance / apply for dimension-indexed chains over any commutative ring, any length and dimensions; amplitudes are "
          "invariant under every re-gauging (Steps), so the statements hold in any gauge and after canonicalise/compress. Exact replay: integer QN-consistent chains with different "
          "centres through the real operations and through the Lean definitions give identical tensors (and `distance` = rounded root of the model's exact integer). Dense oracle over random gauge histories.",
          LEAN_TB + "Operator-on-operator and density-operator products are covered by the dense oracle only.",
          "Lean 4 proof (Mathlib matrices, structural induction over chains) + exact replay correspondence", "§6 C03, §10.2"),
 "C04": P("Lean: any finite sequence of two-site re-factorisations preserves every amplitude; QR/RQ pushes, lossless SVD updates and operator norm balancing are such steps under the "
          "kernel contract; isometric blocks have identity Gram matrix; sweep bond-dimension bounds. The contracts are checked on every real _update_ms call; sweep dimensions are replayed "
          "exactly. Dense oracle for object preservation, isometries, bond growth, partial canonicalise, variational compression.",
          LEAN_TB + "LAPACK QR/SVD are parameters (contracts checked numerically). Variational-compression convergence is numerical. Open findings: Mpo.compress is not a Schmidt truncation; "
          "variational compression can stall (see known_findings.json).",
          "Lean 4 proof under kernel contracts + contract checks on recorded kernel calls", "§6 C04, §10.2"),
 "C05": P("Lean: kept-count logic of CompressConfig (threshold/fixed/both, left/right bond index), prefix property of the threshold rule, at least one state kept, kept+discarded=total, "
          "Frobenius identity for U D V^H (single-cut error = discarded weight, norm never grows); nested orthogonal projections: the squared error of a whole sweep is EXACTLY the sum of "
          "the locally discarded weights (Props/C05Nested), checked as an equality on real compress sweeps; keeping the first m values of a non-negative descending spectrum, and of the globally sorted "
          "block spectra of svd_qn, discards the least possible weight (Props/C05Optimal; hypotheses checked on every truncating _update_ms). Exact replay of compute_m_trunc on dyadic spectra. Dense-SVD oracle for limits, norm, "
          "root-sum-square upper bound and Eckart-Young lower bound on chains and trees.",
          LEAN_TB + "That the locally discarded weights are bounded by the ORIGINAL state's at the same bond (interlacing) and the Eckart-Young lower bound are measured, not proved (partial).",
          "Lean 4 proof of the count logic and single-cut identity + exact replay", "§6 C05, §10.2"),
 "C06": P("Lean: block-sparsity invariant => zero amplitude outside the sector (any label group, any length; for trees: every rooted tree, Props/C06Tree); preserved by add / scale / conj / apply (sector shifted by the operator's "
          "charge) / label-respecting re-factorisation / masking; soundness of the executable checker checkInv. The checker is run on the support pattern and stored labels of the REAL tensors "
          "after every operation; move_qnidx replayed exactly. Dense sector-projection oracle over all constructors, DMRG, all evolution schemes, chains and trees.",
          LEAN_TB + "support = |x| > 1e-10 max|A|. Open findings: Mps.random / TTNS.random dead-end blocks.",
          "Lean 4 proof of the sector theorem and its preservation + certificate validation on real tensors", "§6 C06, §10.2"),
 "C07": P("Lean: one-site reduced density matrix through environments = Tr(G_L M_s G_R M_s'^H) for any gauge, length and dimensions (Props/C07Rdm); the cached-environment fast path: the cache is prefix closed in construction order for EVERY operator list (no KeyError), every cached environment is the plain contraction of "
          "its key, the handed-out prefix never overlaps the other side. Every cache decision of the real expectations() is replayed exactly. Dense oracle for all observables, RDMs, entropies.",
          LEAN_TB + "Matrix.__hash__ assumed injective on the inputs. Entropies are float formulas (partial). Contraction = dense value is c03_dot.",
          "Lean 4 proof of the cache logic for all operator lists + exact replay of cache decisions", "§6 C07, §10.2"),
 "C08": P("Partial: the variational inequality (compression never lowers the spectrum; nested; Rayleigh form; (H-w)^2 >= 0) is a Lean theorem under the isometry hypothesis, which is checked on the "
          "real optimiser's output together with energy = Rayleigh quotient; a normalised eigenpair (e, x) of the effective Hamiltonian gives lam <= e, psi = P x normalised and <psi|H|psi> = e "
          "(reported_energy_variational), (H-w)^2 maps an eigenvalue mu to (mu-w)^2. Energies vs exact diagonalisation per sector, roots 1..4, omega targeting, 1-/2-site, solvers, OFS: dense oracle.",
          LEAN_TB + "Convergence at full bond dimension, interlacing for higher roots, Davidson: numerical.",
          "Lean 4 partial proof (variational bound) + hypothesis check + dense-oracle search", "§6 C08, §10.2", "other"),
 "C09": P("Partial: one explicit RK step = polynomial in the generator for every tableau and every linear generator (rk_step_poly) with coefficients 1/k! up to the advertised order (generated facts); "
          "adaptive controller model with time conservation for every factor sequence; projector-splitting sweeps as symmetric compositions (C12 theorems on the linear tree), the local-propagation "
          "sequence of the real chain tdvp_ps / tdvp_ps2 replayed exactly; every sequence of one-site local steps conserves norm and energy at any bond dimension (Props/C09Conserve: sweep_conserves), hypotheses and conclusion checked on every recorded local propagation of the real sweep. The real general RK scheme at full bond dimension equals the model polynomial (1e-15) for all ten tableaux. Orders by slopes, solver independence, "
          "split calls, PS conservation, bond limits: dense oracle.",
          LEAN_TB + "Error orders and solver convergence are numerical.",
          "Lean 4 partial proof (RK polynomial, translator-generated facts) + correspondence + dense-oracle search", "§6 C09, §10.2", "other"),
 "C10": P("Partial: closed-form propagator = product of local factors, scalar shift, phase bookkeeping of evolve_exact (with the D3 witness), purification identities (<A,OA> = Tr(O A A^H), "
          "U^m (U^m)^H = U^2m, invariance of the reported average under per-step normalisation) are Lean theorems tied to the real exact_propagator / ThermalProp; "
          "exp(-tau H) and Gibbs averages for all schemes/sectors/offsets: dense oracle.",
          LEAN_TB + "Imaginary-time convergence is numerical.",
          "Lean 4 partial proof (propagator structure, bookkeeping) + correspondence + dense-oracle search", "§6 C10, §10.2", "other"),
 "C11": P("Partial: state-sum model of a tensor network on any graph (scale, linearity in a node, node relabelling = child-order independence, bond permutation gauge, general bond gauge "
          "G / G^-1 = every QR / lossless SVD push of the tree code) proved in Lean; hypotheses checked on every real push_cano move, model replayed on "
          "real TTNS objects; recursive contraction model with TTNS.add = sum of the dense vectors and TTNO.apply = two-layer contraction for EVERY tree by mutual structural induction "
          "(Props/C11Tree, C11Apply), node tensors of the real add / apply replayed entry by entry; tree sector theorem (Props/C06Tree); add/apply/canonicalise/compress/expectation/RDM/entropies/from_mps: dense oracle.",
          LEAN_TB + "tn imports only with the print_tree shim.",
          "Lean 4 partial proof (state-sum model) + correspondence + dense-oracle search", "§6 C11, §10.2", "other"),
 "C12": P("Partial: Lean traversal models of the one- and two-site projector-splitting sweeps for every rooted tree (one local step per node/edge; backward half sweep = mirror image of the forward one; "
          "hence a symmetric, time-reversible composition in any group of local flows) + C09's RK skeleton and conservation theorem (Props/C09Conserve) + C11's bond-gauge theorem; the event sequence of the real sweeps is replayed exactly; "
          "dense propagator oracle for all four schemes in real and imaginary time, sector, conservation, chain agreement.",
          LEAN_TB + "Orders and conservation laws are numerical. Open findings listed in known_findings.json.",
          "Lean 4 partial proof (sweep traversal / symmetric composition, RK skeleton) + exact event-sequence correspondence + dense-oracle search", "§6 C12, §10.2", "other"),
 "C13": P("Lean effect model (derive / mutate / observe): well-formedness invariant, frame theorems, no_interference over every finite program. Random programs on real chain objects: every other live "
          "object's represented vector unchanged, no shared mutable containers. Snapshot search over all public methods, all schemes, MpDm, trees, zero/non-zero offsets.",
          LEAN_TB + "Sharing of immutable NumPy buffers is allowed. Documented exemptions: OFS reorders the Hamiltonian; the optimiser overwrites its guess.",
          "Lean 4 proof over an effect model + observed-effect correspondence", "§6 C13, §10.2"),
 "C15": P("Lean: the symbolic operator algebra is a homomorphism into ANY algebra under ANY interpretation of the simple symbols: product, scalar multiple, negation, sum, difference, "
          "distributive product of sums, quotient, identity removal, merging of equal terms, simplification split into kept and dropped part, and den_eval for every expression program. "
          "Random expression programs are evaluated by the real Op/OpSum classes and by the Lean evalModel over exact Gaussian rationals; term lists identical. Dense shadow-matrix oracle, "
          "equality/hash consistency, split_elementary.",
          LEAN_TB + "Factors are dyadic so that float arithmetic is exact; DoF names abstracted to integers.",
          "Lean 4 proof (homomorphism for all expression programs) + exact replay correspondence", "§6 C15, §10.2"),
 "C16": P("Lean: harmonic-oscillator symbols in the scaled number basis for every size / frequency parameter / origin: two-operator products, CCR, x^2, p^2, x p, p x in the written order. Real "
          "BasisSHO.op_mat replayed against the model with the similarity scaling. Defining relations of every basis class, sine-DVR quadrature, builders vs independent dense Hamiltonians: dense oracle.",
          LEAN_TB + "Spin-1/2 and multi-electron tables: Lean model (Model/Spin, Props/C16Spin) replayed exactly. General powers, DVR, sine-DVR integrals, builders, Quantity: oracle only (partial). Open finding: BasisMultiElectronVac 'a a^dagger'.",
          "Lean 4 proof (SHO algebra over Gaussian rationals; spin-1/2 and multi-electron tables) + exact / scaled replay", "§6 C16, §10.2"),
 "C17": P("Lean: simplify_op is exact on every word over {sigma_z, sigma_+, sigma_-} of any length; the Jordan-Wigner swap rule is the fermionic swap conjugation on the whole admitted alphabet; the Jordan-Wigner ladder operators satisfy the canonical anticommutation relations for every chain length (Props/C17CAR). Real "
          "simplify_op, table_row_swapped_jw, generate_ladder_operator and BasisHalfSpin matrices replayed. qc_model vs independent fermionic matrix, hermiticity, number conservation, OFS swap sequences: dense oracle.",
          LEAN_TB + "CAR is proved for all orbital counts; the step from CAR to equality of the assembled qc_model Hamiltonian with the fermionic matrix is validated by the oracle for 1-4 spatial orbitals.",
          "Lean 4 proof (word normal form, exhaustive swap table, CAR for every chain length) + exact replay", "§6 C17, §10.2"),
 "C18": P("Lean: exactness of the Krylov approximation on an invariant Krylov space for every polynomial (Props/C18Krylov, checked on the real routine with start vectors in small invariant "
          "subspaces); assembly of the symmetry-blocked factorisation for every label pattern (reconstruction of the allowed part, cross-sector orthogonality, labels, sort permutation, invalid-qn iff no "
          "sector pairs), kernels as parameters; hypotheses and conclusion checked on real svd_qn output. Krylov exponential vs scipy expm: numerical contract (partial).",
          LEAN_TB + "LAPACK kernels and Lanczos are not modelled.",
          "Lean 4 proof of the blocked assembly under kernel contracts + contract checks", "§6 C18, §10.2"),

 "C19": dict(
   category="proof",
   text="The Lean model of the ten tableaux is regenerated from rk.py on every run (translator, runtime values -> exact rationals, ast cross-check); "
        "for every method and row the kernel re-checks, by `decide +kernel` lifted through the proved completeness of the rooted-forest enumeration "
        "(forests_complete, orderOK_sound), ALL Butcher order conditions up to the advertised order, nodes = row sums, and the constant-coefficient "
        "expansion = 1/k!. The hand-written tiCoeff/taylorCoeff models are tied to runge_kutta_ti_coefficient/TaylorExpansion by exact-vs-float comparison. "
        "A float re-evaluation of every tree condition on the real tableau supplies the failing tree as replay.",
   design_ref="§6 C19",
   note="Trusted: Lean kernel (axioms propext/Classical.choice/Quot.sound; decide +kernel adds none), translator rk2lean.py, IEEE evaluation of p/q literals. "
        "Order conditions in autonomous form + c=row sums.",
   technique="Lean 4 proof over a model regenerated by a translator (decide +kernel over a proved-complete tree enumeration)"),
 "C20": dict(
   category="proof",
   text="Lean theorems: weak duality (any vertex cover >= any matching, for every bipartite graph) and soundness of the executable certificate checker "
        "checkCert (accepted => cover touches every edge, is MINIMUM, matching is MAXIMUM, sizes equal). The checker is run on the real output of "
        "bipartite_vertex_cover (both algorithms; SciPy's matching recorded) for every bipartite graph up to 3x3 (thorough: all smaller than 4x4 + sampled 4x4) and random graphs to 9x9; "
        "the executable Koenig-closure model is replayed on the implementation's own matching and must return the identical cover; Kuhn matching model compared by size. "
        "Brute-force minimum cover is the failing-input oracle. Bond-dimension consequence for MPOs is searched by the dense oracle in search_c20.",
   design_ref="§6 C20",
   note="Trusted: Lean kernel + standard axioms; Lean evaluator for checkCert/konig runs; SciPy Hopcroft-Karp is a black box validated per instance; "
        "set.pop order abstracted. Maximality of Kuhn's matching for all graphs (Berge) is NOT proved: it is established per instance by the certificate.",
   technique="Lean 4 proof (weak duality + proved-sound certificate checker) with exhaustive small-graph correspondence"),
 "C14": dict(
   category="proof",
   text="Crash safety is proved in Lean over a file-system state machine of dump_dict (result file, left-over backup, temporary file, each absent/partial/complete; remove, replace atomic; "
        "savez = create..finish): dump_preserves (no dump ever loses the newest complete result) and dump_crash_safe hold at full strength for EVERY initial directory, EVERY number of dumps "
        "and EVERY crash instant, the first dump of a restarted job included (induction over the run). The model is tied to the code by exact "
        "trace correspondence: the real TdMpsJob.dump_dict is run in forked children that die (os._exit) before each file-mutating audit event and inside np.savez, for all 18 "
        "initial directories; the observed (step, directory) trace must equal the model's runTrace. The same observed states are judged by the property itself (failing-input oracle). "
        "Round-trip of dump/load for chain, density-operator and tree states is searched by search_c14 (dense/byte comparison); its Lean side is the field model in Props/C14 (when present).",
   design_ref="§6 C14",
   note="Trusted: Lean kernel + standard axioms; POSIX rename/remove atomicity; a killed np.savez leaves a non-loadable or key-incomplete file; audit events capture all mutations of the three files. "
        "The pinned tree's rename-based protocol lost a complete backup when a job was restarted into (partial, complete): defect D40, repaired (fix: 736f0dd); the model is the repaired protocol.",
   technique="Lean 4 invariant proof over a file-protocol state machine + exhaustive real-process crash injection trace correspondence"),
}
NOT_YET = "check not built yet in this session; see DESIGN.md §9 build order"

def main():
    checks = []
    na = []
    for i in ids:
        if i in CHECKS:
            c = CHECKS[i]
            checks.append(dict(
                property_id=i,
                quick_cmd=f"./check {i} --tier quick",
                thorough_cmd=f"./check {i} --tier thorough",
                evidence_file=f"evidence/{i}.json",
                replay_cmd_template=f"./check {i} --replay {{path}}",
                engine="lean4+correspondence",
                level_claimed=dict(category=c["category"], text=c["text"], design_ref=c["design_ref"]),
                level_note=c["note"],
                technique=c["technique"]))
        else:
            na.append(dict(property_id=i, reason=NOT_YET))
    m = dict(
        version=1,
        setup_cmd="(PYTHONPATH=/repo /venv/bin/python translator/rk2lean.py >/dev/null 2>&1 || true) && cd lean && lake build",
        hooks=dict(guard="RENORMALIZER_VERIF", enable="export RENORMALIZER_VERIF=1 (set by ./check); no hook commits exist so far: all instrumentation wraps module attributes from the harness process",
                   baseline_off_cmd="cd /repo && env -u RENORMALIZER_VERIF /venv/bin/python -m pytest -ra -q -p no:cacheprovider --timeout=900 --continue-on-collection-errors",
                   source_commits=[], add_only=True),
        engines=[dict(name="lean4+correspondence", path="lean/ harness/ translator/", serves_properties=sorted(CHECKS),
                      kind_free_text="Lean 4 theorems over executable models (lake build + #print axioms audit), tied to /repo by a translator (C19) or a line-protocol correspondence check, with a dense-oracle failing-input search")],
        checks=checks,
        notes="See DESIGN.md. Exit codes: 0 held, 1 VIOLATION, 2 infrastructure failure.",
        not_applicable=na)
    json.dump(m, open(os.path.join(HERE, "MANIFEST.json"), "w"), indent=1)
    print("claimed:", [c["property_id"] for c in checks])

if __name__ == "__main__":
    main()
