"""C03 — state and operator arithmetic agrees with dense linear algebra in any gauge.
L1: Lean chain library (amp of add/sub/scale/conj/dot/apply for every chain; gauge invariance).
L2: exact replay — integer / Gaussian-integer QN-consistent chains (centres differing) are put
    through the REAL add / scale / conj / dot / Mpo.apply and through the Lean model's executable
    definitions (Driver/Chain.lean, exact Gaussian rationals); site tensors and scalars must be
    identical.
L3: dense oracle over random gauge histories (search_c03)."""
from fractions import Fraction

import numpy as np

import common
from common import Run, Infra


def enc_c(z):
    z = complex(z)
    return f"{common.rat(Fraction(z.real))}:{common.rat(Fraction(z.imag))}"


def enc_chain(mp, op=False):
    sites = []
    for mt in mp:
        a = np.asarray(mt.array if hasattr(mt, "array") else mt)
        if op:
            l, d, d2, r = a.shape
            flat = a.reshape(-1)
        else:
            l, d, r = a.shape
            flat = a.reshape(-1)
        sites.append(f"{l},{d},{r}|" + ";".join(enc_c(x) for x in flat))
    return "#".join(sites)


def dec_chain(txt):
    """-> list of arrays (l,d,r) complex"""
    out = []
    for s in txt.split("#"):
        hd, body = s.split("|")
        l, d, r = (int(x) for x in hd.split(","))
        vals = []
        for e in body.split(";"):
            a, b = e.split(":")
            vals.append(complex(float(Fraction(a)), float(Fraction(b))))
        out.append(np.array(vals).reshape(l, d, r))
    return out


def tensors_of(mp):
    return [np.asarray(mt.array, dtype=complex) for mt in mp]


def same_tensors(xs, ys):
    return len(xs) == len(ys) and all(x.shape == y.shape and np.array_equal(x, y) for x, y in zip(xs, ys))


def main():
    run = Run("C03", level="proof")
    quick = run.tier != "thorough"
    rng = np.random.default_rng(run.seed)
    l1 = run.l1(["RenoVerif/Props/C03.lean", "RenoVerif/Lemmas/Chain.lean", "RenoVerif/Lemmas/ChainDot.lean"])
    if not l1["build_ok"]:
        raise Infra("hand-written Lean library failed to build/audit: " + str(l1.get("bad")) + l1.get("log", "")[-800:])
    import lib_chain as lc

    ncase = 30 if quick else 250
    reqs, meta = [], []
    dist_cases = []
    made = 0
    tries = 0
    while made < ncase and tries < ncase * 20:
        tries += 1
        nsite = int(rng.integers(1, 5))
        qn_size = 1 if rng.random() < 0.75 else 2
        spec = lc.random_model_spec(rng, nsite, qn_size=qn_size, max_d=3)
        model = lc.build_model(spec)
        cplx = bool(rng.random() < 0.5)
        a = lc.random_chain(rng, model, "mps", max_bond=3, cplx=cplx, integer=True)
        if a is None:
            continue
        b = lc.random_chain(rng, model, "mps", qntot=tuple(int(x) for x in a.qntot), max_bond=3,
                            cplx=bool(rng.random() < 0.5), integer=True)
        if b is None:
            continue
        made += 1
        case = dict(spec=spec, qntot=[int(x) for x in a.qntot], a=lc.dump_chain(a), b=lc.dump_chain(b),
                    centres=[int(a.qnidx), int(b.qnidx)], to_right=[bool(a.to_right), bool(b.to_right)])
        run.count(f"nsite={nsite}")
        run.count("centres-differ" if a.qnidx != b.qnidx else "centres-equal")
        run.count("qn_size=%d" % qn_size)
        ea, eb = enc_chain(a), enc_chain(b)
        # add
        try:
            r = a.add(b)
            reqs.append(f"add {ea} {eb}")
            meta.append(("add", case, tensors_of(r), None))
        except Exception as e:  # noqa
            run.violation("add:raises:" + type(e).__name__, dict(case=case, error=str(e)[:200]))
        # scale (at the centre of a)
        val = complex(int(rng.integers(-3, 4)), int(rng.integers(-2, 3)) if rng.random() < 0.5 else 0)
        if val != 0:
            r = a.scale(val)
            reqs.append(f"scale {int(a.qnidx)} {enc_c(val)} {ea}")
            meta.append(("scale", dict(case, val=str(val)), tensors_of(r), None))
        # conj
        r = a.conj()
        reqs.append(f"conj {ea}")
        meta.append(("conj", case, tensors_of(r), None))
        # dot (bilinear) and inner product
        reqs.append(f"dot {ea} {eb}")
        meta.append(("dot", case, None, complex(a.dot(b))))
        reqs.append(f"dot {enc_chain(a.conj())} {eb}")
        meta.append(("inner", case, None, complex(a.conj().dot(b))))
        # distance: the three contractions the implementation combines (theorem c03_distance); the squared
        # distance is an exact integer for Gaussian-integer tensors, so the float result must be its rounded root
        try:
            dv = float(a.copy().distance(b.copy()))
            i0 = len(reqs)
            reqs.append(f"dot {enc_chain(a.conj())} {ea}")
            meta.append(("distpart", case, None, None))
            reqs.append(f"dot {enc_chain(b.conj())} {eb}")
            meta.append(("distpart", case, None, None))
            dist_cases.append((i0, i0 + 1, i0 - 1, case, dv))
        except Exception as e:  # noqa
            run.violation("distance:raises:" + type(e).__name__, dict(case=case, error=str(e)[:200]))
        # dense amplitudes
        if np.prod([t.shape[1] for t in tensors_of(a)]) <= 81:
            reqs.append(f"amp {ea}")
            meta.append(("amp", case, None, np.asarray(lc.dense_chain(a), dtype=complex).reshape(-1)))
        # operator application (integer MPO of random charge)
        if rng.random() < 0.7:
            w = lc.random_chain(rng, model, "mpo", max_bond=2, cplx=bool(rng.random() < 0.4), integer=True)
            if w is not None:
                try:
                    r = w.apply(a)
                    reqs.append(f"apply {enc_chain(w, op=True)} {ea}")
                    meta.append(("apply", dict(case, w=lc.dump_chain(w)), tensors_of(r), None))
                    run.count("apply:charge-nonzero" if np.any(np.array(w.qntot) != 0) else "apply:charge-zero")
                except Exception as e:  # noqa
                    run.violation("apply:raises:" + type(e).__name__, dict(case=case, error=str(e)[:200]))
    replies = common.run_driver("RenoVerif/Driver/Chain.lean", reqs, timeout=3000)
    ndis = 0
    distinct = set()
    for (kind, case, tens, scal), req, rep in zip(meta, reqs, replies):
        ok = True
        if rep in ("bad-op", "bad-shape"):
            raise Infra(f"chain driver rejected a request of kind {kind}: {rep}: {req[:200]}")
        if tens is not None:
            ok = same_tensors(dec_chain(rep), tens)
        elif kind == "distpart":
            ok = True
        elif kind in ("dot", "inner"):
            a_, b_ = rep.split(":")
            ok = complex(float(Fraction(a_)), float(Fraction(b_))) == scal
        elif kind == "amp":
            vals = []
            for e in rep.split(" "):
                a_, b_ = e.split(":")
                vals.append(complex(float(Fraction(a_)), float(Fraction(b_))))
            ok = len(vals) == len(scal) and np.array_equal(np.array(vals), scal)
        distinct.add(req)
        run.sample(dict(op=kind, request=req[:300], reply=rep[:300]), limit=3)
        if not ok:
            ndis += 1
            if kind == "add" and len(tens) == 1:
                run.violation("add:one-site:boundary-bond",
                              dict(case=case, result_shape=list(tens[0].shape), model=rep[:500],
                                   what="add() of two one-site chains returns a tensor whose boundary bond has dimension 2"))
                continue
            run.violation(f"corr:{kind}", dict(correspondence=f"RenoVerif.Chain model of `{kind}` vs renormalizer.mps", case=case,
                                               model=rep[:2000], impl=[t.tolist() for t in tens] if tens is not None else str(scal)),
                          no_input=True)
    import math
    for i1, i2, i12, case, dv in dist_cases:
        def cval(rep):
            a_, b_ = rep.split(":")
            return Fraction(a_), Fraction(b_)
        (l1, l1i), (l2, l2i), (l12, _) = cval(replies[i1]), cval(replies[i2]), cval(replies[i12])
        d2 = l1 + l2 - 2 * l12     # c03_distance: = sum_c |a_c - b_c|^2 (imaginary parts cancel)
        if l1i != 0 or l2i != 0 or d2 < 0 or d2.denominator != 1:
            raise Infra(f"model squared distance is not a non-negative integer: {l1} {l1i} {l2} {l2i} {l12}")
        exp = math.sqrt(int(d2))
        run.count("distance:zero" if d2 == 0 else "distance:positive")
        if dv != exp:
            ndis += 1
            run.violation("distance:value", dict(case=case, impl=dv, model_squared=int(d2), model=exp,
                                                 what="Mps.distance differs from the root of the exact squared distance of the dense vectors"))
    run.cov.update(programs=len(reqs), disagreements_checked=len(reqs), disagreements_found=ndis,
                   evaluations=len(reqs), distinct_nontrivial=len(distinct),
                   rule="random models (1-4 sites, d<=3, 1-2 qn components) x pairs of integer/Gaussian-integer QN-consistent chains with random, "
                        "mostly different centres and sweep directions x {add, scale, conj, dot, inner, distance, amp, Mpo.apply with charged integer MPO}; "
                        "distinct = distinct request text")
    try:
        import search_c03
    except ImportError:
        search_c03 = None
        run.cov["search_module"] = "absent"
    if search_c03 is not None:
        ev0, dn0 = run.cov["evaluations"], run.cov["distinct_nontrivial"]
        search_c03.search(run, rng, quick)
        if run.cov.get("evaluations") != ev0:
            run.cov["search_evaluations"] = run.cov["evaluations"]
            run.cov["evaluations"] = ev0 + run.cov["search_evaluations"]
            run.cov["distinct_nontrivial"] = dn0 + run.cov.get("distinct_nontrivial", 0)
    run.assumptions += ["exact replay uses integer tensors so that float64 arithmetic of the implementation is exact",
                        "operator-on-operator products and density operators are covered by the dense oracle only",
                        "quantum-number labels after each operation are C06's business"]
    return run.finish()


if __name__ == "__main__":
    common.main_wrapper(main)
