"""Shared helpers for the tree-tensor-network search modules (C02, C11; C12 may import it too).

Everything here is *independent of the code under test* except for

  * the constructors of the basis-set classes (`renormalizer.model.basis`),
  * `BasisSHO.op_mat` for harmonic-oscillator symbols (the subject of C16, not of the tree checks),
  * the documented *data layout* of tree nodes
        TTNS node tensor : [child_1 .. child_m, phys_1 .. phys_k, parent]
        TTNO node tensor : [child_1 .. child_m, up_1, down_1, .. up_k, down_k, parent]
    which the independent dense walkers `dense_of_ttns` / `dense_of_ttno` rely on.

All descriptions (`basis descs`, `tree spec`, `terms`) are plain JSON-serialisable Python objects so
that they can be put into replay files unchanged and rebuilt with the `make_*`/`build_*` functions.

API overview
------------
basis sets
    random_basis_descs(rng, n, qn_mode, kinds=None)   -> list of desc dicts (no dummies)
    dummy_desc(label, qn_size)                        -> desc of a 1-dimensional BasisDummy
    make_basis(desc) / make_basis_list(descs)         -> BasisSet objects
    desc_nbas(desc), desc_sigmaqn(desc), desc_qn_size(desc)
trees
    random_tree_spec(rng, descs, ...)                 -> (descs_with_dummies, spec)
    permute_children(rng, spec)                       -> spec with every children list re-ordered
    build_basis_tree(spec, basis_list)                -> (BasisTree, basis_nodes_by_id)
    preorder_ids(spec) / postorder_ids(spec) / subtree_basis_ids(spec, node_id) / tree_stats(spec)
operators
    random_terms(rng, descs, n_terms, ...)            -> list of term dicts {factor, pieces}
    terms_to_ops(rng, terms, descs)                   -> list of renormalizer Op (pieces interleaved)
    piece_matrix(desc, basis, piece)                  -> local matrix of one piece
    dense_operator(descs, basis_list, terms, order)   -> Kronecker-sum oracle
states
    random_ttns_tensors(rng, spec, descs, ...)        -> dict(tensors, qns, qntot)   (QN-consistent)
    build_ttns(basis_tree, spec, tensors, qns)        -> TTNS
    dense_from_spec(spec, descs, tensors, order)      -> dense amplitudes from raw tensors (no library)
    dense_of_ttns(ttns, order_bases=None)             -> dense amplitudes by an independent walker
    dense_of_ttno(ttno, order_bases=None)             -> dense matrix by an independent walker
    sector_mask(descs, order, qntot)                  -> boolean mask of product states with total QN
    partial_trace_rdm(psi, dims, keep)                -> rho[ket.., bra..] of the kept factors
    schmidt_values(psi, dims, part)                   -> singular values across a bipartition
    vn_entropy(p)                                     -> -sum p ln p of a normalised spectrum

`order` arguments are lists of indices into the desc / basis list; dummies (dimension 1) may be
left out or included freely.
"""
import itertools

import numpy as np

from renormalizer import Op
from renormalizer.model.basis import (BasisSet, BasisDummy, BasisHalfSpin, BasisSimpleElectron,
                                      BasisMultiElectron, BasisMultiElectronVac, BasisSHO)

EPS = np.finfo(float).eps


# =====================================================================================
# basis sets
# =====================================================================================
def _dof(d):
    """JSON lists stand for tuple DoF names."""
    return tuple(_dof(x) for x in d) if isinstance(d, list) else d


def dummy_desc(label, qn_size=1):
    return dict(kind="dummy", dof=["dummy", label], qn_size=qn_size)


def make_basis(desc) -> BasisSet:
    k = desc["kind"]
    if k == "spin":
        return BasisHalfSpin(_dof(desc["dof"]), sigmaqn=desc["sigmaqn"])
    if k == "elec":
        return BasisSimpleElectron(_dof(desc["dof"]), sigmaqn=desc["sigmaqn"])
    if k == "multi":
        return BasisMultiElectron([_dof(d) for d in desc["dofs"]], desc["sigmaqn"])
    if k == "vac":
        return BasisMultiElectronVac([_dof(d) for d in desc["dofs"]])
    if k == "sho":
        return BasisSHO(_dof(desc["dof"]), omega=desc["omega"], nbas=desc["nbas"], x0=desc.get("x0", 0.0))
    if k == "dummy":
        qs = desc.get("qn_size", 1)
        return BasisDummy(_dof(desc["dof"]), sigmaqn=[[0] * qs])
    raise ValueError(k)


def make_basis_list(descs):
    return [make_basis(d) for d in descs]


def desc_sigmaqn(desc):
    """(nbas, qn_size) integer array of the per-state quantum numbers"""
    k = desc["kind"]
    if k in ("spin", "elec", "multi"):
        return np.array([np.atleast_1d(q) for q in desc["sigmaqn"]], dtype=int)
    if k == "vac":
        return np.array([[0]] + [[1]] * len(desc["dofs"]), dtype=int)
    if k == "sho":
        return np.zeros((desc["nbas"], 1), dtype=int)
    if k == "dummy":
        return np.zeros((1, desc.get("qn_size", 1)), dtype=int)
    raise ValueError(k)


def desc_nbas(desc):
    return len(desc_sigmaqn(desc))


def desc_qn_size(desc):
    return desc_sigmaqn(desc).shape[1]


def desc_dofs(desc):
    if desc["kind"] in ("multi", "vac"):
        return [_dof(d) for d in desc["dofs"]]
    return [_dof(desc["dof"])]


QN_MODES = ("none", "u1", "u1x2")


def random_basis_descs(rng, n, qn_mode="none", kinds=None):
    """n random non-dummy basis-set descriptions with consistent quantum-number size.

    qn_mode "none": every sigmaqn is zero (size 1), all kinds allowed;
            "u1"  : size-1 quantum numbers, electrons / spins carry charge;
            "u1x2": two-component quantum numbers (kinds spin, elec, multi only).
    DoF names mix ints, strings and tuples (encoded as lists)."""
    assert qn_mode in QN_MODES
    if kinds is None:
        kinds = {"none": ["spin", "spin", "sho", "elec", "multi", "vac"],
                 "u1": ["elec", "elec", "spin", "multi", "vac", "sho"],
                 "u1x2": ["elec", "elec", "spin", "multi"]}[qn_mode]
    descs = []
    for i in range(n):
        k = kinds[int(rng.integers(len(kinds)))]
        style = int(rng.integers(3))
        name = [i, f"d{i}", ["q", i]][style]
        if k == "spin":
            if qn_mode == "none":
                sq = [[0], [0]]
            elif qn_mode == "u1":
                sq = [[[1], [0]], [[0], [0]], [[0], [1]]][int(rng.integers(3))]
            else:
                sq = [[[1, 0], [0, 0]], [[0, 0], [0, 0]], [[0, 1], [0, 0]], [[1, 0], [0, 1]]][int(rng.integers(4))]
            descs.append(dict(kind="spin", dof=name, sigmaqn=sq))
        elif k == "elec":
            if qn_mode == "none":
                sq = [[0], [0]]
            elif qn_mode == "u1":
                sq = [[0], [1]]
            else:
                sq = [[[0, 0], [1, 0]], [[0, 0], [0, 1]], [[0, 0], [1, 1]]][int(rng.integers(3))]
            descs.append(dict(kind="elec", dof=name, sigmaqn=sq))
        elif k == "multi":
            nd = int(rng.integers(2, 4))
            if qn_mode == "none":
                sq = [[0]] * nd
            elif qn_mode == "u1":
                sq = [[int(rng.integers(0, 2))] for _ in range(nd)]
            else:
                sq = [[int(rng.integers(0, 2)), int(rng.integers(0, 2))] for _ in range(nd)]
            descs.append(dict(kind="multi", dofs=[[f"m{i}", j] for j in range(nd)], sigmaqn=sq))
        elif k == "vac":
            nd = int(rng.integers(1, 3))
            descs.append(dict(kind="vac", dofs=[f"v{i}_{j}" for j in range(nd)]))
        elif k == "sho":
            descs.append(dict(kind="sho", dof=name, omega=float(rng.choice([0.5, 1.0, 2.0])),
                              nbas=int(rng.integers(2, 5)), x0=float(rng.choice([0.0, 0.0, 0.75]))))
        else:
            raise ValueError(k)
    return descs


# =====================================================================================
# trees
# =====================================================================================
TREE_SHAPES = ("random", "chain", "star", "caterpillar", "binary", "bushy")


def random_tree_spec(rng, descs, n_dummy=None, max_group=3, shape=None, max_children=6):
    """Random rooted tree over the given (non-dummy) basis descs.

    Returns (descs2, spec): `descs2` = descs + appended dummy descs; spec = dict(
        parent  : list, parent[i] = node id of the parent of node i (-1 for the root, node 0),
        children: list of ordered children id lists,
        groups  : list, groups[i] = indices into descs2 of the basis sets of node i (a dummy node
                  holds exactly one dummy basis), 1..max_group sets per physical node,
        shape   : the shape name used).
    Node ids are arbitrary labels; node 0 is the root.  Dummy nodes may end up as root, internal
    nodes or leaves.  No node gets more than `max_children` children (environment contractions
    of the library become slow beyond ~5 because of opt_einsum's path search)."""
    qn_size = desc_qn_size(descs[0]) if descs else 1
    idx = list(rng.permutation(len(descs)))
    groups = []
    while idx:
        g = min(max_group, int(rng.choice([1, 1, 1, 1, 2, 2, 3])))   # mostly single-set nodes
        groups.append([int(i) for i in idx[:g]])
        idx = idx[g:]
    if n_dummy is None:
        n_dummy = int(rng.choice([0, 0, 1, 1, 2, 2, 3, 4]))
    if not groups and n_dummy == 0:
        n_dummy = 1
    descs2 = list(descs)
    for j in range(n_dummy):
        descs2.append(dummy_desc(j, qn_size))
        groups.append([len(descs2) - 1])
    order = rng.permutation(len(groups))
    groups = [groups[i] for i in order]
    n = len(groups)
    if shape is None:
        shape = str(rng.choice(TREE_SHAPES, p=[0.3, 0.1, 0.2, 0.1, 0.1, 0.2]))
    parent = [-1] * n
    nchild = [0] * n
    for i in range(1, n):
        cand = [j for j in range(i) if nchild[j] < max_children]
        if shape == "chain":
            p = i - 1
        elif shape == "star":
            p = 0
        elif shape == "caterpillar":
            p = i - 1 if i % 2 == 1 else max(i - 2, 0)
        elif shape == "binary":
            p = (i - 1) // 2
        elif shape == "bushy":
            p = int(rng.integers(0, min(i, 2)))
        else:
            p = int(cand[int(rng.integers(len(cand)))])
        if nchild[p] >= max_children:      # arity cap: overflow goes to the first node with room
            p = cand[0]
        parent[i] = p
        nchild[p] += 1
    children = [[] for _ in range(n)]
    for i in range(1, n):
        children[parent[i]].append(i)
    for c in children:
        if len(c) > 1:
            perm = rng.permutation(len(c))
            c[:] = [c[j] for j in perm]
    return descs2, dict(parent=parent, children=children, groups=groups, shape=shape)


def permute_children(rng, spec, force=True):
    """Same tree (same node ids, same groups) with the children of every node listed in another
    order.  With force=True at least one node with >= 2 children gets a non-identity permutation
    (if such a node exists)."""
    children = []
    changed = False
    for c in spec["children"]:
        c = list(c)
        if len(c) > 1:
            perm = list(rng.permutation(len(c)))
            if force and not changed and perm == sorted(perm):
                perm = perm[1:] + perm[:1]
            if perm != sorted(perm):
                changed = True
            c = [c[j] for j in perm]
        children.append(c)
    return dict(parent=list(spec["parent"]), children=children, groups=[list(g) for g in spec["groups"]],
                shape=spec.get("shape"))


def preorder_ids(spec):
    out = []

    def rec(i):
        out.append(i)
        for c in spec["children"][i]:
            rec(c)
    rec(0)
    return out


def postorder_ids(spec):
    out = []

    def rec(i):
        for c in spec["children"][i]:
            rec(c)
        out.append(i)
    rec(0)
    return out


def subtree_basis_ids(spec, node_id):
    """indices (into descs) of every basis set in the subtree rooted at node_id"""
    out = list(spec["groups"][node_id])
    for c in spec["children"][node_id]:
        out += subtree_basis_ids(spec, c)
    return out


def tree_stats(spec, descs):
    """small dict of structural features, for input-distribution counters"""
    n = len(spec["groups"])
    is_dummy = [descs[g[0]]["kind"] == "dummy" for g in spec["groups"]]
    st = dict(nodes=n, max_children=max(len(c) for c in spec["children"]),
              max_group=max(len(g) for g in spec["groups"]),
              dummy_root=bool(is_dummy[0]),
              dummy_leaf=any(is_dummy[i] and not spec["children"][i] for i in range(n) if i > 0 or n == 1),
              dummy_internal=any(is_dummy[i] and spec["children"][i] and i > 0 for i in range(n)))
    return st


def build_basis_tree(spec, basis_list):
    """BasisTree for the spec, built from already constructed basis sets (so that two trees can share
    the very same BasisSet objects).  Returns (tree, nodes) with nodes[i] the TreeNodeBasis of id i."""
    from renormalizer.tn.node import TreeNodeBasis
    from renormalizer.tn.treebase import BasisTree
    nodes = [TreeNodeBasis([basis_list[j] for j in g]) for g in spec["groups"]]
    for i, ch in enumerate(spec["children"]):
        for c in ch:
            nodes[i].add_child(nodes[c])
    return BasisTree(nodes[0]), nodes


# =====================================================================================
# operators
# =====================================================================================
_PAULI = {
    "I": np.eye(2), "X": np.array([[0., 1.], [1., 0.]]), "sigma_x": np.array([[0., 1.], [1., 0.]]),
    "Z": np.array([[1., 0.], [0., -1.]]), "sigma_z": np.array([[1., 0.], [0., -1.]]),
    "iY": np.array([[0., 1.], [-1., 0.]]),
    "+": np.array([[0., 1.], [0., 0.]]), "sigma_+": np.array([[0., 1.], [0., 0.]]),
    "-": np.array([[0., 0.], [1., 0.]]), "sigma_-": np.array([[0., 0.], [1., 0.]]),
}
_SHO_SYMBOLS = ["x", "x^2", r"b^\dagger b", r"b^\dagger + b", "b", r"b^\dagger", "n", "dx", "p^2"]


def _spin_symbol_qn(sym, sq):
    """charge carried by a Pauli-type symbol, or None when it does not have a definite charge"""
    m = _PAULI[sym]
    q = None
    for i in range(2):
        for j in range(2):
            if m[i, j] != 0:
                d = sq[i] - sq[j]
                if q is None:
                    q = d
                elif not np.array_equal(q, d):
                    return None
    return q


def random_piece(rng, desc, bidx, respect_qn):
    """One local operator on basis set number `bidx`: dict(b=bidx, syms=[..], dofs=[..], qns=[[..]..]).
    `syms[i]` acts on DoF `dofs[i]` with quantum-number change `qns[i]`.  Returns None when no
    charge-definite operator could be drawn."""
    k = desc["kind"]
    sq = desc_sigmaqn(desc)
    qs = sq.shape[1]
    zero = [0] * qs
    if k == "dummy":
        return dict(b=bidx, syms=["I"], dofs=[desc["dof"]], qns=[zero])
    if k == "spin":
        pool = ["X", "Z", "iY", "+", "-", "sigma_x", "sigma_z", "sigma_+", "sigma_-", "I"]
        for _ in range(20):
            n = int(rng.choice([1, 1, 1, 2, 3]))
            syms = [pool[int(rng.integers(len(pool)))] for _ in range(n)]
            qns = [_spin_symbol_qn(s, sq) for s in syms]
            if all(q is not None for q in qns) or not respect_qn:
                qns = [zero if q is None else [int(x) for x in q] for q in qns]
                return dict(b=bidx, syms=syms, dofs=[desc["dof"]] * n, qns=qns)
        return None
    if k == "elec":
        c = (sq[1] - sq[0]).tolist()
        a = (sq[0] - sq[1]).tolist()
        which = int(rng.integers(3))
        if which == 0:
            return dict(b=bidx, syms=[r"a^\dagger"], dofs=[desc["dof"]], qns=[c])
        if which == 1:
            return dict(b=bidx, syms=["a"], dofs=[desc["dof"]], qns=[a])
        return dict(b=bidx, syms=[r"a^\dagger", "a"], dofs=[desc["dof"]] * 2, qns=[c, a])
    if k == "multi":
        nd = len(desc["dofs"])
        i, j = int(rng.integers(nd)), int(rng.integers(nd))
        if rng.random() < 0.5:
            return dict(b=bidx, syms=[r"a^\dagger", "a"], dofs=[desc["dofs"][i], desc["dofs"][j]],
                        qns=[sq[i].tolist(), (-sq[j]).tolist()])
        return dict(b=bidx, syms=["a", r"a^\dagger"], dofs=[desc["dofs"][j], desc["dofs"][i]],
                    qns=[(-sq[j]).tolist(), sq[i].tolist()])
    if k == "vac":
        nd = len(desc["dofs"])
        which = int(rng.integers(3))
        i, j = int(rng.integers(nd)), int(rng.integers(nd))
        if which == 0:
            return dict(b=bidx, syms=[r"a^\dagger"], dofs=[desc["dofs"][i]], qns=[[1]])
        if which == 1:
            return dict(b=bidx, syms=["a"], dofs=[desc["dofs"][i]], qns=[[-1]])
        return dict(b=bidx, syms=[r"a^\dagger", "a"], dofs=[desc["dofs"][i], desc["dofs"][j]], qns=[[1], [-1]])
    if k == "sho":
        pool = _SHO_SYMBOLS if desc.get("x0", 0.0) == 0.0 else ["x", "x^2", "n", "dx", "p^2"]
        s = pool[int(rng.integers(len(pool)))]
        if s == r"b^\dagger b":
            return dict(b=bidx, syms=[r"b^\dagger", "b"], dofs=[desc["dof"]] * 2, qns=[zero, zero])
        return dict(b=bidx, syms=[s], dofs=[desc["dof"]], qns=[zero])
    raise ValueError(k)


def piece_qn(piece):
    return np.sum(np.array(piece["qns"], dtype=int), axis=0)


def piece_matrix(desc, basis, piece):
    """local matrix of a piece; hard-coded matrices for spin/electron kinds, BasisSHO.op_mat for
    oscillators (C16's subject)"""
    k = desc["kind"]
    syms = piece["syms"]
    if k == "dummy":
        return np.eye(1)
    if all(s == "I" for s in syms):
        return np.eye(desc_nbas(desc))
    if k == "spin":
        m = np.eye(2)
        for s in syms:
            m = m @ _PAULI[s]
        return m
    if k == "elec":
        mats = {r"a^\dagger": np.array([[0., 0.], [1., 0.]]), "a": np.array([[0., 1.], [0., 0.]])}
        m = np.eye(2)
        for s in syms:
            m = m @ mats[s]
        return m
    if k in ("multi", "vac"):
        dofs = [_dof(d) for d in desc["dofs"]]
        off = 1 if k == "vac" else 0
        n = len(dofs) + off
        pdofs = [_dof(d) for d in piece["dofs"]]
        m = np.zeros((n, n))
        if len(syms) == 1:
            i = dofs.index(pdofs[0]) + off
            if syms[0] == r"a^\dagger":
                m[i, 0] = 1.0
            else:
                m[0, i] = 1.0
            return m
        # two symbols: the library defines both orders as the transfer |i><j| (i: dagger DoF)
        if syms[0] == r"a^\dagger":
            i, j = dofs.index(pdofs[0]) + off, dofs.index(pdofs[1]) + off
        else:
            j, i = dofs.index(pdofs[0]) + off, dofs.index(pdofs[1]) + off
        m[i, j] = 1.0
        return m
    if k == "sho":
        return np.asarray(basis.op_mat(Op(" ".join(syms), [_dof(d) for d in piece["dofs"]])), dtype=float)
    raise ValueError(k)


def random_terms(rng, descs, n_terms, respect_qn=False, total_qn=None, max_body=4, factor_scale="mixed",
                 structure=True, support=None):
    """Random operator terms over the basis sets `descs` (dummies allowed: only "I" acts on them).

    Each term is dict(factor=float, pieces=[piece, ...]) with at most one piece per basis set.
    respect_qn: every piece has a definite charge and every term has total charge `total_qn`
                (default zero vector).
    structure : add duplicates, exactly cancelling pairs, shared prefixes and a constant (identity) term.
    support   : optional list of basis indices the terms may act on.
    factor_scale: "unit" (|f| in [0.5, 2]), "wide" (1e-6 .. 1e6), "mixed" (either, per call)."""
    nb = len(descs)
    qs = desc_qn_size(descs[0])
    if total_qn is None:
        total_qn = [0] * qs
    total_qn = np.array(total_qn, dtype=int)
    if support is None:
        support = list(range(nb))
    if factor_scale == "mixed":
        factor_scale = "wide" if rng.random() < 0.3 else "unit"

    def rfactor():
        if factor_scale == "wide":
            f = 10.0 ** rng.uniform(-6, 6)
        elif factor_scale == "tiny":
            f = 10.0 ** rng.uniform(-19, -12)
        else:
            f = rng.uniform(0.5, 2.0)
        return float(f if rng.random() < 0.5 else -f)

    def one_term():
        for _ in range(60):
            nbody = int(rng.integers(1, min(max_body, len(support)) + 1))
            sel = sorted(int(i) for i in rng.choice(support, size=nbody, replace=False))
            pieces = [random_piece(rng, descs[i], i, respect_qn) for i in sel]
            if any(p is None for p in pieces):
                continue
            if respect_qn:
                tot = sum((piece_qn(p) for p in pieces), np.zeros(qs, dtype=int))
                if not np.array_equal(tot, total_qn):
                    continue
            return dict(factor=rfactor(), pieces=pieces)
        return None

    terms = []
    for _ in range(n_terms):
        t = one_term()
        if t is not None:
            terms.append(t)
    if structure and terms:
        extra = []
        for _ in range(int(rng.integers(0, 3))):           # duplicates with other factors
            t = terms[int(rng.integers(len(terms)))]
            extra.append(dict(factor=rfactor(), pieces=t["pieces"]))
        if rng.random() < 0.5:                               # exactly cancelling pair
            t = terms[int(rng.integers(len(terms)))]
            extra.append(dict(factor=t["factor"], pieces=t["pieces"]))
            extra.append(dict(factor=-2 * t["factor"], pieces=t["pieces"]))
            extra.append(dict(factor=t["factor"], pieces=t["pieces"]))
        for _ in range(int(rng.integers(0, 3))):           # shared prefix: swap the last piece
            t = terms[int(rng.integers(len(terms)))]
            if len(t["pieces"]) < 2:
                continue
            last = t["pieces"][-1]
            for _ in range(10):
                p = random_piece(rng, descs[last["b"]], last["b"], respect_qn)
                if p is not None and (not respect_qn or np.array_equal(piece_qn(p), piece_qn(last))):
                    extra.append(dict(factor=rfactor(), pieces=t["pieces"][:-1] + [p]))
                    break
        if rng.random() < 0.4 and np.all(total_qn == 0):     # constant
            b = int(support[int(rng.integers(len(support)))])
            d = descs[b]
            extra.append(dict(factor=rfactor(),
                              pieces=[dict(b=b, syms=["I"], dofs=[desc_dofs_json(d)[0]], qns=[[0] * qs])]))
        terms = terms + extra
        perm = rng.permutation(len(terms))
        terms = [terms[i] for i in perm]
    return terms


def desc_dofs_json(desc):
    return list(desc["dofs"]) if desc["kind"] in ("multi", "vac") else [desc["dof"]]


def terms_to_ops(rng, terms, explicit_qn=True):
    """renormalizer `Op` objects for the terms.  The elementary symbols of the pieces of one term are
    interleaved at random (relative order inside one basis set is kept, operators on different
    basis sets commute in this library).  With rng=None the pieces are simply concatenated."""
    ops = []
    for t in terms:
        seqs = [[(s, _dof(d), q) for s, d, q in zip(p["syms"], p["dofs"], p["qns"])] for p in t["pieces"]]
        merged = []
        if rng is None:
            for s in seqs:
                merged += s
        else:
            seqs = [list(s) for s in seqs]
            while any(seqs):
                live = [i for i, s in enumerate(seqs) if s]
                i = live[int(rng.integers(len(live)))]
                merged.append(seqs[i].pop(0))
        # `Op` glues the substring "b^\dagger + b" into ONE symbol; a spin "+" that lands between an
        # oscillator's b^\dagger and b would be swallowed (a parsing quirk of Op, C15's subject, not
        # of the tree code): write that "+" as the synonymous "sigma_+"
        for i in range(1, len(merged) - 1):
            if merged[i][0] == "+" and merged[i - 1][0] == r"b^\dagger" and merged[i + 1][0] == "b":
                merged[i] = ("sigma_+",) + tuple(merged[i][1:])
        sym = " ".join(m[0] for m in merged)
        dofs = [m[1] for m in merged]
        qn = [list(m[2]) for m in merged] if explicit_qn else None
        ops.append(Op(sym, dofs, t["factor"], qn))
    return ops


def dense_operator(descs, basis_list, terms, order):
    """sum_k factor_k * kron_{b in order} M_k,b   (identity where the term has no piece on b).
    Basis sets missing from `order` must be one-dimensional or untouched by every term."""
    dims = [desc_nbas(descs[b]) for b in order]
    D = int(np.prod(dims)) if dims else 1
    out = np.zeros((D, D))
    for t in terms:
        local = {p["b"]: piece_matrix(descs[p["b"]], basis_list[p["b"]], p) for p in t["pieces"]}
        scal = t["factor"]
        for b, m in local.items():
            if b not in order:
                assert m.shape == (1, 1)
                scal = scal * m[0, 0]
        m = np.eye(1)
        for b, d in zip(order, dims):
            m = np.kron(m, local.get(b, np.eye(d)))
        out += scal * m
    return out


# =====================================================================================
# states
# =====================================================================================
def _add_outer_sets(a, b):
    return {tuple(np.add(x, y)) for x in a for y in b}


def random_ttns_tensors(rng, spec, descs, max_bond=4, cplx=False, qntot=None, bond_dims=None):
    """Random quantum-number-consistent (not canonical, possibly rank deficient) tree state.

    For every non-root node a bond dimension m in 1..max_bond (or bond_dims[node_id]) and m
    quantum-number labels are drawn from the set of sums reachable from below; tensors are random
    in the allowed blocks and zero elsewhere.  The total quantum number is drawn from the totals
    reachable at the root unless `qntot` is given (then None is returned when it is unreachable).
    Returns dict(tensors=[ndarray per node id], qns=[(m, qn_size) int arrays], qntot=list)."""
    n = len(spec["groups"])
    qs = desc_qn_size(descs[spec["groups"][0][0]])
    tensors = [None] * n
    qns = [None] * n

    def qn_grid(i):
        """array of shape [child dims..., phys dims..., qs] with the summed label of each entry"""
        parts = [qns[c] for c in spec["children"][i]] + [desc_sigmaqn(descs[b]) for b in spec["groups"][i]]
        shape = [len(p) for p in parts]
        grid = np.zeros(shape + [qs], dtype=int)
        for ax, p in enumerate(parts):
            sh = [1] * len(shape) + [qs]
            sh[ax] = len(p)
            grid = grid + np.asarray(p).reshape(sh)
        return grid

    def rand(shape):
        t = rng.uniform(-1, 1, size=shape)
        if cplx:
            t = t + 1j * rng.uniform(-1, 1, size=shape)
        return t

    for i in postorder_ids(spec):
        grid = qn_grid(i)
        reach = sorted({tuple(x) for x in grid.reshape(-1, qs)})
        if i == 0:
            if qntot is None:
                qt = reach[int(rng.integers(len(reach)))]
            else:
                qt = tuple(int(x) for x in np.atleast_1d(qntot))
                if qt not in reach:
                    return None
            mask = np.all(grid == np.array(qt), axis=-1)
            t = rand(mask.shape) * mask
            tensors[i] = t[..., None]
            qns[i] = np.array([qt], dtype=int)
        else:
            m = int(bond_dims[i]) if bond_dims is not None else int(rng.integers(1, max_bond + 1))
            lab = np.array([reach[int(rng.integers(len(reach)))] for _ in range(m)], dtype=int).reshape(m, qs)
            mask = np.all(grid[..., None, :] == lab, axis=-1)
            tensors[i] = rand(mask.shape) * mask
            qns[i] = lab
    return dict(tensors=tensors, qns=qns, qntot=[int(x) for x in qns[0][0]])


def permute_state_children(spec_old, spec_new, tensors):
    """tensors of the same state for spec_new (= spec_old with children re-ordered)"""
    out = []
    for i, t in enumerate(tensors):
        old, new = spec_old["children"][i], spec_new["children"][i]
        perm = [old.index(c) for c in new]
        axes = perm + list(range(len(old), t.ndim))
        out.append(np.transpose(t, axes))
    return out


def build_ttns(basis_tree, spec, tensors, qns):
    """TTNS over `basis_tree` (built from the same spec) holding copies of the given node tensors"""
    from renormalizer.tn.node import TreeNodeTensor
    from renormalizer.tn.tree import TTNS
    nodes = [TreeNodeTensor(np.array(t), np.array(q)) for t, q in zip(tensors, qns)]
    for i, ch in enumerate(spec["children"]):
        for c in ch:
            nodes[i].add_child(nodes[c])
    return TTNS(basis_tree, root=nodes[0])


def _finish(arr, bases, order, dims_of, op):
    """bring the contracted array (one axis per basis for states, two for operators) into `order`"""
    missing = [b for b in bases if b not in order]
    for b in missing:
        assert dims_of(b) == 1
    if not op:
        keep = [bases.index(b) for b in order]
        drop = [bases.index(b) for b in missing]
        arr = np.transpose(arr, keep + drop)
        return arr.reshape([arr.shape[i] for i in range(len(keep))])
    up = [2 * bases.index(b) for b in order]
    down = [2 * bases.index(b) + 1 for b in order]
    rest = [x for b in missing for x in (2 * bases.index(b), 2 * bases.index(b) + 1)]
    arr = np.transpose(arr, up + down + rest)
    D = int(np.prod([arr.shape[i] for i in range(len(up))])) if up else 1
    return arr.reshape(D, D)


def _contract_tree(get_tensor, get_children, get_bases, root, naxes):
    """generic bottom-up contraction.  Node tensor layout [children.., naxes axes per basis.., parent].
    Returns (array with naxes axes per basis in `bases` order, bases)."""
    def rec(node):
        out = np.asarray(get_tensor(node))
        own = list(get_bases(node))
        bases = []
        for c in get_children(node):
            ct, cb = rec(c)
            # axis 0 of `out` is the bond to the next unprocessed child
            out = np.tensordot(out, ct, axes=([0], [ct.ndim - 1]))
            bases += cb
        k = naxes * len(own)
        out = np.moveaxis(out, k, -1)   # parent bond last
        return out, own + bases
    arr, bases = rec(root)
    assert arr.shape[-1] == 1
    return arr[..., 0], bases


def dense_from_spec(spec, descs, tensors, order=None):
    """dense amplitudes (axes = basis sets in `order`, default all non-dummy ascending) of raw node
    tensors laid out as [children.., phys.., parent]; uses nothing from the library"""
    arr, bases = _contract_tree(lambda i: tensors[i], lambda i: spec["children"][i],
                                lambda i: spec["groups"][i], 0, 1)
    if order is None:
        order = [b for b in sorted(bases) if descs[b]["kind"] != "dummy"]
    return _finish(arr, bases, list(order), lambda b: desc_nbas(descs[b]), False)


def _basis_nodes(tt):
    # preorder correspondence between tensor nodes and basis nodes (constructor convention of TTNBase)
    tn2bn = {}
    def rec(tn, bn):
        tn2bn[id(tn)] = bn
        assert len(tn.children) == len(bn.children)
        for a, b in zip(tn.children, bn.children):
            rec(a, b)
    rec(tt.root, tt.basis.root)
    return tn2bn


def dense_of_ttns(ttns, order_bases=None):
    """dense amplitudes of a TTNS by direct tensordot contraction of node.tensor along
    node.children (independent of TTNS.todense / get_node_indices).  `order_bases`: list of BasisSet
    objects (default: all non-dummy sets in basis_list order).  Returns an array with one axis per
    requested basis set.  The scalar `coeff` is not included."""
    tn2bn = _basis_nodes(ttns)
    arr, bases = _contract_tree(lambda n: n.tensor, lambda n: n.children,
                                lambda n: tn2bn[id(n)].basis_sets, ttns.root, 1)
    if order_bases is None:
        order_bases = [b for b in ttns.basis.basis_list if not isinstance(b, BasisDummy)]
    ids = [id(b) for b in bases]
    nb = {id(b): b.nbas for b in bases}
    return _finish(arr, ids, [id(b) for b in order_bases], lambda i: nb[i], False)


def dense_of_ttno(ttno, order_bases=None):
    """dense matrix of a TTNO by direct contraction (independent of TTNO.todense)"""
    tn2bn = _basis_nodes(ttno)
    arr, bases = _contract_tree(lambda n: n.tensor, lambda n: n.children,
                                lambda n: tn2bn[id(n)].basis_sets, ttno.root, 2)
    if order_bases is None:
        order_bases = [b for b in ttno.basis.basis_list if not isinstance(b, BasisDummy)]
    ids = [id(b) for b in bases]
    nb = {id(b): b.nbas for b in bases}
    return _finish(arr, ids, [id(b) for b in order_bases], lambda i: nb[i], True)


def sector_mask(descs, order, qntot):
    """boolean array (one axis per basis in `order`) of product states whose total QN is qntot"""
    qs = desc_qn_size(descs[order[0]]) if order else len(np.atleast_1d(qntot))
    dims = [desc_nbas(descs[b]) for b in order]
    grid = np.zeros(dims + [qs], dtype=int)
    for ax, b in enumerate(order):
        sh = [1] * len(dims) + [qs]
        sh[ax] = dims[ax]
        grid = grid + desc_sigmaqn(descs[b]).reshape(sh)
    return np.all(grid == np.atleast_1d(qntot), axis=-1)


def partial_trace_rdm(psi, keep):
    """rho[k_1..k_r, b_1..b_r] = sum_rest psi[k, rest] conj(psi[b, rest]); `psi` has one axis per
    factor, `keep` lists the axes kept (in the wanted order)."""
    psi = np.asarray(psi)
    rest = [a for a in range(psi.ndim) if a not in keep]
    p = np.transpose(psi, list(keep) + rest)
    kd = [psi.shape[a] for a in keep]
    K = int(np.prod(kd)) if kd else 1
    p = p.reshape(K, -1)
    rho = p @ p.conj().T
    return rho.reshape(kd + kd)


def schmidt_values(psi, part):
    """singular values of psi across the bipartition (axes in `part`) | (the others)"""
    psi = np.asarray(psi)
    rest = [a for a in range(psi.ndim) if a not in part]
    p = np.transpose(psi, list(part) + rest)
    K = int(np.prod([psi.shape[a] for a in part])) if part else 1
    return np.linalg.svd(p.reshape(K, -1), compute_uv=False)


def vn_entropy(p):
    p = np.asarray(p, dtype=float)
    p = p[p > 0]
    p = p / p.sum()
    return float(-(p * np.log(p)).sum())
