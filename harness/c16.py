"""C16 — built-in basis sets and model builders realise their documented physics.
L1: Lean: harmonic-oscillator symbols in the scaled number basis — the four two-operator products,
    [b,b†]=1, x^2 = x·x, p^2 = p·p, x·p and p·x in the written order, [x,p]=i — for every basis size,
    frequency parameter and origin.
L2: replay of the REAL BasisSHO.op_mat against the Lean model with the explicit diagonal scaling
    M_code[m,n] = M_model[m,n]·sqrt(m!/n!) for rational s = sqrt(1/2ω) and origins x0.
    Exact replay of BasisHalfSpin.op_mat (all aliases, random product words, unknown symbols) and of both multi-electron
    classes against Model/Spin (Props/C16Spin: Pauli algebra, product in written order, transition-operator algebra).
L3: defining relations of every basis class, builders vs independent dense Hamiltonians (search_c16)."""
import math
from fractions import Fraction

import numpy as np

import common
from common import Run, Infra

SYMS = ["b", "b b", r"b^\dagger", r"b^\dagger b^\dagger", r"b^\dagger+b", r"b^\dagger b", r"b b^\dagger", "I", "n",
        "x", "p", "x^2", "p^2", "x p", "p x", "x dx", "dx x", "dx", "dx^2"]


def main():
    run = Run("C16", level="proof")
    quick = run.tier != "thorough"
    rng = np.random.default_rng(run.seed)
    l1 = run.l1(["RenoVerif/Props/C16.lean", "RenoVerif/Props/C16Spin.lean"])
    if not l1["build_ok"]:
        raise Infra("hand-written Lean library failed to build/audit: " + str(l1.get("bad")) + l1.get("log", "")[-800:])
    from renormalizer.model.basis import BasisSHO

    reqs, meta = [], []
    ss = [Fraction(1, 2), Fraction(1), Fraction(2), Fraction(3, 4), Fraction(5, 4)]
    x0s = [Fraction(0), Fraction(0), Fraction(1, 2), Fraction(-3, 2)]
    ncase = 40 if quick else 400
    for _ in range(ncase):
        N = int(rng.integers(1, 8))
        s = ss[int(rng.integers(len(ss)))]
        x0 = x0s[int(rng.integers(len(x0s)))]
        sym = SYMS[int(rng.integers(len(SYMS)))]
        omega = float(1 / (2 * s * s))
        b = BasisSHO("v", omega, N, x0=float(x0))
        try:
            m = np.asarray(b.op_mat(sym), dtype=complex)
        except Exception as e:  # noqa
            run.count("op_mat-raised:" + type(e).__name__)
            continue
        reqs.append(f"opmat {N} {common.rat(s)} {common.rat(x0)} {sym.replace(' ', '_')}")
        meta.append((dict(symbol=sym, N=N, s=str(s), omega=omega, x0=str(x0)), m))
        run.count("symbol=" + sym)
        run.count("x0!=0" if x0 != 0 else "x0=0")
    # ---- spin-1/2 and multi-electron tables (Model/Spin, Props/C16Spin): every alias, random product words, unknown
    #      symbols; every accepted / rejected two-symbol product of both multi-electron classes
    from renormalizer.model.basis import BasisHalfSpin, BasisMultiElectron, BasisMultiElectronVac
    from renormalizer.model import Op
    aliases = ["I", "sigma_x", "X", "x", "sigma_y", "Y", "y", "isigma_y", "iY", "iy", "sigma_z", "Z", "z", "sigma_-", "-", "sigma_+", "+"]
    words = [[a] for a in aliases] + [["sigma_w"], ["XX"], ["sigma_x", "q"]]
    for _ in range(60 if quick else 600):
        words.append([aliases[int(rng.integers(len(aliases)))] for _ in range(int(rng.integers(2, 6)))])
    hs = BasisHalfSpin("s")
    tab_reqs, tab_meta = [], []
    for w in words:
        try:
            m = np.asarray(hs.op_mat(" ".join(w)), dtype=complex)
            impl = " ".join(f"{int(round(z.real))}:{int(round(z.imag))}" for z in m.ravel()) \
                if np.abs(m - np.round(m)).max() == 0 else "non-integer " + repr(m.tolist())
        except ValueError:
            impl = "unsupported"
        except Exception as e:  # noqa
            impl = "raises " + type(e).__name__
        tab_reqs.append("spin " + ";".join(w))
        tab_meta.append((dict(basis="BasisHalfSpin", symbol=" ".join(w)), impl))
        run.count(f"spin-word-length={len(w)}")
    for vac in (0, 1):
        for _ in range(30 if quick else 300):
            n = int(rng.integers(1, 6))
            i, j = int(rng.integers(n)), int(rng.integers(n))
            opn = ["adagA", "aAdag", "adag", "a"][int(rng.integers(4))]
            dofs = [f"e{k}" for k in range(n)]
            bas = BasisMultiElectronVac(dofs) if vac else BasisMultiElectron(dofs, [0] * n)
            sym = {"adagA": r"a^\dagger a", "aAdag": r"a a^\dagger", "adag": r"a^\dagger", "a": "a"}[opn]
            op = Op(sym, [dofs[i], dofs[j]] if opn in ("adagA", "aAdag") else dofs[i])
            try:
                m = np.asarray(bas.op_mat(op))
                impl = " ".join(str(int(x)) for x in m.ravel()) if np.abs(m - np.round(m)).max() == 0 else "non-integer"
            except ValueError:
                impl = "unsupported"
            except Exception as e:  # noqa
                impl = "raises " + type(e).__name__
            tab_reqs.append(f"me {vac} {opn} {n} {i} {j}")
            tab_meta.append((dict(basis=type(bas).__name__, n=n, symbol=sym, dofs=[i, j]), impl))
            run.count(f"multi-electron:{'vac' if vac else 'plain'}:{opn}")
    replies = common.run_driver("RenoVerif/Driver/C16.lean", reqs + tab_reqs)
    distinct = set()
    for (case, impl), req, rep in zip(tab_meta, tab_reqs, replies[len(reqs):]):
        distinct.add(req)
        if rep != impl:
            run.violation("corr:site-table:" + case["basis"], dict(correspondence="RenoVerif.Spin tables vs " + case["basis"] + ".op_mat",
                                                                   case=case, request=req, model=rep, impl=impl), no_input=True)
    replies = replies[:len(reqs)]
    for (case, m), req, rep in zip(meta, reqs, replies):
        if rep == "unsupported":
            run.count("model-unsupported")
            continue
        N = case["N"]
        vals = []
        for e in rep.split(" "):
            a, bb = e.split(":")
            vals.append(complex(float(Fraction(a)), float(Fraction(bb))))
        model = np.array(vals).reshape(N, N)
        scale = np.array([[math.sqrt(math.factorial(i) / math.factorial(j)) for j in range(N)] for i in range(N)])
        model_code = model * scale
        distinct.add(req)
        run.sample(dict(case=case, request=req), limit=3)
        tol = 1e-12 * max(1.0, float(np.max(np.abs(model_code))))
        # the top level is affected by the documented truncation only for symbols whose closed form is
        # NOT the restriction of the infinite product; the code's closed forms ARE restrictions, so compare all
        if m.shape != model_code.shape or np.max(np.abs(m - model_code)) > tol:
            dev = float(np.max(np.abs(m - model_code))) if m.shape == model_code.shape else -1.0
            sym = case["symbol"]
            if sym in ("x p", "p x", "x dx", "dx x") and case["x0"] != "0":
                sig = "sho:xp-symbols:shifted-origin:x0-term-missing"
            else:
                sig = "sho:" + sym + ":differs-from-product"
            run.violation(sig, dict(case=case, deviation=dev, impl=[[str(z) for z in r] for r in m.tolist()],
                                    model_scaled=[[str(z) for z in r] for r in model_code.tolist()],
                                    what="BasisSHO.op_mat differs from the (restricted) product of the exact operators in the written order"))
    run.cov.update(programs=len(reqs) + len(tab_reqs), disagreements_checked=len(reqs) + len(tab_reqs), evaluations=len(reqs) + len(tab_reqs),
                   distinct_nontrivial=len(distinct),
                   rule="random (symbol, N in 1..7, s = sqrt(1/2w) in {1/2,1,2,3/4,5/4}, x0 in {0,1/2,-3/2}); distinct = distinct request")
    try:
        import search_c16
    except ImportError:
        search_c16 = None
        run.cov["search_module"] = "absent"
    if search_c16 is not None:
        ev0, dn0 = run.cov["evaluations"], run.cov["distinct_nontrivial"]
        search_c16.search(run, rng, quick)
        if run.cov.get("evaluations") != ev0:
            run.cov["search_evaluations"] = run.cov["evaluations"]
            run.cov["evaluations"] = ev0 + run.cov["search_evaluations"]
            run.cov["distinct_nontrivial"] = dn0 + run.cov.get("distinct_nontrivial", 0)
    run.assumptions += ["general powers x^k, p^k (k > 2), DVR variants, sine-DVR integrals and the model builders are "
                        "validated by the dense oracle only (partial); spin-1/2 and multi-electron tables are replayed exactly against Model/Spin",
                        "similarity scaling sqrt(m!/n!) is evaluated in float64; tolerance 1e-12 relative"]
    return run.finish()


if __name__ == "__main__":
    common.main_wrapper(main)
