"""C05 – truncation respects the bond limit and the discarded-weight error bound (L3 search).

Oracle (dense linear algebra only):
  psi0 = dense original, psi1 = dense result of the library's compress (own contraction of the
  site / node tensors).  For every bond k, s_k = singular values of the bipartition of psi0 at k
  (numpy SVD of the reshaped dense tensor).  With m_k the bond dimension of the result:
     limit   : m_k <= max_dims[k] (fixed / both / temp_m_trunc),  m_k < 1/thr^2 (threshold / both),
               and at the first bond of the sweep (where the intermediate state IS the original)
               m_k equals the independently computed count
     norm    : |psi1| <= |psi0|
     upper   : |psi0-psi1| <= sqrt(sum_k tail(s_k, r_k))     r_k = requested M_k for `fixed`,
                                                              the obtained m_k otherwise
     lower   : |psi0-psi1| >= max_k sqrt(tail(s_k, m_k))     (Eckart–Young)
  plus exact replay of every CompressConfig.compute_m_trunc decision (a recorder wrapped around
  the method from the harness process; synthetic spectra as well) against an independent
  re-implementation.

Why the upper bound with the ORIGINAL spectra is sound for a correct sweep: each truncation is an
orthogonal projection acting on one side of every other bond, so singular values of intermediate
states never exceed those of the original; the errors of successive steps are orthogonal.

Slack: 1e-10*|psi0| absolute on norms/distances (about 5e5*eps; sizes <= 4096, a handful of
LAPACK calls per bond); decisions within 1e-9 (relative) of the threshold boundary are skipped.
"""
import contextlib
import time

import numpy as np

import lib_qn as L

SIG_D10 = "compress:threshold:keeps-zero-states"


# ------------------------------------------------------------------------------------------
# independent re-implementation of the kept-count decision
# ------------------------------------------------------------------------------------------
def ref_m_trunc(sigma, criteria, thr, max_dims, idx, left):
    """returns (m, borderline). threshold rule: entries with sigma_i > thr*|sigma|_2 (sorted or
    not); at least one state is kept (the property promises a state for every threshold in (0,1));
    fixed rule: min(max_dims[idx+1 if left else idx], len(sigma))."""
    sigma = np.asarray(sigma, dtype=float)
    borderline = False
    m_thr = None
    if criteria in ("threshold", "both"):
        nrm = float(np.sqrt(np.sum(sigma * sigma)))
        cut = thr * nrm
        m_thr = int(np.sum(sigma > cut))
        if np.any(np.abs(sigma - cut) <= 1e-9 * max(cut, 1e-300)):
            borderline = True
        m_thr = max(m_thr, 1) if len(sigma) else 0
    m_fix = None
    if criteria in ("fixed", "both"):
        b = idx + 1 if left else idx
        m_fix = min(int(max_dims[b]), len(sigma))
    if criteria == "threshold":
        return m_thr, borderline
    if criteria == "fixed":
        return m_fix, False
    return min(m_thr, m_fix), borderline


@contextlib.contextmanager
def record_decisions(log):
    from renormalizer.utils.configs import CompressConfig
    orig = CompressConfig.compute_m_trunc

    def wrapped(self, sigma, idx, left):
        res = orig(self, sigma, idx, left)
        log.append(dict(sigma=np.array(sigma, dtype=float).copy(), idx=int(idx), left=bool(left),
                        criteria=self.criteria.value, thr=float(self.threshold),
                        max_dims=None if self.max_dims is None else np.array(self.max_dims).copy(),
                        result=res))
        return res

    CompressConfig.compute_m_trunc = wrapped
    try:
        yield
    finally:
        CompressConfig.compute_m_trunc = orig


def judge_decisions(run, log, where, replay):
    """compare recorded library decisions with the reference. Returns True if D10 was seen."""
    d10 = False
    for rec in log:
        run.count("decision:insitu:" + rec["criteria"])
        m_ref, border = ref_m_trunc(rec["sigma"], rec["criteria"], rec["thr"], rec["max_dims"], rec["idx"], rec["left"])
        if border:
            run.count("decision:borderline-skipped")
            continue
        res = rec["result"]
        ok = isinstance(res, (int, np.integer)) and int(res) == m_ref
        if ok:
            continue
        obj = dict(where=where, sigma=rec["sigma"].tolist(), idx=rec["idx"], left=rec["left"], criteria=rec["criteria"],
                   threshold=rec["thr"], max_dims=L.jsonable(rec["max_dims"]), library=L.jsonable(res), expected=m_ref,
                   case=replay)
        if isinstance(res, (int, np.integer)) and int(res) == 0 and rec["criteria"] in ("threshold", "both") and len(rec["sigma"]):
            d10 = True
            run.violation(SIG_D10, obj)
        else:
            run.violation("compute_m_trunc:decision-mismatch", obj)
    return d10


# ------------------------------------------------------------------------------------------
# part A: synthetic replay of compute_m_trunc / _threshold_m_trunc / _fixed_m_trunc / set_bonddim
# ------------------------------------------------------------------------------------------
def gen_sigma(rng):
    kind = int(rng.integers(7))
    n = int(rng.integers(1, 9))
    if kind == 0:      # generic, sorted
        s = np.sort(rng.random(n))[::-1]
    elif kind == 1:    # flat (degenerate)
        s = np.full(n, float(2.0 ** int(rng.integers(-3, 3))))
    elif kind == 2:    # dyadic with ties
        s = np.sort(rng.integers(0, 5, size=n) / 4.0)[::-1]
        if not s.any():
            s[0] = 1.0
    elif kind == 3:    # geometric decay
        s = 0.5 ** np.arange(n) * float(rng.random() + 0.5)
    elif kind == 4:    # unsorted (the two-site update passes block-ordered values)
        s = rng.random(n)
    elif kind == 5:    # trailing exact zeros
        s = np.sort(rng.random(n))[::-1]
        s[n // 2 + 1:] = 0.0
    else:              # tiny scale
        s = np.sort(rng.random(n))[::-1] * 1e-8
    return np.asarray(s, dtype=float)


def gen_threshold(rng):
    r = rng.random()
    if r < 0.4:
        return float(10.0 ** rng.uniform(-6, -0.5))
    if r < 0.8:
        return float(rng.uniform(0.3, 0.99))
    return float([0.5, 0.25, 0.9, 0.7071, 1e-3, 0.999][int(rng.integers(6))])


def part_replay(run, rng, ncases):
    from renormalizer.utils.configs import CompressConfig, CompressCriteria
    crits = ["threshold", "fixed", "both"]
    n_eval = 0
    distinct = set()
    for _ in range(ncases):
        sigma = gen_sigma(rng)
        crit = crits[int(rng.integers(3))]
        thr = gen_threshold(rng)
        length = int(rng.integers(2, 8))
        M = int(rng.integers(1, 7))
        per_bond = rng.random() < 0.5
        cfg = CompressConfig(getattr(CompressCriteria, crit), threshold=thr, max_bonddim=M)
        # bonddim_should_set / set_bonddim contract
        should = cfg.bonddim_should_set
        if should != (crit != "threshold"):
            run.violation("CompressConfig:bonddim_should_set", dict(criteria=crit, got=bool(should)))
        if per_bond:
            if rng.random() < 0.35:
                # the same explicit limit on every bond, different from the scalar the config was created with
                k = int(rng.choice([x for x in range(1, 8) if x != M]))
                cfg.max_dims = np.full(length, k, dtype=int)
                run.count("set_bonddim:explicit-uniform-table")
            else:
                cfg.max_dims = rng.integers(1, 7, size=length).astype(int)
            # explicit per-bond limits are the caller's: a later set_bonddim (what compress() calls) must leave them alone
            before = np.array(cfg.max_dims).copy()
            if cfg.bonddim_should_set:
                cfg.set_bonddim(length)
            if cfg.max_dims is None or len(cfg.max_dims) != length or np.any(np.asarray(cfg.max_dims) != before):
                run.violation("CompressConfig:explicit-max_dims-overwritten", dict(length=length, M=M, before=before.tolist(),
                                                                                  got=L.jsonable(cfg.max_dims)))
                continue
        elif should:
            cfg.set_bonddim(length)
            if cfg.max_dims is None or len(cfg.max_dims) != length or np.any(np.asarray(cfg.max_dims) != M):
                run.violation("CompressConfig:set_bonddim", dict(length=length, M=M, got=L.jsonable(cfg.max_dims)))
                continue
            before = np.array(cfg.max_dims).copy()
            cfg.set_bonddim(length + 1)  # must not overwrite an existing table
            if len(cfg.max_dims) != length or np.any(cfg.max_dims != before):
                run.violation("CompressConfig:set_bonddim-overwrites", dict(length=length, M=M, got=L.jsonable(cfg.max_dims)))
                continue
        left = bool(rng.integers(2))
        idx = int(rng.integers(0, length - 1)) if left else int(rng.integers(1, length))
        md = None if cfg.max_dims is None else np.array(cfg.max_dims)
        try:
            got = cfg.compute_m_trunc(sigma, idx, left)
            got_t = cfg._threshold_m_trunc(sigma)
            got_f = cfg._fixed_m_trunc(sigma, idx, left) if md is not None else None
        except Exception as e:  # the decision must exist for every spectrum
            run.violation("compute_m_trunc:raises", dict(sigma=sigma.tolist(), criteria=crit, threshold=thr, max_dims=L.jsonable(md),
                                                         idx=idx, left=left, error=f"{type(e).__name__}: {e}"))
            continue
        n_eval += 1
        run.count("replay:" + crit)
        log = [dict(sigma=sigma, idx=idx, left=left, criteria=crit, thr=thr, max_dims=md, result=got),
               dict(sigma=sigma, idx=idx, left=left, criteria="threshold", thr=thr, max_dims=md, result=got_t)]
        if got_f is not None:
            log.append(dict(sigma=sigma, idx=idx, left=left, criteria="fixed", thr=thr, max_dims=md, result=got_f))
        judge_decisions(run, log, "synthetic", None)
        distinct.add((crit, len(sigma), int(got), left, per_bond))
    # threshold setter domain: (0,1) accepted, the rest rejected
    for v, okay in ((0.5, True), (1e-12, True), (0.999999, True), (0.0, False), (-0.1, False), (1.0, False), (1.5, False)):
        try:
            CompressConfig(threshold=v)
            acc = True
        except ValueError:
            acc = False
        if acc != okay:
            run.violation("CompressConfig:threshold-domain", dict(threshold=v, accepted=acc))
    return n_eval, len(distinct)


# ------------------------------------------------------------------------------------------
# chain states
# ------------------------------------------------------------------------------------------
def random_mps(rng, model, sector, m_max, percent=1.0, tries=6):
    """Mps.random with retries (D15 – dead-end blocks – belongs to C06)."""
    from renormalizer import Mps
    for _ in range(tries):
        L.reseed(rng)
        try:
            mps = Mps.random(model, np.array(sector), m_max, percent=percent)
        except (FloatingPointError, ValueError, AssertionError, ZeroDivisionError):
            continue
        d, _ = L.chain_dense(mps)
        if np.all(np.isfinite(d)) and np.linalg.norm(d) > 1e-8:
            return mps
    return None


def product_in_sector(rng, basis, model):
    """random Hartree product configuration; returns (mps, sector, condition)"""
    from renormalizer import Mps
    cond = {}
    for b in basis:
        cond[b.dofs[0]] = int(rng.integers(b.nbas))
    mps = Mps.hartree_product_state(model, cond)
    return mps, [int(x) for x in np.asarray(mps.qntot).reshape(-1)], {str(kk): v for kk, v in cond.items()}


def gen_chain_state(rng, quick):
    """returns (mps canonical-ready, description dict) or None"""
    from renormalizer import Model, Mps, Mpo
    n = int(rng.integers(2, 6 if quick else 7))
    two = rng.random() < 0.2
    kind = ["random", "sum", "flat", "product", "noqn", "applied"][int(rng.choice(6, p=[0.3, 0.2, 0.2, 0.08, 0.1, 0.12]))]
    if kind == "noqn":
        spec = L.random_spec(rng, n, False, allow=("s0", "v"))
        spec = [s for s in spec]
        # random_spec forces one charged site; undo that for the qn-free family
        spec = [("s0",) if s[0] == "e" else s for s in spec]
    else:
        spec = L.random_spec(rng, n, two)
    basis, k = L.make_basis(spec)
    if np.prod([b.nbas for b in basis], dtype=np.int64) > 2500:
        return None
    model = Model(basis, [])
    sectors = L.reachable_sectors(basis, k)
    desc = dict(spec=L.jsonable(spec), kind=kind)
    zero = tuple([0] * k)
    if kind in ("random", "noqn", "applied", "sum"):
        sector = list(sectors[int(rng.integers(len(sectors)))])
        if zero in sectors and len(sectors) > 2 and rng.random() < 0.5:
            sector = list(zero)      # vanishing total charge with several populated blocks per bond
        m_max = int(rng.integers(1, 9))
        nsum = 1 if kind != "sum" else int(rng.integers(2, 4))
        parts = []
        for _ in range(nsum):
            p = random_mps(rng, model, sector, m_max, percent=float(rng.choice([0, 0.5, 1.0])))
            if p is None:
                return None
            c = float(np.round(rng.normal(), 2)) or 1.0
            if rng.random() < 0.3:
                c = complex(c, float(np.round(rng.normal(), 2)))
            parts.append(p.scale(c) if nsum > 1 or rng.random() < 0.3 else p)
        mps = parts[0]
        for p in parts[1:]:
            mps = mps.add(p)
        desc.update(sector=sector, m_max=m_max, nsum=nsum)
        if kind == "applied":
            terms, tdesc = L.hermitian_conserving_terms(rng, spec, k, 2)
            if not terms:
                return None
            mps = Mpo(model, terms).apply(mps)
            desc["terms"] = tdesc
            d, _ = L.chain_dense(mps)
            if np.linalg.norm(d) < 1e-8:
                return None
    elif kind == "flat":
        # equal-weight superposition of distinct product configurations of one sector:
        # flat / highly degenerate Schmidt spectra (W, GHZ-in-sector, Bell chains)
        q = L.config_qn(basis, k)
        sector = list(sectors[int(rng.integers(len(sectors)))])
        confs = np.where(np.all(q == np.array(sector)[None, :], axis=1))[0]
        ntake = int(min(len(confs), rng.integers(2, 7)))
        take = rng.choice(confs, size=ntake, replace=False)
        dims = [b.nbas for b in basis]
        mps = None
        for c in take:
            occ = np.unravel_index(int(c), dims)
            cond = {b.dofs[0]: int(o) for b, o in zip(basis, occ)}
            p = Mps.hartree_product_state(model, cond)
            if rng.random() < 0.3:
                p = p.scale(-1.0)
            mps = p if mps is None else mps.add(p)
        desc.update(sector=sector, confs=[int(c) for c in take])
    else:  # product
        mps, sector, cond = product_in_sector(rng, basis, model)
        desc.update(sector=sector, cond=cond)
    # bring into a canonical form accepted by compress: qnidx at an end, matching direction
    try:
        if mps.qnidx != mps.site_num - 1 or mps.to_right:
            mps.move_qnidx(mps.site_num - 1)
            mps.to_right = False
        mps.canonicalise()              # -> right-canonical, qnidx 0, to_right True
        if rng.random() < 0.5:
            mps.canonicalise()          # -> left-canonical, qnidx n-1, to_right False
    except Exception as e:
        run_note = f"{type(e).__name__}"
        desc["canonicalise_error"] = run_note
        return ("rejected", desc)
    desc["to_right"] = bool(mps.to_right)
    return mps, desc, (spec, basis, k, model)


def gen_config(rng, nbond_entries, m_hint, spectra=None, norm=None):
    """returns dict(criteria, threshold, max_dims(list), temp(None|int|list)).
    When the dense spectra of the input are supplied the limits are aimed at them (so that most
    cases really truncate): M below the numerical rank of a chosen bond, thresholds placed
    between two normalised singular values of a chosen bond."""
    crit = ["fixed", "threshold", "both"][int(rng.choice(3, p=[0.45, 0.3, 0.25]))]
    thr = gen_threshold(rng)
    hi = max(2, int(m_hint) + 1)
    ranks = {}
    if spectra:
        for b, s in spectra.items():
            ranks[b] = int(np.sum(s > 1e-12 * max(s.max(), 1e-300))) if len(s) else 0
        cand = [b for b in ranks if ranks[b] >= 2]
        if cand and rng.random() < 0.7:
            b = cand[int(rng.integers(len(cand)))]
            sn = spectra[b][: ranks[b]] / norm
            j = int(rng.integers(0, ranks[b]))            # keep j+1 values (or none: j = -1 region)
            upper = sn[j]
            lower = sn[j + 1] if j + 1 < ranks[b] else 0.0
            if rng.random() < 0.15:
                upper, lower = 0.999, sn[0]               # above the largest value: the D10 class
            t = float(0.5 * (upper + lower))
            if upper - lower > 1e-6 and 1e-9 < t < 0.9999:
                thr = t
        hi = max(2, max(ranks.values()) if ranks else 2)
    style = int(rng.integers(4))
    if style == 0:
        md = [int(rng.integers(1, hi + 1))] * nbond_entries
    elif style == 1:   # one bond limited, all others unrestricted -> equality case of the bound
        md = [10 ** 6] * nbond_entries
        cand = [b for b in ranks if ranks[b] >= 2]
        if cand:
            b = cand[int(rng.integers(len(cand)))]
            md[b] = int(rng.integers(1, ranks[b]))
        else:
            md[int(rng.integers(nbond_entries))] = int(rng.integers(1, hi))
    elif style == 2:
        md = [int(x) for x in rng.integers(1, hi + 1, size=nbond_entries)]
    else:
        md = [1] * nbond_entries if rng.random() < 0.3 else [int(rng.integers(1, hi + 2))] * nbond_entries
    temp = None
    if rng.random() < 0.2:
        temp = int(rng.integers(1, hi + 1)) if rng.random() < 0.5 else [int(x) for x in rng.integers(1, hi + 1, size=nbond_entries)]
    return dict(criteria=crit, threshold=thr, max_dims=md, temp=temp)


def apply_config(obj, cfg):
    from renormalizer.utils.configs import CompressConfig, CompressCriteria
    cc = CompressConfig(getattr(CompressCriteria, cfg["criteria"]), threshold=cfg["threshold"],
                        max_bonddim=int(max(cfg["max_dims"])))
    if cfg["criteria"] != "threshold":
        uniform = len(set(cfg["max_dims"])) == 1
        if not uniform or cfg.get("force_table", False):
            cc.max_dims = np.array(cfg["max_dims"], dtype=int)
        # uniform: leave max_dims None so that compress() exercises set_bonddim itself
    obj.compress_config = cc
    return cc


def limits_from(cfg, nb):
    """per-bond hard limits implied by the configuration (independent of the library):
    (fixed-limit or None, threshold-limit or None)"""
    if cfg["temp"] is not None:
        t = cfg["temp"]
        fix = [int(t)] * nb if not isinstance(t, list) else [int(x) for x in t]
        return fix, None
    fix = None
    if cfg["criteria"] in ("fixed", "both"):
        fix = [int(x) for x in cfg["max_dims"]]
    thrl = None
    if cfg["criteria"] in ("threshold", "both"):
        # every kept normalised value exceeds thr, their squares sum to at most 1
        thrl = int(np.floor(1.0 / cfg["threshold"] ** 2 + 1e-9))
        thrl = max(thrl, 1)
    return fix, thrl


def judge_compress(run, prefix, replay, cfg, spectra, m_res, first_bond, psi0, psi1, fix, thrl, first_kept=None):
    """spectra: dict bond -> singular values of the original; m_res: dict bond -> result dimension
    first_bond: bond truncated first (intermediate == original) or None; first_kept: number of
    states kept there (chains: the final dimension of that bond, it is never revisited; trees:
    the recorded first decision, because a later QR towards the root may shrink the bond)"""
    n0 = float(np.linalg.norm(psi0))
    n1 = float(np.linalg.norm(psi1))
    dist = float(np.linalg.norm(psi0 - psi1))
    slack = 1e-10 * n0
    bad = False

    def viol(sig, **kw):
        nonlocal bad
        bad = True
        obj = dict(replay)
        obj.update(kw)
        obj.update(norm0=n0, norm1=n1, distance=dist, result_dims={str(b): int(m) for b, m in m_res.items()})
        run.violation(prefix + ":" + sig, obj)

    # limit
    for b, m in m_res.items():
        if fix is not None and m > fix[b]:
            viol(cfg_tag(cfg) + ":bond-limit-exceeded", bond=b, limit=fix[b])
            break
        if thrl is not None and m > thrl:
            viol(cfg_tag(cfg) + ":threshold-limit-exceeded", bond=b, limit=thrl)
            break
    # exact count at the first truncated bond
    if first_bond is not None and first_bond in spectra and first_kept is not None:
        s = spectra[first_bond]
        if cfg["temp"] is not None:
            exp = min(fix[first_bond], int(np.sum(s > 1e-13 * max(s.max(), 1e-300)))) if len(s) else 0
            # the library may keep (numerically) null vectors up to the limit: only a lower bound
            if first_kept < exp:
                viol("temp:first-bond-keeps-too-few", bond=first_bond, expected_at_least=exp)
        elif cfg["criteria"] in ("threshold", "both"):
            cut = cfg["threshold"] * n0
            border = np.any(np.abs(s - cut) <= 1e-8 * max(cut, 1e-300))
            cnt = max(int(np.sum(s > cut)), 1)
            if cfg["criteria"] == "both":
                cnt = min(cnt, fix[first_bond])
            if not border and first_kept != cnt:
                viol(cfg_tag(cfg) + ":first-bond-count", bond=first_bond, expected=cnt, spectrum=s.tolist())
        else:
            exp = min(fix[first_bond], int(np.sum(s > 1e-13 * max(s.max(), 1e-300))))
            if first_kept < exp or first_kept > fix[first_bond]:
                viol("fixed:first-bond-keeps-too-few", bond=first_bond, expected_at_least=exp)
    # norm
    if n1 > n0 * (1 + 1e-12) + slack:
        viol(cfg_tag(cfg) + ":norm-increased")
    # upper bound
    pure_fixed = cfg["temp"] is not None or cfg["criteria"] == "fixed"
    w_up = 0.0
    w_lo = 0.0
    for b, s in spectra.items():
        r = min(fix[b], len(s)) if pure_fixed else m_res[b]
        r = max(r, m_res[b]) if not pure_fixed else r
        w_up += L.tail_weight(s, r)
        w_lo = max(w_lo, L.tail_weight(s, m_res[b]))
    up = float(np.sqrt(w_up))
    lo = float(np.sqrt(w_lo))
    if dist > up * (1 + 1e-9) + slack:
        viol(cfg_tag(cfg) + ":distance-above-discarded-weight", upper=up)
    if dist < lo * (1 - 1e-9) - slack:
        viol(cfg_tag(cfg) + ":distance-below-eckart-young", lower=lo)
    return bad, dist, up, lo


def has_degeneracy(s):
    s = np.asarray(s)
    s = s[s > 1e-10 * max(s.max(), 1e-300)] if len(s) else s
    return len(s) >= 2 and bool(np.any(np.abs(np.diff(s)) < 1e-9 * s.max()))


def cfg_tag(cfg):
    return "temp" if cfg["temp"] is not None else cfg["criteria"]


def chain_spectra(psi, dims):
    t = psi.reshape(dims)
    return {b: L.cut_spectrum(t, list(range(b))) for b in range(1, len(dims))}


def part_chain(run, rng, ncases, quick, t_end):
    n_eval = 0
    n_sampled = 0
    distinct = set()
    for _ in range(ncases):
        if time.time() > t_end:
            run.count("chain:time-guard")
            break
        g = gen_chain_state(rng, quick)
        if g is None:
            run.count("chain:gen-skip")
            continue
        if isinstance(g[0], str):
            run.count("chain:rejected:canonicalise:" + g[1].get("canonicalise_error", "?"))
            continue
        mps, desc, (spec, basis, k, model) = g
        kind = "mps"
        if rng.random() < 0.15 and mps.site_num <= 4 and np.prod([b.nbas for b in basis]) <= 40:
            from renormalizer.mps import MpDm
            try:
                md = MpDm.from_mps(mps)
                terms, tdesc = L.hermitian_conserving_terms(rng, spec, k, 2)
                from renormalizer import Mpo
                if terms:
                    md2 = Mpo(model, terms).apply(md)
                    md = md2.add(md) if rng.random() < 0.5 else md2
                    desc["mpdm_terms"] = tdesc
                if md.qnidx != md.site_num - 1 or md.to_right:
                    md.move_qnidx(md.site_num - 1)
                    md.to_right = False
                md.canonicalise()
                if rng.random() < 0.5:
                    md.canonicalise()
                d, _ = L.chain_dense(md)
                if np.linalg.norm(d) > 1e-8:
                    mps = md
                    kind = "mpdm"
            except Exception as e:
                run.count(f"chain:mpdm-build-rejected:{type(e).__name__}")
        n = mps.site_num
        psi0, dims = L.chain_dense(mps)
        if not np.all(np.isfinite(psi0)) or np.linalg.norm(psi0) < 1e-8:
            run.count("chain:degenerate-input-skip")
            continue
        spectra = chain_spectra(psi0, dims)
        cfg = gen_config(rng, n + 1, max(mps.bond_dims), spectra, float(np.linalg.norm(psi0)))
        work = mps.copy()
        apply_config(work, cfg)
        fix, thrl = limits_from(cfg, n + 1)
        replay = dict(kind=kind, state=desc, config=cfg, input_bond_dims=[int(x) for x in mps.bond_dims],
                      qnidx=int(mps.qnidx), dense_input=L.jsonable(psi0) if psi0.size <= 64 else None)
        mixed = False
        if kind == "mps" and n >= 3 and rng.random() < 0.15:
            # mixed-canonical input (orthogonality centre at an interior site): the truncating sweep must either be refused
            # or still obey the bounds -- it may not start away from the real centre and call the result a truncation
            try:
                k_stop = int(rng.integers(1, n - 1))
                work.canonicalise(stop_idx=k_stop)
                mixed = True
                replay["mixed_canonical_centre"] = k_stop
                run.count("chain:mixed-canonical-input")
            except Exception as e:  # noqa
                run.count(f"chain:mixed-canonical-prep-rejected:{type(e).__name__}")
                work = mps.copy()
                apply_config(work, cfg)
        log = []
        err = None
        ret_s = rng.random() < 0.3
        # LAPACK's divide-and-conquer SVD occasionally fails to converge; the implementation then retries with the
        # standard driver. One such failure is injected in 8 % of the sweeps: the result must obey the same bounds.
        import scipy.linalg as _sla
        inject = kind == "mps" and not mixed and rng.random() < 0.08
        real_svd = _sla.svd
        state = dict(n=0, at=int(rng.integers(0, 4)), fired=False)

        def flaky_svd(a, *args, **kw):
            if kw.get("lapack_driver", "gesdd") == "gesdd":
                state["n"] += 1
                if state["n"] - 1 == state["at"]:
                    state["fired"] = True
                    raise _sla.LinAlgError("SVD did not converge (injected)")
            return real_svd(a, *args, **kw)
        if inject:
            _sla.svd = flaky_svd
            replay["injected_gesdd_failure_at_call"] = state["at"]
        try:
            with record_decisions(log):
                out = work.compress(temp_m_trunc=cfg["temp"], ret_s=ret_s)
            res = out[0] if ret_s else out
        except Exception as e:
            err = e
        finally:
            _sla.svd = real_svd
        if inject and state["fired"]:
            run.count("chain:injected-gesdd-failure")
        if err is not None:
            replay["error"] = f"{type(err).__name__}: {err}"
        d10 = judge_decisions(run, log, "chain-compress", replay)
        n_eval += 1
        run.count(f"chain:{kind}:{desc['kind']}:{cfg_tag(cfg)}")
        run.count("chain:sweep:" + ("to_right" if mps.to_right else "to_left"))
        if err is not None and mixed and isinstance(err, AssertionError):
            run.count("chain:mixed-canonical-refused")
            continue
        if err is not None:
            if d10:
                run.count("chain:D10-exception")
                continue
            run.violation(f"compress:{kind}:{cfg_tag(cfg)}:raises", dict(replay, error=f"{type(err).__name__}: {err}"))
            continue
        if d10:
            continue
        psi1, dims1 = L.chain_dense(res)
        if dims1 != dims or not np.all(np.isfinite(psi1)):
            run.violation(f"compress:{kind}:result-malformed", dict(replay))
            continue
        bd = [int(x) for x in res.bond_dims]
        m_res = {b: bd[b] for b in range(1, n)}
        if bd[0] != 1 or bd[n] != 1:
            run.violation(f"compress:{kind}:boundary-bond", dict(replay, bond_dims=bd))
            continue
        first_bond = (1 if mps.to_right else n - 1) if n >= 2 else None
        bad, dist, up, lo = judge_compress(run, f"compress:{kind}", replay, cfg, spectra, m_res, first_bond, psi0, psi1, fix, thrl,
                                           first_kept=m_res.get(first_bond))
        truncated = any(m_res[b] < int(np.sum(spectra[b] > 1e-12 * max(spectra[b].max(), 1e-300))) for b in m_res)
        if truncated:
            run.count("chain:really-truncated")
            if any(has_degeneracy(spectra[b]) for b in spectra):
                run.count("chain:degenerate-spectrum")
            distinct.add((kind, desc["kind"], cfg_tag(cfg), n, tuple(bd), bool(mps.to_right)))
        else:
            run.count("chain:lossless(rank<=M)")
        if truncated and n_sampled < 2:
            n_sampled += 1
            run.sample(dict(part="chain", kind=kind, state=desc["kind"], spec=desc["spec"], config=cfg, in_dims=replay["input_bond_dims"],
                            out_dims=bd, distance=dist, upper=up, lower=lo))
    return n_eval, len(distinct)


# ------------------------------------------------------------------------------------------
# operators (Mpo): the sweep of an Mpo is NOT a Schmidt truncation (mp.py:_update_ms leaves the
# singular values behind on the site just visited, see the is_mpo branches), hence the state
# bounds are not a property of it.  Checked: the bond limit and that a result is returned.
# ------------------------------------------------------------------------------------------
def part_mpo(run, rng, ncases, t_end):
    from renormalizer import Model, Mpo
    n_eval = 0
    distinct = set()
    for _ in range(ncases):
        if time.time() > t_end:
            run.count("mpo:time-guard")
            break
        n = int(rng.integers(2, 5))
        spec = L.random_spec(rng, n, rng.random() < 0.2)
        basis, k = L.make_basis(spec)
        if np.prod([b.nbas for b in basis], dtype=np.int64) > 100:
            continue
        terms, tdesc = L.hermitian_conserving_terms(rng, spec, k, int(rng.integers(2, 6)))
        if not terms:
            continue
        model = Model(basis, [])
        try:
            mpo = Mpo(model, terms)
        except Exception as e:
            run.count(f"mpo:build-rejected:{type(e).__name__}")
            continue
        if rng.random() < 0.5:
            mpo = mpo.apply(mpo)   # H^2: larger, redundant bonds
        try:
            mpo.canonicalise()
            if rng.random() < 0.5:
                mpo.canonicalise()
        except Exception as e:
            run.count(f"mpo:canonicalise-rejected:{type(e).__name__}")
            continue
        cfg = gen_config(rng, n + 1, max(mpo.bond_dims))
        work = mpo.copy()
        apply_config(work, cfg)
        fix, thrl = limits_from(cfg, n + 1)
        replay = dict(kind="mpo", spec=L.jsonable(spec), terms=tdesc, config=cfg, input_bond_dims=[int(x) for x in mpo.bond_dims])
        log = []
        err = None
        try:
            with record_decisions(log):
                res = work.compress(temp_m_trunc=cfg["temp"])
        except Exception as e:
            err = e
        if err is not None:
            replay["error"] = f"{type(err).__name__}: {err}"
        d10 = judge_decisions(run, log, "mpo-compress", replay)
        n_eval += 1
        run.count(f"mpo:{cfg_tag(cfg)}")
        if err is not None:
            if not d10:
                run.violation(f"compress:mpo:{cfg_tag(cfg)}:raises", dict(replay, error=f"{type(err).__name__}: {err}"))
            continue
        if d10:
            continue
        bd = [int(x) for x in res.bond_dims]
        for b in range(1, n):
            if (fix is not None and bd[b] > fix[b]) or (thrl is not None and bd[b] > thrl):
                run.violation(f"compress:mpo:{cfg_tag(cfg)}:bond-limit-exceeded", dict(replay, bond=b, bond_dims=bd))
                break
        if bd != [int(x) for x in mpo.bond_dims]:
            distinct.add((cfg_tag(cfg), tuple(bd)))
    return n_eval, len(distinct)


# ------------------------------------------------------------------------------------------
# trees
# ------------------------------------------------------------------------------------------
def random_tree_basis(rng, quick, two):
    """random rooted tree: parent array; 1-2 basis sets per node; dummy nodes anywhere"""
    from renormalizer.tn import BasisTree, TreeNodeBasis
    nn = int(rng.integers(2, 6 if quick else 7))
    parents = [-1] + [int(rng.integers(0, i)) for i in range(1, nn)]
    spec_nodes = []
    total = 1
    for i in range(nn):
        if rng.random() < 0.15:
            sp = [("d",)]
        else:
            sp = L.random_spec(rng, 1 if rng.random() < 0.8 else 2, two, allow=("e", "s", "s0", "v", "mv") if not two else ("e", "s", "me"))
        spec_nodes.append(sp)
    flat = [s for sp in spec_nodes for s in sp]
    if two and L.spec_qn_size(flat) == 1:
        spec_nodes[0] = [("e", 1)]
        flat = [s for sp in spec_nodes for s in sp]
    if not any(s[0] in ("e", "s", "mv", "me") for s in flat):
        spec_nodes[-1] = [("e", 0)]
        flat = [s for sp in spec_nodes for s in sp]
    basis_flat, k = L.make_basis(flat)
    if np.prod([b.nbas for b in basis_flat], dtype=np.int64) > 1500:
        return None
    nodes = []
    pos = 0
    for sp in spec_nodes:
        nodes.append(TreeNodeBasis(basis_flat[pos:pos + len(sp)]))
        pos += len(sp)
    for i in range(1, nn):
        nodes[parents[i]].add_child(nodes[i])
    tree = BasisTree(nodes[0])
    return tree, k, dict(parents=parents, spec_nodes=L.jsonable(spec_nodes))


def gen_tree_state(rng, quick):
    from renormalizer.tn import TTNS
    two = rng.random() < 0.2
    g = random_tree_basis(rng, quick, two)
    if g is None:
        return None
    tree, k, tdesc = g
    blist = tree.basis_list
    sectors = L.reachable_sectors(blist, k)
    sector = list(sectors[int(rng.integers(len(sectors)))])
    kind = ["random", "sum", "flat"][int(rng.choice(3, p=[0.45, 0.35, 0.2]))]
    desc = dict(tree=tdesc, kind=kind, sector=sector)

    def rnd():
        for _ in range(5):
            L.reseed(rng)
            try:
                t = TTNS.random(tree, np.array(sector), int(desc["m_max"]), percent=float(rng.choice([0, 0.5, 1.0])))
            except (FloatingPointError, ValueError, AssertionError, ZeroDivisionError):
                continue
            d = L.tree_dense(t)
            if np.all(np.isfinite(d)) and np.linalg.norm(d) > 1e-8:
                return t
        return None

    desc["m_max"] = int(rng.integers(1, 7))
    if kind in ("random", "sum"):
        nsum = 1 if kind == "random" else int(rng.integers(2, 4))
        t = None
        for _ in range(nsum):
            p = rnd()
            if p is None:
                return None
            c = float(np.round(rng.normal(), 2)) or 1.0
            if rng.random() < 0.3:
                c = complex(c, 0.5)
            p = p.scale(c)
            t = p if t is None else t.add(p)
        desc["nsum"] = nsum
    else:
        q = L.config_qn(blist, k)
        confs = np.where(np.all(q == np.array(sector)[None, :], axis=1))[0]
        take = rng.choice(confs, size=int(min(len(confs), rng.integers(2, 6))), replace=False)
        dims = [b.nbas for b in blist]
        t = None
        for c in take:
            occ = np.unravel_index(int(c), dims)
            cond = {b.dofs[0]: int(o) for b, o in zip(blist, occ) if b.nbas > 1}
            p = TTNS(tree, cond)
            t = p if t is None else t.add(p)
        desc["confs"] = [int(c) for c in take]
    try:
        t.canonicalise()
    except Exception as e:
        return ("rejected", f"{type(e).__name__}")
    return t, desc, tree, k


def part_tree(run, rng, ncases, quick, t_end):
    n_eval = 0
    n_sampled = 0
    distinct = set()
    for _ in range(ncases):
        if time.time() > t_end:
            run.count("tree:time-guard")
            break
        g = gen_tree_state(rng, quick)
        if g is None:
            run.count("tree:gen-skip")
            continue
        if isinstance(g[0], str):
            run.count("tree:rejected:canonicalise:" + g[1])
            continue
        ttns, desc, tree, k = g
        psi0 = L.tree_dense(ttns)
        if not np.all(np.isfinite(psi0)) or np.linalg.norm(psi0) < 1e-8:
            run.count("tree:degenerate-input-skip")
            continue
        sub = L.tree_subtree_axes(ttns)
        nn = len(ttns.node_list)
        spectra = {i: L.cut_spectrum(psi0, sub[i]) for i in range(1, nn)}   # bond node i -> parent
        in_dims = [int(x) for x in ttns.bond_dims]
        cfg = gen_config(rng, nn + 1, max(in_dims), spectra, float(np.linalg.norm(psi0)))
        work = ttns.copy()
        apply_config(work, cfg)
        fix, thrl = limits_from(cfg, nn + 1)
        replay = dict(kind="ttns", state=desc, config=cfg, input_bond_dims=in_dims,
                      dense_input=L.jsonable(psi0.reshape(-1)) if psi0.size <= 64 else None)
        log = []
        err = None
        try:
            with record_decisions(log):
                res = work.compress(temp_m_trunc=cfg["temp"])
        except Exception as e:
            err = e
        if err is not None:
            replay["error"] = f"{type(err).__name__}: {err}"
        d10 = judge_decisions(run, log, "tree-compress", replay)
        n_eval += 1
        run.count(f"tree:{desc['kind']}:{cfg_tag(cfg)}")
        if err is not None:
            if d10:
                run.count("tree:D10-exception")
                continue
            run.violation(f"compress:ttns:{cfg_tag(cfg)}:raises", dict(replay, error=f"{type(err).__name__}: {err}"))
            continue
        if d10:
            continue
        psi1 = L.tree_dense(res)
        if psi1.shape != psi0.shape or not np.all(np.isfinite(psi1)):
            run.violation("compress:ttns:result-malformed", dict(replay))
            continue
        bd = [int(x) for x in res.bond_dims]
        m_res = {i: bd[i] for i in range(1, nn)}
        # the first bond truncated is root -> its first child (node index 1 in pre-order)
        first_kept = None
        if cfg["temp"] is None and log and log[0]["idx"] == 1 and isinstance(log[0]["result"], (int, np.integer)):
            first_kept = int(log[0]["result"])
        bad, dist, up, lo = judge_compress(run, "compress:ttns", replay, cfg, spectra, m_res, 1, psi0.reshape(-1), psi1.reshape(-1), fix, thrl,
                                           first_kept=first_kept)
        truncated = any(m_res[b] < int(np.sum(spectra[b] > 1e-12 * max(spectra[b].max(), 1e-300))) for b in m_res)
        if truncated:
            run.count("tree:really-truncated")
            distinct.add((desc["kind"], cfg_tag(cfg), tuple(desc["tree"]["parents"]), tuple(bd)))
        else:
            run.count("tree:lossless(rank<=M)")
        run.count("tree:shape:" + ("chain" if all(p == i - 1 for i, p in enumerate(desc["tree"]["parents"])) else "branched"))
        if truncated and n_sampled < 2:
            n_sampled += 1
            run.sample(dict(part="tree", tree=desc["tree"], state=desc["kind"], config=cfg, in_dims=in_dims, out_dims=bd,
                            distance=dist, upper=up, lower=lo), limit=4)
    return n_eval, len(distinct)


# ------------------------------------------------------------------------------------------
def directed_d10(run):
    """the minimal class of D10, always exercised: a flat two-value spectrum with threshold
    >= 1/sqrt(2) (chain and tree)."""
    from renormalizer import Model, Mps
    from renormalizer.utils.configs import CompressConfig, CompressCriteria
    spec = [("e", 0), ("e", 0)]
    basis, k = L.make_basis(spec)
    model = Model(basis, [])
    a = Mps.hartree_product_state(model, {("e", 0): 1})
    b = Mps.hartree_product_state(model, {("e", 1): 1})
    mps = a.add(b)
    mps.canonicalise()
    mps.compress_config = CompressConfig(CompressCriteria.threshold, threshold=0.9)
    replay = dict(kind="mps", spec=L.jsonable(spec), state="(|10>+|01>)", threshold=0.9)
    log = []
    err = None
    try:
        with record_decisions(log):
            mps.compress()
    except Exception as e:
        err = e
    if err is not None:
        replay["error"] = f"{type(err).__name__}: {err}"
    d10 = judge_decisions(run, log, "directed", replay)
    if err is not None and not d10:
        run.violation("compress:mps:threshold:raises", dict(replay, error=f"{type(err).__name__}: {err}"))
    run.count("directed:d10")


def search(run, rng, quick):
    L.quiet()
    t0 = time.time()
    budget = 45.0 if quick else 520.0
    t_end = t0 + budget
    n_rep = 2000 if quick else 30000
    n_chain = 900 if quick else 18000
    n_mpo = 60 if quick else 900
    n_tree = 450 if quick else 9000
    directed_d10(run)
    e1, d1 = part_replay(run, rng, n_rep)
    e2, d2 = part_chain(run, rng, n_chain, quick, t0 + budget * 0.6)
    e3, d3 = part_mpo(run, rng, n_mpo, t0 + budget * 0.7)
    e4, d4 = part_tree(run, rng, n_tree, quick, t_end)
    run.cov["evaluations"] = run.cov.get("evaluations", 0) + e1 + e2 + e3 + e4
    run.cov["distinct_nontrivial"] = run.cov.get("distinct_nontrivial", 0) + d1 + d2 + d3 + d4
    run.cov["rule"] = ("replay: distinct (criterion, len(sigma), decision, side, per-bond-table); compress cases: counted only when "
                       "at least one bond lost non-zero singular values, distinct by (object kind, state family, criterion, "
                       "size/topology, resulting bond dimensions, sweep direction)")
    run.cov["search_parts"] = dict(replay=e1, chain=e2, mpo=e3, tree=e4)
