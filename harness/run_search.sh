#!/bin/sh
HERE="$(cd "$(dirname "$0")" && pwd)"
export PYTHONPATH="/repo:$HERE/shims:$HERE"
export RENO_NUM_THREADS=1 OMP_NUM_THREADS=1 OPENBLAS_NUM_THREADS=1 MKL_NUM_THREADS=1 PYTHONDONTWRITEBYTECODE=1
cd "$HERE" && exec /venv/bin/python -W ignore run_search.py "$@" 2>&1 | grep -v "\[INFO\]\|\[DEBUG\]"
