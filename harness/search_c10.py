"""C10 failing-input search: imaginary-time and thermal propagation yield the Gibbs state.

Oracles (dense NumPy/SciPy, matrices from lib_evolve.py):
  imag      evolve(-i tau) gives exp(-tau H) psi / norm  for Mps and MpDm, every scheme:
            slope tests for the stepwise schemes, tolerance tests for VMF / adaptive; norm 1, |coeff| 1
  thermal   ThermalProp from max_entangled_gs / max_entangled_ex: energies, occupations at every
            step equal Tr(exp(-beta H) O P_sector)/Z, final purified state = exp(-beta H/2) P / norm;
            exact=True path with the local vibrational Hamiltonian (GS / EX)
  propagator  Mpo.exact_propagator(model, x, space, shift) == expm(x (H_loc + shift)), H_loc without
            zero-point energy (its docstring), bond dimension 1
  evolve_exact  Mps / MpDm: (result * coeff') == exp(-i dt H_loc) applied to (input * coeff) for zero
            and non-zero offsets of h_mpo (§7 D3 for Mps)
  purification  MpDm.from_mps (real and complex), max_entangled_* are sector identities
"""
import time

import numpy as np
import scipy.linalg

import lib_evolve as L
from lib_evolve import (EvolveConfig, EvolveMethod, CompressConfig, CompressCriteria, Mps, Mpo, MpDm,
                        Quantity, dense_state, set_cfg, opnorm)
from search_c09 import (Ctx, make_cfg, name_of, advertised, evolve_n, order_verdict, replay_base, exc_sig,
                        timed, with_single_step_embedded, PC_SPECS, make_mpdm)
from renormalizer.mps import ThermalProp
from renormalizer.utils.rk import method_list


def gibbs_vec(H, tau, v0):
    r = scipy.linalg.expm(-tau * H) @ v0
    return r / np.linalg.norm(r)


# ----------------------------------------------------------------------------- imaginary time
@timed
def block_imag(ctx, tm, psi, as_mpdm=False):
    run, rng = ctx.run, ctx.rng
    H = tm.dense_h()
    nh = opnorm(H)
    mpo = tm.mpo(offset=0.0)
    big = int(max(L.exact_bond_dims(tm)))
    if as_mpdm:
        big = max(big * big, int(max(psi.bond_dims)))
    if as_mpdm or tm.label == "spin" or rng.random() < 0.5:
        # a scalar coefficient that is neither 1 nor of modulus 1: "mps_and_coeff" must normalise it
        psi = psi.copy()
        psi.coeff = complex(np.round(rng.uniform(0.4, 2.5), 3) * np.exp(1j * np.round(rng.uniform(0, 6), 3)))
        run.count("imag:input-coeff-nontrivial")
    v0 = dense_state(psi)
    T = 1.0 / nh
    ref = gibbs_vec(H, T, v0)
    label = tm.label + (":mpdm" if as_mpdm else "") + (":complex" if np.iscomplexobj(v0) else ":real")
    moved = np.linalg.norm(ref - v0 / np.linalg.norm(v0)) > 0.02

    def check_normalised(out, nm, spec):
        n = float(np.linalg.norm(np.asarray(out.todense())))
        c = abs(out.coeff)
        if not (abs(n - 1) <= 1e-8 and abs(c - 1) <= 1e-10):
            run.violation(f"{nm}:imag-time:not-normalised", replay_base(tm, v0, spec, mp_norm=n, coeff=str(out.coeff)))

    # --- stepwise schemes with an advertised order
    specs = [with_single_step_embedded(s) for s in PC_SPECS] + [dict(kind="pc", taylor=int(rng.integers(1, 7)))]
    if ctx.quick:
        tabs = [s for s in specs if s["kind"] == "tdrk"]
        keep = rng.choice(len(tabs), size=3, replace=False)
        specs = [s for s in specs if s["kind"] != "tdrk"] + [tabs[i] for i in keep]
    fullbond = int(max(psi.bond_dims))
    specs_t = [dict(kind="ps", solver="krylov"), dict(kind="ps", solver="RK45"), dict(kind="ps2", solver="krylov"),
               dict(kind="ps2", solver="RK45"), dict(kind="cmf", solver="RK45", midpoint=False),
               dict(kind="cmf", solver="RK45", midpoint=True), dict(kind="cmf", solver="krylov", midpoint=True),
               dict(kind="cmf", solver="RK45", midpoint=True, trapz=True)]
    for spec in specs + specs_t:
        nm = name_of(spec)
        tdvp = spec["kind"] in ("ps", "ps2", "cmf")
        p = advertised(spec) if spec["kind"] != "ps" and spec["kind"] != "ps2" else 2
        Ns = (1, 2, 4) if tdvp else ((4, 8, 16) if p >= 4 else (2, 4, 8))
        floor = {"ps": 1e-7, "ps2": 1e-7, "cmf": 2e-5}.get(spec["kind"], 5e-11)
        try:
            errs = []
            for N in Ns:
                out = evolve_n(psi, mpo, T, N, spec, max(fullbond, 64) if spec["kind"] == "ps2" else (fullbond if tdvp else big),
                               normalize=True, imag=True)
                errs.append(float(np.linalg.norm(dense_state(out) - ref)))
            check_normalised(out, nm, spec)
        except Exception as e:
            sig = f"{nm}:imag-time:exception:{exc_sig(e)}"
            if spec["kind"] == "cmf" and spec.get("trapz") and isinstance(e, AssertionError) and exc_sig(e).endswith("@astype") \
                    and not any(np.iscomplexobj(np.asarray(t.array)) for t in psi):
                # same cause as the lost order: the midpoint environment is propagated in REAL time and is
                # complex; the trapezoid variant copies its last site into the real-valued state
                sig = "tdvp_mu_cmf:imag-time:midpoint-environment-in-real-time"
            run.violation(sig, replay_base(tm, v0, spec, T=T, error=repr(e)))
            continue
        verdict, obs = order_verdict(errs, p, floor)
        ctx.evald(("imag-order", label, nm), moved)
        run.count(f"imag:{nm}:{verdict}")
        if verdict == "bad":
            sig = f"{nm}:imag-time:order"
            if spec["kind"] == "cmf" and spec.get("midpoint", True):
                # one cause for the midpoint and the trapezoid variants and both local solvers
                sig = "tdvp_mu_cmf:imag-time:midpoint-environment-in-real-time"
            run.violation(sig, replay_base(tm, v0, spec, T=T, steps=list(Ns), errors=errs, observed_order=obs, advertised=p, mpdm=as_mpdm))

    # --- VMF variants: tolerance
    variants = [dict(kind=k, force_ovlp=fo) for k in ("vmf", "muvmf") for fo in (True, False)]
    if ctx.quick:
        variants = [variants[i] for i in rng.choice(4, size=2, replace=False)]
    for spec in variants:
        spec = dict(spec, ivp_rtol=1e-8, ivp_atol=1e-10)
        nm = name_of(spec)
        N = int(rng.integers(1, 3))
        try:
            out = evolve_n(psi, mpo, T, N, spec, fullbond, normalize=True, imag=True)
            err = float(np.linalg.norm(dense_state(out) - ref))
            check_normalised(out, nm, spec)
        except Exception as e:
            run.violation(f"{nm}:imag-time:exception:{exc_sig(e)}", replay_base(tm, v0, spec, T=T, error=repr(e)))
            continue
        ctx.evald(("imag-vmf", label, nm), moved)
        run.count(f"imag:{nm}")
        if not err <= 1e-5:
            run.violation(f"{nm}:imag-time:accuracy", replay_base(tm, v0, spec, T=T, steps=N, error=err, mpdm=as_mpdm))

    # --- gauge independence of the mean-field schemes WITHOUT overlap matrices (force_ovlp=False): the same vector handed over
    #      left-canonical and with a non-unitary (diagonal) gauge on one bond, at a bond dimension below the exact one
    if not as_mpdm and len(psi) >= 3 and rng.random() < 0.7:
        try:
            small = psi.copy()
            small.compress_config = CompressConfig(CompressCriteria.fixed, max_bonddim=max(2, fullbond - 1))
            small = small.canonicalise().compress()
            small.ensure_left_canonical()
            gauged = small.copy()
            kb = int(rng.integers(1, len(gauged)))                      # bond between sites kb-1 and kb
            dbond = gauged[kb].shape[0]
            g = np.exp(rng.uniform(-0.7, 0.7, size=dbond))
            gauged[kb - 1] = np.asarray(gauged[kb - 1].array) * g.reshape((1,) * (gauged[kb - 1].ndim - 1) + (dbond,))
            gauged[kb] = np.asarray(gauged[kb].array) * (1.0 / g).reshape((dbond,) + (1,) * (gauged[kb].ndim - 1))
            same_vec = float(np.linalg.norm(dense_state(gauged) - dense_state(small)))
            spec = dict(kind=str(rng.choice(["vmf", "muvmf"])), force_ovlp=False, ivp_rtol=1e-8, ivp_atol=1e-10)
            nm = name_of(spec)
            mm = int(max(small.bond_dims))
            o1 = evolve_n(small, mpo, T, 1, spec, mm, normalize=True, imag=True)
            o2 = evolve_n(gauged, mpo, T, 1, spec, mm, normalize=True, imag=True)
            d12 = float(np.linalg.norm(dense_state(o1) - dense_state(o2)))
            run.count(f"imag:gauge-independence:{nm}")
            if same_vec <= 1e-12 * max(1.0, float(np.linalg.norm(dense_state(small)))) and d12 > 1e-5:
                run.violation(f"{nm}:imag-time:result-depends-on-gauge",
                              replay_base(tm, dense_state(small), spec, T=T, bond=kb, gauge=g.tolist(), difference=d12,
                                          to_right=bool(small.to_right), bond_dims=[int(b) for b in small.bond_dims]))
        except Exception as e:  # noqa
            run.count(f"imag:gauge-independence:rejected:{type(e).__name__}")

    # --- adaptive
    rtol = float(10 ** rng.uniform(-6, -4))
    Ta = float(rng.uniform(1.0, 2.0)) / nh
    refa = gibbs_vec(H, Ta, v0)
    cands = [dict(kind="pc"), dict(kind="tdrk", rk=str(rng.choice(["RKF45", "Cash-Karp45"]))), dict(kind="ps", solver="krylov"),
             dict(kind="ps2", solver="RK45", ivp_rtol=1e-9, ivp_atol=1e-11)]
    for c in cands:
        g = float(Ta * rng.choice([0.28, 0.45, 3.0]))
        spec = dict(c, adaptive=True, adaptive_rtol=rtol, guess_dt=g)
        nm = name_of(spec)
        mm = max(fullbond, 64) if c["kind"] == "ps2" else (fullbond if c["kind"] == "ps" else big)
        try:
            one = evolve_n(psi, mpo, Ta, 1, spec, mm, normalize=True, imag=True)
            two = evolve_n(psi, mpo, Ta, 2, spec, mm, normalize=True, imag=True)
            e1 = float(np.linalg.norm(dense_state(one) - refa))
            e2 = float(np.linalg.norm(dense_state(two) - refa))
        except Exception as e:
            run.violation(f"{nm}:imag-time:adaptive:exception:{exc_sig(e)}", replay_base(tm, v0, spec, T=Ta, error=repr(e)))
            continue
        ctx.evald(("imag-adaptive", label, nm))
        run.count(f"imag-adaptive:{nm}")
        tol = 400 * rtol
        if not (e1 <= tol and e2 <= tol):
            sig = f"{nm}:imag-time:adaptive-vs-dense"
            try:
                small = evolve_n(psi, mpo, Ta, 1, dict(spec, guess_dt=Ta / 64), mm, normalize=True, imag=True)
                if float(np.linalg.norm(dense_state(small) - refa)) <= tol:
                    sig = f"{nm}:adaptive:after-rejected-attempt:wrong-result"
            except Exception:
                pass
            run.violation(sig, replay_base(tm, v0, spec, T=Ta, err_one_call=e1, err_two_calls=e2, tol=tol))

    # --- normalize=False returns the unnormalised vector exp(-tau H) psi
    spec = dict(kind="tdrk", rk="Fehlberg5")
    try:
        out = evolve_n(psi, mpo, T, 4, spec, big, normalize=False, imag=True)
        err = float(np.linalg.norm(dense_state(out) - scipy.linalg.expm(-T * H) @ v0))
        ctx.evald(("imag-unnormalised", label))
        if not err <= 1e-5:
            run.violation("P&C-tdrk:imag-time:unnormalised", replay_base(tm, v0, spec, T=T, error=err))
    except Exception as e:
        run.violation(f"P&C-tdrk:imag-time:unnormalised:exception:{exc_sig(e)}", replay_base(tm, v0, spec, T=T, error=repr(e)))


# ----------------------------------------------------------------------------- thermal propagation
def gibbs_refs(H, P, beta, obs):
    rho = scipy.linalg.expm(-beta * H) @ P
    Z = np.trace(rho).real
    return [float(np.trace(rho @ o).real / Z) for o in obs]


@timed
def block_thermal_holstein(ctx, ht):
    """ThermalProp on a HolsteinModel, zero- and one-exciton sectors, several schemes"""
    run, rng = ctx.run, ctx.rng
    H = ht.dense_h()
    nh = opnorm(H - np.eye(ht.dim) * np.min(np.linalg.eigvalsh(H)))
    obs_e = [ht.number_e(i) for i in range(ht.nmol)]
    obs_v = [ht.number_v(i, k) for i, m in enumerate(ht.mols) for k in range(len(m["modes"]))]
    schemes = [dict(kind="tdrk4"), dict(kind="pc"), dict(kind="tdrk", rk="Fehlberg5"),
               dict(kind="ps", solver="krylov"), dict(kind="ps2", solver="krylov"),
               dict(kind="pc", adaptive=True, adaptive_rtol=1e-6, guess_dt=0.05),
               dict(kind="muvmf", ivp_rtol=1e-7, ivp_atol=1e-9, force_ovlp=True, reg_epsilon=1e-10),
               dict(kind="vmf", ivp_rtol=1e-7, ivp_atol=1e-9, force_ovlp=True, reg_epsilon=1e-10),
               dict(kind="cmf", solver="krylov", midpoint=True)]
    explicit_sector = bool(rng.random() < 0.5)
    # per model: both sectors with a random scheme, then the one-exciton sector once more with the constant-mean-field scheme
    # and (every other model) with the plain variable-mean-field scheme
    plan = [(False, None), (True, None), (True, schemes[-1])] + ([(True, schemes[-2])] if (ht.nmol >= 2 or rng.random() < 0.3) else [])
    for ex, forced in plan:
        P = np.diag(ht.sector(1 if ex else 0).astype(float))
        # beta over two decades (in units of the spectral width)
        beta = float(10 ** rng.uniform(-1.3, 0.7)) / nh
        if forced is not None and forced["kind"] == "vmf":
            # low temperature end: the thermal state is far from the (bond dimension 2) infinite-temperature purification
            beta = float(10 ** rng.uniform(0.3, 0.7)) / nh
        spec = forced if forced is not None else schemes[int(rng.integers(0, len(schemes)))]
        nm = name_of(spec)
        nsteps = int(rng.integers(1, 5)) if spec.get("adaptive") or spec["kind"] in ("muvmf", "vmf") else int(rng.integers(4, 9))
        if spec["kind"] in ("ps", "ps2", "muvmf", "vmf", "cmf"):
            nsteps = max(nsteps, 6)
        # half of the cases: the ensemble Hamiltonian is passed explicitly (`h_mpo_model`) and the initial density operator
        # was built from ANOTHER model with the same local bases (other energies, couplings and displacements)
        explicit = (ex == explicit_sector) and forced is None
        if explicit and spec["kind"] in ("ps", "ps2", "muvmf", "vmf", "cmf"):
            spec = schemes[int(rng.integers(0, 3))]
            nm = name_of(spec)
            nsteps = int(rng.integers(4, 9))
        src = ht
        if explicit:
            mols2 = [dict(elocalex=float(np.round(m["elocalex"] + rng.uniform(0.5, 1.5), 3)),
                          modes=[(float(np.round(w * rng.uniform(1.3, 1.8), 3)), float(np.round(-d * rng.uniform(1.2, 1.6), 3)), nb)
                                 for (w, d, nb) in m["modes"]]) for m in ht.mols]
            src = L.HolsteinTiny(mols2, -1.5 * ht.jmat, ht.scheme)
            nm = nm + ":explicit-h_mpo_model"
        try:
            init = MpDm.max_entangled_ex(src.model) if ex else MpDm.max_entangled_gs(src.model)
            D0 = dense_state(init)
            if not np.linalg.norm(D0 - P / np.linalg.norm(P)) <= 1e-12:
                run.violation(f"MpDm.max_entangled_{'ex' if ex else 'gs'}:not-sector-identity",
                              dict(model=ht.describe(), deviation=float(np.linalg.norm(D0 - P / np.linalg.norm(P)))))
            init.compress_config = CompressConfig(CompressCriteria.fixed, max_bonddim=64)
            if explicit:
                tp = ThermalProp(init, h_mpo_model=ht.model, evolve_config=make_cfg(spec, imag=True))
            else:
                tp = ThermalProp(init, evolve_config=make_cfg(spec, imag=True))
            # the regularised mean-field equations can be arbitrarily stiff on the noise-filled purification: a run-away
            # integration is abandoned (counted, not judged) after two minutes
            from search_c12 import _Watchdog, _RunAway
            try:
                with _Watchdog(120 if spec["kind"] in ("vmf", "muvmf", "cmf", "ps", "ps2") else 600):
                    tp.evolve(evolve_dt=-1j * beta / 2 / nsteps, nsteps=nsteps)
            except _RunAway:
                run.count(f"thermal:abandoned-after-120s:{nm}")
                continue
        except Exception as e:
            es = exc_sig(e)
            if spec["kind"] == "cmf" and isinstance(e, FloatingPointError):
                # one defect (ill-conditioned overlap inverse after the automatic bond expansion); the overflow surfaces in
                # whichever routine touches the numbers first
                es = "FloatingPointError@any-frame"
            run.violation(f"ThermalProp:{nm}:exception:{es}", dict(model=ht.describe(), scheme=spec, ex=ex, beta=beta, error=repr(e), raised_in=exc_sig(e),
                                                                          initial_state_model=src.describe() if explicit else "same"))
            continue
        ctx.evald(("thermal", ht.scheme, ex, nm, round(np.log10(beta * nh))))
        run.count(f"thermal:{'ex' if ex else 'gs'}:{nm}:scheme{ht.scheme}")
        # tolerance: TDVP on a purified state whose bonds were filled with 1e-10 noise, and fixed-step
        # integrators with beta/2/nsteps steps: order-2 estimate with a generous constant
        dt = beta / 2 / nsteps
        tol = 2e-3 + 2.0 * (nh * dt) ** 2 if spec["kind"] in ("ps", "ps2", "muvmf", "vmf", "cmf") else 1e-4 + 0.2 * nsteps * (nh * dt) ** 5
        if spec["kind"] == "vmf":
            # the variable-mean-field equations are integrated adaptively (rtol 1e-7): no splitting error in the step
            tol = 5e-3
        worst = 0.0
        detail = None
        for k in range(nsteps + 1):
            bk = 2 * dt * k
            refs = gibbs_refs(H, P, bk, [H] + obs_e + obs_v)
            got = [float(np.real(tp.energies[k]))] + list(np.real(tp.e_occupations_array[k])) + list(np.real(tp.ph_occupations_array[k]))
            scale = np.array([max(1.0, nh)] + [1.0] * (len(refs) - 1))
            if len(got) != len(refs):
                run.violation("ThermalProp:observable-count", dict(model=ht.describe(), got=len(got), expected=len(refs)))
                break
            d = float(np.max(np.abs(np.array(got) - np.array(refs)) / scale))
            if d > worst:
                worst, detail = d, dict(step=k, beta=bk, got=got, expected=refs)
        fin = dense_state(tp.latest_mps)
        ref = scipy.linalg.expm(-beta / 2 * H) @ P
        ref = ref / np.linalg.norm(ref)
        dfin = float(np.linalg.norm(fin - ref))
        if not (worst <= tol and dfin <= 5 * tol):
            run.violation(f"ThermalProp:{'ex' if ex else 'gs'}:{nm.split(':')[0]}:{'explicit-h_mpo_model:' if explicit else ''}gibbs-average",
                          dict(model=ht.describe(), scheme=spec, ex=ex, beta=beta, nsteps=nsteps, worst=worst, final_state_error=dfin,
                               tol=tol, detail=detail, initial_state_model=src.describe() if explicit else "same"))


@timed
def block_thermal_exact(ctx, ht):
    """ThermalProp(exact=True): closed-form propagation with the local vibrational Hamiltonian"""
    run, rng = ctx.run, ctx.rng
    H = ht.dense_h()
    for space in ("GS", "EX"):
        ex = space == "EX"
        Hloc = ht.dense_hloc(space)
        beta = float(10 ** rng.uniform(-1.0, 1.0))
        nsteps = int(rng.integers(1, 5))
        try:
            init = MpDm.max_entangled_ex(ht.model) if ex else MpDm.max_entangled_gs(ht.model)
            D0 = dense_state(init)
            tp = ThermalProp(init, exact=True, space=space)
            tp.evolve(evolve_dt=-1j * beta / 2 / nsteps, nsteps=nsteps)
            taus = [(beta / 2) * k / nsteps for k in range(nsteps + 1)]
            if rng.random() < 0.6:
                # the same job continued by a second call with ANOTHER step: how beta is split into calls must not matter
                n2 = int(rng.integers(1, 4))
                dt2 = (beta / 2 / nsteps) * float(rng.choice([0.25, 0.5, 2.0, 3.0]))
                if rng.random() < 0.5:
                    tp.evolve(evolve_dt=-1j * dt2, nsteps=n2)
                else:       # the documented alternative: number of steps and the duration of THIS call
                    tp.evolve(nsteps=n2, evolve_time=-1j * dt2 * n2)
                    run.count("thermal-exact:second-call:nsteps+evolve_time")
                taus += [taus[-1] + dt2 * (k + 1) for k in range(n2)]
                run.count("thermal-exact:second-call-with-another-step")
        except Exception as e:
            run.violation(f"ThermalProp:exact:{space}:exception:{exc_sig(e)}", dict(model=ht.describe(), beta=beta, error=repr(e)))
            continue
        ctx.evald(("thermal-exact", ht.scheme, space, nsteps))
        run.count(f"thermal-exact:{space}:scheme{ht.scheme}:nsteps={nsteps}")
        worst = 0.0
        if len(tp.energies) != len(taus):
            run.violation(f"ThermalProp:exact:{space}:observable-count", dict(model=ht.describe(), got=len(tp.energies), expected=len(taus)))
            continue
        rec_t = np.array([-complex(t).imag for t in tp.evolve_times])
        if rec_t.shape != (len(taus),) or np.max(np.abs(rec_t - np.array(taus))) > 1e-12 * max(1.0, taus[-1]):
            run.violation(f"ThermalProp:exact:{space}:recorded-imaginary-times", dict(model=ht.describe(), recorded=rec_t.tolist(), expected=taus))
            continue
        for k, tau_k in enumerate(taus):
            r = scipy.linalg.expm(-tau_k * Hloc) @ D0
            r = r / np.linalg.norm(r)
            e_ref = float(np.trace(r.conj().T @ H @ r).real)
            worst = max(worst, abs(float(np.real(tp.energies[k])) - e_ref))
        fin = dense_state(tp.latest_mps)
        dfin = float(np.linalg.norm(fin - r))
        if not (worst <= 1e-9 * max(1, opnorm(H)) and dfin <= 1e-10):
            run.violation(f"ThermalProp:exact:{space}:state-or-energy",
                          dict(model=ht.describe(), beta=beta, nsteps=nsteps, imaginary_times=taus, energy_error=worst, final_state_error=dfin))


@timed
def block_thermal_general(ctx, tm):
    """ThermalProp on a general `Model` (electron + oscillator sites, not HolsteinModel)"""
    run, rng = ctx.run, ctx.rng
    if any(len(s.qn[0]) != 1 for s in tm.sites):
        return
    H = tm.dense_h().real if np.allclose(tm.dense_h().imag, 0) else tm.dense_h()
    nh = opnorm(H - np.eye(tm.dim) * np.min(np.linalg.eigvalsh(H)))
    e_sites = [i for i, s in enumerate(tm.sites) if s.kind == "elec"]
    v_sites = [i for i, s in enumerate(tm.sites) if s.kind == "sho"]
    nex = sum(tm.embed({i: L._ELEC[r"a^\dagger a"]}) for i in e_sites)
    obs_e = [tm.embed({i: L._ELEC[r"a^\dagger a"]}) for i in e_sites]
    obs_v = [tm.embed({i: L._sho(tm.sites[i].n)[r"b^\dagger b"]}) for i in v_sites]
    P = np.diag(np.isclose(np.diag(nex).real, 1).astype(float))
    beta = float(10 ** rng.uniform(-1.0, 0.5)) / nh
    spec = [dict(kind="tdrk4"), dict(kind="tdrk", rk="Kutta_RK3"), dict(kind="pc")][int(rng.integers(0, 3))]
    nm = name_of(spec)
    nsteps = int(rng.integers(4, 9))
    try:
        init = MpDm.max_entangled_ex(tm.model())
        init.compress_config = CompressConfig(CompressCriteria.fixed, max_bonddim=64)
        tp = ThermalProp(init, evolve_config=make_cfg(spec, imag=True))
        tp.evolve(evolve_dt=-1j * beta / 2 / nsteps, nsteps=nsteps)
    except Exception as e:
        run.violation(f"ThermalProp:general-model:{nm}:exception:{exc_sig(e)}", dict(model=tm.describe(), scheme=spec, beta=beta, error=repr(e)))
        return
    ctx.evald(("thermal-general", tm.label, nm))
    run.count(f"thermal-general:{nm}")
    dt = beta / 2 / nsteps
    p = advertised(spec)
    tol = 1e-4 + 0.5 * nsteps * (nh * dt) ** (p + 1)
    refs = gibbs_refs(H, P, beta, [H] + obs_e + obs_v)
    got = [float(np.real(tp.energies[-1]))] + list(np.real(tp.e_occupations_array[-1])) + list(np.real(tp.ph_occupations_array[-1]))
    scale = np.array([max(1.0, nh)] + [1.0] * (len(refs) - 1))
    d = float(np.max(np.abs(np.array(got) - np.array(refs)) / scale))
    if not d <= tol:
        run.violation("ThermalProp:general-model:gibbs-average", dict(model=tm.describe(), scheme=spec, beta=beta, nsteps=nsteps,
                                                                        got=got, expected=refs, tol=tol))


# ----------------------------------------------------------------------------- closed-form propagator
@timed
def block_propagator(ctx, ht):
    run, rng = ctx.run, ctx.rng
    for space in ("GS", "EX"):
        Hloc = ht.dense_hloc(space)
        for _ in range(3):
            kind = str(rng.choice(["real", "imag", "complex", "real-as-complex"]))
            a, b = float(rng.uniform(0.05, 2.0)), float(rng.uniform(0.05, 2.0) * rng.choice([-1, 1]))
            # "real-as-complex": a real value carried by a complex number, as `-1j * evolve_dt` is for an imaginary time step
            x = {"real": -a, "imag": 1j * b, "complex": -a + 1j * b, "real-as-complex": complex(-a, 0.0)}[kind]
            shift = float(rng.choice([0.0, rng.uniform(-1.5, 1.5)]))
            try:
                prop = Mpo.exact_propagator(ht.model, x, space, shift)
                got = np.asarray(prop.todense())
            except Exception as e:
                run.violation(f"exact_propagator:{space}:exception:{exc_sig(e)}", dict(model=ht.describe(), x=str(x), shift=shift, error=repr(e)))
                continue
            ref = scipy.linalg.expm(x * (Hloc + shift * np.eye(ht.dim)))
            ctx.evald(("propagator", ht.scheme, space, kind, shift != 0))
            run.count(f"propagator:{space}:{kind}:{'shift' if shift != 0 else 'noshift'}:scheme{ht.scheme}")
            tol = 64 * L.EPS * ht.dim * max(1.0, float(np.linalg.norm(ref, 2)))
            if not np.linalg.norm(got - ref) <= tol * 10:
                which = "shift" if shift != 0 and np.linalg.norm(got * np.exp(-shift * x) - scipy.linalg.expm(x * Hloc)) <= tol * 10 * abs(np.exp(-shift * x)) else "local-factors"
                run.violation(f"exact_propagator:{space}:{kind}-x:{'nonzero' if shift != 0 else 'zero'}-shift:dense-mismatch",
                              dict(model=ht.describe(), x=str(x), shift=shift, error=float(np.linalg.norm(got - ref)), tol=tol * 10, part=which))
            if list(prop.bond_dims) != [1] * (len(ht.dims) + 1):
                run.violation("exact_propagator:bond-dims", dict(model=ht.describe(), bond_dims=list(prop.bond_dims)))


@timed
def block_evolve_exact(ctx, ht):
    """Mps.evolve_exact / MpDm.evolve_exact with zero and non-zero offsets"""
    run, rng = ctx.run, ctx.rng
    for space in ("GS", "EX"):
        Hloc = ht.dense_hloc(space)
        nexc = 1 if space == "EX" else 0
        for offset in (0.0, float(np.round(rng.uniform(0.3, 2.0) * rng.choice([-1, 1]), 3))):
            dt = float(rng.uniform(0.1, 1.5))
            imag_time = bool(rng.random() < 0.3)
            if imag_time:
                dt = -1j * dt           # imaginary time: U = exp(-tau (H_loc [+offset bookkeeping]))
            h_mpo = Mpo(ht.model, offset=Quantity(offset))
            U = scipy.linalg.expm(-1j * dt * Hloc)
            cls = ("zero-offset" if offset == 0 else "nonzero-offset") + (":imag-time" if imag_time else "")
            # ---- Mps
            L.seed_legacy(rng)
            try:
                mps = Mps.random(ht.model, nexc, 4, percent=1.0)
            except Exception:
                run.count("evolve_exact:random-failed")
                continue
            if rng.random() < 0.5:
                mps = mps.to_complex()
            mps.coeff = complex(np.round(rng.uniform(0.5, 1.5), 3) * np.exp(1j * np.round(rng.uniform(0, 6), 3)))
            c_in = mps.coeff
            v_in = np.asarray(mps.todense()) * c_in
            tensors_in = [np.array(t.array, copy=True) for t in mps]
            try:
                out = mps.evolve_exact(h_mpo, dt, space)
                v_out = dense_state(out)
            except Exception as e:
                run.violation(f"Mps.evolve_exact:{cls}:exception:{exc_sig(e)}", dict(model=ht.describe(), space=space, offset=offset, error=repr(e)))
                continue
            ctx.evald(("evolve_exact", "Mps", ht.scheme, space, cls))
            run.count(f"evolve_exact:Mps:{space}:{cls}")
            ref = U @ v_in
            err = float(np.linalg.norm(v_out - ref))
            tol = 1e-10 * max(1.0, np.linalg.norm(v_in))
            if not err <= tol:
                rp = dict(model=ht.describe(), space=space, offset=offset, dt=dt, psi_in=L.tolist(v_in), coeff_in=str(c_in),
                          coeff_out=str(out.coeff), coeff_input_after=str(mps.coeff), error=err)
                phase = np.exp(-1j * offset * dt)
                d3 = (offset != 0 and np.linalg.norm(v_out * phase - ref) <= tol and abs(mps.coeff - c_in * phase) <= 1e-12)
                if d3:
                    # §7 D3: the phase was multiplied onto the INPUT's coeff, the result misses it
                    run.violation("Mps.evolve_exact:nonzero-offset:phase-on-input-coeff", rp)
                else:
                    run.violation(f"Mps.evolve_exact:{cls}:wrong-result", rp)
            # ---- MpDm : rho -> rho . exp(-i dt Hloc)   (applied from the right, see its comment)
            try:
                real_in = mps.copy()
                real_in.coeff = 1
                if np.iscomplexobj(np.asarray(real_in[0].array)):
                    L.seed_legacy(rng)
                    real_in = Mps.random(ht.model, nexc, 4, percent=1.0)
                dm = MpDm.from_mps(real_in)
                dm.coeff = c_in
                D_in = np.asarray(dm.todense()) * c_in
                out = dm.evolve_exact(h_mpo, dt, space)
                D_out = dense_state(out)
            except Exception as e:
                run.violation(f"MpDm.evolve_exact:{cls}:exception:{exc_sig(e)}", dict(model=ht.describe(), space=space, offset=offset, error=repr(e)))
                continue
            ctx.evald(("evolve_exact", "MpDm", ht.scheme, space, cls))
            run.count(f"evolve_exact:MpDm:{space}:{cls}")
            err = float(np.linalg.norm(D_out - D_in @ U))
            if not (err <= 1e-10 * max(1.0, np.linalg.norm(D_in)) and abs(dm.coeff - c_in) <= 1e-14):
                run.violation(f"MpDm.evolve_exact:{cls}:wrong-result",
                              dict(model=ht.describe(), space=space, offset=offset, dt=dt, error=err, coeff_in=str(c_in),
                                   coeff_out=str(out.coeff), coeff_input_after=str(dm.coeff),
                                   error_if_applied_from_left=float(np.linalg.norm(D_out - U @ D_in))))


# ----------------------------------------------------------------------------- purification
@timed
def block_purification(ctx, tm, psi_real, psi_cplx):
    """MpDm.from_mps embeds psi as diag(psi) (real and complex); expectation of an MpDm is
    Tr(rho^dagger O rho)/Tr(rho^dagger rho)"""
    run = ctx.run
    for tag, psi in (("real", psi_real), ("complex", psi_cplx)):
        if psi is None:
            continue
        v = np.asarray(psi.todense())
        try:
            dm = MpDm.from_mps(psi)
            D = np.asarray(dm.todense())
        except Exception as e:
            run.violation(f"MpDm.from_mps:{tag}-input:exception:{exc_sig(e)}", dict(model=tm.describe(), error=repr(e)))
            continue
        ctx.evald(("from_mps", tm.label, tag))
        run.count(f"from_mps:{tag}")
        err = float(np.linalg.norm(D - np.diag(v)))
        if not err <= 1e-13:
            # what one gets when the imaginary part of every site tensor is discarded
            rp = psi.copy()
            w = np.eye(1).reshape(1, 1)
            for t in rp:
                a = np.asarray(t.array).real
                w = np.tensordot(w, a, axes=1).reshape(-1, a.shape[-1])
            only_real = bool(np.linalg.norm(D - np.diag(w.ravel())) <= 1e-13)
            sig = "MpDm.from_mps:complex-input:imaginary-part-dropped" if (tag == "complex" and only_real) else f"MpDm.from_mps:{tag}-input:not-diag-psi"
            run.violation(sig, dict(model=tm.describe(), psi=L.tolist(v), error=err, equals_diag_of_real_part=only_real))


# ----------------------------------------------------------------------------- driver
def search(run, rng, quick):
    ctx = Ctx(run, rng, quick)
    nrounds = 1 if quick else 5
    for rnd in range(nrounds):
        # ---- imaginary time, states
        tmA = L.gen_model(rng, kinds=("spin",))
        tmB = L.gen_model(rng, kinds=("spin-u1", "eph", "eph-2qn"))
        for tm in (tmA, tmB):
            q = L.pick_qntot(tm, rng)
            cplx = bool(rng.random() < 0.5)
            psi = L.full_rank_mps(tm, rng, q, cplx=cplx)
            if psi is None:
                run.count("state-generation-failed")
                continue
            run.count(f"model:{tm.label}:n={len(tm.sites)}:dim={tm.dim}:{'complex' if cplx else 'real'}")
            block_imag(ctx, tm, psi)
            other = L.full_rank_mps(tm, rng, q, cplx=not cplx, spread=False)
            block_purification(ctx, tm, psi if not cplx else other, psi if cplx else other)
            if tm is tmB and tm.label == "eph":
                block_thermal_general(ctx, tm)
        # ---- imaginary time, density operators
        tmC = L.gen_spin_model(rng, n=3, conserve=bool(rng.random() < 0.5))
        q = L.pick_qntot(tmC, rng)
        pr = L.full_rank_mps(tmC, rng, q, cplx=False)
        if pr is not None:
            try:
                dm = make_mpdm(ctx, tmC, pr)
            except Exception as e:
                run.violation(f"mpdm:prepare:exception:{exc_sig(e)}", dict(model=tmC.describe(), error=repr(e)))
                dm = None
            if dm is not None:
                block_imag(ctx, tmC, dm, as_mpdm=True)
        # ---- Holstein models: thermal propagation, closed-form propagator, evolve_exact
        nh_models = 2 if quick else 4
        schemes = list(rng.permutation([1, 2, 3, 4]))
        for k in range(nh_models):
            ht = L.gen_holstein(rng, scheme=int(schemes[k % 4]), nmol=2 if k == 0 else None)    # at least one model with exciton coupling
            run.count(f"holstein:scheme{ht.scheme}:nmol={ht.nmol}:dim={ht.dim}")
            block_propagator(ctx, ht)
            block_evolve_exact(ctx, ht)
            block_thermal_exact(ctx, ht)
            block_thermal_holstein(ctx, ht)
        # ---- closed-form propagator only (cheap): many more models, including coincident / mirrored modes
        for k in range(10 if quick else 40):
            ht = L.gen_holstein(rng, scheme=int(schemes[k % 4]), coincide=1.0 if k % 2 else None)
            coinc = len({(w, abs(d), nb) for m in ht.mols for (w, d, nb) in m["modes"]}) < sum(len(m["modes"]) for m in ht.mols)
            run.count(f"holstein-closed-form:scheme{ht.scheme}:{'coincident-modes' if coinc else 'distinct-modes'}")
            block_propagator(ctx, ht)
            block_thermal_exact(ctx, ht)
        if ctx.left() < 0:
            run.count("budget-exhausted")
            break
    run.cov["evaluations"] = run.cov.get("evaluations", 0) + ctx.n_eval
    run.cov["distinct_nontrivial"] = len(ctx.distinct)
    run.cov["block_seconds"] = {k: round(v, 1) for k, v in ctx.timing.items()}
    run.cov["rule"] = ("distinct (block, model class / Holstein scheme, sector or space, scheme variant, offset/shift class) tuples; "
                       "imaginary-time order cases count only if the normalised state moves by > 0.02")
