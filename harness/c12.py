"""C12 — tree tensor network time evolution matches the exact propagator (partial).
L1: Lean: traversal of the one- and two-site projector-splitting sweeps, for every rooted tree: one local step per
    node / edge, backward half sweep = mirror image of the forward one, hence a symmetric (time-reversible)
    composition; C09's Runge-Kutta skeleton (any module) and C11's state-sum model.
L2: exact replay of the event sequence (function, node, sign of the local time step) of the REAL sweeps
    (_tdvp_ps_forward/backward, _tdvp_ps2_recursion_forward/backward) on random trees against the Lean models.
L3: dense propagator oracle for all four schemes, real and imaginary time (search_c12)."""
import numpy as np

import common
import generic_check


def l2_ps2_counts(run, rng, quick):
    import lib_tree as lt
    import renormalizer.tn.time_evolution as te
    done = 0
    counts = dict(two=0, one=0)
    o2, o1 = te.evolve_2site, te.evolve_1site

    def w2(*a, **k):
        counts["two"] += 1
        return o2(*a, **k)

    def w1(*a, **k):
        counts["one"] += 1
        return o1(*a, **k)
    te.evolve_2site, te.evolve_1site = w2, w1
    try:
        from renormalizer.tn.tree import TTNO, TTNS
        from renormalizer.utils import EvolveConfig, EvolveMethod
        for _ in range(4 if quick else 30):
            descs = lt.random_basis_descs(rng, int(rng.integers(2, 5)), qn_mode="none", kinds=["spin"])
            descs2, spec = lt.random_tree_spec(rng, descs, n_dummy=int(rng.integers(0, 2)), max_group=1)
            n = len(spec["groups"])
            if n < 2:
                continue
            basis_list = lt.make_basis_list(descs2)
            tree, nodes = lt.build_basis_tree(spec, basis_list)
            terms = lt.random_terms(rng, descs2, 3, factor_scale="unit", structure=False)
            ops = lt.terms_to_ops(None, terms, explicit_qn=False)
            try:
                ttno = TTNO(tree, ops)
                ttns = TTNS.random(tree, 0, 3, 1.0)
                ttns.evolve_config = EvolveConfig(EvolveMethod.tdvp_ps2)
                counts["two"] = counts["one"] = 0
                ttns.evolve(ttno, 0.01)
            except Exception as e:  # noqa
                run.count("evolve-raised:" + type(e).__name__)
                continue
            done += 1
            edges = n - 1
            run.sample(dict(spec=spec, two_site_steps=counts["two"], edges=edges), limit=3)
            # forward + backward half sweeps: each edge once per half sweep
            if counts["two"] != 2 * edges:
                run.violation("corr:ps2-traversal", dict(correspondence="RenoVerif.TreeSweep.two_count vs evolve_2site calls of tdvp_ps2",
                                                         spec=spec, two_site_steps=counts["two"], edges=edges), no_input=True)
    finally:
        te.evolve_2site, te.evolve_1site = o2, o1
    return done


def l2_sweep_events(run, rng, quick):
    """exact replay: the sequence of local propagations (function, node, sign of the time step) of the REAL one- and
    two-site sweeps on random trees against the Lean traversal models (Driver/C12.lean)."""
    import lib_tree as lt
    import renormalizer.tn.time_evolution as te
    from renormalizer.tn.tree import TTNO, TTNS
    from renormalizer.utils import EvolveConfig, EvolveMethod
    rec = []
    state = dict(ids=None)
    orig = dict(one=te.evolve_1site, zero=te.evolve_0site, two=te.evolve_2site)

    def sgn(tau):
        return "+" if np.real(tau) > 0 else "-"

    def w1(snode, ttns, ttno, ttne, coeff, tau):
        rec.append(("1" + sgn(tau), state["ids"][id(snode)], abs(tau)))
        return orig["one"](snode, ttns, ttno, ttne, coeff, tau)

    def w0(ms, snode, ttns, ttno, ttne, coeff, tau):
        rec.append(("0" + sgn(tau), state["ids"][id(snode)], abs(tau)))
        return orig["zero"](ms, snode, ttns, ttno, ttne, coeff, tau)

    def w2(snode, ttns, ttno, ttne, coeff, tau):
        rec.append(("2" + sgn(tau), state["ids"][id(snode)], abs(tau)))
        return orig["two"](snode, ttns, ttno, ttne, coeff, tau)
    NAME = {"1+": "k1", "0-": "k0", "2+": "two", "1-": "one"}
    te.evolve_1site, te.evolve_0site, te.evolve_2site = w1, w0, w2
    reqs, meta = [], []
    try:
        for _ in range(12 if quick else 24):
            descs = lt.random_basis_descs(rng, int(rng.integers(2, 7)), qn_mode="none", kinds=["spin"])
            descs2, spec = lt.random_tree_spec(rng, descs, n_dummy=int(rng.integers(0, 2)), max_group=1)
            n = len(spec["groups"])
            if n < 2:
                continue
            basis_list = lt.make_basis_list(descs2)
            tree, nodes = lt.build_basis_tree(spec, basis_list)
            terms = lt.random_terms(rng, descs2, 2, factor_scale="unit", structure=False)
            ops = lt.terms_to_ops(None, terms, explicit_qn=False)
            for method, kinds in ((EvolveMethod.tdvp_ps, ("ps1f", "ps1b")), (EvolveMethod.tdvp_ps2, ("ps2f", "ps2b"))):
                try:
                    ttno = TTNO(tree, ops)
                    ttns = TTNS.random(tree, 0, 2, 1.0)
                    ttns.evolve_config = EvolveConfig(method)
                    # the sweep runs on a copy: number the nodes of the copy through a wrapper of the method
                    tau = 1e-3        # the traversal does not depend on the step; a tiny step keeps the local Krylov problems cheap
                    meth = te.EVOLVE_METHODS[method]

                    def numbered(t, o, c, dt, _m=meth):
                        state["ids"] = {id(nd): k for k, nd in enumerate(t.node_list)}
                        state["adj"] = [[state["ids"][id(ch)] for ch in nd.children] for nd in t.node_list]
                        state["root"] = state["ids"][id(t.root)]
                        return _m(t, o, c, dt)
                    te.EVOLVE_METHODS[method] = numbered
                    del rec[:]
                    try:
                        ttns.evolve(ttno, tau)
                    finally:
                        te.EVOLVE_METHODS[method] = meth
                except Exception as e:  # noqa
                    run.count("sweep-raised:" + type(e).__name__)
                    continue
                adj = "|".join(",".join(map(str, a)) if a else "." for a in state["adj"])
                events = [NAME.get(k, "bad" + k) + ":" + str(v) for k, v, _ in rec]
                steps = {round(float(a) / tau, 12) for _, _, a in rec}
                run.count(f"sweep:{method.name}:nodes={n}:branching={max(len(a) for a in state['adj'])}")
                if steps != {0.5}:
                    run.violation(f"corr:sweep-local-time-step:{method.name}",
                                  dict(correspondence="every local propagation of a half sweep runs over tau/2", spec=spec,
                                       local_steps_over_tau=sorted(steps)), no_input=True)
                half = len(events) // 2
                for kind, ev in zip(kinds, (events[:half], events[half:])):
                    reqs.append(f"{kind} {state['root']} {adj}")
                    meta.append((kind, ev, dict(spec=spec, adjacency=state["adj"], root=state["root"], method=method.name, all_events=events)))
    finally:
        te.evolve_1site, te.evolve_0site, te.evolve_2site = orig["one"], orig["zero"], orig["two"]
    replies = common.run_driver("RenoVerif/Driver/C12.lean", reqs) if reqs else []
    for (kind, ev, info), req, rep in zip(meta, reqs, replies):
        impl = ",".join(ev) if ev else "-"
        run.sample(dict(request=req, model=rep, impl=impl), limit=4)
        if rep != impl:
            run.violation(f"corr:sweep-events:{kind}", dict(correspondence="RenoVerif.TreeSweep traversal model vs recorded local propagations of the real sweep",
                                                             info=info, model=rep, impl=impl), no_input=True)
    return len(reqs)


def large_step_tree(run, rng, quick):
    """one-site projector splitting on a tree with complete bond dimensions is exact for ANY step (the projector is the
    identity): one very large real-time step on four coupled harmonic modes (4 levels each; spectral width * tau of 600-900,
    i.e. 150-230 Lanczos vectors for the big local problems, far fewer than their dimension) against the dense propagator,
    plus conservation of energy and norm (Props/C09Conserve `sweep_conserves`).  Family and step range were chosen where the
    pinned, un-reorthogonalised Lanczos kernel is accurate to 1e-6 (spin trees and local problems whose Krylov dimension
    approaches the full dimension are not: there the pinned kernel itself loses orthogonality, see DESIGN 10.6)."""
    import scipy.linalg
    from renormalizer.model import Op
    from renormalizer.model.basis import BasisSHO
    from renormalizer.tn import BasisTree, TTNO, TTNS, TreeNodeBasis
    from renormalizer.utils import EvolveConfig, EvolveMethod
    done = 0
    for _ in range(1 if quick else 3):
        n, nbas = 4, 4
        om = rng.uniform(0.8, 1.6, size=n)
        parent = [[-1, 0, 1, 2], [-1, 0, 0, 2], [-1, 0, 1, 1]][int(rng.integers(3))]
        nodes = [TreeNodeBasis([BasisSHO(i, float(om[i]), nbas)]) for i in range(n)]
        for i in range(1, n):
            nodes[parent[i]].add_child(nodes[i])
        terms = [Op(r"b^\dagger b", i, float(om[i])) for i in range(n)]
        for i in range(n):
            for j in range(i + 1, n):
                if rng.random() < 0.6:
                    terms.append(Op("x x", [i, j], float(rng.uniform(0.1, 0.3))))
        info = dict(parent=parent, omega=om.tolist(), terms=[(t.symbol, list(t.dofs), float(t.factor)) for t in terms])
        try:
            basis = BasisTree(nodes[0])
            ttno = TTNO(basis, terms)
            h = np.asarray(ttno.todense()).reshape(nbas ** n, nbas ** n)
            w = np.linalg.eigvalsh(h)
            np.random.seed(int(rng.integers(2 ** 31)))
            ttns = TTNS.random(basis, 0, nbas ** (n // 2))
            ttns.evolve_config = EvolveConfig(EvolveMethod.tdvp_ps)
            psi0 = np.asarray(ttns.todense()).ravel()
            tau = float(rng.uniform(600, 900)) / float(w[-1] - w[0])
            out = ttns.evolve(ttno, tau)
            got = np.asarray(out.todense()).ravel()
        except Exception as e:  # noqa
            run.violation(f"large-step-tree:tdvp_ps:raises:{type(e).__name__}", dict(info, error=repr(e)[:300]))
            continue
        ref = scipy.linalg.expm(-1j * tau * h) @ psi0
        err = float(np.linalg.norm(got - ref) / np.linalg.norm(ref))
        e0 = float(np.real(np.vdot(psi0, h @ psi0)))
        e1 = float(np.real(np.vdot(got, h @ got)))
        drift = abs(e1 - e0) / float(w[-1] - w[0])
        nrm = abs(float(np.linalg.norm(got)) - float(np.linalg.norm(psi0)))
        done += 1
        run.count(f"large-step-tree:shape={parent}")
        run.sample(dict(part="large-step-tree", rel_err=err, energy_drift_over_width=drift, norm_drift=nrm,
                        tau_times_width=tau * float(w[-1] - w[0]), bond_dims=[int(b) for b in ttns.bond_dims]), limit=6)
        info.update(tau=tau, spectral_width=float(w[-1] - w[0]), rel_err=err, energy_drift_over_width=drift, norm_drift=nrm)
        if err > 1e-3:
            run.violation("large-step-tree:tdvp_ps:full-bond:vs-expm", dict(info, what="projector splitting at complete bond dimension must "
                                                                              "reproduce exp(-iHt) for any step size"))
        if drift > 1e-5 or nrm > 1e-6:
            run.violation("large-step-tree:tdvp_ps:energy-or-norm-drift", dict(info, what="one-site projector splitting conserves norm and energy"))
    return done


def zero_padded_ps(run, rng, quick):
    """sufficient bond dimension reached by padding with EXACT zeros (a product state plus a random state scaled by 0, then
    canonicalised) instead of the usual 1e-5 noise: the one-site projector splitting must still use the padded directions
    and follow the dense propagator (two particles on six orbitals, random tree, ten steps of 0.05)."""
    import scipy.linalg
    from renormalizer.model import Op
    from renormalizer.model.basis import BasisSimpleElectron
    from renormalizer.tn import BasisTree, TTNO, TTNS, TreeNodeBasis
    from renormalizer.utils import EvolveConfig, EvolveMethod
    done = 0
    for _ in range(2 if quick else 10):
        n = 6
        parent = [-1] + [int(rng.integers(0, i)) for i in range(1, n)]
        nodes = [TreeNodeBasis([BasisSimpleElectron(i)]) for i in range(n)]
        for i in range(1, n):
            nodes[parent[i]].add_child(nodes[i])
        terms = []
        for i in range(n):
            terms.append(Op(r"a^\dagger a", i, float(rng.uniform(-1, 1))))
            for j in range(i + 1, n):
                t = float(rng.uniform(0.3, 1.0))
                terms.append(Op(r"a^\dagger a", [i, j], t))
                terms.append(Op(r"a^\dagger a", [j, i], t))
                terms.append(Op(r"a^\dagger a a^\dagger a", [i, i, j, j], float(rng.uniform(-1, 1))))
        occ = [int(x) for x in rng.choice(n, size=2, replace=False)]
        info = dict(parent=parent, occupied=occ, terms=[(t.symbol, list(t.dofs), float(t.factor)) for t in terms])
        try:
            tree = BasisTree(nodes[0])
            ttno = TTNO(tree, terms)
            h = np.asarray(ttno.todense()).reshape(2 ** n, 2 ** n)
            prod = TTNS(tree, {occ[0]: 1, occ[1]: 1})
            np.random.seed(int(rng.integers(2 ** 31)))
            pad = TTNS.random(tree, 2, 20).scale(0.0, inplace=True)
            psi = prod + pad
            psi.canonicalise()
            dims0 = [int(b) for b in psi.bond_dims]
            v0 = np.asarray(psi.todense()).ravel()
            psi.evolve_config = EvolveConfig(EvolveMethod.tdvp_ps)
            tau, nsteps = 0.05, 10
            cur = psi
            for _s in range(nsteps):
                cur = cur.evolve(ttno, tau)
            v = np.asarray(cur.todense()).ravel()
        except Exception as e:  # noqa
            run.violation(f"zero-padded:tdvp_ps:raises:{type(e).__name__}", dict(info, error=repr(e)[:300]))
            continue
        vex = scipy.linalg.expm(-1j * h * tau * nsteps) @ v0
        err = float(np.linalg.norm(v - vex))
        done += 1
        run.count("zero-padded:tdvp_ps")
        run.sample(dict(part="zero-padded", err=err, bond_dims_before=dims0, bond_dims_after=[int(b) for b in cur.bond_dims]), limit=8)
        if err > 1e-2:
            run.violation("zero-padded:tdvp_ps:sufficient-bond:vs-expm",
                          dict(info, err=err, bond_dims_before=dims0, bond_dims_after=[int(b) for b in cur.bond_dims],
                               what="bonds padded to sufficient dimension with exact zeros: the evolved state must follow exp(-iHt)"))
    return done


def unit_scaling_pc(run, rng, quick):
    """the same physics in other energy units (H -> s H, tau -> tau / s, s = 1e-4 .. 1e-6): every scheme must return the same
    state (nothing may compare H^k|psi> with an absolute threshold)."""
    import scipy.linalg
    import lib_tree as lt
    from renormalizer.model import Op
    from renormalizer.tn.tree import TTNO, TTNS
    from renormalizer.utils import EvolveConfig, EvolveMethod, CompressConfig, CompressCriteria
    done = 0
    for _ in range(2 if quick else 8):
        nspin = int(rng.integers(4, 7))
        descs = lt.random_basis_descs(rng, nspin, qn_mode="none", kinds=["spin"])
        descs2, spec = lt.random_tree_spec(rng, descs, n_dummy=0, max_group=1)
        basis_list = lt.make_basis_list(descs2)
        tree, nodes = lt.build_basis_tree(spec, basis_list)
        dofs = [b.dof for b in basis_list if b.nbas == 2]
        base = [("sigma_x sigma_x", [dofs[i], dofs[j]], float(rng.uniform(0.3, 1.0))) for i in range(nspin) for j in range(i + 1, nspin)
                if rng.random() < 0.6] + [("sigma_z", [d], float(rng.uniform(-1, 1))) for d in dofs]
        s_unit = float(10 ** rng.uniform(-6, -4))
        method = [EvolveMethod.prop_and_compress_tdrk4, EvolveMethod.tdvp_ps, EvolveMethod.tdvp_ps2][int(rng.integers(3))] \
            if rng.random() < 0.4 else EvolveMethod.prop_and_compress_tdrk4
        imag = bool(rng.random() < 0.3)
        info = dict(spec=spec, unit=s_unit, method=method.name, imaginary_time=imag, terms=base)
        outs = []
        try:
            np_seed = int(rng.integers(2 ** 31))
            for s in (1.0, s_unit):
                ops = [Op(sym, d if len(d) > 1 else d[0], f * s) for sym, d, f in base]
                ttno = TTNO(tree, ops)
                np.random.seed(np_seed)
                ttns = TTNS.random(tree, 0, 2 ** (nspin // 2), 1.0)
                ttns.evolve_config = EvolveConfig(method)
                ttns.compress_config = CompressConfig(CompressCriteria.fixed, max_bonddim=2 ** (nspin // 2))
                if s == 1.0:
                    h = np.asarray(ttno.todense()).reshape(2 ** nspin, 2 ** nspin)
                    v0 = np.asarray(ttns.todense()).ravel()
                    width = float(np.ptp(np.linalg.eigvalsh(h)))
                    tau = 0.4 / width
                cur = ttns
                for _s in range(4):
                    cur = cur.evolve(ttno, (-1j if imag else 1.0) * tau / s, normalize=False)
                outs.append(np.asarray(cur.todense()).ravel())
        except Exception as e:  # noqa
            run.violation(f"unit-scaling:{method.name}:raises:{type(e).__name__}", dict(info, error=repr(e)[:300]))
            continue
        ref = scipy.linalg.expm((-1.0 if imag else -1j) * 4 * tau * h) @ v0
        e1 = float(np.linalg.norm(outs[0] - ref) / np.linalg.norm(ref))
        e2 = float(np.linalg.norm(outs[1] - ref) / np.linalg.norm(ref))
        done += 1
        run.count(f"unit-scaling:{method.name}:{'imag' if imag else 'real'}")
        if e2 > 10 * e1 + 1e-7:
            run.violation(f"unit-scaling:{method.name}:result-depends-on-energy-unit",
                          dict(info, err_unit_1=e1, err_small_unit=e2, what="H -> s H with tau -> tau / s must give the same state"))
    return done


if __name__ == "__main__":
    common.main_wrapper(lambda: generic_check.run_check(
        "C12", "other", ["RenoVerif/Props/C12.lean", "RenoVerif/Props/C09.lean", "RenoVerif/Props/C09Conserve.lean"], [l2_ps2_counts, l2_sweep_events, large_step_tree, zero_padded_ps, unit_scaling_pc],
        ["error orders, conservation laws, agreement with the chain implementation are numerical (dense oracle)",
         "local Krylov exponentials are parameters (C18 contract)"],
        "random spin trees (2-4 nodes + optional dummy) x tdvp_ps2 step: two-site step count vs edges",
        explanation="Partial proof: the traversal bookkeeping of the two-site sweep and the RK skeleton are Lean theorems; the traversal model is tied to the "
                    "real sweep by counting local steps; convergence, conservation and chain agreement are decided by the dense oracle search."))
