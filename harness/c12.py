"""C12 — tree tensor network time evolution matches the exact propagator (partial).
L1: Lean: traversal bookkeeping of the two-site projector-splitting sweep (one two-site step per edge,
    for every rooted tree); C09's Runge-Kutta skeleton (any module) and C11's state-sum model.
L2: the traversal model against the REAL _tdvp_ps2_recursion_forward: the number of two-site local
    steps reported by the sweep equals the number of edges of the tree.
L3: dense propagator oracle for all four schemes, real and imaginary time (search_c12)."""
import numpy as np

import common
import generic_check


def l2_ps2_counts(run, rng, quick):
    import lib_tree as lt
    import renormalizer.tn.time_evolution as te
    done = 0
    counts = dict(two=0, one=0)
    o2, o1 = te.evolve_2site, te.evolve_1site

    def w2(*a, **k):
        counts["two"] += 1
        return o2(*a, **k)

    def w1(*a, **k):
        counts["one"] += 1
        return o1(*a, **k)
    te.evolve_2site, te.evolve_1site = w2, w1
    try:
        from renormalizer.tn.tree import TTNO, TTNS
        from renormalizer.utils import EvolveConfig, EvolveMethod
        for _ in range(4 if quick else 30):
            descs = lt.random_basis_descs(rng, int(rng.integers(2, 5)), qn_mode="none", kinds=["spin"])
            descs2, spec = lt.random_tree_spec(rng, descs, n_dummy=int(rng.integers(0, 2)), max_group=1)
            n = len(spec["groups"])
            if n < 2:
                continue
            basis_list = lt.make_basis_list(descs2)
            tree, nodes = lt.build_basis_tree(spec, basis_list)
            terms = lt.random_terms(rng, descs2, 3, factor_scale="unit", structure=False)
            ops = lt.terms_to_ops(None, terms, explicit_qn=False)
            try:
                ttno = TTNO(tree, ops)
                ttns = TTNS.random(tree, 0, 3, 1.0)
                ttns.evolve_config = EvolveConfig(EvolveMethod.tdvp_ps2)
                counts["two"] = counts["one"] = 0
                ttns.evolve(ttno, 0.01)
            except Exception as e:  # noqa
                run.count("evolve-raised:" + type(e).__name__)
                continue
            done += 1
            edges = n - 1
            run.sample(dict(spec=spec, two_site_steps=counts["two"], edges=edges), limit=3)
            # forward + backward half sweeps: each edge once per half sweep
            if counts["two"] != 2 * edges:
                run.violation("corr:ps2-traversal", dict(correspondence="RenoVerif.TreeSweep.two_count vs evolve_2site calls of tdvp_ps2",
                                                         spec=spec, two_site_steps=counts["two"], edges=edges), no_input=True)
    finally:
        te.evolve_2site, te.evolve_1site = o2, o1
    return done


if __name__ == "__main__":
    common.main_wrapper(lambda: generic_check.run_check(
        "C12", "other", ["RenoVerif/Props/C12.lean", "RenoVerif/Props/C09.lean"], [l2_ps2_counts],
        ["error orders, conservation laws, agreement with the chain implementation are numerical (dense oracle)",
         "local Krylov exponentials are parameters (C18 contract)"],
        "random spin trees (2-4 nodes + optional dummy) x tdvp_ps2 step: two-site step count vs edges",
        explanation="Partial proof: the traversal bookkeeping of the two-site sweep and the RK skeleton are Lean theorems; the traversal model is tied to the "
                    "real sweep by counting local steps; convergence, conservation and chain agreement are decided by the dense oracle search."))
