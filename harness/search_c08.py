"""C08 failing-input search: DMRG ground / excited state optimisation (chain: mps/gs.py, tree: tn/gs.py)
against exact diagonalisation in the symmetry sector.

Reference: the dense Hamiltonian is written down in lib_gs.py from our own local matrices /
occupation-number fermions (never Mpo.todense), projected on the sector by our own per-level labels,
diagonalised with numpy.

Oracles
 V   every reported energy (every sweep, every root j) >= j-th exact eigenvalue of the sector - 1e-8*scale
     (Cauchy interlacing: Ritz values of a compression).  omega: >= j-th smallest (E_k - omega)^2.
     inverse=-1: the same for -H.
 S   returned states: norm 1, no amplitude outside the sector, `qntot` as requested; nroots>1: one
     state per root.
 F   bond dimension >= exact ranks and two-site sweeps (and the robust one-site set-ups): last reported
     energies == exact eigenvalues, <psi|H|psi> of the returned states == reported energies (H dense, ours),
     Mps.expectation(mpo) the same.  omega: returned state is the eigenstate closest to omega.
 H   instrumentation (module attributes wrapped from this process, no source change): at sampled
     micro-iterations the matrix of gs.get_ham_direct equals P^T H P (P assembled from the current site
     tensors, H ours; (H-omega)^2 for omega; sum for StackedMpo) restricted by the sector mask, P is an
     isometry on the mask, the iterative operator of gs.get_ham_iterative acts as that matrix, and
     gs.eigh_iterative (Davidson) run on the same micro-problem returns its lowest eigenvalues.
 O   on-the-fly swapping on: V, S and F with the Hamiltonian permuted to the site order of the returned
     state's model.
 T   tree: every micro-iteration energy of tn.gs.optimize_2site >= exact - tol, the optimised TTNS is
     normalised and in the sector, full bond dimension: last energy == exact == <psi|H|psi>.
"""
import time

import numpy as np

import lib_gs as L
from lib_gs import EPS, tolist

from renormalizer.model import Model
from renormalizer.mps import Mpo, Mps, StackedMpo
from renormalizer.mps import gs as gsmod
from renormalizer.mps.gs import optimize_mps
from renormalizer.mps.lib import cvec2cmat
from renormalizer.mps.matrix import asnumpy, asxp
from renormalizer.utils import CompressConfig, CompressCriteria, Quantity
from renormalizer.utils.configs import OFS

import renormalizer.tn.gs as tngs
from renormalizer.tn.node import TreeNodeBasis
from renormalizer.tn.tree import TTNO, TTNS
from renormalizer.tn.treebase import BasisTree


DAV_SIG = "optimize_ttns:davidson:small-local-problem(dim<=16):wrong-eigenpair"


def absmax(a):
    a = np.asarray(a)
    return float(np.abs(a).max()) if a.size else 0.0


# ======================================================================================= models
def gen_chain_model(rng, kind, big=False):
    if kind == "spin":
        return L.gen_spin_model(rng, n=(int(rng.integers(3, 7)) if not big else 10), conserve=False)
    if kind == "spin-u1-collective":
        return L.gen_collective_model(rng, n=(int(rng.integers(4, 7)) if not big else 10))
    if kind == "spin-u1":
        return L.gen_spin_model(rng, n=(int(rng.integers(3, 7)) if not big else 10), conserve=True)
    if kind == "eph":
        if big:
            return L.gen_eph_model(rng, nmol=3, nmode_per_mol=1, nbas=6)
        return L.gen_eph_model(rng, interleave=bool(rng.random() < 0.7))
    if kind == "eph-2qn":
        return L.gen_eph_model(rng, nmol=3, two_qn=True)
    if kind == "qc":
        n = 4 if big else int(rng.choice([2, 2, 3]))
        h, eri, style = L.gen_integrals(rng, n, "8", style=str(rng.choice(["dense", "sparse", "dense", "block"])))
        return L.qc_tmodel(h, eri, True, "8", style)
    raise ValueError(kind)


def pick_sector(tm, rng, min_dim):
    secs = [s for s in tm.sectors() if s[1] >= min_dim]
    if not secs:
        return None, 0
    # prefer low occupations (Mps.random is fragile for nearly filled sectors, DESIGN D15)
    secs.sort(key=lambda s: (sum(s[0]), s[0]))
    k = int(rng.integers(0, min(4, len(secs))))
    return np.array(secs[k][0], dtype=int), secs[k][1]


def irreducible(hs):
    """is the coupling graph of the (sector) matrix connected?  (otherwise an iterative eigensolver started
    inside an invariant subspace legitimately stays there)"""
    from scipy.sparse.csgraph import connected_components
    a = (np.abs(hs) > 1e-12).astype(int)
    return connected_components(a, directed=False)[0] == 1


def full_bond(dims):
    n = len(dims)
    return int(max([1] + [min(np.prod(dims[:i]), np.prod(dims[i:])) for i in range(1, n)]))


def split_terms(rng, ops, k):
    """random partition of a term list into k non-empty groups"""
    idx = rng.permutation(len(ops))
    cuts = sorted(rng.choice(np.arange(1, len(ops)), size=k - 1, replace=False).tolist())
    groups, prev = [], 0
    for c in cuts + [len(ops)]:
        groups.append([ops[i] for i in idx[prev:c]])
        prev = c
    return groups


# ======================================================================================= probe (oracle H)
class HeffProbe:
    """wraps gs.eigh_direct / gs.eigh_iterative during one optimize_mps call"""

    def __init__(self, run, rng, hdense, replay, rate, test_davidson=True):
        self.run, self.rng, self.h, self.replay, self.rate = run, rng, hdense, replay, rate
        self.scale = max(1.0, absmax(hdense))
        self.test_davidson = test_davidson
        self.n_checked = 0
        self.n_dav_natural = 0
        self.fired = set()

    def viol(self, sig, extra):
        if sig not in self.fired:
            self.fired.add(sig)
            self.run.violation(sig, dict(self.replay, **extra))

    # -- geometry
    @staticmethod
    def cidx_of(mps):
        if mps.optimize_config.method == "1site":
            return [mps.qnidx]
        return [mps.qnidx, mps.qnidx + 1] if mps.to_right else [mps.qnidx - 1, mps.qnidx]

    @staticmethod
    def projector(mps, cidx):
        left = np.ones((1, 1))
        for i in range(cidx[0]):
            a = np.asarray(asnumpy(mps[i].array))
            left = np.tensordot(left, a, axes=(1, 0)).reshape(-1, a.shape[-1])
        right = np.ones((1, 1))
        for i in range(mps.site_num - 1, cidx[-1], -1):
            a = np.asarray(asnumpy(mps[i].array))
            right = np.tensordot(a, right, axes=(2, 0)).reshape(a.shape[0], -1)
        pd = int(np.prod([mps[i].shape[1] for i in cidx]))
        P = np.einsum("al,st,rb->asbltr", left, np.eye(pd), right)
        return P.reshape(left.shape[0] * pd * right.shape[1], left.shape[1] * pd * right.shape[0])

    def dense_heff(self, mps, qn_mask, omega):
        cidx = self.cidx_of(mps)
        P = self.projector(mps, cidx)
        h = self.h
        if omega is not None:
            hs = h - omega * np.eye(len(h))
            h = hs @ hs
        m = np.asarray(qn_mask).ravel()
        Pm = P[:, m]
        return Pm.conj().T @ h @ Pm, Pm.conj().T @ Pm, cidx

    def lib_ham(self, mps, qn_mask, ltensor, rtensor, cmo, omega):
        if isinstance(ltensor, list):
            return sum(asnumpy(gsmod.get_ham_direct(mps, qn_mask, l, r, c, omega)) for l, r, c in zip(ltensor, rtensor, cmo))
        return asnumpy(gsmod.get_ham_direct(mps, qn_mask, ltensor, rtensor, cmo, omega))

    def lib_hop(self, mps, qn_mask, ltensor, rtensor, cmo, omega):
        if isinstance(ltensor, list):
            exprs = [gsmod.get_ham_iterative(mps, qn_mask, l, r, [asxp(x) for x in c], omega)[1]
                     for l, r, c in zip(ltensor, rtensor, cmo)]
        else:
            exprs = [gsmod.get_ham_iterative(mps, qn_mask, ltensor, rtensor, [asxp(x) for x in cmo], omega)[1]]

        def hop(x):
            cs = asxp(cvec2cmat(x, qn_mask))
            return sum(asnumpy(e(cs))[qn_mask] for e in exprs)
        return hop

    def check(self, mps, qn_mask, ltensor, rtensor, cmo, omega):
        qn_mask = np.asarray(qn_mask)
        method = mps.optimize_config.method
        tag = f"{method}:{'omega' if omega is not None else 'plain'}:{'stacked' if isinstance(ltensor, list) else 'single'}"
        want, gram, cidx = self.dense_heff(mps, qn_mask, omega)
        sc = self.scale ** (2 if omega is not None else 1)
        tol = 1e-9 * sc * max(1.0, np.sqrt(len(want)))
        self.n_checked += 1
        d = absmax(gram - np.eye(len(gram)))
        if d > 1e-7:
            self.viol(f"heff:environment-not-isometric:{method}", dict(cidx=cidx, err=d))
        ham = np.asarray(self.lib_ham(mps, qn_mask, ltensor, rtensor, cmo, omega))
        if ham.shape != want.shape:
            self.viol(f"heff:direct:shape:{tag}", dict(cidx=cidx, got=list(ham.shape), want=list(want.shape)))
            return
        d = absmax(ham - want)
        if d > tol:
            self.viol(f"heff:direct-vs-dense-compression:{tag}", dict(cidx=cidx, err=d, tol=tol))
            return
        # iterative operator
        hop = self.lib_hop(mps, qn_mask, ltensor, rtensor, cmo, omega)
        x = self.rng.normal(size=len(want))
        if np.iscomplexobj(want):
            x = x + 1j * self.rng.normal(size=len(want))
        d = absmax(hop(x) - want @ x)
        if d > tol * 10 * max(1.0, np.linalg.norm(x)):
            self.viol(f"heff:iterative-hop-vs-dense-compression:{tag}", dict(cidx=cidx, err=d, tol=tol))
            return
        # Davidson on this micro problem
        nroots = mps.optimize_config.nroots
        # (the solver is given a start close to the answer, as in a sweep; tiny multi-root problems are left out:
        #  for dimensions <= its subspace limit the Davidson code returns duplicate roots, which optimize_mps
        #  cannot reach because it diagonalises such problems directly)
        if self.test_davidson and len(want) >= 30:
            inverse = mps.optimize_config.inverse
            w, vv = np.linalg.eigh(want * inverse)
            guess = []
            for k in range(nroots):
                g = vv[:, k] + 0.3 * self.rng.normal(size=len(want)) / np.sqrt(len(want))
                guess.append(g / np.linalg.norm(g))
            algo_bk = mps.optimize_config.algo
            mps.optimize_config.algo = "davidson"
            L.seed_legacy(self.rng)
            try:
                cm = [[asxp(x) for x in c] for c in cmo] if isinstance(ltensor, list) else [asxp(x) for x in cmo]
                e, c = _ORIG["eigh_iterative"](mps, qn_mask, ltensor, rtensor, cm, omega, guess)
            except Exception as ex:
                self.viol(f"eigh_iterative:davidson:raises:{type(ex).__name__}:{tag}", dict(cidx=cidx, error=repr(ex)[:300], nroots=nroots))
                return
            finally:
                mps.optimize_config.algo = algo_bk
            e = np.atleast_1d(np.asarray(e, dtype=float))
            if np.any(e < w[:len(e)] - 1e-8 * sc):
                self.viol(f"eigh_iterative:davidson:below-exact:{tag}", dict(cidx=cidx, e=e.tolist(), exact=w[:len(e)].tolist()))
            elif np.any(np.abs(e - w[:len(e)]) > 1e-6 * sc):
                # an iterative solver that stops early (100 cycles, poor preconditioner, (H-omega)^2) is still
                # variational: counted, not a violation.  Convergence is judged at the level of whole runs (F).
                self.run.count("H:davidson-micro-not-converged")
            self.run.count("H:davidson-micro-checked")

    # -- wrappers
    def eigh_direct(self, mps, qn_mask, ltensor, rtensor, cmo, omega):
        if self.rng.random() < self.rate:
            self.check(mps, qn_mask, ltensor, rtensor, cmo, omega)
        return _ORIG["eigh_direct"](mps, qn_mask, ltensor, rtensor, cmo, omega)

    def eigh_iterative(self, mps, qn_mask, ltensor, rtensor, cmo, omega, cguess):
        e, c = _ORIG["eigh_iterative"](mps, qn_mask, ltensor, rtensor, cmo, omega, cguess)
        self.n_dav_natural += 1
        qm = np.asarray(qn_mask)
        if qm.sum() <= 1200 and self.rng.random() < max(self.rate, 0.5):
            want, gram, cidx = self.dense_heff(mps, qm, omega)
            sc = self.scale ** (2 if omega is not None else 1)
            w = np.linalg.eigvalsh(want * mps.optimize_config.inverse)
            ee = np.atleast_1d(np.asarray(e, dtype=float))
            tag = f"{mps.optimize_config.method}:{'omega' if omega is not None else 'plain'}"
            # only the bound is checked here: an iterative solver that stops early is still variational
            if np.any(ee < w[:len(ee)] - 1e-8 * sc):
                self.viol(f"eigh_iterative:in-sweep:below-exact:{tag}", dict(cidx=cidx, e=ee.tolist(), exact=w[:len(ee)].tolist()))
            elif np.any(np.abs(ee - w[:len(ee)]) > 1e-6 * sc):
                self.run.count("H:davidson-in-sweep-not-converged")
            self.run.count("H:davidson-in-sweep-checked")
        return e, c


_ORIG = {"eigh_direct": gsmod.eigh_direct, "eigh_iterative": gsmod.eigh_iterative}


class probing:
    def __init__(self, probe):
        self.probe = probe

    def __enter__(self):
        if self.probe is not None:
            gsmod.eigh_direct = self.probe.eigh_direct
            gsmod.eigh_iterative = self.probe.eigh_iterative
        return self.probe

    def __exit__(self, *a):
        gsmod.eigh_direct = _ORIG["eigh_direct"]
        gsmod.eigh_iterative = _ORIG["eigh_iterative"]
        return False


# ======================================================================================= chain case
def gen_procedure(rng, mfull, nroots, full):
    nsw = int(rng.integers(2, 5))
    if full:
        ms = [int(mfull)] * (nsw + 2)
        pcs = [float(rng.choice([0, 0.2, 0.5])) for _ in range(nsw - 1)] + [0.0, 0.0, 0.0]
    else:
        lo = max(1, nroots)
        hi = max(lo + 1, mfull)
        base = int(rng.integers(lo, hi + 1))
        ms = [max(lo, int(base * rng.choice([0.5, 1, 1, 2]))) for _ in range(nsw + 1)]
        pcs = [float(rng.choice([0, 0, 0.2, 0.5, 0.8])) for _ in range(nsw)] + [0.0]
    return [[m, p] for m, p in zip(ms, pcs)]


def order_of(model, tm):
    dof2idx = {tuple(s.basis().dofs): k for k, s in enumerate(tm.sites)}
    return [dof2idx[tuple(b.dofs)] for b in model.basis]


def run_chain_case(run, rng, kind, big=False, force=None):
    force = force or {}
    tm = gen_chain_model(rng, kind, big)
    if kind in ("spin", "spin-u1", "eph") and force.get("complex", bool(rng.random() < 0.35)):
        tm = L.complexify(tm, rng)       # complex Hermitian Hamiltonian (chain only: TTNO takes real operators)
    run.count(f"chain:complex-hamiltonian={bool(tm.extra.get('complex_hopping'))}")
    n = len(tm.sites)
    nroots = force.get("nroots", int(rng.choice([1, 1, 2, 3, 4])))
    qntot, sdim = pick_sector(tm, rng, max(3, nroots + 2))
    if qntot is None:
        run.count("chain:rejected:no-sector")
        return None
    method = force.get("method", str(rng.choice(["1site", "2site"])))
    algo = force.get("algo", str(rng.choice(["direct", "davidson"])))
    use_omega = force.get("omega", bool(rng.random() < 0.2))
    inverse = -1.0 if (not use_omega and rng.random() < 0.1) else 1.0
    ofs = None
    if force.get("ofs", method == "2site" and nroots == 1 and not use_omega and rng.random() < 0.3):
        ofs = [OFS.ofs_s, OFS.ofs_d, OFS.ofs_ds][int(rng.integers(0, 3))]
    stacked = bool(ofs is None and not use_omega and rng.random() < 0.25)
    mfull = full_bond(tm.dims)
    full = force.get("full", bool(rng.random() < 0.5))
    if big:
        mfull_used = int(tm.dim) if full else force.get("M", 16)
        procedure = [[mfull_used, 0.3], [mfull_used, 0.0], [mfull_used, 0.0]]
    else:
        # "full": the bond limit is the dimension of the whole space, certainly >= every exact rank, and the
        # start state is drawn with the same limit so that every bond space is complete
        procedure = gen_procedure(rng, int(tm.dim) if full else mfull, nroots, full)

    h = tm.dense_h()
    # the operator handed to the optimiser is not always the plain `Mpo(model)`: constant offset
    off = float(np.round(rng.uniform(-1.5, 1.5), 3)) if (not stacked and rng.random() < 0.3) else 0.0
    if off != 0.0:
        h = h - off * np.eye(len(h))
    run.count(f"chain:mpo-with-offset={off != 0.0}")
    mask = tm.sector_mask(qntot)
    hs = h[np.ix_(mask, mask)]
    w, v = np.linalg.eigh(hs)
    scale = max(1.0, absmax(h))
    omega = None
    if use_omega:
        # between two eigenvalues, not equidistant
        k = int(rng.integers(0, len(w)))
        omega = float(w[k] + (rng.uniform(-0.3, 0.3)) * (w[min(k + 1, len(w) - 1)] - w[max(k - 1, 0)] + 0.1))
    if omega is not None:
        bound = np.sort((w - omega) ** 2)
        sc = scale ** 2
    elif inverse < 0:
        bound = np.sort(-w)
        sc = scale
    else:
        bound = w
        sc = scale

    model = tm.fresh_model()
    ops = tm.ops()
    if stacked and len(ops) >= 2:
        k = int(rng.integers(2, min(4, len(ops)) + 1))
        groups = split_terms(rng, ops, k)
        mpo = StackedMpo([Mpo(model, terms=g) for g in groups])
    else:
        stacked = False
        mpo = Mpo(model, offset=Quantity(off)) if off != 0.0 else Mpo(model)
    if full or big:
        m0 = procedure[0][0]
    else:
        m0 = int(rng.choice([max(2, nroots), mfull, 2 * mfull]))
    mps = L.random_mps(model, rng, qntot, m0)
    if mps is None:
        run.count("chain:rejected:Mps.random")
        return None
    if tm.extra.get("complex_hopping") and rng.random() < 0.5:
        mps = mps.to_complex()          # the other half starts from a real guess: the optimiser has to promote it
    if rng.random() < 0.5:
        mps.ensure_left_canonical()
    else:
        mps.ensure_right_canonical()
    # restart-like guesses: something added to / applied on a canonical state.  The centre flags (qnidx, to_right) then still
    # look like those of a canonical state although the tensors are no longer isometric
    guess_kind = "canonical"
    if ofs is None and rng.random() < 0.35:
        noise = L.random_mps(model, rng, qntot, max(2, min(4, m0)))
        if noise is not None:
            if tm.extra.get("complex_hopping"):
                noise = noise.to_complex()
            try:
                if rng.random() < 0.5:
                    mps = noise.scale(0.3).add(mps)          # flags of the second operand
                    guess_kind = "noise+canonical"
                else:
                    mps = mps.add(noise.scale(0.3))
                    guess_kind = "canonical+noise"
                mps.optimize_config = mps.optimize_config.copy() if hasattr(mps.optimize_config, "copy") else mps.optimize_config
            except Exception:  # noqa
                guess_kind = "canonical"
    run.count(f"chain:guess={guess_kind}")
    if ofs is not None:
        procedure = [[CompressConfig(CompressCriteria.fixed, max_bonddim=m, ofs=ofs, ofs_swap_jw=False), p] for m, p in procedure]
    mps.optimize_config.procedure = procedure
    mps.optimize_config.method = method
    mps.optimize_config.algo = algo
    mps.optimize_config.nroots = nroots
    mps.optimize_config.inverse = inverse
    cfg = dict(kind=kind, big=big, method=method, algo=algo, nroots=nroots, omega=omega, inverse=inverse,
               ofs=None if ofs is None else ofs.name, stacked=stacked, m0=m0, full=full,
               procedure=[[p[0] if isinstance(p[0], int) else p[0].bond_dim_max_value, p[1]] for p in procedure],
               qntot=qntot.tolist(), sector_dim=int(sdim), mpo_offset=off)
    replay = dict(model=tm.describe(), cfg=cfg, exact=w[:6].tolist())
    for k_, v_ in cfg.items():
        if k_ in ("kind", "method", "algo", "nroots", "inverse", "ofs", "stacked", "full", "big"):
            run.count(f"chain:{k_}={v_}")
    run.count(f"chain:omega={omega is not None}")

    probe = None
    if ofs is None:
        probe = HeffProbe(run, rng, h, replay, rate=(0.08 if big else 0.25), test_davidson=not big)
    L.seed_legacy(rng)
    try:
        with probing(probe):
            energies, res = optimize_mps(mps, mpo, omega=omega)
    except Exception as e:
        import traceback
        tb = traceback.extract_tb(e.__traceback__)
        frames = [f"{fr.name}:{(fr.line or '')[:60]}" for fr in tb[-3:]]
        if ofs is not None and any(fr.name == "try_swap_site" for fr in tb):
            run.count("chain:rejected:ofs-swap-raises(C17 findings)")
            return None
        tagm = f"{method}:nroots={'1' if nroots == 1 else '>1'}:{'omega' if omega is not None else 'plain'}"
        run.violation(f"optimize_mps:raises:{type(e).__name__}:{tagm}", dict(replay, error=repr(e)[:300], frames=frames))
        return None
    if probe is not None:
        run.count("H:micro-iterations-checked", probe.n_checked)
        run.count("H:davidson-natural-calls", probe.n_dav_natural)

    tagc = f"{method}:{algo}:nroots={'1' if nroots == 1 else '>1'}:{'omega' if omega is not None else ('inverse' if inverse < 0 else 'plain')}" \
           + (":ofs" if ofs is not None else "") + (":stacked" if stacked else "")
    # ---- V
    tolv = 1e-8 * sc
    rows = [np.atleast_1d(np.asarray(e, dtype=float)) for e in energies]
    for isw, row in enumerate(rows):
        if len(row) > len(bound):
            run.violation(f"optimize_mps:more-roots-than-sector:{tagc}", dict(replay, sweep=isw, row=row.tolist()))
            break
        if np.any(row < bound[:len(row)] - tolv):
            run.violation(f"optimize_mps:energy-below-exact:{tagc}",
                          dict(replay, sweep=isw, reported=row.tolist(), exact=bound[:len(row)].tolist()))
            break
        if nroots > 1 and np.any(np.diff(row) < -tolv):
            run.violation(f"optimize_mps:roots-not-ascending:{tagc}", dict(replay, sweep=isw, reported=row.tolist()))
            break
    # ---- S
    states = res if isinstance(res, list) else [res]
    if nroots > 1 and (not isinstance(res, list) or len(res) != min(nroots, len(rows[-1]))):
        run.violation(f"optimize_mps:number-of-returned-states:{tagc}", dict(replay, got=len(states)))
    e_states = []
    for j, st in enumerate(states):
        order = order_of(st.model, tm)
        Pm = L.perm_matrix(tm.dims, order)
        hcur = Pm @ h @ Pm.T
        mcur = tm.sector_mask(qntot, order)
        psi = np.asarray(st.todense()).ravel()
        nrm = float(np.linalg.norm(psi))
        if abs(nrm - 1) > 1e-8 or abs(abs(st.coeff) - 1) > 1e-8:
            run.violation(f"optimize_mps:returned-state-norm:{tagc}", dict(replay, root=j, norm=nrm, coeff=complex(st.coeff).real))
            continue
        leak = absmax(psi[~mcur])
        if leak > 1e-9 or np.ravel(st.qntot).tolist() != qntot.tolist():
            run.violation(f"optimize_mps:returned-state-sector:{tagc}", dict(replay, root=j, leak=leak, qntot=np.ravel(st.qntot).tolist()))
            continue
        e_states.append(float(np.real(psi.conj() @ hcur @ psi)))
        if order != list(range(n)):
            run.count("chain:ofs-reordered")
    # ---- F
    if full and big and not irreducible(hs):
        run.count("F:skipped:reducible-sector-with-iterative-solver")
    elif full and len(e_states) == len(states):
        last = rows[-1]
        tolf = (1e-6 if algo == "davidson" else 1e-7) * sc
        # one-site sweeps cannot enlarge a bond space: from a start whose Schmidt ranks are below the sector's
        # they converge only to the sweep-to-sweep tolerance e_rtol; exactness is claimed for two-site sweeps
        if method == "2site":
            if np.any(np.abs(last - bound[:len(last)]) > tolf):
                run.violation(f"optimize_mps:full-bond:energy-not-exact:{tagc}",
                              dict(replay, reported=last.tolist(), exact=bound[:len(last)].tolist()))
            run.count("F:energy-checked")
        # returned states' energies equal the reported ones (when the run has converged to itself)
        conv = len(rows) >= 2 and np.all(np.abs(rows[-1] - rows[-2]) < 1e-9 * sc)
        if conv and omega is None:
            es = np.array(e_states) * inverse
            if np.any(np.abs(es - last[:len(es)]) > 10 * tolf):
                run.violation(f"optimize_mps:full-bond:state-energy-differs-from-reported:{tagc}",
                              dict(replay, state_energies=es.tolist(), reported=last.tolist()))
            if ofs is None and not stacked:
                ex = np.array([float(np.real(st.expectation(mpo))) for st in states]) * inverse
                if np.any(np.abs(ex - es) > 1e-8 * sc):
                    run.violation(f"optimize_mps:expectation-vs-dense:{tagc}", dict(replay, expectation=ex.tolist(), dense=es.tolist()))
            run.count("F:state-energy-checked")
        if conv and omega is not None:
            # reported value is (E-omega)^2 of the closest eigenvalue; the state must be that eigenstate
            k = np.argsort((w - omega) ** 2)
            gaps = np.diff(np.sort((w - omega) ** 2))
            for j, es in enumerate(e_states):
                if j < len(gaps) and gaps[j] > 1e-3 * sc and (j == 0 or gaps[j - 1] > 1e-3 * sc):
                    if abs(es - w[k[j]]) > 1e-5 * scale * max(1.0, 1.0 / np.sqrt(max(gaps[j], 1e-12))):
                        run.violation(f"optimize_mps:omega:state-not-closest-eigenstate:{tagc}",
                                      dict(replay, root=j, state_energy=es, target=float(w[k[j]]), omega=omega))
            run.count("F:omega-state-checked")
    run.sample(dict(cfg=cfg, dims=tm.dims, energies_last=rows[-1].tolist(), exact=bound[:len(rows[-1])].tolist()))
    return (kind, tuple(tm.dims), method, algo, nroots, omega is not None, inverse, cfg["ofs"], stacked, full, tuple(map(tuple, cfg["procedure"])))


# ======================================================================================= tree
def gen_tree(rng, basis_list):
    """random rooted tree; every node holds 1-2 basis sets"""
    pool = list(range(len(basis_list)))
    rng.shuffle(pool)
    groups = []
    i = 0
    while i < len(pool):
        k = 2 if (rng.random() < 0.3 and i + 1 < len(pool)) else 1
        groups.append(pool[i:i + k])
        i += k
    nodes = [TreeNodeBasis([basis_list[j] for j in g]) for g in groups]
    parents = [-1]
    for k in range(1, len(nodes)):
        # at most 3 children per node keeps the tensors small
        cand = [p for p in range(k) if len(nodes[p].children) < 3]
        p = int(rng.choice(cand))
        nodes[p].add_child(nodes[k])
        parents.append(p)
    return BasisTree(nodes[0]), groups, parents


def run_tree_case(run, rng, kind):
    tm = gen_chain_model(rng, kind)
    n = len(tm.sites)
    if n < 3 or tm.dim > 600:
        run.count("tree:rejected:size")
        return None
    qntot, sdim = pick_sector(tm, rng, 3)
    if qntot is None:
        return None
    basis_list = [s.basis() for s in tm.sites]
    tree, groups, parents = gen_tree(rng, basis_list)
    if len(groups) < 2:
        return None
    h = tm.dense_h()
    mask = tm.sector_mask(qntot)
    w = np.linalg.eigvalsh(h[np.ix_(mask, mask)])
    scale = max(1.0, absmax(h))
    algo = str(rng.choice(["davidson", "direct", "arpack"])) if kind != "spin-u1-collective" else str(rng.choice(["arpack", "arpack", "davidson"]))
    full = bool(rng.random() < 0.6)
    mfull = int(tm.dim)
    if full:
        ms = [mfull] * 4
        pcs = [float(rng.choice([0, 0.3])), 0.0, 0.0, 0.0]
    else:
        base = int(rng.integers(1, 5))
        ms = [max(1, int(base * rng.choice([1, 1, 2]))) for _ in range(3)]
        pcs = [float(rng.choice([0, 0.3, 0.6])), float(rng.choice([0, 0.2])), 0.0]
    procedure = [[m, p] for m, p in zip(ms, pcs)]
    cfg = dict(kind=kind, algo=algo, full=full, procedure=procedure, qntot=qntot.tolist(), groups=groups, parents=parents)
    replay = dict(model=tm.describe(), cfg=cfg, exact=w[:4].tolist())
    run.count(f"tree:kind={kind}"), run.count(f"tree:algo={algo}"), run.count(f"tree:full={full}")
    run.count(f"tree:multi-basis-node={any(len(g) > 1 for g in groups)}")
    L.seed_legacy(rng)
    qn_arg = int(qntot[0]) if len(qntot) == 1 else qntot
    ttns = None
    for _ in range(6):
        try:
            with np.errstate(all="raise"):
                ttns = TTNS.random(tree, qn_arg, mfull if full else int(rng.choice([2, 4, mfull])))
            break
        except (FloatingPointError, ZeroDivisionError, ValueError, AssertionError):
            L.seed_legacy(rng)
            ttns = None
    if ttns is None:
        run.count("tree:rejected:TTNS.random")
        return None
    # start states the optimiser is also handed in practice: genuinely complex ones (time-evolved states, a + i b) and
    # sums / products that are NOT canonical (optimize_ttns does not canonicalise its input)
    start = "random"
    r_start = rng.random()
    if r_start < 0.5:
        t2 = None
        for _ in range(4):
            try:
                with np.errstate(all="raise"):
                    t2 = TTNS.random(tree, qn_arg, mfull if full else int(rng.choice([2, 4, mfull])))
                break
            except (FloatingPointError, ZeroDivisionError, ValueError, AssertionError):
                L.seed_legacy(rng)
                t2 = None
        if t2 is not None:
            try:
                if r_start < 0.3:
                    ttns = ttns.add(t2.scale(1j))
                    ttns.canonicalise()
                    start = "complex:canonical"
                else:
                    ttns = ttns.add(t2.scale(1j) if rng.random() < 0.3 else t2)
                    start = "sum:not-canonical"
            except Exception as e:  # noqa -- arithmetic is C11's business
                run.count(f"tree:start-state-rejected:{type(e).__name__}")
                return None
    cfg["start"] = start
    run.count(f"tree:start={start}")
    ttno = TTNO(tree, tm.ops())
    ttns.optimize_config.algo = algo
    micro = []
    local_fired = []
    orig = tngs.optimize_2site
    orig_eigh = tngs.eigh_iterative

    def rec(snode, ttns_, ttno_, ttne_):
        e, c = orig(snode, ttns_, ttno_, ttne_)
        micro.append(float(np.real(e)))
        return e, c

    def eigh_checked(hop, hdiag, cguess, algo_):
        e, c = orig_eigh(hop, hdiag, cguess, algo_)
        nloc = len(hdiag)
        if nloc <= 48:
            a = np.array([np.asarray(hop(np.eye(nloc)[i])) for i in range(nloc)]).T
            asym = absmax(a - a.conj().T)
            if np.iscomplexobj(a) and nloc >= 1:
                # the local operator acts on complex trial vectors: it must be complex-linear
                kcol = nloc // 2
                lin = absmax(np.asarray(hop(1j * np.eye(nloc)[kcol])) - 1j * a[:, kcol])
                if lin > 1e-9 * scale and not local_fired:
                    run.violation("optimize_ttns:local-operator-not-complex-linear", dict(replay, dim=nloc, deviation=lin))
                    local_fired.append("nonlinear")
            if asym > 1e-9 * scale:
                if not local_fired:
                    run.violation(f"optimize_ttns:local-operator-not-hermitian", dict(replay, dim=nloc, asym=asym))
                local_fired.append("asym")
            else:
                wl = np.linalg.eigvalsh((a + a.conj().T) / 2)
                cn = float(np.linalg.norm(c))
                if float(np.real(e)) < wl[0] - 1e-8 * scale or abs(cn - 1) > 1e-6:
                    # value below the lowest eigenvalue of the local matrix, or an "eigenvector" that is not normalised
                    # (the optimiser stores it as the new two-site tensor)
                    if not local_fired:
                        sig = DAV_SIG if (algo_ == "davidson" and nloc <= 16) else \
                            f"optimize_ttns:{algo_}:local-problem(dim={'<=16' if nloc <= 16 else '>16'}):wrong-eigenpair"
                        run.violation(sig, dict(replay, dim=nloc, returned=float(np.real(e)), lowest=float(wl[0]),
                                                matrix=tolist(a), guess=tolist(np.asarray(cguess)), vector_norm=cn))
                    local_fired.append("eigenpair")
                elif abs(float(np.real(e)) - wl[0]) > 1e-6 * scale:
                    run.count("tree:local-solver-not-lowest(iterative, allowed)")
            run.count("T:local-problems-checked")
        return e, c
    tngs.optimize_2site = rec
    tngs.eigh_iterative = eigh_checked
    try:
        e_list = tngs.optimize_ttns(ttns, ttno, procedure)
    except Exception as e:
        import traceback
        if local_fired:
            run.count("tree:aborted-after-local-solver-finding:" + type(e).__name__)
            return None
        if algo == "arpack" and isinstance(e, TypeError) and "k >= N" in str(e):
            # SciPy's Lanczos refuses 1- and 2-dimensional local problems: a documented restriction of that solver
            run.count("tree:rejected:arpack-local-dimension<=k")
            return None
        if algo == "arpack" and type(e).__name__ == "ArpackError" and "Starting vector is zero" in str(e):
            # ARPACK stops when H applied to the start vector vanishes (exact eigenvector with eigenvalue 0, e.g.
            # the vacuum sector): an explicit refusal of that solver, counted
            run.count("tree:rejected:arpack-start-vector-in-null-space")
            return None
        tb = traceback.extract_tb(e.__traceback__)
        frames = [f"{fr.name}:{(fr.line or '')[:60]}" for fr in tb[-3:]]
        if isinstance(e, ValueError) and "cannot reshape" in str(e) and tb[-1].name == "update_2site" and tm.qn_size > 1:
            run.violation("optimize_ttns:update_2site:reshape-fails:multi-component-labels",
                          dict(replay, error=repr(e)[:300], frames=frames))
            return None
        run.violation(f"optimize_ttns:raises:{type(e).__name__}:{algo}", dict(replay, error=repr(e)[:300], frames=frames))
        return None
    finally:
        tngs.optimize_2site = orig
        tngs.eigh_iterative = orig_eigh
    tag = f"{algo}"
    tolv = 1e-8 * scale
    # every local energy is variational only when every local problem sees isometric environments: for a start state that is
    # not canonical only the energies the optimiser REPORTS (one per sweep) are
    allE = np.array(list(map(float, e_list)) + (micro if start != "sum:not-canonical" else []))
    if np.any(allE < w[0] - tolv) and not local_fired:
        run.violation(f"optimize_ttns:energy-below-exact:{tag}", dict(replay, lowest_reported=float(allE.min()), exact=float(w[0])))
    psi = np.asarray(ttns.todense(basis_list)).ravel()
    nrm = float(np.linalg.norm(psi))
    if not full:
        # optimize_ttns returns energies only; the state it leaves behind is truncated without being rescaled
        # (norm < 1), so only the sector is checked here
        if nrm < 1e-6 or absmax(psi[~mask]) > 1e-9 * max(nrm, 1e-300) + 1e-12:
            run.violation(f"optimize_ttns:state-sector:{tag}", dict(replay, norm=nrm, leak=absmax(psi[~mask])))
    elif abs(nrm - 1) > 1e-8:
        run.violation(f"optimize_ttns:state-norm:{tag}", dict(replay, norm=nrm))
    else:
        leak = absmax(psi[~mask])
        if leak > 1e-9:
            run.violation(f"optimize_ttns:state-sector:{tag}", dict(replay, leak=leak))
        est = float(np.real(np.vdot(psi, h @ psi)))
        if full and (local_fired or (algo != "direct" and not irreducible(h[np.ix_(mask, mask)]))):
            run.count("T:full-check-skipped(local finding / reducible sector with iterative solver)")
        elif full:
            tolf = (1e-7 if algo == "direct" else 1e-6) * scale
            if abs(e_list[-1] - w[0]) > tolf:
                run.violation(f"optimize_ttns:full-bond:energy-not-exact:{tag}", dict(replay, reported=float(e_list[-1]), exact=float(w[0])))
            elif abs(est - e_list[-1]) > 10 * tolf:
                run.violation(f"optimize_ttns:full-bond:state-energy-differs-from-reported:{tag}",
                              dict(replay, state_energy=est, reported=float(e_list[-1])))
            try:
                ex = float(np.real(ttns.expectation(ttno)))
            except Exception as e:  # noqa
                run.violation(f"optimize_ttns:expectation:raises:{type(e).__name__}:qn_size={tm.qn_size}", dict(replay, error=repr(e)[:300]))
                ex = None
            if ex is not None and abs(ex - est) > 1e-8 * scale:
                run.violation(f"optimize_ttns:expectation-vs-dense:{tag}", dict(replay, expectation=ex, dense=est))
            run.count("T:full-checked")
    run.sample(dict(cfg=cfg, dims=tm.dims, e_last=float(e_list[-1]), exact=float(w[0])))
    return ("tree", kind, tuple(tm.dims), algo, full, tuple(map(tuple, groups)), tuple(parents))


def davidson_probe(run):
    """solver-level reproduction of the finding that tn.gs reaches with tiny local problems: the Davidson code
    (single Gram-Schmidt pass) returns a value BELOW the lowest eigenvalue of a 4x4 diagonal matrix."""
    d = np.array([-0.5, 0.4, 2.0, -1.0])
    g = np.array([0.4543694673976518, -0.6247580176717713, -0.28398091712353235, -0.5679618342470647])
    try:
        e, c = tngs.eigh_iterative(lambda x: d * x, d.copy(), g.copy(), "davidson")
    except Exception as ex:
        run.count("tree:davidson-probe-raises:" + type(ex).__name__)
        return
    if float(np.real(e)) < d.min() - 1e-8 or abs(float(np.linalg.norm(c)) - 1) > 1e-6:
        run.violation(DAV_SIG,
                      dict(where="tn.gs.eigh_iterative(hop, hdiag, cguess, 'davidson') on a 4x4 diagonal local problem "
                                 "(the tree optimiser has no direct fallback for small problems; optimize_ttns reaches this, "
                                 "e.g. random trees over the 2-species electron-phonon model report micro-iteration energies "
                                 "0.01-0.02 below the exact ground energy)",
                           matrix_diagonal=d.tolist(), guess=g.tolist(), returned=float(np.real(e)), lowest=float(d.min()),
                           vector_norm=float(np.linalg.norm(c))))
    run.count("T:davidson-probe")


# ======================================================================================= driver
def search(run, rng, quick):
    t0 = time.time()
    distinct = set()
    evals = 0
    kinds = ["eph", "spin-u1", "qc", "spin", "eph-2qn", "eph", "qc", "spin-u1", "spin-u1-collective"]
    nchain = 160 if quick else 1200
    for it in range(nchain):
        key = run_chain_case(run, rng, kinds[it % len(kinds)])
        evals += 1
        if key is not None:
            distinct.add(key)
    # systems large enough for the iterative eigensolver to be chosen by single_sweep itself
    bigs = [("spin-u1", dict(method="2site", algo="davidson", nroots=1, omega=False, ofs=False, M=16, full=False)),
            ("eph", dict(method="2site", algo="davidson", nroots=2, omega=False, ofs=False, M=12, full=False)),
            ("spin-u1", dict(method="2site", algo="davidson", nroots=2, omega=False, ofs=False, full=True))]
    if not quick:
        bigs += [("spin-u1", dict(method="1site", algo="davidson", nroots=1, omega=False, ofs=False, M=32, full=False)),
                 ("qc", dict(method="2site", algo="davidson", nroots=1, omega=False, ofs=False, M=16, full=False)),
                 ("spin-u1", dict(method="2site", algo="davidson", nroots=3, omega=False, ofs=False, M=16, full=False)),
                 ("eph", dict(method="2site", algo="davidson", nroots=1, omega=True, ofs=False, M=12, full=False)),
                 ("spin-u1", dict(method="1site", algo="davidson", nroots=1, omega=False, ofs=False, full=True)),
                 ("qc", dict(method="2site", algo="davidson", nroots=2, omega=False, ofs=False, full=True)),
                 ("spin", dict(method="2site", algo="davidson", nroots=1, omega=False, ofs=False, M=16, full=False))] * 2
    for kind, force in bigs:
        key = run_chain_case(run, rng, kind, big=True, force=force)
        evals += 1
        if key is not None:
            distinct.add(key)
    davidson_probe(run)
    evals += 1
    ntree = 50 if quick else 400
    tkinds = ["spin-u1", "eph", "spin", "qc", "eph-2qn", "spin-u1-collective"]
    for it in range(ntree):
        key = run_tree_case(run, rng, tkinds[it % len(tkinds)])
        evals += 1
        if key is not None:
            distinct.add(key)
    run.cov["evaluations"] = run.cov.get("evaluations", 0) + evals
    run.cov["distinct_nontrivial"] = len(distinct)
    run.cov["rule"] = ("one evaluation = one optimize_mps / optimize_ttns run judged against exact diagonalisation; distinct = "
                       "different (model kind, local dimensions, method, solver, roots, omega, inverse, ofs, stacked, schedule / "
                       "tree shape); non-trivial = sector dimension >= 3 and >= nroots+2 and the optimiser returned")
    run.cov["wall_search_s"] = round(time.time() - t0, 1)
