"""C06 – conserved quantum numbers are never violated (L3 search).

Two oracles, both independent of the library's block machinery (lib_qn.py):
  sector : the dense object (own contraction of the site / node tensors) has no amplitude outside
           the sector `qntot`; the charge of a configuration is recomputed from basis.sigmaqn
           (states: sum q(s_i); operators: sum q(s_i)-q(s'_i); density operators: sum q(s_i)).
           |leak| <= 1e-10 * |psi|.
  labels : in the all-left reading L_j (= qn[j] for j <= qnidx, qntot-qn[j] for j > qnidx;
           trees: node.qn is the label of the bond to the parent, root label = qntot) every entry
           with |A[l,s,r]| > 1e-10*max|A| satisfies L_i[l]+q_i(s) = L_{i+1}[r]; L_0 = 0, L_n = qntot.
  charge : after applying an operator of charge q the stored qntot equals qntot+q (own arithmetic).
They are evaluated after every step of random operation histories: constructors, add, scale,
conj, copy, normalize, move_qnidx, canonicalise (both directions), compress (3 criteria),
operator application / contraction, conj_trans, DMRG (1-site, 2-site, several roots), every
EvolveMethod in real and imaginary time, the same for MpDm where defined, and for tree states
(TTNS constructors, TTNO application, add, scale, canonicalise, compress, DMRG, 4 evolution schemes).
Inside sweeping algorithms (compress, DMRG, TDVP-PS2, tree QR / truncation steps) the label
invariant is additionally evaluated after every local update through recording wrappers placed
around MatrixProduct._update_ms/_update_mps and TTNS.update_2site/compress_node/merge_to_* from
the harness process (no source change): a stale label that a later step would overwrite is seen.

Exceptions of the library are violations only where the property promises an object (constructors
in a non-empty sector: D15); elsewhere they are counted as `rejected:*`.
"""
import contextlib
import time

import numpy as np

import lib_qn as L

LEAK_REL = 1e-10
sampled = {}
SIG_D1 = "add:centres-differ:labels"
SIG_D2 = "conj_trans:charged:qntot-not-negated"
SIG_D15 = "Mps.random:dead-end-blocks"
SIG_D15_TREE = "TTNS.random:dead-end-blocks"


# ------------------------------------------------------------------------------------------
# judging helpers
# ------------------------------------------------------------------------------------------
def check_chain(mp, expect_qntot=None):
    """returns list of problem strings (empty = fine)"""
    probs = []
    try:
        qntot = np.asarray(mp.qntot).reshape(-1)
    except Exception:
        return ["qntot-unreadable"]
    if expect_qntot is not None and (len(qntot) != len(expect_qntot) or np.any(qntot != np.asarray(expect_qntot))):
        probs.append(f"qntot={qntot.tolist()}!=expected{list(expect_qntot)}")
    v, _ = L.chain_dense(mp)
    if not np.all(np.isfinite(v)):
        return probs + ["non-finite"]
    # leak relative to the sector that SHOULD hold
    save = mp.qntot
    target = np.asarray(expect_qntot if expect_qntot is not None else qntot).astype(int)
    try:
        mp.qntot = target
        leak, nrm = L.chain_sector_leak(mp)
    finally:
        mp.qntot = save
    if leak > LEAK_REL * max(nrm, 1e-300):
        probs.append(f"leak={leak:.3e}(norm {nrm:.3e})")
    lp = L.chain_label_problems(mp)
    if lp:
        probs.append("labels:" + ",".join(f"{s}:{w}" for s, w in lp[:3]))
    return probs


def check_tree(ttns, blist, k, expect_qntot=None, operator=False):
    probs = []
    qntot = np.asarray(ttns.root.qn).reshape(-1, k)[0]
    if np.asarray(ttns.root.qn).reshape(-1, k).shape[0] != 1:
        probs.append("root-label-count")
    if expect_qntot is not None and np.any(qntot != np.asarray(expect_qntot)):
        probs.append(f"qntot={qntot.tolist()}!=expected{list(expect_qntot)}")
    if not operator:
        d = L.tree_dense(ttns)
        if not np.all(np.isfinite(d)):
            return probs + ["non-finite"]
        target = expect_qntot if expect_qntot is not None else qntot
        leak, nrm = L.sector_leak(d, blist, k, target)
        if leak > LEAK_REL * max(nrm, 1e-300):
            probs.append(f"leak={leak:.3e}(norm {nrm:.3e})")
    lp = L.tree_label_problems(ttns, operator=operator)
    if lp:
        probs.append("labels:" + ",".join(f"{s}:{w}" for s, w in lp[:3]))
    return probs


def is_dead_end_error(e):
    """the two ways in which un-pruned dead-end blocks surface in Mps.random / TTNS.random: the last
    tensor is fully masked (0/0), or every block of an inner site is filtered out (empty concatenate)"""
    return isinstance(e, FloatingPointError) or (isinstance(e, ValueError) and "need at least one array to concatenate" in str(e))


def short(p):
    """problem list -> class for the signature (no numbers)"""
    tags = []
    for x in p:
        if x.startswith("leak"):
            tags.append("leak")
        elif x.startswith("labels"):
            tags.append("labels")
        elif x.startswith("qntot"):
            tags.append("qntot")
        else:
            tags.append(x)
    return "+".join(sorted(set(tags)))


@contextlib.contextmanager
def watch_local_updates(found):
    """recording wrappers (harness process only) around the two local-update routines used by the
    sweeping algorithms: after every local update the stored labels must describe the tensors.
    The first problem is appended to `found`."""
    from renormalizer.mps.mp import MatrixProduct
    from renormalizer.tn.tree import TTNS
    o1 = MatrixProduct._update_mps
    o2 = TTNS.update_2site
    o3 = TTNS.compress_node
    o4 = MatrixProduct._update_ms
    o5 = TTNS.merge_to_child
    o6 = TTNS.merge_to_parent

    def w1(self, *a, **kw):
        r = o1(self, *a, **kw)
        if not found:
            try:
                p = L.chain_label_problems(self)
            except Exception as e:
                p = [(-1, "label-check-error:" + type(e).__name__)]
            if p:
                found.append("labels:" + ",".join(f"{x}:{w}" for x, w in p[:3]))
        return r

    def w2(self, *a, **kw):
        r = o2(self, *a, **kw)
        if not found:
            try:
                p = L.tree_label_problems(self)
            except Exception as e:
                p = [(-1, "label-check-error:" + type(e).__name__)]
            if p:
                found.append("labels:" + ",".join(f"{x}:{w}" for x, w in p[:3]))
        return r

    def w3(self, *a, **kw):
        r = o3(self, *a, **kw)
        if not found:
            try:
                p = L.tree_label_problems(self)
            except Exception as e:
                p = [(-1, "label-check-error:" + type(e).__name__)]
            if p:
                found.append("labels:" + ",".join(f"{x}:{w}" for x, w in p[:3]))
        return r

    def w4(self, *a, **kw):
        r = o4(self, *a, **kw)
        if not found:
            try:
                p = L.chain_label_problems(self)
            except Exception as e:
                p = [(-1, "label-check-error:" + type(e).__name__)]
            if p:
                found.append("labels:" + ",".join(f"{x}:{w}" for x, w in p[:3]))
        return r

    def tree_wrapper(orig):
        def w(self, *a, **kw):
            r = orig(self, *a, **kw)
            if not found:
                try:
                    p = L.tree_label_problems(self)
                except Exception as e:
                    p = [(-1, "label-check-error:" + type(e).__name__)]
                if p:
                    found.append("labels:" + ",".join(f"{x}:{w_}" for x, w_ in p[:3]))
            return r
        return w

    MatrixProduct._update_mps = w1
    TTNS.update_2site = w2
    TTNS.compress_node = w3
    MatrixProduct._update_ms = w4
    # a QR step of a tree is decompose_* followed by merge_*: consistent again after the merge
    TTNS.merge_to_child = tree_wrapper(o5)
    TTNS.merge_to_parent = tree_wrapper(o6)
    try:
        yield
    finally:
        MatrixProduct._update_mps = o1
        TTNS.update_2site = o2
        TTNS.compress_node = o3
        MatrixProduct._update_ms = o4
        TTNS.merge_to_child = o5
        TTNS.merge_to_parent = o6


# ------------------------------------------------------------------------------------------
# chain generators
# ------------------------------------------------------------------------------------------
def gen_model(rng, quick, nmax=None, allow=None, nmin=2):
    from renormalizer import Model
    n = int(rng.integers(nmin, (nmax or (6 if quick else 7))))
    two = rng.random() < 0.3
    spec = L.random_spec(rng, n, two, allow=allow or ("e", "s", "s0", "v", "mv", "me", "e", "e"))
    basis, k = L.make_basis(spec)
    if np.prod([b.nbas for b in basis], dtype=np.int64) > 1500:
        return None
    return spec, basis, k, Model(basis, [])


def pick_sector(rng, basis, k):
    secs = L.reachable_sectors(basis, k)
    r = rng.random()
    if r < 0.2:
        return list(secs[-1])          # lexicographically largest: "everything occupied"-like
    if r < 0.3:
        q = L.config_qn(basis, k)
        return [int(x) for x in q.max(axis=0)] if tuple(q.max(axis=0)) in set(secs) else list(secs[-1])
    return list(secs[int(rng.integers(len(secs)))])


def try_random(run, rng, model, spec, sector, m_max, percent, report=True):
    """Mps.random; a FloatingPointError / non-finite result in a non-empty sector is D15."""
    from renormalizer import Mps
    seed = L.reseed(rng)
    try:
        mps = Mps.random(model, np.array(sector) if len(sector) > 1 or rng.random() < 0.5 else int(sector[0]), m_max, percent=percent)
    except Exception as e:
        if report:
            obj = dict(op="Mps.random", spec=L.jsonable(spec), sector=sector, m_max=L.jsonable(m_max), percent=percent,
                       numpy_seed=seed, error=f"{type(e).__name__}: {e}")
            if is_dead_end_error(e):
                run.violation(SIG_D15, obj)
            else:
                run.violation("Mps.random:raises:" + type(e).__name__, obj)
        return None
    v, _ = L.chain_dense(mps)
    if not np.all(np.isfinite(v)) or np.linalg.norm(v) == 0:
        if report:
            run.violation(SIG_D15 + ":non-finite", dict(op="Mps.random", spec=L.jsonable(spec), sector=sector, m_max=L.jsonable(m_max),
                                                        percent=percent, numpy_seed=seed))
        return None
    return mps


def random_state(run, rng, model, spec, basis, k, sector, tries=8):
    """a usable random state of the sector (retries silently after the first report)"""
    for t in range(tries):
        m_max = int(rng.integers(1, 7)) + (3 if t >= 3 else 0) + (20 if t >= 6 else 0)
        mps = try_random(run, rng, model, spec, sector, m_max, float(rng.choice([0, 0.5, 1.0])), report=(t == 0))
        if mps is not None:
            return mps, m_max
    return None, None


def random_condition(rng, basis, k, target_sector=None):
    """Hartree condition: integer states or (sometimes) a vector inside one charge class"""
    cond = {}
    for b in basis:
        if b.nbas == 1:
            continue
        st = int(rng.integers(b.nbas))
        if rng.random() < 0.25:
            sq = L.sigmaqn_of(b, k)
            same = [j for j in range(b.nbas) if np.array_equal(sq[j], sq[st])]
            vec = np.zeros(b.nbas)
            for j in same:
                vec[j] = float(np.round(rng.normal(), 2)) or 1.0
            cond[b.dofs[0]] = vec.tolist()
        else:
            cond[b.dofs[0]] = st
    return cond


def cond_sector(cond, basis, k):
    q = np.zeros(k, dtype=int)
    for b in basis:
        st = cond.get(b.dofs[0], 0)
        sq = L.sigmaqn_of(b, k)
        if isinstance(st, list):
            st = int(np.nonzero(st)[0][0])
        q = q + sq[st]
    return [int(x) for x in q]


# ------------------------------------------------------------------------------------------
# part A: constructors
# ------------------------------------------------------------------------------------------
def part_constructors(run, rng, ncases, quick, t_end):
    from renormalizer import Mps
    n_eval = 0
    distinct = set()
    for _ in range(ncases):
        try:
            if time.time() > t_end:
                run.count("ctor:time-guard")
                break
            g = gen_model(rng, quick, nmin=1 if rng.random() < 0.1 else 2)
            if g is None:
                continue
            spec, basis, k, model = g
            if len(spec) == 1:
                run.count("ctor:one-site-chain")
            what = ["random", "hartree", "ground"][int(rng.choice(3, p=[0.6, 0.3, 0.1]))]
            replay = dict(spec=L.jsonable(spec))
            if what == "random":
                sector = pick_sector(rng, basis, k)
                if rng.random() < 0.25:
                    m_max = [1] + [int(x) for x in rng.integers(1, 6, size=len(basis) - 1)] + [1]
                else:
                    m_max = int(rng.integers(1, 9))
                percent = float(rng.choice([0, 0.3, 1.0]))
                mps = try_random(run, rng, model, spec, sector, m_max, percent)
                n_eval += 1
                run.count("ctor:random:" + ("2comp" if k == 2 else "1comp"))
                if mps is None:
                    run.count("ctor:random:failed")
                    continue
                probs = check_chain(mps, sector)
                replay.update(op="Mps.random", sector=sector, m_max=L.jsonable(m_max), percent=percent)
                if probs:
                    run.violation("Mps.random:" + short(probs), dict(replay, problems=probs))
                    continue
                # truncate a copy (labels watched after every bond of the sweep)
                try:
                    w = mps.copy()
                    if rng.random() < 0.5:
                        o2 = try_random(run, rng, model, spec, sector, int(rng.integers(2, 7)), 1.0, report=False)
                        if o2 is not None:
                            w = w.add(o2.scale(0.7))
                    w = w.ensure_left_canonical() if rng.random() < 0.5 else w.ensure_right_canonical()
                    crit = ["fixed", "threshold", "both"][int(rng.integers(3))]
                    from renormalizer.utils.configs import CompressConfig, CompressCriteria
                    w.compress_config = CompressConfig(getattr(CompressCriteria, crit), threshold=float(10.0 ** rng.uniform(-3, -0.5)),
                                                       max_bonddim=int(rng.integers(1, 4)))
                    found = []
                    try:
                        with watch_local_updates(found):
                            w.compress()
                        probs = check_chain(w, sector)
                    except Exception as e:
                        run.count(f"rejected:ctor:compress-after-random:{type(e).__name__}")
                        probs = []
                    n_eval += 1
                    run.count("ctor:compress-after-random:" + crit)
                    if found:
                        run.violation("compress:local-update:labels", dict(replay, criteria=crit, problems=found))
                    elif probs:
                        run.violation("compress:" + short(probs), dict(replay, criteria=crit, problems=probs))
                except Exception as e:
                    run.count(f"rejected:ctor:compress-after-random-setup:{type(e).__name__}")
                q = L.config_qn(basis, k)
                if tuple(sector) == tuple(q.max(axis=0)):
                    run.count("ctor:random:all-occupied-sector")
                distinct.add(("random", len(spec), k, tuple(sector), str(m_max)))
                if not sampled.get("ctor"):
                    sampled["ctor"] = True
                    run.sample(dict(part="constructor", op="Mps.random", spec=L.jsonable(spec), sector=sector, m_max=L.jsonable(m_max),
                                    bond_dims=[int(x) for x in mps.bond_dims], verdict="in sector, labels valid"))
            elif what == "hartree":
                cond = random_condition(rng, basis, k)
                qn_idx = None if rng.random() < 0.4 else int(rng.integers(0, len(basis)))
                # malformed stream: a coefficient vector with a SMALL admixture of a local state of another charge.  The
                # constructor must refuse it (or at least not hand back a state that leaks out of its declared sector)
                if rng.random() < 0.3:
                    cands = [b for b in basis if b.nbas > 1 and len({tuple(x) for x in L.sigmaqn_of(b, k)}) > 1]
                    if cands:
                        b = cands[int(rng.integers(len(cands)))]
                        sq = L.sigmaqn_of(b, k)
                        main = int(rng.integers(b.nbas))
                        others = [j for j in range(b.nbas) if not np.array_equal(sq[j], sq[main])]
                        eps = float(rng.choice([3e-2, 3e-3, 1e-3, 1e-4, 1e-6]))
                        vec = np.zeros(b.nbas)
                        vec[main] = np.sqrt(1 - eps ** 2)
                        vec[others[int(rng.integers(len(others)))]] = eps
                        bad_cond = dict(cond)
                        bad_cond[b.dofs[0]] = vec.tolist()
                        n_eval += 1
                        try:
                            bad = Mps.hartree_product_state(model, dict(bad_cond), qn_idx=qn_idx)
                        except Exception as e:
                            run.count(f"ctor:hartree:cross-sector-vector:rejected:{type(e).__name__}")
                            bad = None
                        if bad is not None:
                            run.count("ctor:hartree:cross-sector-vector:accepted")
                            probs = check_chain(bad)      # against the sector the state itself declares
                            if probs:
                                run.violation("hartree_product_state:cross-sector-vector-accepted:" + short(probs),
                                              dict(replay, cond={str(a): bb for a, bb in bad_cond.items()}, qn_idx=qn_idx, admixture=eps,
                                                   problems=probs, what="a local coefficient vector mixing two charges was accepted; the state leaks out of its declared sector"))
                try:
                    mps = Mps.hartree_product_state(model, dict(cond), qn_idx=qn_idx)
                except Exception as e:
                    run.violation("hartree_product_state:raises:" + type(e).__name__,
                                  dict(replay, cond={str(a): b for a, b in cond.items()}, qn_idx=qn_idx, error=str(e)))
                    continue
                n_eval += 1
                run.count("ctor:hartree")
                sector = cond_sector(cond, basis, k)
                probs = check_chain(mps, sector)
                if qn_idx is not None and mps.qnidx != qn_idx:
                    probs.append("qnidx-ignored")
                if probs:
                    run.violation("hartree_product_state:" + short(probs),
                                  dict(replay, cond={str(a): b for a, b in cond.items()}, qn_idx=qn_idx, problems=probs))
                distinct.add(("hartree", len(spec), k, tuple(sector), qn_idx))
            else:
                if any(s[0] == "me" for s in spec):
                    run.count("ctor:ground:skip-me")
                    continue
                me = bool(rng.integers(2))
                try:
                    mps = Mps.ground_state(model, max_entangled=me, normalize=bool(rng.integers(2)))
                except Exception as e:
                    run.count(f"rejected:ground_state:{type(e).__name__}")
                    continue
                n_eval += 1
                run.count("ctor:ground")
                # every non-phonon site in its state 0; phonons carry no charge
                sector = [int(x) for x in sum(L.sigmaqn_of(b, k)[0] for b in basis if not b.is_phonon) + np.zeros(k, dtype=int)] \
                    if any(not b.is_phonon for b in basis) else [0] * k
                zero_sector = [0] * k
                # ground_state declares qntot = 0; that is only the truth when state 0 of every
                # electronic site has charge 0 (for BasisHalfSpin with max_entangled both states are
                # populated: only charge-free spins are consistent).  Judge only the consistent case.
                consistent = all((not b.is_spin or np.all(L.sigmaqn_of(b, k) == 0)) for b in basis) and sector == zero_sector
                if not consistent:
                    run.count("ctor:ground:model-outside-documented-use")
                    continue
                probs = check_chain(mps, zero_sector)
                if probs:
                    run.violation("ground_state:" + short(probs), dict(replay, max_entangled=me, problems=probs))
                distinct.add(("ground", len(spec), me))
        except Exception as e:  # set-up call of the library failed: counted, never propagated
            run.count("rejected:part_constructors:setup:" + type(e).__name__)
    return n_eval, len(distinct)


# ------------------------------------------------------------------------------------------
# part B: operators – construction, application, adjoint
# ------------------------------------------------------------------------------------------
def part_operators(run, rng, ncases, quick, t_end):
    from renormalizer import Mpo
    n_eval = 0
    distinct = set()
    for _ in range(ncases):
        try:
            if time.time() > t_end:
                run.count("op:time-guard")
                break
            g = gen_model(rng, quick, nmax=6)
            if g is None:
                continue
            spec, basis, k, model = g
            charged = rng.random() < 0.65
            if charged:
                ct = L.charged_terms(rng, spec, k, int(rng.integers(1, 4)))
                if ct is None:
                    continue
                terms, tdesc, q = ct
                if rng.random() < 0.4:      # multiply by a neutral factor elsewhere: charge unchanged
                    more, mdesc = L.conserving_terms(rng, spec, k, 1)
                    if more:
                        try:
                            prod = terms[0] * more[0]
                            terms = [prod] + terms[1:]
                            tdesc = tdesc + [["*first-term-times*"] + mdesc[0]]
                        except Exception:
                            pass
            else:
                terms, tdesc = L.conserving_terms(rng, spec, k, int(rng.integers(1, 5)), complex_factors=rng.random() < 0.3)
                q = [0] * k
                if not terms:
                    continue
            replay = dict(spec=L.jsonable(spec), terms=tdesc, q=q)
            algo = ["qr", "Hopcroft-Karp", "Hungarian"][int(rng.integers(3))]
            try:
                mpo = Mpo(model, terms, algo=algo)
            except Exception as e:
                run.count(f"rejected:Mpo:{type(e).__name__}")
                continue
            n_eval += 1
            run.count("op:mpo:" + ("charged" if any(q) else "neutral"))
            probs = check_chain(mpo, q)
            if probs:
                run.violation("Mpo.construct:" + short(probs), dict(replay, algo=algo, problems=probs))
                continue
            # adjoint
            try:
                adj = mpo.conj_trans()
                probs = check_chain(adj, [-x for x in q])
                if probs:
                    sig = SIG_D2 if any(q) and any(p.startswith("qntot") or p.startswith("labels") for p in probs) else "conj_trans:" + short(probs)
                    run.violation(sig, dict(replay, op="Mpo.conj_trans", problems=probs,
                                            stored_qntot=L.jsonable(np.asarray(adj.qntot)), expected_qntot=[-x for x in q]))
                run.count("op:conj_trans:" + ("charged" if any(q) else "neutral"))
            except Exception as e:
                run.count(f"rejected:conj_trans:{type(e).__name__}")
            # apply to a state
            sector = pick_sector(rng, basis, k)
            mps, m_max = random_state(run, rng, model, spec, basis, k, sector)
            if mps is None:
                run.count("op:no-state")
                continue
            mode = int(rng.integers(4))
            if mode == 1:
                mps.canonicalise()     # centre at 0: operator and state centres differ
            elif mode == 2:
                mps.move_qnidx(int(rng.integers(0, mps.site_num)))
            target = [int(a + b) for a, b in zip(sector, q)]
            try:
                new = mpo.apply(mps) if rng.random() < 0.7 else mpo @ mps
            except Exception as e:
                run.count(f"rejected:apply:{type(e).__name__}")
                continue
            probs = check_chain(new, target)
            replay2 = dict(replay, sector=sector, m_max=m_max, state_centre=int(mps.qnidx), target=target)
            if probs:
                run.violation("Mpo.apply:" + ("charged:" if any(q) else "neutral:") + short(probs), dict(replay2, problems=probs))
                continue
            if new.qnidx != mps.qnidx:
                run.violation("Mpo.apply:centre-moved", dict(replay2, got=int(new.qnidx)))
            distinct.add(("apply", len(spec), k, tuple(q), tuple(sector), mode))
            v, _ = L.chain_dense(new)
            if np.linalg.norm(v) < 1e-12:
                run.count("op:apply:annihilated")
                continue
            # canonicalise / compress of the shifted state keep it in the shifted sector
            try:
                w = new.copy()
                w.ensure_left_canonical() if rng.random() < 0.5 else w.ensure_right_canonical()
                probs = check_chain(w, target)
                if probs:
                    run.violation("Mpo.apply+canonicalise:" + short(probs), dict(replay2, problems=probs))
                    continue
                w.compress(temp_m_trunc=int(rng.integers(1, 4)))
                probs = check_chain(w, target)
                if probs:
                    run.violation("Mpo.apply+compress:" + short(probs), dict(replay2, problems=probs))
            except Exception as e:
                run.count(f"rejected:apply-then-canonicalise:{type(e).__name__}")
            # operator product: charges add
            if rng.random() < 0.3:
                try:
                    prod = mpo.apply(mpo)
                    probs = check_chain(prod, [2 * x for x in q])
                    if probs:
                        run.violation("Mpo.apply(Mpo):" + short(probs), dict(replay, problems=probs))
                    run.count("op:mpo@mpo")
                except Exception as e:
                    run.count(f"rejected:mpo@mpo:{type(e).__name__}")
        except Exception as e:  # set-up call of the library failed: counted, never propagated
            run.count("rejected:part_operators:setup:" + type(e).__name__)
    return n_eval, len(distinct)


# ------------------------------------------------------------------------------------------
# part C: operation histories on chains
# ------------------------------------------------------------------------------------------
OPS = ["add", "add_other_centre", "scale", "canon_l", "canon_r", "compress", "move", "conj", "copy", "normalize",
       "applyH", "contractH", "sub", "to_complex", "canonicalise_mid"]


def part_histories(run, rng, ncases, quick, t_end):
    from renormalizer import Mpo, Mps
    from renormalizer.utils.configs import CompressConfig, CompressCriteria
    n_eval = 0
    distinct = set()
    for _ in range(ncases):
        try:
            if time.time() > t_end:
                run.count("hist:time-guard")
                break
            g = gen_model(rng, quick, nmax=6)
            if g is None:
                continue
            spec, basis, k, model = g
            sector = pick_sector(rng, basis, k)
            cur, m0 = random_state(run, rng, model, spec, basis, k, sector)
            if cur is None:
                continue
            terms, tdesc = L.hermitian_conserving_terms(rng, spec, k, int(rng.integers(1, 4)))
            H = None
            if terms:
                try:
                    H = Mpo(model, terms)
                except Exception as e:
                    run.count(f"rejected:Mpo:{type(e).__name__}")
            hist = []
            replay = dict(spec=L.jsonable(spec), sector=sector, m_max0=m0, terms=tdesc, history=hist)
            nsteps = int(rng.integers(2, 9))
            for step in range(nsteps):
                op = OPS[int(rng.integers(len(OPS)))]
                info = dict(op=op, centre_before=int(cur.qnidx), to_right=bool(cur.to_right))
                sig_extra = ""
                try:
                    if op in ("add", "add_other_centre", "sub"):
                        other, m1 = random_state(run, rng, model, spec, basis, k, sector)
                        if other is None:
                            break
                        if op == "add_other_centre":
                            # bring the operands to different centres through public calls
                            if rng.random() < 0.5:
                                other.canonicalise()
                            else:
                                other.move_qnidx(int(rng.integers(0, other.site_num)))
                        if rng.random() < 0.3:
                            other = other.scale(complex(0.3, 0.4))
                        info.update(other_m_max=m1, other_centre=int(other.qnidx))
                        differ = other.qnidx != cur.qnidx
                        if rng.random() < 0.5:
                            new = cur.add(other) if op != "sub" else cur - other
                            info["order"] = "cur+other"
                        else:
                            new = other.add(cur) if op != "sub" else other - cur
                            info["order"] = "other+cur"
                        sig_extra = "centres-differ" if differ else "same-centre"
                    elif op == "scale":
                        c = [2.0, -1.0, 0.5, complex(0, 1), complex(0.6, -0.8), 1e-3][int(rng.integers(6))]
                        info["factor"] = L.jsonable(c)
                        new = cur.scale(c, inplace=bool(rng.integers(2)))
                    elif op == "canon_l":
                        new = cur.ensure_left_canonical()
                    elif op == "canon_r":
                        new = cur.ensure_right_canonical()
                    elif op == "canonicalise_mid":
                        new = cur.ensure_left_canonical() if rng.random() < 0.5 else cur.ensure_right_canonical()
                        stop = int(rng.integers(1, new.site_num)) if new.site_num > 1 else None
                        if new.to_right:
                            # right-canonical, centre 0, sweeping right up to `stop`
                            if stop is not None and stop > new.qnidx:
                                new = new.canonicalise(stop_idx=stop)
                        else:
                            if stop is not None and stop - 1 < new.qnidx:
                                new = new.canonicalise(stop_idx=stop - 1)
                        info["stop"] = stop
                    elif op == "compress":
                        new = cur.ensure_left_canonical() if rng.random() < 0.5 else cur.ensure_right_canonical()
                        crit = ["fixed", "threshold", "both"][int(rng.integers(3))]
                        thr = float(10.0 ** rng.uniform(-4, -0.7))
                        M = int(rng.integers(1, 5))
                        new.compress_config = CompressConfig(getattr(CompressCriteria, crit), threshold=thr, max_bonddim=M)
                        info.update(criteria=crit, threshold=thr, M=M)
                        new = new.compress()
                    elif op == "move":
                        dst = int(rng.integers(0, cur.site_num))
                        info["dst"] = dst
                        cur.move_qnidx(dst)
                        new = cur
                    elif op == "conj":
                        new = cur.conj()
                    elif op == "copy":
                        new = cur.copy()
                    elif op == "to_complex":
                        new = cur.to_complex(inplace=bool(rng.integers(2)))
                    elif op == "normalize":
                        kind = ["mps_only", "mps_and_coeff", "mps_norm_to_coeff"][int(rng.integers(3))]
                        info["kind"] = kind
                        new = cur.normalize(kind)
                    elif op == "applyH":
                        if H is None:
                            continue
                        new = H.apply(cur, canonicalise=False)
                        if max(new.bond_dims) > 60:
                            new = new.ensure_left_canonical()
                            new.compress(temp_m_trunc=8)
                    elif op == "contractH":
                        if H is None:
                            continue
                        w = cur.copy()
                        w.compress_config = CompressConfig(CompressCriteria.fixed, max_bonddim=int(rng.integers(1, 6)))
                        # contract = apply -> canonicalise -> compress; canonicalise needs the centre at an end
                        w.ensure_left_canonical() if rng.random() < 0.5 else w.ensure_right_canonical()
                        new = H.contract(w)
                    else:
                        continue
                except Exception as e:
                    run.count(f"rejected:hist:{op}:{type(e).__name__}")
                    info["error"] = f"{type(e).__name__}: {e}"
                    hist.append(info)
                    break
                hist.append(info)
                n_eval += 1
                run.count("hist:" + op + ((":" + sig_extra) if sig_extra else ""))
                probs = check_chain(new, sector)
                if probs:
                    if op in ("add", "add_other_centre", "sub"):
                        sig = SIG_D1 if (sig_extra == "centres-differ" and short(probs) == "labels") else f"add:{sig_extra}:{short(probs)}"
                    else:
                        sig = f"{op}:{short(probs)}"
                    run.violation(sig, dict(replay, problems=probs, failing_step=len(hist) - 1))
                    break
                cur = new
                v, _ = L.chain_dense(cur)
                if np.linalg.norm(v) < 1e-9:
                    run.count("hist:state-vanished")
                    break
                if max(cur.bond_dims) > 40:
                    try:
                        cur = cur.ensure_left_canonical()
                        cur.compress(temp_m_trunc=8)
                    except Exception as e:
                        run.count(f"rejected:hist:shrink:{type(e).__name__}")
                        break
            distinct.add((len(spec), k, tuple(sector), tuple(h["op"] for h in hist)))
            if len(hist) >= 4 and not sampled.get("hist"):
                sampled["hist"] = True
                run.sample(dict(part="history", spec=L.jsonable(spec), sector=sector, history=[h["op"] for h in hist]))
        except Exception as e:  # set-up call of the library failed: counted, never propagated
            run.count("rejected:part_histories:setup:" + type(e).__name__)
    return n_eval, len(distinct)


# ------------------------------------------------------------------------------------------
# part D: DMRG
# ------------------------------------------------------------------------------------------
def part_dmrg(run, rng, ncases, quick, t_end):
    from renormalizer import Mpo
    from renormalizer.mps.gs import optimize_mps
    from renormalizer.utils.configs import CompressConfig, CompressCriteria
    n_eval = 0
    distinct = set()
    for _ in range(ncases):
        try:
            if time.time() > t_end:
                run.count("dmrg:time-guard")
                break
            g = gen_model(rng, quick, nmax=6)
            if g is None:
                continue
            spec, basis, k, model = g
            sector = pick_sector(rng, basis, k)
            terms, tdesc = L.hermitian_conserving_terms(rng, spec, k, int(rng.integers(2, 6)))
            if not terms:
                continue
            try:
                H = Mpo(model, terms)
            except Exception as e:
                run.count(f"rejected:Mpo:{type(e).__name__}")
                continue
            mps, m0 = random_state(run, rng, model, spec, basis, k, sector)
            if mps is None:
                continue
            # ---- variational compression of H|psi> with `percent > 0` in every sweep (two-site update, nothing truncated):
            #      the result stays in the sector, keeps valid labels and equals the dense product
            if rng.random() < 0.5:
                try:
                    src = mps.copy()
                    pcv = float(rng.choice([0.5, 1.0]))
                    src.compress_config = CompressConfig(CompressCriteria.fixed, max_bonddim=64, vmethod=str(rng.choice(["2site", "2site", "1site"])),
                                                         vprocedure=[[64, pcv]] * int(rng.integers(2, 4)))
                    v_src, _ = L.chain_dense(src)
                    want = np.asarray(H.todense()) @ (np.asarray(v_src).ravel() * complex(src.coeff))
                    resv = src.variational_compress(H)
                    got, _ = L.chain_dense(resv)
                    got = np.asarray(got).ravel() * complex(resv.coeff)
                    run.count(f"variational_compress:percent={pcv}")
                    rep_v = dict(spec=L.jsonable(spec), sector=sector, terms=tdesc, percent=pcv, m_max0=m0)
                    if np.linalg.norm(want) > 1e-8:
                        errv = float(np.linalg.norm(got - want) / np.linalg.norm(want))
                        probs = check_chain(resv, sector)
                        if probs:
                            run.violation("variational_compress:percent>0:" + short(probs), dict(rep_v, problems=probs))
                        elif errv > 1e-6:
                            run.violation("variational_compress:percent>0:differs-from-dense-product", dict(rep_v, rel_err=errv))
                except Exception as e:  # noqa
                    run.count(f"rejected:variational_compress:{type(e).__name__}")
            method = ["1site", "2site"][int(rng.integers(2))]
            nroots = 1 if rng.random() < 0.7 else 2
            M = int(rng.integers(1, 7))
            proc = []
            for _s in range(int(rng.integers(2, 5))):
                pc = float(rng.choice([0, 0.2, 0.5, 1.0]))
                if rng.random() < 0.3:
                    crit = ["threshold", "both"][int(rng.integers(2))]
                    proc.append([CompressConfig(getattr(CompressCriteria, crit), threshold=float(10.0 ** rng.uniform(-5, -1)), max_bonddim=M), pc])
                else:
                    proc.append([M, pc])
            # the last sweep usually runs without added basis states, but need not (percent > 0 up to the end)
            proc.append([M, float(rng.choice([0, 0, 0.3, 1.0]))])
            mps.optimize_config.procedure = proc
            mps.optimize_config.method = method
            mps.optimize_config.nroots = nroots
            if rng.random() < 0.5:
                mps.canonicalise()       # start from the other canonical form
            replay = dict(spec=L.jsonable(spec), sector=sector, terms=tdesc, method=method, nroots=nroots, M=M, m_max0=m0,
                          procedure=[[p[0] if isinstance(p[0], int) else str(p[0].criteria.value), p[1]] for p in proc])
            L.reseed(rng)
            found = []
            try:
                with watch_local_updates(found):
                    energies, res = optimize_mps(mps, H)
            except Exception as e:
                run.count(f"rejected:optimize_mps:{method}:{type(e).__name__}")
                if found:
                    run.violation(f"optimize_mps:{method}:local-update:labels", dict(replay, problems=found))
                continue
            if found:
                run.violation(f"optimize_mps:{method}:local-update:labels", dict(replay, problems=found))
                continue
            n_eval += 1
            run.count(f"dmrg:{method}:nroots{nroots}:" + ("2comp" if k == 2 else "1comp"))
            outs = res if isinstance(res, list) else [res]
            for r_i, r in enumerate(outs):
                probs = check_chain(r, sector)
                if probs:
                    run.violation(f"optimize_mps:{method}:" + ("multi-root:" if nroots > 1 else "") + short(probs), dict(replay, root=r_i, problems=probs))
                    break
            # the sweeping state itself (overwritten input) must also stay in the sector
            probs = check_chain(mps, sector)
            if probs:
                run.violation(f"optimize_mps:{method}:work-state:" + short(probs), dict(replay, problems=probs))
            distinct.add((len(spec), k, tuple(sector), method, nroots, M))
        except Exception as e:  # set-up call of the library failed: counted, never propagated
            run.count("rejected:part_dmrg:setup:" + type(e).__name__)
    return n_eval, len(distinct)


# ------------------------------------------------------------------------------------------
# part E: time evolution, every scheme
# ------------------------------------------------------------------------------------------
def evolve_methods():
    from renormalizer.utils import EvolveMethod
    return [EvolveMethod.prop_and_compress, EvolveMethod.prop_and_compress_tdrk4, EvolveMethod.prop_and_compress_tdrk,
            EvolveMethod.tdvp_mu_vmf, EvolveMethod.tdvp_vmf, EvolveMethod.tdvp_mu_cmf, EvolveMethod.tdvp_ps, EvolveMethod.tdvp_ps2]


def part_evolve(run, rng, ncases, quick, t_end):
    from renormalizer import Mpo
    from renormalizer.mps import MpDm
    from renormalizer.utils import EvolveConfig, EvolveMethod
    from renormalizer.utils.configs import CompressConfig, CompressCriteria
    methods = evolve_methods()
    n_eval = 0
    distinct = set()
    for case in range(ncases):
        try:
            if time.time() > t_end:
                run.count("evolve:time-guard")
                break
            g = gen_model(rng, quick, nmax=5)
            if g is None:
                continue
            spec, basis, k, model = g
            if np.prod([b.nbas for b in basis], dtype=np.int64) > 300:
                continue
            sector = pick_sector(rng, basis, k)
            terms, tdesc = L.hermitian_conserving_terms(rng, spec, k, int(rng.integers(2, 5)))
            if not terms:
                continue
            try:
                H = Mpo(model, terms)
            except Exception as e:
                run.count(f"rejected:Mpo:{type(e).__name__}")
                continue
            mps, m0 = random_state(run, rng, model, spec, basis, k, sector)
            if mps is None:
                continue
            method = methods[case % len(methods)]
            imag = rng.random() < 0.35
            dt = float(rng.choice([0.02, 0.1, 0.3]))
            tau = complex(0, -dt) if imag else dt
            use_mpdm = rng.random() < 0.15 and len(basis) <= 4 and np.prod([b.nbas for b in basis]) <= 40
            try:
                # strip redundant bonds (D11 concerns over-complete inputs of the mean-field schemes; C09)
                mps.ensure_left_canonical()
                mean_field = method in (EvolveMethod.tdvp_mu_vmf, EvolveMethod.tdvp_vmf, EvolveMethod.tdvp_mu_cmf)
                if mean_field or rng.random() < 0.5:
                    mps.compress(temp_m_trunc=int(rng.integers(1, 6)))
                else:
                    run.count("evolve:input-with-redundant-bonds-allowed")
                st = MpDm.from_mps(mps) if use_mpdm else mps
                st.compress_config = CompressConfig(CompressCriteria.fixed, max_bonddim=int(rng.integers(2, 8)))
                if method == EvolveMethod.prop_and_compress and rng.random() < 0.5:
                    st.compress_config = CompressConfig(CompressCriteria.threshold, threshold=1e-4)
                kw = {}
                if method in (EvolveMethod.tdvp_ps, EvolveMethod.tdvp_ps2, EvolveMethod.tdvp_mu_cmf):
                    kw["ivp_solver"] = ["krylov", "RK45"][int(rng.integers(2))]
                if method in (EvolveMethod.tdvp_mu_vmf, EvolveMethod.tdvp_vmf, EvolveMethod.tdvp_mu_cmf):
                    kw["force_ovlp"] = bool(rng.integers(2))
                if imag and method in (EvolveMethod.prop_and_compress_tdrk, EvolveMethod.prop_and_compress):
                    kw["guess_dt"] = tau
                if method == EvolveMethod.tdvp_mu_cmf and len(basis) < 3:
                    # 2-site chains make scipy.stats.describe divide by zero inside a logging statistic
                    run.count("evolve:tdvp_mu_cmf:two-site-skipped")
                    continue
                st.evolve_config = EvolveConfig(method, **kw)
                if method in (EvolveMethod.tdvp_mu_vmf, EvolveMethod.tdvp_vmf):
                    st.evolve_config.vmf_auto_switch = False
                if rng.random() < 0.3:
                    st.ensure_right_canonical()
            except Exception as e:
                run.count(f"rejected:evolve-setup:{type(e).__name__}")
                continue
            replay = dict(spec=L.jsonable(spec), sector=sector, terms=tdesc, method=method.name, dt=L.jsonable(tau), m_max0=m0,
                          kind="mpdm" if use_mpdm else "mps", config=kw, in_bond_dims=[int(x) for x in st.bond_dims])
            nsteps = int(rng.integers(1, 3))
            cur = st
            ok = True
            for s_i in range(nsteps):
                L.reseed(rng)
                found = []
                try:
                    with watch_local_updates(found):
                        cur = cur.evolve(H, tau, normalize=bool(rng.integers(2)))
                except Exception as e:
                    run.count(f"rejected:evolve:{method.name}:{type(e).__name__}")
                    ok = False
                    if found:
                        run.violation(f"evolve:{method.name}:local-update:labels", dict(replay, step=s_i, problems=found))
                    break
                if found:
                    run.violation(f"evolve:{method.name}:local-update:labels", dict(replay, step=s_i, problems=found))
                    ok = False
                    break
                n_eval += 1
                run.count(f"evolve:{method.name}:" + ("imag" if imag else "real") + (":mpdm" if use_mpdm else ""))
                probs = check_chain(cur, sector)
                if probs:
                    run.violation(f"evolve:{method.name}:" + ("imag:" if imag else "real:") + ("mpdm:" if use_mpdm else "") + short(probs),
                                  dict(replay, step=s_i, problems=probs))
                    ok = False
                    break
            if ok:
                distinct.add((len(spec), k, tuple(sector), method.name, imag, use_mpdm))
                if not sampled.get("evolve"):
                    sampled["evolve"] = True
                    run.sample(dict(part="evolve", spec=L.jsonable(spec), sector=sector, method=method.name, dt=L.jsonable(tau),
                                    out_bond_dims=[int(x) for x in cur.bond_dims]))
        except Exception as e:  # set-up call of the library failed: counted, never propagated
            run.count("rejected:part_evolve:setup:" + type(e).__name__)
    return n_eval, len(distinct)


# ------------------------------------------------------------------------------------------
# part F: density operators (MpDm)
# ------------------------------------------------------------------------------------------
def part_mpdm(run, rng, ncases, quick, t_end):
    from renormalizer import Mpo
    from renormalizer.mps import MpDm
    n_eval = 0
    distinct = set()
    for _ in range(ncases):
        try:
            if time.time() > t_end:
                break
            g = gen_model(rng, quick, nmax=5)
            if g is None:
                continue
            spec, basis, k, model = g
            if np.prod([b.nbas for b in basis], dtype=np.int64) > 60:
                continue
            sector = pick_sector(rng, basis, k)
            mps, m0 = random_state(run, rng, model, spec, basis, k, sector)
            if mps is None:
                continue
            if rng.random() < 0.5:
                mps.canonicalise()
            replay = dict(spec=L.jsonable(spec), sector=sector, m_max0=m0, centre=int(mps.qnidx))
            try:
                dm = MpDm.from_mps(mps)
            except Exception as e:
                run.count(f"rejected:MpDm.from_mps:{type(e).__name__}")
                continue
            n_eval += 1
            probs = check_chain(dm, sector)
            if probs:
                run.violation("MpDm.from_mps:" + short(probs), dict(replay, problems=probs))
                continue
            ct = L.charged_terms(rng, spec, k, 2) if rng.random() < 0.5 else None
            if ct is not None:
                terms, tdesc, q = ct
            else:
                terms, tdesc = L.hermitian_conserving_terms(rng, spec, k, 2)
                q = [0] * k
            if not terms:
                continue
            try:
                O = Mpo(model, terms)
            except Exception as e:
                run.count(f"rejected:Mpo:{type(e).__name__}")
                continue
            target = [int(a + b) for a, b in zip(sector, q)]
            try:
                new = O.apply(dm)     # operator acting on the physical index
            except Exception as e:
                run.count(f"rejected:Mpo.apply(MpDm):{type(e).__name__}")
                continue
            n_eval += 1
            run.count("mpdm:O@dm:" + ("charged" if any(q) else "neutral"))
            probs = check_chain(new, target)
            if probs:
                run.violation("Mpo.apply(MpDm):" + short(probs), dict(replay, terms=tdesc, q=q, problems=probs))
                continue
            if not any(q):
                # dm . O acts on the ancilla index, which carries no charge: sector unchanged
                try:
                    new2 = dm.apply(O)
                    probs = check_chain(new2, sector)
                    run.count("mpdm:dm@O")
                    if probs:
                        run.violation("MpDm.apply(Mpo):" + short(probs), dict(replay, terms=tdesc, problems=probs))
                        continue
                except Exception as e:
                    run.count(f"rejected:MpDm.apply:{type(e).__name__}")
            try:
                v, _ = L.chain_dense(new)
                if np.linalg.norm(v) > 1e-10:
                    w = new.copy()
                    w.ensure_left_canonical() if rng.random() < 0.5 else w.ensure_right_canonical()
                    w.compress(temp_m_trunc=int(rng.integers(1, 5)))
                    probs = check_chain(w, target)
                    if probs:
                        run.violation("MpDm:canonicalise+compress:" + short(probs), dict(replay, terms=tdesc, q=q, problems=probs))
                    s = w.add(w.scale(0.5))
                    probs = check_chain(s, target)
                    if probs:
                        run.violation("MpDm:add:" + short(probs), dict(replay, terms=tdesc, q=q, problems=probs))
            except Exception as e:
                run.count(f"rejected:mpdm-sequence:{type(e).__name__}")
            distinct.add((len(spec), k, tuple(sector), tuple(q)))
        except Exception as e:  # set-up call of the library failed: counted, never propagated
            run.count("rejected:part_mpdm:setup:" + type(e).__name__)
    return n_eval, len(distinct)


# ------------------------------------------------------------------------------------------
# part G: trees
# ------------------------------------------------------------------------------------------
def tree_terms(rng, spec_nodes, k, kind):
    """Op terms for a tree; dof names follow lib_qn.make_basis over the flattened spec"""
    flat = [tuple(s) for sp in spec_nodes for s in sp]
    flat = [tuple(list(x) if isinstance(x, list) else x for x in s) for s in flat]
    if kind == "neutral":
        t, d = L.hermitian_conserving_terms(rng, flat, k, int(rng.integers(2, 5)))
        return t, d, [0] * k
    ct = L.charged_terms(rng, flat, k, int(rng.integers(1, 3)))
    if ct is None:
        return None, None, None
    return ct


def part_tree(run, rng, ncases, quick, t_end):
    import search_c05 as C5
    from renormalizer.tn import TTNS, TTNO
    from renormalizer.tn.gs import optimize_ttns
    from renormalizer.utils import EvolveConfig, EvolveMethod
    from renormalizer.utils.configs import CompressConfig, CompressCriteria
    tmethods = [EvolveMethod.tdvp_vmf, EvolveMethod.prop_and_compress_tdrk4, EvolveMethod.tdvp_ps, EvolveMethod.tdvp_ps2]
    n_eval = 0
    distinct = set()
    for case in range(ncases):
        try:
            if time.time() > t_end:
                run.count("tree:time-guard")
                break
            two = rng.random() < 0.25
            g = C5.random_tree_basis(rng, quick, two)
            if g is None:
                continue
            tree, k, tdesc = g
            blist = tree.basis_list
            if np.prod([b.nbas for b in blist], dtype=np.int64) > 400:
                continue
            sector = pick_sector(rng, blist, k)
            replay = dict(tree=tdesc, sector=sector)
            # ---- constructors
            what = "random" if rng.random() < 0.7 else "hartree"
            if what == "random":
                m_max = int(rng.integers(1, 7))
                seed = L.reseed(rng)
                try:
                    t = TTNS.random(tree, np.array(sector), m_max, percent=float(rng.choice([0, 0.5, 1.0])))
                except Exception as e:
                    obj = dict(replay, op="TTNS.random", m_max=m_max, numpy_seed=seed, error=f"{type(e).__name__}: {e}")
                    if is_dead_end_error(e):
                        run.violation(SIG_D15_TREE, obj)
                    else:
                        run.violation("TTNS.random:raises:" + type(e).__name__, obj)
                    t = None
                    for _r in range(6):
                        L.reseed(rng)
                        try:
                            t = TTNS.random(tree, np.array(sector), m_max + 4 * (_r + 1), percent=1.0)
                            break
                        except Exception:
                            t = None
                    if t is None:
                        continue
                replay.update(ctor="random", m_max=m_max)
            else:
                cond = random_condition(rng, blist, k)
                try:
                    t = TTNS(tree, dict(cond))
                except Exception as e:
                    run.violation("TTNS.hartree:raises:" + type(e).__name__, dict(replay, cond={str(a): b for a, b in cond.items()}, error=str(e)))
                    continue
                sector = cond_sector(cond, blist, k)
                replay.update(ctor="hartree", cond={str(a): b for a, b in cond.items()}, sector=sector)
            n_eval += 1
            run.count("tree:ctor:" + what + (":2comp" if k == 2 else ""))
            probs = check_tree(t, blist, k, sector)
            if probs:
                run.violation(f"TTNS.{what}:" + short(probs), dict(replay, problems=probs))
                continue
            # ---- every constructed state: truncate a copy (labels watched after each bond)
            try:
                w = t.copy().canonicalise()
                if rng.random() < 0.5:
                    L.reseed(rng)
                    try:
                        w = w.add(TTNS.random(tree, np.array(sector), int(rng.integers(2, 6))).scale(0.7)).canonicalise()
                    except Exception:
                        pass
                crit = ["fixed", "threshold", "both"][int(rng.integers(3))]
                w.compress_config = CompressConfig(getattr(CompressCriteria, crit), threshold=float(10.0 ** rng.uniform(-3, -0.5)),
                                                   max_bonddim=int(rng.integers(1, 4)))
                found = []
                try:
                    with watch_local_updates(found):
                        w.compress()
                    probs = check_tree(w, blist, k, sector)
                except Exception as e:
                    run.count(f"rejected:tree:compress-after-ctor:{type(e).__name__}")
                    probs = []
                n_eval += 1
                run.count("tree:compress-after-ctor:" + crit)
                if found:
                    run.violation("TTNS.compress:local-update:labels", dict(replay, criteria=crit, problems=found))
                    continue
                if probs:
                    run.violation("TTNS.compress:" + short(probs), dict(replay, criteria=crit, problems=probs))
                    continue
            except Exception as e:
                run.count(f"rejected:tree:compress-after-ctor-setup:{type(e).__name__}")
            # ---- a short history
            hist = []
            replay["history"] = hist
            H = None
            Hd = None
            cur = t
            for step in range(int(rng.integers(1, 6))):
                op = ["add", "scale", "canonicalise", "compress", "apply_neutral", "apply_charged", "evolve", "dmrg", "copy"][int(rng.integers(9))]
                info = dict(op=op)
                target = sector
                try:
                    if op == "add":
                        L.reseed(rng)
                        try:
                            other = TTNS.random(tree, np.array(sector), int(rng.integers(2, 8)))
                        except Exception:
                            other = cur.copy()
                        new = cur.add(other.scale(float(rng.choice([1.0, -0.5, 2.0]))))
                    elif op == "scale":
                        new = cur.scale([2.0, -1.0, complex(0.6, 0.8)][int(rng.integers(3))], inplace=bool(rng.integers(2)))
                    elif op == "canonicalise":
                        new = cur.canonicalise()
                    elif op == "compress":
                        new = cur.canonicalise()
                        crit = ["fixed", "threshold", "both"][int(rng.integers(3))]
                        new.compress_config = CompressConfig(getattr(CompressCriteria, crit), threshold=float(10.0 ** rng.uniform(-4, -0.7)),
                                                             max_bonddim=int(rng.integers(1, 5)))
                        info["criteria"] = crit
                        new = new.compress()
                    elif op in ("apply_neutral", "apply_charged"):
                        terms, td, q = tree_terms(rng, tdesc["spec_nodes"], k, "neutral" if op == "apply_neutral" else "charged")
                        if not terms:
                            continue
                        O = TTNO(tree, terms)
                        info.update(terms=td, q=q)
                        pr = check_tree(O, blist, k, q, operator=True)
                        if pr:
                            run.violation("TTNO.construct:" + short(pr), dict(replay, problems=pr, failing_step=len(hist)))
                            break
                        new = O.apply(cur, canonicalise=bool(rng.integers(2)))
                        target = [int(a + b) for a, b in zip(sector, q)]
                    elif op == "evolve":
                        terms, td, q = tree_terms(rng, tdesc["spec_nodes"], k, "neutral")
                        if not terms:
                            continue
                        O = TTNO(tree, terms)
                        method = tmethods[int(rng.integers(len(tmethods)))]
                        imag = rng.random() < 0.3
                        w = cur.copy()
                        if rng.random() < 0.6:     # richer bonds: labels of several charges interleaved after compress
                            L.reseed(rng)
                            try:
                                w = w.add(TTNS.random(tree, np.array(sector), int(rng.integers(3, 8))).scale(0.7))
                            except Exception:
                                pass
                        w = w.canonicalise()
                        w.compress_config = CompressConfig(CompressCriteria.fixed, max_bonddim=int(rng.integers(2, 7)))
                        w.compress()
                        if method == EvolveMethod.tdvp_vmf:
                            w.evolve_config = EvolveConfig(method, ivp_rtol=1e-4, ivp_atol=1e-7, force_ovlp=False)
                        else:
                            w.evolve_config = EvolveConfig(method)
                        info.update(terms=td, method=method.name, imag=imag)
                        tau = complex(0, -0.05) if imag else 0.05
                        # normalize() of a tree needs TTNO.dummy, which is not available with two components
                        found = []
                        with watch_local_updates(found):
                            new = w.evolve(O, tau, normalize=(k == 1))
                        if found:
                            hist.append(info)
                            run.violation(f"TTNS.evolve:{method.name}:local-update:labels", dict(replay, problems=found, failing_step=len(hist) - 1))
                            break
                        op = f"evolve:{method.name}:" + ("imag" if imag else "real")
                    elif op == "dmrg":
                        terms, td, q = tree_terms(rng, tdesc["spec_nodes"], k, "neutral")
                        if not terms:
                            continue
                        O = TTNO(tree, terms)
                        w = cur.copy().canonicalise()
                        M = int(rng.integers(1, 6))
                        info.update(terms=td, M=M)
                        L.reseed(rng)
                        found = []
                        try:
                            with watch_local_updates(found):
                                optimize_ttns(w, O, procedure=[[M, 0.4], [M, 0]])
                        finally:
                            if found:
                                hist.append(info)
                                run.violation("optimize_ttns:local-update:labels", dict(replay, problems=found, failing_step=len(hist) - 1))
                        if found:
                            break
                        new = w
                    else:
                        new = cur.copy()
                except Exception as e:
                    run.count(f"rejected:tree:{op.split(':')[0]}:{type(e).__name__}")
                    info["error"] = f"{type(e).__name__}: {e}"
                    hist.append(info)
                    break
                hist.append(info)
                n_eval += 1
                run.count("tree:" + op)
                probs = check_tree(new, blist, k, target)
                if probs:
                    run.violation(f"TTNS.{op}:" + short(probs), dict(replay, problems=probs, failing_step=len(hist) - 1))
                    break
                cur = new
                sector = target
                d = L.tree_dense(cur)
                if np.linalg.norm(d) < 1e-9:
                    run.count("tree:state-vanished")
                    break
                if max(cur.bond_dims) > 24:
                    try:
                        cur.canonicalise()
                        cur.compress(temp_m_trunc=6)
                    except Exception as e:
                        run.count(f"rejected:tree:shrink:{type(e).__name__}")
                        break
            distinct.add((tuple(tdesc["parents"]), k, tuple(replay["sector"]), tuple(h["op"] for h in hist)))
            if len(hist) >= 3 and not sampled.get("tree"):
                sampled["tree"] = True
                run.sample(dict(part="tree", tree=tdesc, sector=replay["sector"], history=[h["op"] for h in hist]))
        except Exception as e:  # set-up call of the library failed: counted, never propagated
            run.count("rejected:part_tree:setup:" + type(e).__name__)
    return n_eval, len(distinct)


# ------------------------------------------------------------------------------------------
# directed minimal reproductions of the known defects in scope (always exercised)
# ------------------------------------------------------------------------------------------
def directed(run, rng):
    for fn in (_directed_d1, _directed_d2, _directed_d15, _directed_d15_tree):
        try:
            fn(run, rng)
        except Exception as e:
            run.count(f"rejected:directed:{fn.__name__}:{type(e).__name__}")


def _directed_model():
    from renormalizer import Model
    spec = [("e", 0)] * 4
    basis, k = L.make_basis(spec)
    return spec, basis, k, Model(basis, [])


def _directed_d1(run, rng):
    """D1: the same state at two centres"""
    from renormalizer import Mps
    spec, basis, k, model = _directed_model()
    L.reseed(rng)
    a = None
    for _ in range(20):
        try:
            a = Mps.random(model, 2, 4, percent=1.0)
            break
        except FloatingPointError:
            continue
    if a is None:
        return
    b = a.copy()
    b.canonicalise()            # centre 0
    s = a.add(b)
    probs = check_chain(s, [2])
    if probs:
        sig = SIG_D1 if short(probs) == "labels" else "add:centres-differ:" + short(probs)
        run.violation(sig, dict(spec=L.jsonable(spec), sector=[2], op="a.add(b), b = a.copy().canonicalise()",
                                centres=[int(a.qnidx), int(b.qnidx)], problems=probs))
    run.count("directed:D1")


def _directed_d2(run, rng):
    """D2: adjoint of a creation operator"""
    from renormalizer import Mpo, Op
    spec, basis, k, model = _directed_model()
    mpo = Mpo(model, Op(r"a^\dagger", ("e", 1), 1.0, qn=[[1]]))
    adj = mpo.conj_trans()
    probs = check_chain(adj, [-1])
    if probs:
        run.violation(SIG_D2, dict(spec=L.jsonable(spec), op="Mpo(a^dagger_1).conj_trans()", problems=probs,
                                   stored_qntot=L.jsonable(np.asarray(adj.qntot)), expected_qntot=[-1]))
    run.count("directed:D2")


def _directed_d15(run, rng):
    """D15: all sites occupied, m_max = 1"""
    from renormalizer import Mps
    spec, basis, k, model = _directed_model()
    fails = 0
    first = None
    for i in range(10):
        seed = L.reseed(rng)
        try:
            Mps.random(model, 4, 1, percent=1.0)
        except Exception as e:
            if not is_dead_end_error(e):
                raise
            fails += 1
            first = first or dict(spec=L.jsonable(spec), sector=[4], m_max=1, percent=1.0, numpy_seed=seed, error=f"{type(e).__name__}: {e}")
    if fails:
        run.violation(SIG_D15, dict(first, failures_out_of_10=fails))
    run.count("directed:D15")


def _directed_d15_tree(run, rng):
    """tree analogue of D15: three electron sites in a line, all occupied, m_max = 1"""
    from renormalizer import BasisSimpleElectron
    from renormalizer.tn import TTNS, BasisTree
    tree = BasisTree.linear([BasisSimpleElectron(("e", i)) for i in range(3)])
    fails = 0
    first = None
    for i in range(10):
        seed = L.reseed(rng)
        try:
            TTNS.random(tree, 3, 1)
        except Exception as e:
            if not is_dead_end_error(e):
                raise
            fails += 1
            first = first or dict(tree="BasisTree.linear(3 x BasisSimpleElectron)", sector=[3], m_max=1, numpy_seed=seed,
                                  error=f"{type(e).__name__}: {e}")
    if fails:
        run.violation(SIG_D15_TREE, dict(first, failures_out_of_10=fails))
    run.count("directed:D15-tree")


def search(run, rng, quick):
    L.quiet()
    sampled.clear()
    t0 = time.time()
    budget = 50.0 if quick else 540.0
    sc = 1 if quick else 10
    directed(run, rng)
    parts = [
        ("constructors", part_constructors, 160 * sc, 0.12),
        ("operators", part_operators, 90 * sc, 0.25),
        ("histories", part_histories, 150 * sc, 0.45),
        ("dmrg", part_dmrg, 48 * sc, 0.58),
        ("evolve", part_evolve, 96 * sc, 0.80),
        ("mpdm", part_mpdm, 30 * sc, 0.85),
        ("tree", part_tree, 100 * sc, 1.0),
    ]
    tot_e = tot_d = 0
    detail = {}
    for name, fn, n, frac in parts:
        e, d = fn(run, rng, n, quick, t0 + budget * frac)
        detail[name] = e
        tot_e += e
        tot_d += d
    run.cov["evaluations"] = run.cov.get("evaluations", 0) + tot_e
    run.cov["distinct_nontrivial"] = run.cov.get("distinct_nontrivial", 0) + tot_d
    run.cov["rule"] = ("one evaluation = one library operation followed by the dense sector test and the label test; distinct = "
                       "different (model size, qn components, sector, operation / history / method) tuples, counted only for "
                       "cases whose object is non-zero")
    run.cov["search_parts"] = detail
