"""C13 failing-input search: operations return new objects and never disturb their inputs.

Oracle = the objects themselves observed before and after (never an independent ground truth):
  * every public producer / measurer is called on live objects; ALL live objects (arguments and
    bystanders) are snapshotted before and after: bytes of every tensor, labels, scalars, and the
    represented vector/operator  repr = coeff * dense(tensors)  (contracted here with NumPy);
      - tensor bytes changed and repr changed beyond rounding  -> '<op>:input-changed'
      - tensor bytes changed, repr equal up to rounding        -> allowed only for the operations that
        are known to re-gauge their argument (coefficient folding in Mps.add/distance,
        ensure_left_canonical inside the VMF/CMF evolutions); otherwise '<op>:input-rewritten'
      - coeff changed                                          -> '<op>:input-coeff'
  * interference programs 'derive b from a; mutate one in place by a public mutator; observe the
    other': the observation (repr bits + repr of a canonicalised copy, which makes label corruption
    visible) must be bit-identical.
Documented exemptions are not exercised as violations: the optimiser's initial guess is overwritten
(only the Hamiltonian is watched), OFS is never switched on.  Sharing of immutable NumPy buffers
(conj() of a real chain state) is counted as an observation, not a violation.
Known defects re-found with their own signatures: D3, D6, D8 (see SIG_* below).
"""
import os
import time

import numpy as np

from renormalizer import Model, Mps, Mpo, Op, BasisHalfSpin, BasisSHO, BasisSimpleElectron
from renormalizer.model import HolsteinModel, Mol, Phonon, OpSum
from renormalizer.mps import MpDm
from renormalizer.mps.gs import optimize_mps
from renormalizer.utils import Quantity, EvolveConfig, EvolveMethod, CompressConfig, CompressCriteria
from renormalizer.utils.configs import OptimizeConfig

import lib_c07c13 as L

SIG_D3 = "Mps.evolve_exact:nonzero-offset:input-coeff-multiplied"
SIG_D6 = "TTNS.evolve:imag-time:input-evolved-in-place-and-returned"
SIG_D8 = "Mps.evolve:prop_and_compress_tdrk:input-canonicalised-compressed-in-place"

REL = 1e-9      # 'equal up to rounding' for re-gauged inputs: |d repr| <= REL * |repr| (+ tiny absolute)
SEEN = {}
TIMES = {}
SLOW = []
WATCHDOG = [4.0]


class Watchdog:
    """safety net only: the generators choose configurations that finish in well under a second; a call that
    nevertheless runs away is interrupted and treated like a call that raised (no judgement on its inputs)"""

    def __init__(self, seconds):
        self.seconds = seconds

    def _handler(self, signum, frame):
        raise TimeoutError("watchdog")

    def __enter__(self):
        import signal
        try:
            self.old = signal.signal(signal.SIGALRM, self._handler)
            signal.setitimer(signal.ITIMER_REAL, self.seconds)
            self.armed = True
        except ValueError:      # not in the main thread
            self.armed = False
        return self

    def __exit__(self, *a):
        import signal
        if self.armed:
            signal.setitimer(signal.ITIMER_REAL, 0)
            signal.signal(signal.SIGALRM, self.old)
        return False


# ------------------------------------------------------------------------------------ snapshots
def chain_repr(mp):
    arrs = L.arrays(mp)
    if any(a is None for a in arrs):
        return None
    d = L.dense_chain(arrs)
    c = getattr(mp, "coeff", 1)
    return np.asarray(d * c, dtype=complex)


def cfg_items(obj):
    out = []
    for name in ("compress_config", "evolve_config", "optimize_config"):
        cfg = getattr(obj, name, None)
        if cfg is None:
            continue
        for k, v in sorted(cfg.__dict__.items()):
            if isinstance(v, (int, float, complex, str, bool, type(None))) or hasattr(v, "name"):
                out.append((name + "." + k, repr(v)))
            elif isinstance(v, np.ndarray):
                out.append((name + "." + k, v.tobytes()))
    return tuple(out)


class Snap:
    """copies of everything reachable from a chain object; the represented vector is contracted lazily
    (it is a function of the tensors and the prefactor, so it is needed only when those changed)"""

    def __init__(self, mp):
        self.arrs = [np.array(m.array) if m is not None else None for m in mp._mp]
        self.tensors = tuple((a.shape, str(a.dtype), a.tobytes()) if a is not None else None for a in self.arrs)
        self.coeff_val = getattr(mp, "coeff", None)
        self.coeff = complex(mp.coeff) if hasattr(mp, "coeff") else None     # compared with == (so -0.0 == 0.0)
        self.qn_raw = [np.array(q) for q in mp.qn] if mp.qn is not None else None
        self.qn = tuple(q.tobytes() for q in self.qn_raw) if self.qn_raw is not None else None
        self.qntot = np.array(mp.qntot) if mp.qntot is not None else None
        self.qnidx, self.to_right, self.cls = mp.qnidx, mp.to_right, type(mp).__name__
        self.meta = (mp.qnidx, mp.to_right, str(mp.dtype), self.qntot.tobytes() if self.qntot is not None else None,
                     repr(getattr(mp, "offset", None)))
        self.cfg = cfg_items(mp)
        self.model = tuple(str(b.dofs) for b in mp.model.basis) if mp.model is not None else None
        self._repr = None

    @property
    def repr(self):
        if self._repr is None and all(a is not None for a in self.arrs):
            c = self.coeff_val if self.coeff_val is not None else 1
            self._repr = np.asarray(L.dense_chain(self.arrs) * c, dtype=complex)
        return self._repr

    def diff(self, other):
        """names of the parts that differ"""
        d = []
        if self.tensors != other.tensors:
            d.append("tensors")
        if self.coeff != other.coeff:
            d.append("coeff")
        if self.qn != other.qn or self.meta != other.meta:
            d.append("labels")
        if self.cfg != other.cfg:
            d.append("config")
        if self.model != other.model:
            d.append("model")
        if ("tensors" in d or "coeff" in d):
            a, b = self.repr, other.repr
            # numerical equality element by element (differs from bit equality only in the sign of zeros)
            if (a is None) != (b is None) or (a is not None and (a.shape != b.shape or not np.array_equal(a, b))):
                d.append("repr")
        return d

    def ser(self):
        if any(a is None for a in self.arrs):
            return None
        d = dict(cls=self.cls, tensors=[L.ser_arr(a) for a in self.arrs],
                 qn=[q.tolist() for q in self.qn_raw] if self.qn_raw is not None else None,
                 qnidx=self.qnidx, qntot=self.qntot.tolist() if self.qntot is not None else None, to_right=self.to_right)
        if self.coeff_val is not None:
            d["coeff"] = [complex(self.coeff_val).real, complex(self.coeff_val).imag]
        return d


def repr_close(a, b, rel=None):
    rel = REL if rel is None else rel
    if a is None or b is None:
        return a is None and b is None
    if a.shape != b.shape:
        return False
    s = max(float(np.max(np.abs(a), initial=0.0)), float(np.max(np.abs(b), initial=0.0)))
    return float(np.max(np.abs(a - b), initial=0.0)) <= rel * s + 1e-300


def observe(mp):
    """what a user can see of the state: repr bits and the repr of a canonicalised copy (depends on
    the labels, the centre and the direction), or the exception type it raises"""
    r = chain_repr(mp)
    out = [r.tobytes() if r is not None else None]
    try:
        cp = mp.copy()
        if cp.site_num >= 2:
            cp.ensure_right_canonical() if (cp.to_right or cp.qnidx != 0) else cp.ensure_left_canonical()
        r2 = chain_repr(cp)
        out.append(r2.tobytes())
    except Exception as e:   # deterministic as well
        out.append("exc:" + type(e).__name__)
    return tuple(out)


def gauge_stable(mp):
    """True / False, or the string 'interference' when canonicalising a COPY changed mp itself (this auxiliary
    sequence is an interference program 'derive by copy; mutate the copy; observe the source')"""
    try:
        s0 = Snap(mp)
        r0 = chain_repr(mp)
        ok = True
        for left in (True, False):
            c = mp.copy()
            if c.site_num >= 2:
                c.ensure_left_canonical() if left else c.ensure_right_canonical()
            if not repr_close(r0, chain_repr(c), rel=1e-7):
                ok = False
        d = s0.diff(Snap(mp))
        if "tensors" in d or "labels" in d or "coeff" in d:
            return "interference"
        return ok
    except Exception:
        return False


# ------------------------------------------------------------------------------------ reporting
def report(run, sig, obj):
    SEEN[sig] = SEEN.get(sig, 0) + 1
    run.count("fail:" + sig)
    if SEEN[sig] <= 2:
        run.violation(sig, obj)


# ------------------------------------------------------------------------------------ environments
class ChainEnv:
    """a model, Hamiltonians (zero / non-zero offset), a pool of live chain objects"""

    def __init__(self, rng, quick):
        self.rng = rng
        self.kind = str(rng.choice(["holstein", "holstein", "spin", "elec", "spin"]))
        self.one_site = self.kind == "spin" and bool(rng.random() < 0.4)       # one-site chains: every loop over bonds is empty
        self.objs = {}      # name -> object
        self.info = {}
        self.log = []
        build = getattr(self, "_build_" + self.kind)
        build()

    # ---- models ---------------------------------------------------------------------------
    def _build_holstein(self):
        rng = self.rng
        nmol = int(rng.integers(2, 4))
        nph = int(rng.integers(1, 3)) if nmol == 2 else 1
        mols = []
        self.desc = dict(kind="holstein", nmol=nmol, ph=[])
        for i in range(nmol):
            phs = []
            for j in range(nph):
                om = float(rng.choice([0.4, 0.7, 1.1]))
                dis = float(rng.choice([0.5, 1.0, 1.5]))
                nb = int(rng.integers(2, 4))
                phs.append(Phonon.simple_phonon(Quantity(om), Quantity(dis), nb))
                self.desc["ph"].append([om, dis, nb])
            mols.append(Mol(Quantity(float(rng.choice([0.0, 0.3, 1.0]))), phs, 1.0))
        j = np.zeros((nmol, nmol))
        for a in range(nmol - 1):
            j[a, a + 1] = j[a + 1, a] = float(rng.choice([-0.3, 0.2, 0.5]))
        self.desc["j"] = j.tolist()
        self.model = HolsteinModel(mols, j)
        self.off = float(rng.choice([0.37, -1.2, 2.0]))
        self.desc["offset"] = self.off
        self.H0 = Mpo(self.model)
        self.H1 = Mpo(self.model, offset=Quantity(self.off))
        self.objs["H0"] = self.H0
        self.objs["H1"] = self.H1
        self.holstein = True
        self.objs["Oc"] = Mpo.onsite(self.model, r"a^\dagger")        # total label 1: apply() must add it to a COPY
        self._qn_states(qntot=1)

    def _build_elec(self):
        rng = self.rng
        n = int(rng.integers(2, 6))
        desc = L.gen_basis_desc(rng, "elec", n)
        self.desc = dict(kind="elec", basis=desc)
        basis = L.build_basis(desc)
        terms = []
        se = [d[1] for d in desc if d[0] == "se"]
        for d in desc:
            if d[0] == "se":
                terms.append(Op(r"a^\dagger a", d[1], float(rng.choice([0.2, 0.5, 1.0]))))
            elif d[0] == "sho":
                terms.append(Op(r"b^\dagger b", d[1], d[2]))
                if se:
                    terms.append(Op(r"a^\dagger a", se[0]) * Op("x", d[1]) * 0.3)
            else:
                terms.append(Op("Z", d[1], 0.4))
                terms.append(Op("X", d[1], 0.3))
        for a in range(len(se) - 1):
            terms.append(Op(r"a^\dagger a", [se[a], se[a + 1]], 0.25))
            terms.append(Op(r"a^\dagger a", [se[a + 1], se[a]], 0.25))
        self.desc["terms"] = [str(t) for t in terms]
        self.model = Model(basis, terms)
        self.off = float(rng.choice([0.37, -1.2]))
        self.H0 = Mpo(self.model)
        self.H1 = Mpo(self.model, offset=Quantity(self.off))
        self.objs["H0"] = self.H0
        self.objs["H1"] = self.H1
        self.holstein = False
        self.edesc = desc
        if se:
            self.objs["Oc"] = Mpo(self.model, Op(r"a^\dagger", se[0]))
        self._qn_states(qntot=None)

    def _build_spin(self):
        rng = self.rng
        n = 1 if self.one_site else int(rng.integers(2, 6))
        desc = [["spin", f"s{i}"] for i in range(n)]
        self.desc = dict(kind="spin", basis=desc)
        basis = L.build_basis(desc)
        terms = []
        for i in range(n):
            terms.append(Op("Z", f"s{i}", float(rng.choice([0.3, -0.6, 1.0]))))
            terms.append(Op("X", f"s{i}", float(rng.choice([0.2, 0.5]))))
        for i in range(n - 1):
            terms.append(Op("Z Z", [f"s{i}", f"s{i+1}"], float(rng.choice([0.5, -0.4]))))
            if rng.random() < 0.5:
                terms.append(Op("X X", [f"s{i}", f"s{i+1}"], 0.3))
        self.model = Model(basis, terms)
        self.off = float(rng.choice([0.37, -1.2]))
        self.H0 = Mpo(self.model)
        self.H1 = Mpo(self.model, offset=Quantity(self.off))
        self.objs["H0"] = self.H0
        self.objs["H1"] = self.H1
        self.holstein = False
        pd = [2] * n
        for k in range(2):
            cplx = bool(rng.random() < 0.5)
            ts = L.rand_tensors(rng, pd, cplx, legs=3, maxbond=4, scale=False)
            s = Mps.from_mp(self.model, ts)
            if rng.random() < 0.5:
                s.coeff = complex(0.6, -0.8) if rng.random() < 0.5 else -1.5
            L.gauge_history(s, rng)
            self.objs[f"S{k}"] = s
        ts = L.rand_tensors(rng, pd, bool(rng.random() < 0.5), legs=4, maxbond=2, scale=False)
        self.objs["R0"] = MpDm.from_mp(self.model, ts)

    def _qn_states(self, qntot):
        rng = self.rng
        desc = self.edesc if not self.holstein else None
        for k in range(2):
            cplx = bool(rng.random() < 0.4)
            if self.holstein:
                L.seed_global(rng)
                m = int(rng.integers(2, 7))
                s = Mps.random(self.model, 1, m, percent=1.0)
                if rng.random() < 0.5:
                    L.seed_global(rng)
                    s = s.add(Mps.random(self.model, 1, m, percent=1.0).scale(0.6))
                if cplx:
                    s = s.scale(complex(0.6, 0.8))
            else:
                s, _ = L.random_qn_mps(self.model, desc, rng, cplx, maxm=5)
                if k == 1 and "S0" in self.objs and not np.all(np.asarray(s.qntot) == np.asarray(self.objs["S0"].qntot)):
                    s = self.objs["S0"].copy().scale(-0.7)
            if rng.random() < 0.4:
                s.coeff = complex(0.6, -0.8) if rng.random() < 0.5 else -1.5
            L.gauge_history(s, rng)
            self.objs[f"S{k}"] = s
        r = MpDm.from_mps(self.objs["S0"].copy())
        # from_mps shares the config objects of its argument: give the density operator its own
        r.evolve_config = r.evolve_config.copy()
        r.optimize_config = r.optimize_config.copy()
        self.objs["R0"] = r
        if self.holstein:
            self.objs["R1"] = MpDm.max_entangled_ex(self.model)

    # ---- helpers ----------------------------------------------------------------------------
    def states(self, mps_only=False, mpdm_only=False):
        out = []
        for k, v in self.objs.items():
            if isinstance(v, MpDm):
                if not mps_only:
                    out.append(k)
            elif isinstance(v, Mps):
                if not mpdm_only:
                    out.append(k)
        return out

    def mpos(self):
        return [k for k, v in self.objs.items() if isinstance(v, Mpo) and not isinstance(v, MpDm)]

    def pick(self, names):
        return names[int(self.rng.integers(0, len(names)))]

    def add_obj(self, prefix, obj):
        if obj is None or not hasattr(obj, "_mp"):
            return None
        if any(m is None for m in obj._mp):
            return None
        # keep the pool small: overwrite a rolling slot
        slot = f"{prefix}{int(self.rng.integers(2, 5))}"
        if any(o is obj for o in self.objs.values()):
            return None
        self.objs[slot] = obj
        return slot


# ------------------------------------------------------------------------------------ chain operations
EVOLVE_METHODS = ["prop_and_compress", "prop_and_compress_tdrk4", "prop_and_compress_tdrk", "tdvp_mu_vmf", "tdvp_vmf",
                  "tdvp_mu_cmf", "tdvp_ps", "tdvp_ps2"]
REGAUGE_EVOLVE = {"tdvp_mu_vmf", "tdvp_vmf", "tdvp_mu_cmf"}   # call self.ensure_left_canonical()


def _prep_gauge(S, rng, canonical):
    """the caller's own preparation (before the snapshot): the sweeping routines assert that the label centre
    sits at the end the sweep starts from; over-complete bonds make the VMF/CMF schemes raise (D11)"""
    n = S.site_num
    if canonical:
        S.ensure_left_canonical() if rng.random() < 0.5 else S.ensure_right_canonical()
        return "canonical"
    if S.to_right is None:
        return "none"
    want = 0 if S.to_right else n - 1
    if S.qnidx != want:
        S.move_qnidx(want)
        return "move_qnidx"
    return "none"


ZERO_STEP_METHODS = ("prop_and_compress", "prop_and_compress_tdrk", "prop_and_compress_tdrk4", "tdvp_ps", "tdvp_ps2")


def chain_ops(env):
    """every entry prepares one library call: returns None (not applicable) or
    (opname, argument names, regauge_ok, call, extra); `call()` performs the library call(s) only."""
    rng = env.rng

    def op_copy():
        a = env.pick(env.states() + env.mpos())
        return "copy", [a], False, lambda: env.objs[a].copy(), {}

    def op_metacopy():
        a = env.pick(env.states() + env.mpos())
        return "metacopy", [a], False, lambda: env.objs[a].metacopy(), {}

    def op_conj():
        a = env.pick(env.states() + env.mpos())
        return "conj", [a], False, lambda: env.objs[a].conj(), {}

    def op_to_complex():
        a = env.pick(env.states() + env.mpos())
        return "to_complex", [a], False, lambda: env.objs[a].to_complex(), {}

    def op_scale():
        a = env.pick(env.states() + env.mpos())
        c = [2.0, -0.5, complex(0.3, 0.4), complex(1.0, 0.0)][int(rng.integers(0, 4))]
        o = env.objs[a]
        how = int(rng.integers(0, 3))
        if how == 0:
            call = lambda: o.scale(c)
        elif how == 1:
            call = lambda: o * c
        else:
            call = lambda: c * o
        return "scale", [a], False, call, dict(c=repr(c), how=how)

    def op_add():
        names = env.states(mps_only=True)
        a, b = env.pick(names), env.pick(names)
        x, y = env.objs[a], env.objs[b]
        if not np.all(np.asarray(x.qntot) == np.asarray(y.qntot)):
            return None
        fold = bool(x.coeff != y.coeff)      # the code may fold unequal prefactors into the tensors
        how = int(rng.integers(0, 3))
        call = [lambda: x.add(y), lambda: x + y, lambda: x - y][how]
        return "Mps.add" + ("" if how < 2 else "(sub)"), [a, b], fold, call, dict(fold=fold, same=a == b)

    def op_add_mpdm():
        names = env.states(mpdm_only=True)
        a, b = env.pick(names), env.pick(names)
        x, y = env.objs[a], env.objs[b]
        if not np.all(np.asarray(x.qntot) == np.asarray(y.qntot)):
            return None
        fold = bool(x.coeff != y.coeff)      # the code may fold unequal prefactors into the tensors
        return "MpDm.add", [a, b], fold, lambda: x.add(y), dict(fold=fold)

    def op_add_mpo():
        names = env.mpos()
        a, b = env.pick(names), env.pick(names)
        return "Mpo.add", [a, b], False, lambda: env.objs[a].add(env.objs[b]), {}

    def op_distance():
        names = env.states(mps_only=True)
        a, b = env.pick(names), env.pick(names)
        x, y = env.objs[a], env.objs[b]
        fold = bool(x.coeff != y.coeff)      # the code may fold unequal prefactors into the tensors

        def call():
            x.distance(y)
        return "Mps.distance", [a, b], fold, call, dict(fold=fold)

    def op_dot():
        names = env.states(mps_only=True)
        a, b = env.pick(names), env.pick(names)
        x, y = env.objs[a], env.objs[b]

        def call():
            x.conj().dot(y)
            x.angle(y)
            _ = x.norm, x.mp_norm, x.bond_dims
        return "dot/angle/norm", [a, b], False, call, {}

    def op_apply():
        o = env.pick(env.mpos())
        s = env.pick(env.states())
        O, S = env.objs[o], env.objs[s]
        how = int(rng.integers(0, 4))
        call = [lambda: O.apply(S), lambda: O @ S, lambda: O.apply(S, canonicalise=True), lambda: O.contract(S)][how]
        return ["Mpo.apply", "Mpo.__matmul__", "Mpo.apply(canonicalise)", "Mpo.contract"][how], [o, s], False, call, {}

    def op_mpdm_apply():
        o = env.pick(env.mpos())
        s = env.pick(env.states(mpdm_only=True))
        O, S = env.objs[o], env.objs[s]
        cano = bool(rng.random() < 0.5)
        return "MpDm.apply", [s, o], False, lambda: S.apply(O, canonicalise=cano), dict(canonicalise=cano)

    def op_mpo_mpo():
        a, b = env.pick(env.mpos()), env.pick(env.mpos())
        return "Mpo.apply(Mpo)", [a, b], False, lambda: env.objs[a].apply(env.objs[b]), {}

    def op_conj_trans():
        a = env.pick(env.mpos())

        def call():
            r = env.objs[a].conj_trans()
            env.objs[a].todense()
            env.objs[a].is_hermitian()
            return r
        return "Mpo.conj_trans/todense", [a], False, call, {}

    def op_variational():
        o = env.pick(env.mpos())
        s = env.pick(env.states(mps_only=True))
        O, S = env.objs[o], env.objs[s]
        return "variational_compress", [s, o], False, lambda: S.variational_compress(O), {}

    def op_measure():
        s = env.pick(env.states())
        S = env.objs[s]
        o = env.pick(env.mpos())
        O = env.objs[o]
        which = int(rng.integers(0, 7))
        args = [s, o]
        if which == 0:
            call = lambda: S.expectation(O) and None
            nm = "expectation"
        elif which == 1:
            b = env.pick(env.states(mps_only=not isinstance(S, MpDm), mpdm_only=isinstance(S, MpDm)))
            B = env.objs[b]
            call = lambda: S.expectation(O, self_conj=B.conj()) and None
            nm = "expectation(bra)"
            args = [s, o, b]
        elif which == 2:
            onames = [env.pick(env.mpos()) for _ in range(int(rng.integers(1, 5)))]
            ops = [env.objs[k] for k in onames]
            call = lambda: S.expectations(ops) is None and None
            nm = "expectations"
            args = [s] + onames
        elif which == 3:
            def call():
                for attr in ("e_occupations", "ph_occupations"):
                    try:
                        getattr(S, attr)
                    except Exception:
                        pass
            nm = "occupations"
        elif which == 4:
            def call():
                S.calc_1site_rdm()
                if S.site_num >= 2:
                    S.calc_2site_rdm()
            nm = "rdm"
        elif which == 5:
            def call():
                if S.site_num >= 2:
                    S.calc_entropy("1site"), S.calc_entropy("2site"), S.calc_entropy("mutual")
                    S.calc_entropy("bond"), S.calc_bond_singular_values()
            nm = "entropy"
        else:
            def call():
                # what a measurement hands out is the caller's: editing it in place must not reach the objects
                d = S.todense()
                try:
                    d *= 0.5
                except Exception:
                    pass
                if O.site_num <= 6:
                    dO = O.todense()
                    try:
                        dO *= 0.5
                    except Exception:
                        pass
                try:
                    r = S.calc_edof_rdm()
                    r *= 0.5
                except Exception:
                    pass
            nm = "todense/edof_rdm"
        return nm, args, False, call, {}

    def op_tree_from_mps():
        # chain -> tree conversion: the tree is a new object; rescaling it in place (root and every other node) must not
        # reach the chain state it was made from
        s = env.pick(env.states(mps_only=True))
        S = env.objs[s]

        def call():
            from renormalizer.tn.tree import from_mps
            _basis, t, _o = from_mps(S)
            t.scale(2.5, inplace=True)
            for nd in t.node_list:
                nd.tensor *= 0.5
        return "tn.from_mps+rescale-in-place", [s], False, call, {}

    def op_dense_then_edit(s=None):
        # the dense array a state / operator hands out is edited in place by the caller
        if s is None:
            s = env.pick(env.states() + env.mpos())
        S = env.objs[s]

        def call():
            if S.site_num <= 6:
                d = S.todense()
                d *= 0.5
                d[...] = 7.0
        return "todense+edit-result-in-place", [s], False, call, {}

    def op_copy_then_mutate():
        s = env.pick(env.states() + env.mpos())
        S = env.objs[s]
        which = int(rng.integers(0, 6))
        left = bool(rng.random() < 0.5)
        m = int(rng.integers(1, 3))
        kind = str(rng.choice(["mps_only", "mps_and_coeff", "mps_norm_to_coeff"]))
        k = int(rng.integers(0, S.site_num))
        if which in (2, 5) and not hasattr(S, "coeff"):
            which = 0

        def call():
            c = S.copy()
            if which == 0:
                c.ensure_left_canonical() if left else c.ensure_right_canonical()
            elif which == 1:
                c.ensure_right_canonical()
                c.compress(temp_m_trunc=m)
            elif which == 2:
                c.normalize(kind)
            elif which == 3:
                c.scale(complex(0.0, 2.0), inplace=True)
            elif which == 5:
                c.coeff *= 2.0          # in-place arithmetic on the copy's own prefactor (what evolve_exact does)
            else:
                c.to_complex(inplace=True)
                c.move_qnidx(k)
            return c
        nm = ["copy().canonicalise", "copy().compress", "copy().normalize", "copy().scale(inplace)",
              "copy().to_complex(inplace)/move_qnidx", "copy().coeff*=2"][which]
        return nm, [s], False, call, {}

    def op_reload():
        # a state written to disk and read back is one more live object of the pool
        s = env.pick(env.states())
        S = env.objs[s]

        def call():
            import tempfile, os as _os
            with tempfile.TemporaryDirectory(prefix="c13_reload_") as tmp:
                fn = _os.path.join(tmp, "state.npz")
                S.dump(fn)
                return type(S).load(env.model, fn)
        return "dump+load", [s], False, call, {}

    def op_from_mps():
        s = env.pick(env.states(mps_only=True))
        return "MpDm.from_mps", [s], False, lambda: MpDm.from_mps(env.objs[s]), {}

    def op_evolve(method=None, imag=None, s=None, zero=False):
        forced = method is not None
        if s is None:
            s = env.pick(env.states())
        S = env.objs[s]
        h = env.pick(["H0", "H1"])
        H = env.objs[h]
        if method is None:
            method = EVOLVE_METHODS[int(rng.integers(0, len(EVOLVE_METHODS)))]
        if imag is None:
            imag = bool(rng.random() < 0.45)
        adaptive = bool(rng.random() < 0.3) and method in ("prop_and_compress", "prop_and_compress_tdrk", "tdvp_ps")
        step = 0.05 if forced else float(rng.choice([0.05, 0.2]))
        dt = -1j * step if imag else step
        zero_step = method in ZERO_STEP_METHODS and (zero or ((not forced) and bool(rng.random() < 0.12)))
        if zero_step:           # a step of exactly zero length: still a NEW object, the input untouched
            adaptive = False
            step, dt = 0.0, 0.0
        kw = dict(adaptive=adaptive, guess_dt=(dt / 2 if not zero_step else 0.01))
        if method == "prop_and_compress_tdrk":
            kw["rk_solver"] = "RKF45" if adaptive else str(rng.choice(["C_RK4", "Heun_RK2", "Forward_Euler"]))
        if method in ("tdvp_mu_vmf", "tdvp_vmf") and rng.random() < 0.3:
            kw["ivp_solver"] = "RK45"
        if method == "tdvp_mu_cmf":
            # the Krylov solver of the CMF scheme is handed an anti-Hermitian generator in real time (D7, C09's
            # business) and may need very many iterations: keep real-time Krylov steps tiny
            if imag:
                kw["ivp_solver"] = "krylov" if rng.random() < 0.7 else "RK45"
            elif rng.random() < 0.75:
                kw["ivp_solver"] = "RK45"
            else:
                kw["ivp_solver"] = "krylov"
                step = 0.01
                dt = step
                kw["guess_dt"] = dt / 2
        if method in REGAUGE_EVOLVE:
            # the regularised mean-field equations are stiff for rank-deficient states (density operators built
            # from pure states, over-complete bonds): loose integrator tolerances, mild regularisation, short step
            kw.update(reg_epsilon=1e-4, ivp_rtol=1e-3, ivp_atol=1e-5)
            if not (method == "tdvp_mu_cmf" and kw.get("ivp_solver") == "krylov" and not imag):
                step = float(rng.choice([0.02, 0.05]))
                dt = -1j * step if imag else step
                kw["guess_dt"] = dt / 2
        # the caller's own writes (configuration) happen before the snapshot
        S.evolve_config = EvolveConfig(getattr(EvolveMethod, method), **kw)
        mode = int(rng.integers(0, 3))
        if mode == 0:
            S.compress_config = CompressConfig(CompressCriteria.fixed, max_bonddim=int(rng.integers(1, 4)))
        elif mode == 1:
            S.compress_config = CompressConfig(CompressCriteria.threshold, threshold=float(rng.choice([1e-2, 1e-5])))
        else:
            S.compress_config = CompressConfig(CompressCriteria.fixed, max_bonddim=16)
        norm = bool(rng.random() < 0.7)
        prep = _prep_gauge(S, rng, canonical=(method in REGAUGE_EVOLVE and rng.random() < 0.6))
        extra = dict(method=method, imag=imag, adaptive=adaptive, dt=repr(dt), H=h, compress=mode, prep=prep, zero_step=zero_step,
                     cls=type(S).__name__, normalize=norm, rk=kw.get("rk_solver"), ivp=kw.get("ivp_solver", "krylov"))
        return f"evolve:{method}", [s, h], method in REGAUGE_EVOLVE, lambda: S.evolve(H, dt, normalize=norm), extra

    def op_evolve_exact(s=None, h=None):
        if not env.holstein:
            return None
        if s is None:
            s = env.pick(env.states())
        S = env.objs[s]
        if h is None:
            h = env.pick(["H0", "H1"])
        H = env.objs[h]
        space = "GS" if rng.random() < 0.5 else "EX"
        dt = float(rng.choice([0.1, 0.7]))
        prep = _prep_gauge(S, rng, canonical=False)
        extra = dict(space=space, dt=repr(dt), H=h, offset=float(H.offset), cls=type(S).__name__, prep=prep)
        return f"{type(S).__name__}.evolve_exact", [s, h], False, lambda: S.evolve_exact(H, dt, space), extra

    def op_optimize():
        s = env.pick(env.states(mps_only=True))
        h = env.pick(["H0", "H1"])
        if env.objs[s].site_num < 2:
            return None
        method = str(rng.choice(["1site", "2site"]))

        def call():
            guess = env.objs[s].copy()
            guess.optimize_config = OptimizeConfig(procedure=[[4, 0.3], [4, 0]])
            guess.optimize_config.method = method
            return optimize_mps(guess, env.objs[h])[1]
        return "optimize_mps(copy)", [s, h], False, call, dict(method=method)

    def op_expand():
        s = env.pick(env.states(mps_only=True))
        h = env.pick(["H0", "H1"])
        S = env.objs[s]
        S.compress_config = CompressConfig(CompressCriteria.fixed, max_bonddim=int(rng.integers(2, 6)))
        sd = int(rng.integers(0, 2 ** 31 - 1))
        include_ex = bool(rng.random() < 0.5)
        hint = bool(rng.random() < 0.8)

        def call():
            np.random.seed(sd)
            return S.expand_bond_dimension(env.objs[h] if hint else None, coef=1e-3, include_ex=include_ex)
        # expand_bond_dimension adds an expander to self through Mps.add: coefficient folding applies
        return "expand_bond_dimension", [s, h] if hint else [s], True, call, dict(include_ex=include_ex, hint=hint)

    env.op_evolve = op_evolve
    env.op_evolve_exact = op_evolve_exact
    env.op_dense_then_edit = op_dense_then_edit
    return [op_copy, op_metacopy, op_conj, op_to_complex, op_scale, op_add, op_add, op_add_mpdm, op_add_mpo, op_distance,
            op_dot, op_apply, op_apply, op_mpdm_apply, op_mpo_mpo, op_conj_trans, op_variational, op_measure, op_measure,
            op_copy_then_mutate, op_copy_then_mutate, op_from_mps, op_evolve, op_evolve, op_evolve, op_evolve, op_evolve,
            op_evolve_exact, op_evolve_exact, op_optimize, op_expand, op_tree_from_mps, op_reload, op_reload]


def run_chain_call(run, env, thunk):
    """one watched call.  The operation is *prepared* first (argument choice, config assignment - these
    are the caller's own writes), then everything is snapshotted, then the library call is made."""
    prep = thunk()
    if prep is None:
        return
    name, args, regauge_ok, call, extra = prep
    d8_probe = None
    if name == "evolve:prop_and_compress_tdrk":
        d8_probe = env.objs[args[0]].copy()
    before = {k: Snap(v) for k, v in env.objs.items()}
    tc = time.time()
    try:
        with Watchdog(WATCHDOG[0]):
            result = call()
        exc = None
    except Exception as e:
        exc = e
        result = None
    TIMES[name] = TIMES.get(name, 0.0) + time.time() - tc
    if time.time() - tc > 2.0:
        SLOW.append((name, round(time.time() - tc, 1), dict(extra), [int(b) for b in env.objs[args[0]].bond_dims], env.kind))
    run.count(f"op:{name}")
    if isinstance(extra, dict) and extra.get("zero_step"):
        run.count("evolve:zero-step")
    after = {k: Snap(v) for k, v in env.objs.items()}
    if exc is not None:
        run.count(f"rejected:{name}:{type(exc).__name__}")
    env.log.append(dict(op=name, args=args, **extra))
    for k in before:
        d = before[k].diff(after[k])
        if not d:
            continue
        role = "arg" if k in args else "bystander"
        if exc is not None:
            run.count(f"changed-after-exception:{name}:{'+'.join(d)}")
            continue
        tens = "tensors" in d
        coeff = "coeff" in d
        rep_same_bits = "repr" not in d
        rep_close = repr_close(before[k].repr, after[k].repr)
        if not tens and not coeff:
            run.count(f"meta-changed:{name}:{role}:{'+'.join(d)}")
            if ("labels" in d or "model" in d) and not (regauge_ok and role == "arg"):
                # labels / centre / direction / total label / site order decide what the next sweep keeps: a write to
                # them is a write to the state (no operation of the clean tree does it outside the re-gauging ones)
                report(run, f"{name}:{role}:input-labels-changed",
                       dict(env=env.desc, op=name, args=args, changed=k, role=role, parts=d, extra=extra, log=env.log[-6:],
                            before=before[k].ser(), after=L.ser_mp(env.objs[k])))
            continue
        replay = dict(env=env.desc, op=name, args=args, changed=k, role=role, parts=d, extra=extra, log=env.log[-6:],
                      before=before[k].ser(), after=L.ser_mp(env.objs[k]),
                      repr_change=float(np.max(np.abs(before[k].repr - after[k].repr))) if before[k].repr is not None and after[k].repr is not None and before[k].repr.shape == after[k].repr.shape else None)
        if rep_close and (regauge_ok and role == "arg"):
            run.count(f"regauged-input(allowed):{name}")
            continue
        # ---- known defects get their own signatures -------------------------------------
        if name == "Mps.evolve_exact" and coeff and not tens and extra.get("offset", 0.0) != 0.0:
            report(run, SIG_D3, replay)
            continue
        if name == "evolve:prop_and_compress_tdrk" and tens and role == "arg" and _is_d8(d8_probe, env.objs[k]):
            if rep_close:
                run.count("D8:input-regauged-only(no truncation)")
            report(run, SIG_D8, replay)
            continue
        if rep_close and rep_same_bits:
            # tensors/coeff rewritten with identical represented bits (e.g. coeff folded exactly)
            run.count(f"rewritten-with-equal-values:{name}")
            continue
        if rep_close:
            report(run, f"{name}:{role}:input-rewritten(repr-equal-up-to-rounding)", replay)
        elif coeff and not tens:
            report(run, f"{name}:{role}:input-coeff", replay)
        else:
            report(run, f"{name}:{role}:input-changed", replay)
    # results join the pool
    if result is not None and hasattr(result, "_mp") and exc is None:
        if any(result is o for o in env.objs.values()):
            report(run, f"{name}:returns-an-input-object", dict(env=env.desc, op=name, args=args, extra=extra))
        else:
            # observation only (not a violation): immutable buffers shared with an argument, e.g. conj() of a real state
            try:
                if any(np.shares_memory(m.array, a.array) for k in args if k in env.objs
                       for a in env.objs[k]._mp if a is not None for m in result._mp if m is not None):
                    run.count(f"shared-buffer(observation):{name}")
            except Exception:
                pass
            pre = "R" if isinstance(result, MpDm) else ("S" if isinstance(result, Mps) else "O")
            if pre == "O" and len(env.mpos()) > 5:
                return
            try:
                ok = result.qn is not None and all(m is not None for m in result._mp) and np.all(np.isfinite(chain_repr(result)))
            except Exception:
                ok = False
            if ok and max(result.bond_dims) <= 24:
                # only label-consistent objects may join the pool: a re-gauging sweep must preserve them.  (Sums of
                # states with different centres carry wrong labels - D1, C03/C06's business - and the VMF/CMF
                # evolutions legitimately canonicalise their argument.)
                gs = gauge_stable(result)
                if gs == "interference":
                    report(run, "interference:copy:canonicalise:derived-changes-source:labels",
                           dict(env=env.desc, note="canonicalising a copy of the result of this operation changed the result",
                                op=name, args=args, extra=extra, state=L.ser_mp(result)))
                elif not gs:
                    run.count(f"pool-rejected:labels-inconsistent:{name}")
                else:
                    env.add_obj(pre, result)


def _is_d8(probe, obj_after):
    """D8 = compressed_sum([y]) does y.canonicalise(); y.compress() on the input itself.  Replay exactly that
    on a pre-call copy of the input: identical tensor bits <=> the input went through that branch."""
    if probe is None:
        return False
    try:
        probe.canonicalise()
        probe.compress()
    except Exception:
        return False
    a = [m.array for m in probe]
    b = [m.array for m in obj_after]
    return len(a) == len(b) and all(x.shape == y.shape and x.tobytes() == y.tobytes() for x, y in zip(a, b))


# ------------------------------------------------------------------------------------ chain interference programs
def chain_program(run, env):
    """derive b from a; mutate one in place by a public mutator; observe the other (bitwise)"""
    rng = env.rng
    a_name = env.pick(env.states() + env.mpos())
    a = env.objs[a_name]
    is_state = hasattr(a, "coeff")
    prods = ["copy", "conj", "to_complex", "scale", "scale1", "add", "applied", "copycopy", "conj_trans", "from_mps", "evolve",
             "reload_copy"]
    p = str(rng.choice(prods))
    try:
        if p == "reload_copy":
            # the source is a state read back from disk; the derived object is its copy
            if not is_state:
                return
            import tempfile
            with tempfile.TemporaryDirectory(prefix="c13_reload_") as tmp:
                fn = os.path.join(tmp, "state.npz")
                a.dump(fn)
                a = type(a).load(env.model, fn)
            b = a.copy()
        elif p == "copy":
            b = a.copy()
        elif p == "copycopy":
            b = a.copy().copy()
        elif p == "conj":
            b = a.conj()
        elif p == "to_complex":
            b = a.to_complex()
        elif p == "scale":
            b = a.scale(-0.5)
        elif p == "scale1":
            b = a.scale(1.0)
        elif p == "add":
            b = a.add(a.copy().scale(0.5)) if not isinstance(a, Mps) or isinstance(a, MpDm) else a.add(a.copy())
        elif p == "applied":
            O = env.objs[env.pick(env.mpos())]
            b = O.apply(a)
        elif p == "conj_trans":
            if is_state:
                return
            b = a.conj_trans()
        elif p == "from_mps":
            if not (isinstance(a, Mps) and not isinstance(a, MpDm)):
                return
            b = MpDm.from_mps(a)
        else:
            if not is_state:
                return
            a.evolve_config = EvolveConfig(EvolveMethod.tdvp_ps if rng.random() < 0.5 else EvolveMethod.prop_and_compress)
            a.compress_config = CompressConfig(CompressCriteria.fixed, max_bonddim=16)
            b = a.evolve(env.H0, 0.05)
    except Exception as e:
        run.count(f"rejected:program:{p}:{type(e).__name__}")
        return
    if b is a or any(m is None for m in b._mp):
        return
    muts = ["canonicalise", "compress", "scale_inplace", "normalize", "move_qnidx", "to_complex_inplace", "setitem", "fold", "coeff_imul"]
    m = str(rng.choice(muts))
    if p == "reload_copy" and rng.random() < 0.5:
        m = "coeff_imul"
    target_is_b = bool(rng.random() < 0.6)
    t, other = (b, a) if target_is_b else (a, b)
    o_before = observe(other)
    try:
        if m == "canonicalise":
            t.ensure_left_canonical() if rng.random() < 0.5 else t.ensure_right_canonical()
            if t.site_num >= 3:
                k = int(rng.integers(1, t.site_num - 1))
                t.canonicalise(stop_idx=k)
        elif m == "compress":
            t.ensure_right_canonical()
            t.compress(temp_m_trunc=1)
        elif m == "scale_inplace":
            t.scale(complex(0.0, -3.0) if rng.random() < 0.5 else 2.5, inplace=True)
        elif m == "normalize":
            if not hasattr(t, "coeff"):
                return
            t.normalize(str(rng.choice(["mps_only", "mps_and_coeff", "mps_norm_to_coeff"])))
        elif m == "move_qnidx":
            t.move_qnidx(int(rng.integers(0, t.site_num)))
        elif m == "to_complex_inplace":
            t.to_complex(inplace=True)
        elif m == "coeff_imul":
            if not hasattr(t, "coeff"):
                return
            t.coeff *= (2.0 if rng.random() < 0.5 else complex(0.5, 1.5))    # in-place arithmetic on the object's own prefactor (as evolve_exact does)
        elif m == "setitem":
            i = int(rng.integers(0, t.site_num))
            t[i] = np.array(t[i].array) * 0.25
        else:
            if not (isinstance(t, Mps)):
                return
            u = t.copy()
            u.coeff = complex(u.coeff) * 3.0 + 0.5
            t.add(u)      # folds the coefficients into t and u in place (allowed write to t)
    except Exception as e:
        run.count(f"rejected:program:{p}:{m}:{type(e).__name__}")
        return
    run.count(f"program:{p}:{m}")
    o_after = observe(other)
    if o_before != o_after:
        which = "derived-changes-source" if target_is_b else "source-changes-derived"
        what = "repr" if o_before[0] != o_after[0] else "labels(canonicalised-copy)"
        report(run, f"interference:{p}:{m}:{which}:{what}",
               dict(env=env.desc, source=a_name, producer=p, mutator=m, mutated="derived" if target_is_b else "source",
                    cls=type(a).__name__, source_state=L.ser_mp(a), derived_state=L.ser_mp(b)))
    # the mutated source must not stay in the pool with a different meaning for later D8/D3 probes: fine, it is
    # still a valid object; derived objects are dropped.


def model_copy_program(run, env):
    m = env.model
    keys = sorted(m.mpos.keys())
    basis_ids = [id(b) for b in m.basis]
    c = m.copy()
    c.mpos["__probe__"] = 1
    c.basis.reverse()
    run.count("program:Model.copy")
    if sorted(m.mpos.keys()) != keys or [id(b) for b in m.basis] != basis_ids:
        report(run, "interference:Model.copy:mutating-the-copy-changes-the-original", dict(env=env.desc))


# ------------------------------------------------------------------------------------ trees
def tree_imports():
    from renormalizer.tn import TTNS, TTNO, BasisTree
    from renormalizer.tn.node import TreeNodeBasis
    from renormalizer.tn.gs import optimize_ttns
    return TTNS, TTNO, BasisTree, TreeNodeBasis, optimize_ttns


def tree_dense(t):
    """TTNS.todense() cannot name the size-one leg of a dummy node (KeyError, C11's business): ask for the
    physical basis sets only"""
    from renormalizer.model.basis import BasisDummy
    order = [b for b in t.basis.basis_list if not isinstance(b, BasisDummy)]
    return np.asarray(t.todense(order)) if hasattr(t, "coeff") else np.asarray(t.todense(order))


class TSnap:
    def __init__(self, t):
        nodes = t.node_list
        self.arrs = [np.array(n.tensor) for n in nodes]
        self.tensors = tuple((a.shape, str(a.dtype), a.tobytes()) for a in self.arrs)
        self.qn = tuple(np.asarray(n.qn).tobytes() for n in nodes)
        idx = {id(n): i for i, n in enumerate(nodes)}
        self.struct = tuple((idx.get(id(n.parent), -1) if n.parent is not None else None, tuple(idx.get(id(c), -1) for c in n.children))
                            for n in nodes)
        self.coeff_val = getattr(t, "coeff", None)
        self.coeff = complex(t.coeff) if hasattr(t, "coeff") else None
        self.cfg = cfg_items(t)
        self.obj = t
        self._repr = None

    def dense_now(self):
        """must be called while the object still has the snapshotted content"""
        if self._repr is None:
            c = self.coeff_val if self.coeff_val is not None else 1
            self._repr = np.asarray(tree_dense(self.obj) * c, dtype=complex)
        return self._repr

    def diff(self, other):
        d = []
        if self.tensors != other.tensors:
            d.append("tensors")
        if self.coeff != other.coeff:
            d.append("coeff")
        if self.qn != other.qn:
            d.append("labels")
        if self.struct != other.struct:
            d.append("structure")
        if self.cfg != other.cfg:
            d.append("config")
        return d

    def ser(self):
        d = dict(tensors=[L.ser_arr(a) for a in self.arrs], structure=[list(map(str, x)) for x in self.struct])
        if self.coeff_val is not None:
            d["coeff"] = [complex(self.coeff_val).real, complex(self.coeff_val).imag]
        return d


def tree_observe(t):
    c = getattr(t, "coeff", 1)
    out = [tuple(np.array(n.tensor).tobytes() for n in t.node_list), repr(complex(c)),
           np.asarray(tree_dense(t) * c, dtype=complex).tobytes()]
    return tuple(out)


TREE_METHODS = ["tdvp_vmf", "prop_and_compress_tdrk4", "tdvp_ps", "tdvp_ps2"]


class TreeEnv:
    def __init__(self, rng, quick):
        TTNS, TTNO, BasisTree, TreeNodeBasis, _ = tree_imports()
        self.rng = rng
        self.kind = str(rng.choice(["spin", "spin", "elec"]))
        nb = int(rng.integers(3, 6))
        # basis sets
        bdesc = []
        for i in range(nb):
            if self.kind == "spin":
                bdesc.append(["spin", f"s{i}"] if rng.random() < 0.7 else ["sho", f"v{i}", 1.0, int(rng.integers(2, 4))])
            else:
                bdesc.append(["se", f"e{i}"] if (rng.random() < 0.6 or i < 2) else ["sho", f"v{i}", 1.0, int(rng.integers(2, 4))])
        basis = L.build_basis(bdesc)
        # group into nodes (1-2 basis sets per node), random parent array, optional dummy root
        groups = []
        i = 0
        while i < nb:
            k = 2 if (rng.random() < 0.25 and i + 1 < nb) else 1
            groups.append(list(range(i, i + k)))
            i += k
        dummy_root = bool(rng.random() < 0.2) and len(groups) >= 2
        nodes = []
        parents = []
        if dummy_root:
            nodes.append(TreeNodeBasis())
            parents.append(None)
        for g in groups:
            nodes.append(TreeNodeBasis([basis[j] for j in g]))
            if len(nodes) == 1:
                parents.append(None)
            else:
                cand = [k for k in range(len(nodes) - 1) if len(nodes[k].children) < 3]
                pk = cand[int(rng.integers(0, len(cand)))]
                if rng.random() < 0.4:
                    pk = len(nodes) - 2 if (len(nodes) - 2) in cand else pk    # chain-like stretches
                nodes[pk].add_child(nodes[-1])
                parents.append(pk)
        if len(nodes) < 2:
            raise RuntimeError("tree too small")
        self.basis = BasisTree(nodes[0])
        self.desc = dict(kind="tree-" + self.kind, basis=bdesc, groups=groups, parents=parents, dummy_root=dummy_root)
        terms = []
        dofs = [d[1] for d in bdesc]
        se = [d[1] for d in bdesc if d[0] == "se"]
        for d in bdesc:
            if d[0] == "spin":
                terms += [Op("Z", d[1], float(rng.choice([0.3, -0.6, 1.0]))), Op("X", d[1], float(rng.choice([0.2, 0.5])))]
            elif d[0] == "sho":
                terms += [Op(r"b^\dagger b", d[1], d[2]), Op("x", d[1], 0.2)]
            else:
                terms.append(Op(r"a^\dagger a", d[1], float(rng.choice([0.2, 0.5, 1.0]))))
        for a in range(len(bdesc) - 1):
            x, y = bdesc[a], bdesc[a + 1]
            if x[0] == "spin" and y[0] == "spin":
                terms.append(Op("Z Z", [x[1], y[1]], 0.4))
            elif x[0] == "se" and y[0] == "se":
                terms.append(Op(r"a^\dagger a", [x[1], y[1]], 0.25))
                terms.append(Op(r"a^\dagger a", [y[1], x[1]], 0.25))
            elif x[0] == "se" and y[0] == "sho":
                terms.append(Op(r"a^\dagger a", x[1]) * Op("x", y[1]) * 0.3)
            elif x[0] == "spin" and y[0] == "sho":
                terms.append(Op("Z", x[1]) * Op("x", y[1]) * 0.3)
        self.terms = terms
        self.objs = {}
        self.objs["H"] = TTNO(self.basis, terms)
        self.objs["O1"] = TTNO(self.basis, terms[: max(1, len(terms) // 2)])
        qntot = 0 if self.kind == "spin" else int(rng.integers(1, max(2, len(se))))
        self.qntot = qntot
        for k in range(2):
            L.seed_global(rng)
            with np.errstate(all="raise"):
                t = TTNS.random(self.basis, qntot, int(rng.integers(2, 5)), percent=1.0)
            if rng.random() < 0.4:
                t = t.scale(complex(0.6, 0.8))
            if rng.random() < 0.4:
                t.coeff = complex(0.5, -0.5) if rng.random() < 0.5 else -2.0
            self.objs[f"T{k}"] = t
        self.log = []

    def states(self):
        TTNS = tree_imports()[0]
        return [k for k, v in self.objs.items() if isinstance(v, TTNS)]

    def ops(self):
        TTNO = tree_imports()[1]
        return [k for k, v in self.objs.items() if isinstance(v, TTNO)]

    def pick(self, names):
        return names[int(self.rng.integers(0, len(names)))]


def tree_ops(env):
    TTNS, TTNO, BasisTree, TreeNodeBasis, optimize_ttns = tree_imports()
    rng = env.rng

    def op_copy():
        a = env.pick(env.states())
        which = int(rng.integers(0, 3))
        call = [lambda: env.objs[a].copy(), lambda: env.objs[a].metacopy(), lambda: env.objs[a].to_complex()][which]
        return ["TTNS.copy", "TTNS.metacopy", "TTNS.to_complex"][which], [a], False, call, {}

    def op_scale():
        a = env.pick(env.states())
        c = [2.0, -0.5, complex(0.3, 0.4)][int(rng.integers(0, 3))]
        return "TTNS.scale", [a], False, lambda: env.objs[a].scale(c), dict(c=repr(c))

    def op_add():
        a, b = env.pick(env.states()), env.pick(env.states())
        x, y = env.objs[a], env.objs[b]
        call = (lambda: x.add(y)) if rng.random() < 0.5 else (lambda: x + y)
        return "TTNS.add", [a, b], False, call, dict(same=a == b)

    def op_apply():
        o, a = env.pick(env.ops()), env.pick(env.states())
        O, T = env.objs[o], env.objs[a]
        how = int(rng.integers(0, 4))
        call = [lambda: O.apply(T), lambda: O @ T, lambda: O.apply(T, canonicalise=True), lambda: O.contract(T)][how]
        return ["TTNO.apply", "TTNO.__matmul__", "TTNO.apply(canonicalise)", "TTNO.contract"][how], [o, a], False, call, {}

    def op_measure():
        o, a = env.pick(env.ops()), env.pick(env.states())
        O, T = env.objs[o], env.objs[a]
        which = int(rng.integers(0, 6))
        n = len(T.node_list)
        i, j = sorted(rng.choice(n, size=2, replace=False).tolist())
        term = env.terms[int(rng.integers(0, len(env.terms)))]
        if which == 0:
            call = lambda: T.expectation(O) and None
            nm = "TTNS.expectation"
        elif which == 1:
            call = lambda: T.expectation(term) and None
            nm = "TTNS.expectation(Op)"
        elif which == 2:
            def call():
                T.calc_1site_rdm()
                T.calc_1site_entropy()
                T.calc_1site_rdm(i)
            nm = "TTNS.rdm1/entropy1"
        elif which == 3:
            def call():
                T.calc_2site_rdm([(i, j)])
                T.calc_2site_entropy([(i, j)])
            nm = "TTNS.rdm2/entropy2"
        elif which == 4:
            def call():
                T.calc_bond_entropy()
                T.calc_bond_singular_values()
            nm = "TTNS.bond-entropy"
        else:
            def call():
                tree_dense(T)
                O.todense()
                _ = T.norm, T.ttns_norm, T.bond_dims, T.qntot
            nm = "TTNS.todense/norm"
        return nm, [a, o], False, call, {}

    def op_copy_then_mutate():
        a = env.pick(env.states())
        T = env.objs[a]
        which = int(rng.integers(0, 5))
        kind = str(rng.choice(["ttns_only", "ttns_and_coeff", "ttns_norm_to_coeff"]))

        def call():
            c = T.copy()
            if which == 0:
                c.canonicalise()
            elif which == 1:
                c.canonicalise()
                c.compress(temp_m_trunc=1)
            elif which == 2:
                c.normalize(kind)
            elif which == 3:
                c.scale(complex(0.0, 2.0), inplace=True)
            else:
                c.to_complex(inplace=True)
                c.scale(-3.0, inplace=True)
            return c
        return ["TTNS.copy().canonicalise", "TTNS.copy().compress", "TTNS.copy().normalize", "TTNS.copy().scale(inplace)",
                "TTNS.copy().to_complex(inplace)"][which], [a], False, call, {}

    def op_evolve(method=None, imag=None, a=None):
        if a is None:
            a = env.pick(env.states())
        T = env.objs[a]
        o = "H"
        if method is None:
            method = TREE_METHODS[int(rng.integers(0, 4))]
        if imag is None:
            imag = bool(rng.random() < 0.5)
        step = float(rng.choice([0.02, 0.05]))
        tau = -1j * step if imag else step
        T.evolve_config = EvolveConfig(getattr(EvolveMethod, method), force_ovlp=False, reg_epsilon=1e-4, ivp_rtol=1e-3, ivp_atol=1e-5)
        mode = int(rng.integers(0, 2))
        T.compress_config = CompressConfig(CompressCriteria.fixed, max_bonddim=int(rng.integers(1, 4)) if mode == 0 else 16)
        norm = bool(rng.random() < 0.7)
        extra = dict(method=method, imag=imag, tau=repr(tau), normalize=norm, compress=mode)
        return f"TTNS.evolve:{method}", [a, o], False, lambda: T.evolve(env.objs[o], tau, normalize=norm), extra

    def op_optimize():
        a = env.pick(env.states())

        def call():
            g = env.objs[a].copy()
            optimize_ttns(g, env.objs["H"], procedure=[[4, 0.3], [4, 0]])
            return g
        return "optimize_ttns(copy)", [a, "H"], False, call, {}

    def op_from_tensors():
        a = env.pick(env.states())
        T = env.objs[a]

        def call():
            v = np.concatenate([n.tensor[T.get_qnmask(n)].ravel() for n in T.node_list])
            return TTNS.from_tensors(T, v * 2.0)
        return "TTNS.from_tensors", [a], False, call, {}

    def op_expand():
        from renormalizer.mps.mps import expand_bond_dimension_general
        a = env.pick(env.states())
        T = env.objs[a]
        T.compress_config = CompressConfig(CompressCriteria.fixed, max_bonddim=int(rng.integers(2, 6)))
        sd = int(rng.integers(0, 2 ** 31 - 1))
        hint = bool(rng.random() < 0.7)

        def call():
            np.random.seed(sd)
            return expand_bond_dimension_general(T, hint_mpo=env.objs["H"] if hint else None, coef=1e-3)
        return "expand_bond_dimension_general", [a, "H"] if hint else [a], True, call, dict(hint=hint)

    env.op_evolve = op_evolve
    return [op_copy, op_copy, op_scale, op_add, op_add, op_apply, op_apply, op_measure, op_measure, op_measure,
            op_copy_then_mutate, op_copy_then_mutate, op_evolve, op_evolve, op_evolve, op_optimize, op_from_tensors, op_expand]


def run_tree_call(run, env, thunk):
    TTNS = tree_imports()[0]
    prep = thunk()
    if prep is None:
        return
    name, args, regauge_ok, call, extra = prep
    before = {k: TSnap(v) for k, v in env.objs.items()}
    for k in args:       # dense representation of the arguments while they are still intact
        try:
            before[k].dense_now()
        except Exception:
            pass
    tc = time.time()
    try:
        with Watchdog(WATCHDOG[0]):
            result = call()
        exc = None
    except Exception as e:
        exc = e
        result = None
    TIMES[name] = TIMES.get(name, 0.0) + time.time() - tc
    if time.time() - tc > 2.0:
        SLOW.append((name, round(time.time() - tc, 1), dict(extra), [int(b) for b in env.objs[args[0]].bond_dims], env.kind))
    run.count(f"op:{name}")
    if exc is not None:
        run.count(f"rejected:{name}:{type(exc).__name__}")
    env.log.append(dict(op=name, args=args, **extra))
    after = {k: TSnap(v) for k, v in env.objs.items()}
    returned_input = result is not None and any(result is o for o in env.objs.values())
    for k in before:
        d = before[k].diff(after[k])
        if not d:
            continue
        role = "arg" if k in args else "bystander"
        if exc is not None:
            run.count(f"changed-after-exception:{name}:{'+'.join(d)}")
            continue
        if "tensors" not in d and "coeff" not in d and "structure" not in d:
            run.count(f"meta-changed:{name}:{role}:{'+'.join(d)}")
            continue
        change = None
        if before[k]._repr is not None:
            try:
                now = after[k].dense_now()
                if now.shape == before[k]._repr.shape:
                    change = float(np.max(np.abs(now - before[k]._repr)))
            except Exception:
                pass
        replay = dict(env=env.desc, op=name, args=args, changed=k, role=role, parts=d, extra=extra, log=env.log[-6:],
                      before=before[k].ser(), after=after[k].ser(), repr_change=change, returned_input=returned_input)
        if (name.startswith("TTNS.evolve:") and extra.get("imag") and role == "arg" and returned_input
                and result is env.objs[k]):
            report(run, SIG_D6, replay)
            continue
        same_repr = change is not None and change <= REL * max(1e-300, float(np.max(np.abs(before[k]._repr), initial=0.0)))
        if "structure" in d:
            report(run, f"{name}:{role}:tree-structure-changed", replay)
        elif same_repr:
            report(run, f"{name}:{role}:input-rewritten(repr-equal-up-to-rounding)", replay)
        elif "coeff" in d and "tensors" not in d:
            report(run, f"{name}:{role}:input-coeff", replay)
        else:
            report(run, f"{name}:{role}:input-changed", replay)
    if result is not None and isinstance(result, TTNS) and exc is None:
        if returned_input:
            if not (name.startswith("TTNS.evolve:") and extra.get("imag")):
                report(run, f"{name}:returns-an-input-object", dict(env=env.desc, op=name, args=args, extra=extra))
        else:
            # observation: buffers shared between the result and live objects
            shared = False
            for o in env.objs.values():
                for n1 in o.node_list:
                    for n2 in result.node_list:
                        if np.shares_memory(n1.tensor, n2.tensor):
                            shared = True
            if shared:
                run.count(f"shared-buffer:{name}")
            try:
                ok = bool(np.all(np.isfinite(tree_dense(result)))) and max(result.bond_dims) <= 16
            except Exception:
                ok = False
            if ok:
                env.objs[f"T{int(rng_slot(env))}"] = result


def rng_slot(env):
    return env.rng.integers(2, 5)


def tree_program(run, env):
    TTNS = tree_imports()[0]
    rng = env.rng
    a_name = env.pick(env.states())
    a = env.objs[a_name]
    p = str(rng.choice(["copy", "to_complex", "scale", "scale1", "add", "applied", "metacopy", "evolve", "from_tensors", "copycopy"]))
    try:
        if p == "copy":
            b = a.copy()
        elif p == "copycopy":
            b = a.copy().copy()
        elif p == "to_complex":
            b = a.to_complex()
        elif p == "scale":
            b = a.scale(-0.5)
        elif p == "scale1":
            b = a.scale(1.0)
        elif p == "add":
            b = a.add(a)
        elif p == "applied":
            b = env.objs[env.pick(env.ops())].apply(a)
        elif p == "metacopy":
            b = a.metacopy()
        elif p == "from_tensors":
            v = np.concatenate([n.tensor[a.get_qnmask(n)].ravel() for n in a.node_list])
            b = TTNS.from_tensors(a, v)
        else:
            a.evolve_config = EvolveConfig(EvolveMethod.tdvp_ps if rng.random() < 0.5 else EvolveMethod.prop_and_compress_tdrk4, force_ovlp=False)
            a.compress_config = CompressConfig(CompressCriteria.fixed, max_bonddim=16)
            b = a.evolve(env.objs["H"], 0.03)
    except Exception as e:
        run.count(f"rejected:tree-program:{p}:{type(e).__name__}")
        return
    if b is a:
        return
    m = str(rng.choice(["scale_inplace", "normalize", "canonicalise", "compress", "to_complex_inplace", "assign", "qn_inplace"]))
    target_is_b = bool(rng.random() < 0.6)
    t, other = (b, a) if target_is_b else (a, b)
    try:
        o_before = tree_observe(other)
        if m == "scale_inplace":
            t.scale(2.5 if rng.random() < 0.5 else complex(0.0, -3.0), inplace=True)
        elif m == "normalize":
            t.normalize(str(rng.choice(["ttns_only", "ttns_and_coeff", "ttns_norm_to_coeff"])))
        elif m == "canonicalise":
            t.canonicalise()
        elif m == "compress":
            t.canonicalise()
            t.compress(temp_m_trunc=1)
        elif m == "to_complex_inplace":
            t.to_complex(inplace=True)
            t.scale(complex(1.0, 1.0), inplace=True)
        elif m == "assign":
            n = t.node_list[int(rng.integers(0, len(t.node_list)))]
            n.tensor = np.array(n.tensor) * 0.25
        else:
            # every node of the mutated object goes through scale + normalise + canonicalise
            t.scale(-1.5, inplace=True)
            t.canonicalise()
            t.normalize("ttns_norm_to_coeff")
        o_after = tree_observe(other)
    except Exception as e:
        run.count(f"rejected:tree-program:{p}:{m}:{type(e).__name__}")
        return
    run.count(f"tree-program:{p}:{m}")
    if o_before != o_after:
        which = "derived-changes-source" if target_is_b else "source-changes-derived"
        report(run, f"interference:TTNS:{p}:{m}:{which}",
               dict(env=env.desc, source=a_name, producer=p, mutator=m, mutated="derived" if target_is_b else "source"))


# ------------------------------------------------------------------------------------ driver
def guarded(run, where, fn, *a):
    """exceptions escaping from the harness's own auxiliary use of the library (snapshots, preparation, pool
    management) are counted, never reported: they carry no judgement on the property"""
    try:
        return fn(*a)
    except Exception as e:
        run.count(f"harness-exception:{where}:{type(e).__name__}")
        return None


def search(run, rng, quick):
    SEEN.clear()
    TIMES.clear()
    del SLOW[:]
    t0 = time.time()
    budget = 46.0 if quick else 540.0
    WATCHDOG[0] = 4.0 if quick else 20.0
    nev = 0
    distinct = set()

    def note(env):
        if env.log:
            distinct.add((env.kind, env.log[-1]["op"], str(sorted(env.log[-1].items()))))

    # alternate chain and tree environments; chains get ~60 % of the time
    t_chain = t_tree = 0.0
    ienv = 0
    while time.time() - t0 < budget:
        do_tree = (ienv % 5) in (1, 3)       # fixed pattern: the sequence of cases depends on rng only
        ienv += 1
        ts = time.time()
        if not do_tree:
            try:
                env = ChainEnv(rng, quick)
            except Exception as e:
                run.count(f"rejected:env:{type(e).__name__}")
                t_chain += time.time() - ts
                continue
            run.count(f"env:{env.kind}")
            ops = chain_ops(env)
            # systematic part: every evolution scheme in real and imaginary time, the closed-form propagator with
            # zero and non-zero offset, for a pure state and a density operator
            sweep = []
            for meth in EVOLVE_METHODS:
                for imag in (False, True):
                    tgt = "S0" if rng.random() < 0.7 else env.pick(env.states())
                    sweep.append(lambda meth=meth, imag=imag, tgt=tgt: env.op_evolve(meth, imag, tgt))
            for meth in [ZERO_STEP_METHODS[int(i)] for i in rng.choice(len(ZERO_STEP_METHODS), size=2, replace=False)]:
                tgt = env.pick(env.states())          # a step of zero length
                sweep.append(lambda meth=meth, tgt=tgt: env.op_evolve(meth, False, tgt, zero=True))
            if env.holstein:
                for h in ("H0", "H1"):
                    for tgt in ("S1", "R0"):
                        sweep.append(lambda h=h, tgt=tgt: env.op_evolve_exact(tgt, h))
            for tgt in ["S0", "H0"] + [env.pick(env.states() + env.mpos())]:
                sweep.append(lambda tgt=tgt: env.op_dense_then_edit(tgt))
            order = rng.permutation(len(sweep))
            calls = [sweep[i] for i in order] + [ops[int(rng.integers(0, len(ops)))] for _ in range(14 if quick else 30)]
            for th in calls:
                if time.time() - t0 > budget:
                    break
                guarded(run, "chain-call", run_chain_call, run, env, th)
                nev += 1
                note(env)
            for _ in range(6 if quick else 12):
                if time.time() - t0 > budget:
                    break
                guarded(run, "chain-program", chain_program, run, env)
                nev += 1
            guarded(run, "model-copy", model_copy_program, run, env)
            run.sample(dict(env=env.desc, ops=[l["op"] for l in env.log][:10]))
            t_chain += time.time() - ts
        else:
            try:
                env = TreeEnv(rng, quick)
            except Exception as e:
                run.count(f"rejected:tree-env:{type(e).__name__}")
                t_tree += time.time() - ts
                continue
            run.count(f"env:tree-{env.kind}")
            ops = tree_ops(env)
            sweep = []
            for meth in TREE_METHODS:
                for imag in (False, True):
                    tgt = "T0" if rng.random() < 0.7 else env.pick(env.states())
                    sweep.append(lambda meth=meth, imag=imag, tgt=tgt: env.op_evolve(meth, imag, tgt))
            order = rng.permutation(len(sweep))
            calls = [sweep[i] for i in order] + [ops[int(rng.integers(0, len(ops)))] for _ in range(10 if quick else 24)]
            for th in calls:
                if time.time() - t0 > budget:
                    break
                guarded(run, "tree-call", run_tree_call, run, env, th)
                nev += 1
                note(env)
            for _ in range(6 if quick else 12):
                if time.time() - t0 > budget:
                    break
                guarded(run, "tree-program", tree_program, run, env)
                nev += 1
            run.sample(dict(env=env.desc, ops=[l["op"] for l in env.log][:10]))
            t_tree += time.time() - ts
    run.cov["evaluations"] = run.cov.get("evaluations", 0) + nev
    run.cov["distinct_nontrivial"] = len(distinct)
    run.cov["rule"] = ("distinct (environment kind, operation, arguments/options) watched calls; every environment holds states "
                       "with bond dimension > 1 and runs every evolution scheme in real and imaginary time")
