"""C01 — automatic MPO construction is exact.
L1: Lean: automaton semantics of an MPO = value of its symbolic expansion (all certificates, all
    lengths, all linear representations); checkCert_sound; checkSwap_sound; eqv_sound.
L2: (a) the implementation's symbolic_out_ops_list is validated by the Lean checker against the
    implementation's own operator table (exact for the graph algorithms, residual for QR);
    (b) the operator table is validated against an independently computed formal sum of the input
    terms (Lean `fseq`); (c) after random adjacent site swaps the swap certificate and the whole
    chain certificate (table with permuted columns) are validated again.
L3: dense Kronecker-sum oracle (search_c01)."""
import copy
from fractions import Fraction

import numpy as np

import common
from common import Run, Infra

FACT = [1, -1, 2, -2, 0.5, -0.5, 3, 0.25, 1.5, -0.75]
CFACT = [1j, -1j, 2j, 1 + 1j, 0.5 - 1j]


def grat(c):
    c = complex(c)
    return f"{common.rat(Fraction(c.real))}:{common.rat(Fraction(c.imag))}"


def gen_model(rng):
    from renormalizer.model import Model
    from renormalizer.model import basis as ba
    nsite = int(rng.integers(2, 6))
    basis = []
    site_syms = []   # per site: list of (symbol list, dof list) generators
    d = 0
    for i in range(nsite):
        k = rng.choice(["spin", "sho", "elec", "multi"], p=[0.4, 0.3, 0.15, 0.15])
        if k == "spin":
            basis.append(ba.BasisHalfSpin(f"s{d}"))
            site_syms.append(("spin", [f"s{d}"]))
            d += 1
        elif k == "sho":
            basis.append(ba.BasisSHO(f"v{d}", omega=float(rng.choice([0.5, 1.0, 2.0])), nbas=int(rng.integers(2, 5)),
                                     x0=float(rng.choice([0.0, 0.0, 0.5]))))
            site_syms.append(("sho", [f"v{d}"]))
            d += 1
        elif k == "elec":
            basis.append(ba.BasisSimpleElectron(f"e{d}"))
            site_syms.append(("elec", [f"e{d}"]))
            d += 1
        else:
            n = int(rng.integers(2, 4))
            dofs = [f"m{d + j}" for j in range(n)]
            basis.append(ba.BasisMultiElectron(dofs, [0] * n))
            site_syms.append(("multi", dofs))
            d += n
    return Model(basis, []), site_syms


def gen_site_op(rng, kind, dofs):
    """returns (symbols, dofs) for one site"""
    if kind == "spin":
        n = int(rng.choice([1, 1, 1, 2]))
        syms = [str(rng.choice(["X", "Z", "sigma_+", "sigma_-", "Y"])) for _ in range(n)]
        return syms, [dofs[0]] * n
    if kind == "sho":
        s = str(rng.choice(["x", "p", "n", r"b^\dagger b", "x^2", r"b^\dagger + b", "b", r"b^\dagger"]))
        if s == r"b^\dagger b":
            return [r"b^\dagger", "b"], [dofs[0]] * 2
        return [s], [dofs[0]]
    if kind == "elec":
        s = str(rng.choice([r"a^\dagger a", "a", r"a^\dagger"]))
        if s == r"a^\dagger a":
            return [r"a^\dagger", "a"], [dofs[0]] * 2
        return [s], [dofs[0]]
    i, j = rng.integers(len(dofs)), rng.integers(len(dofs))
    if rng.random() < 0.5:
        return [r"a^\dagger", "a"], [dofs[int(i)], dofs[int(j)]]
    return ["a", r"a^\dagger"], [dofs[int(i)], dofs[int(j)]]


def gen_terms(rng, site_syms, cplx):
    from renormalizer.model import Op
    nsite = len(site_syms)
    nterm = int(rng.integers(1, 9))
    terms = []
    raw = []
    pool = []
    for _ in range(nterm):
        if pool and rng.random() < 0.35:
            syms, dofs, sites = pool[int(rng.integers(len(pool)))]   # duplicate / cancelling term
        else:
            k = int(rng.integers(1, min(nsite, 3) + 1))
            sites = sorted(rng.choice(nsite, size=k, replace=False).tolist())
            order = list(sites)
            if rng.random() < 0.3:
                rng.shuffle(order)     # symbols given out of site order (different sites commute)
            syms, dofs = [], []
            for s in order:
                a, b = gen_site_op(rng, site_syms[s][0], site_syms[s][1])
                syms += a
                dofs += b
            pool.append((syms, dofs, sites))
        f = FACT[int(rng.integers(len(FACT)))]
        if cplx:
            f = f * CFACT[int(rng.integers(len(CFACT)))] if rng.random() < 0.5 else complex(f)
        if not cplx and any(x in ("Y", "p") for x in syms):
            f = complex(f) * 1j     # D12: a complex local matrix needs a complex factor
        if raw and rng.random() < 0.15 and raw[-1][0] == syms and raw[-1][1] == dofs:
            f = -raw[-1][2]   # exact cancellation
        terms.append(Op(" ".join(syms), list(dofs), f))
        raw.append((syms, dofs, f))
    return terms, raw


def site_key(model, syms, dofs):
    """independent per-site keys of a term: {site: ((sym,dof),...)} keeping written order"""
    per = {}
    for s, d in zip(syms, dofs):
        per.setdefault(model.dof_to_siteidx[d], []).append((s.replace(r"b^\dagger + b", r"b^\dagger+b"), d))
    return {k: tuple(v) for k, v in per.items()}


def ident_key(b):
    d = b.dof[0] if b.multi_dof else b.dof
    return (("I", d),)


def enc_sum(rows):
    """rows: list of (tuple of ints, complex)"""
    if not rows:
        return "-"
    return ";".join(",".join(str(i) for i in r) + ":" + grat(c) for r, c in rows)


def enc_bonds(out_ops_list):
    bonds = []
    for ops in out_ops_list:
        enc_ops = []
        for o in ops:
            if hasattr(o, "symbol"):      # single-term fast path stores a bare OpTuple per bond
                o = [o]
            if len(o) == 0:
                enc_ops.append(".")
            else:
                enc_ops.append(";".join(f"{int(t.symbol[0])},{int(t.symbol[1])}:" + grat(t.factor) for t in o))
        bonds.append("|".join(enc_ops))
    return "#".join(bonds)


def regrouping_and_copy_histories(run, rng, quick):
    """multi-step histories in one process (caches keyed too coarsely only show here):
    (a) the SAME Op objects are handed to Mpo(...) for two models that group the electronic DoFs into sites differently
        (one BasisMultiElectronVac site vs one BasisSimpleElectron per DoF), in both orders;
    (b) an operator is copied, the copy is site-swapped, then the original is swapped: both must equal the dense reference
        in their own current site order."""
    from renormalizer.model import Model, Op
    from renormalizer.model import basis as ba
    from renormalizer.mps import Mpo
    done = 0
    ad, a_ = np.array([[0, 0], [1.0, 0]]), np.array([[0, 1.0], [0, 0]])

    def kron_all(mats):
        out = np.eye(1)
        for m in mats:
            out = np.kron(out, m)
        return out
    for _ in range(6 if quick else 60):
        k = int(rng.integers(2, 5))
        edofs = [f"e{i}" for i in range(k)]
        pairs = [(int(rng.integers(k)), int(rng.integers(k))) for _ in range(int(rng.integers(2, 7)))]
        facs = [float(np.round(rng.uniform(-1, 1), 3)) or 0.5 for _ in pairs]
        spin_first = bool(rng.random() < 0.5)
        zf = float(np.round(rng.uniform(-1, 1), 3)) or 0.25

        def make_ops():
            return [Op(r"a^\dagger a", [edofs[i], edofs[j]], f) for (i, j), f in zip(pairs, facs)] + [Op("sigma_z", "s", zf)]
        # dense references
        # layout A: [spin?] + one site of dimension k+1 (vacuum, e0, ...)
        refA = np.zeros((2 * (k + 1), 2 * (k + 1)))
        for (i, j), f in zip(pairs, facs):
            m = np.zeros((k + 1, k + 1))
            m[i + 1, j + 1] = 1.0
            refA += f * (np.kron(np.eye(2), m) if spin_first else np.kron(m, np.eye(2)))
        sz = np.diag([1.0, -1.0])
        refA += zf * (np.kron(sz, np.eye(k + 1)) if spin_first else np.kron(np.eye(k + 1), sz))
        # layout B: [spin?] + k two-level sites
        refB = np.zeros((2 ** (k + 1), 2 ** (k + 1)))
        for (i, j), f in zip(pairs, facs):
            mats = [np.eye(2) for _ in range(k)]
            if i == j:
                mats[i] = ad @ a_
            else:
                mats[i], mats[j] = ad, a_
            refB += f * kron_all(([np.eye(2)] if spin_first else []) + mats + ([] if spin_first else [np.eye(2)]))
        refB += zf * kron_all(([sz] if spin_first else []) + [np.eye(2)] * k + ([] if spin_first else [sz]))

        def modelA():
            e = [ba.BasisMultiElectronVac(edofs)]
            sp = [ba.BasisHalfSpin("s")]
            return Model(sp + e if spin_first else e + sp, [])

        def modelB():
            e = [ba.BasisSimpleElectron(d) for d in edofs]
            sp = [ba.BasisHalfSpin("s")]
            return Model(sp + e if spin_first else e + sp, [])
        for order in ("A-then-B", "B-then-A"):
            for algo in ("Hopcroft-Karp", "qr"):
                ops = make_ops()          # one set of Op objects for both constructions
                seq = [("A", modelA, refA), ("B", modelB, refB)]
                if order == "B-then-A":
                    seq.reverse()
                for pos, (lab, mk, ref) in enumerate(seq):
                    case = dict(edofs=edofs, pairs=pairs, factors=facs, sigma_z_factor=zf, spin_first=spin_first, order=order, algo=algo,
                                layout=lab, position_in_sequence=pos)
                    try:
                        d = np.asarray(Mpo(mk(), ops, algo=algo).todense())
                    except Exception as e:  # noqa
                        run.violation(f"regroup:{order}:layout-{lab}:raises:{type(e).__name__}", dict(case, error=repr(e)[:300]))
                        continue
                    done += 1
                    if d.shape != ref.shape or np.max(np.abs(d - ref)) > 1e-10:
                        run.violation(f"regroup:same-Op-objects:{'second' if pos else 'first'}-construction:dense-mismatch",
                                      dict(case, max_abs_error=float(np.max(np.abs(d - ref))) if d.shape == ref.shape else -1.0,
                                           what="the same Op objects were used to build operators for two models with a different DoF-to-site grouping"))
        run.count(f"regroup:k={k}")
        # ---- (b) copy, swap the copy, swap the original
        n = int(rng.integers(3, 6))
        sb = [ba.BasisHalfSpin(i) for i in range(n)]
        sterms = [Op("sigma_x sigma_z", [i, j], float(np.round(rng.uniform(-1, 1), 3)) or 0.5) for i in range(n) for j in range(n) if i != j and rng.random() < 0.5]
        sterms += [Op("sigma_+ sigma_- sigma_z", [int(a), int(b), int(c)], 0.7) for a, b, c in [rng.permutation(n)[:3]]]
        smats = {"sigma_x": np.array([[0, 1.0], [1, 0]]), "sigma_z": sz, "sigma_+": np.array([[0, 1.0], [0, 0]]), "sigma_-": np.array([[0, 0], [1.0, 0]])}

        def dense_in_order(order):
            h = np.zeros((2 ** n, 2 ** n))
            for t in sterms:
                mats = [np.eye(2)] * n
                mats = list(mats)
                for sym, dof in zip(t.split_symbol, t.dofs):
                    mats[order.index(dof)] = mats[order.index(dof)] @ smats[sym]
                h += float(np.real(t.factor)) * kron_all(mats)
            return h
        for algo in ("Hopcroft-Karp", "Hungarian"):
            try:
                orig = Mpo(Model(sb, sterms), algo=algo)
                ordo = list(range(n))
                cp = orig.copy() if rng.random() < 0.5 else orig.conj_trans().conj_trans()
                ordc = list(ordo)
                hist = []
                first = "copy" if rng.random() < 0.5 else "orig"
                second = "orig" if first == "copy" else "copy"
                for who in (first, second, first, second):
                    obj, od = (cp, ordc) if who == "copy" else (orig, ordo)
                    i = int(rng.integers(n - 1))
                    od[i], od[i + 1] = od[i + 1], od[i]
                    nb = list(obj.model.basis)
                    nb[i], nb[i + 1] = nb[i + 1], nb[i]
                    obj.try_swap_site(Model(nb, obj.model.ham_terms), False, algo=algo)
                    hist.append((who, i))
                    for name, o2, od2 in (("copy", cp, ordc), ("orig", orig, ordo)):
                        d = np.asarray(o2.todense())
                        ref = dense_in_order(od2)
                        done += 1
                        if np.max(np.abs(d - ref)) > 1e-10:
                            run.violation(f"copy-then-swap:{name}:dense-mismatch",
                                          dict(nsite=n, algo=algo, history=hist, object=name, site_order=od2,
                                               terms=[(t.symbol, list(t.dofs), float(np.real(t.factor))) for t in sterms],
                                               max_abs_error=float(np.max(np.abs(d - ref))),
                                               what="after swapping a copy, the original (or the copy) no longer equals the dense operator in its own site order"))
                            raise StopIteration
            except StopIteration:
                pass
            except Exception as e:  # noqa
                run.count("copy-then-swap-raised:" + type(e).__name__)
    run.cov["history_cases"] = done
    return done


def jw_swap_table(run):
    """site swaps with the Jordan-Wigner correction are swaps too: the sign rule of the REAL `table_row_swapped_jw` on all
    100 admitted operator pairs (both symbol styles) against the Lean model `RenoVerif.JW.swapJW` (proved to be the fermionic
    swap conjugation in Props/C17: `jw_swap_table`)."""
    from renormalizer.model import Op
    from renormalizer.mps.symbolic_mpo import table_row_swapped_jw
    from c17 import word_of
    us = [[], ["+"], ["-"], ["+", "-"], ["-", "+"]]
    words = us + [["Z"] + u for u in us]

    def mkop(w, dof, style):
        if not w:
            return Op.identity(dof)
        if style == "sigma":
            return Op(" ".join("sigma_z" if x == "Z" else ("sigma_+" if x == "+" else "sigma_-") for x in w), dof, qn=[0] * len(w))
        return Op(" ".join(w), dof, qn=[0] * len(w))
    reqs, meta = [], []
    for style in ("sigma", "short"):
        for a in words:
            for b in words:
                prim = [Op.identity(0), mkop(a, 0, style), mkop(b, 1, style)]
                op2idx = {op: i for i, op in enumerate(prim)}
                try:
                    row, coeff = table_row_swapped_jw([0, 1, 2, 0, 0], prim, op2idx)
                except AssertionError:
                    run.count("jw-swap-table:assert")
                    continue
                reqs.append(f"swap {word_of(a)} {word_of(b)}")
                meta.append((dict(op1=a, op2=b, symbols=style),
                             f"{'-' if coeff == -1 else '+'} {word_of(prim[row[1]].split_symbol)} {word_of(prim[row[2]].split_symbol)}"))
    replies = common.run_driver("RenoVerif/Driver/C17.lean", reqs)
    for (case, impl), rep in zip(meta, replies):
        run.count("jw-swap-table:pairs")
        if rep != impl:
            run.violation("corr:table_row_swapped_jw", dict(correspondence="RenoVerif.JW.swapJW vs symbolic_mpo.table_row_swapped_jw",
                                                            case=case, model=rep, impl=impl), no_input=True)


def main():
    run = Run("C01", level="proof")
    quick = run.tier != "thorough"
    rng = np.random.default_rng(run.seed)
    l1 = run.l1(["RenoVerif/Props/C01.lean", "RenoVerif/Lemmas/FormalSum.lean", "RenoVerif/Props/C17.lean"])
    if not l1["build_ok"]:
        raise Infra("hand-written Lean library failed to build/audit: " + str(l1.get("bad")) + l1.get("log", "")[-800:])
    from renormalizer.mps import Mpo
    from renormalizer.mps.symbolic_mpo import _terms_to_table
    from renormalizer.model import Model

    ncase = 60 if quick else 600
    reqs, meta = [], []
    cases = []
    for ic in range(ncase):
        model, site_syms = gen_model(rng)
        cplx = rng.random() < 0.5
        terms, raw = gen_terms(rng, site_syms, cplx)
        offset = float(rng.choice([0.0, 0.0, 0.5, -2.0]))
        for algo in ("Hopcroft-Karp", "Hungarian", "qr"):
            run.count("algo:" + algo)
            try:
                from renormalizer.utils import Quantity
                mpo = Mpo(model, terms, offset=Quantity(offset), algo=algo)
            except Exception as e:  # noqa
                name = type(e).__name__
                run.count("rejected:" + name)
                if name == "ValueError" and "factor 0" in str(e):
                    continue
                if name == "ValueError":
                    # an operator whose terms cancel exactly (and no offset) is the zero operator: the constructor
                    # rejects zero operators; not a violation of the property
                    net = {}
                    for syms, dofs, f in raw:
                        k = tuple(sorted(site_key(model, syms, dofs).items()))
                        net[k] = net.get(k, 0) + complex(f)
                    if offset == 0 and all(v == 0 for v in net.values()):
                        run.count("rejected:zero-operator")
                        continue
                if name == "UFuncTypeError":      # D12: real factors with a complex local matrix
                    run.violation("mpo-dtype:real-factor-complex-matrix:UFuncTypeError",
                                  dict(what="Mpo() raises UFuncTypeError: tensor dtype taken from the factors although a local matrix (p, Y) is complex",
                                       terms=[(s, d, str(f)) for s, d, f in raw], offset=offset, algo=algo))
                    continue
                run.violation(f"mpo-raises:{name}", dict(terms=[(s, d, str(f)) for s, d, f in raw], offset=offset, algo=algo, error=str(e)[:300]))
                continue
            # (b) table vs independent formal sum of the terms
            table, prim, factor = _terms_to_table(model, model.check_operator_terms(terms), -offset)
            keyid = {}

            def kid(k):
                return keyid.setdefault(k, len(keyid))
            impl_rows = []
            for row, f in zip(table.tolist(), factor.tolist()):
                keys = []
                for isite, pidx in enumerate(row):
                    op = prim[pidx]
                    keys.append(kid((isite, tuple(zip(op.split_symbol, op.dofs)))))
                impl_rows.append((keys, f))
            mine = []
            for syms, dofs, f in raw:
                if f == 0:
                    continue
                per = site_key(model, syms, dofs)
                keys = [kid((i, per.get(i, ident_key(b)))) for i, b in enumerate(model.basis)]
                mine.append((keys, f))
            if offset != 0:
                mine.append(([kid((i, ident_key(b))) for i, b in enumerate(model.basis)], -offset))
            reqs.append(f"fseq {enc_sum(impl_rows)} {enc_sum(mine)}")
            meta.append(("table", len(cases)))
            # (a) certificate
            t_rows = [(r, f) for r, f in zip(table.tolist(), factor.tolist())]
            bonds = enc_bonds(mpo.symbolic_out_ops_list[1:])
            if algo == "qr":
                reqs.append(f"resid {enc_sum(t_rows)} {bonds}")
                meta.append(("resid", len(cases)))
            else:
                reqs.append(f"cert {enc_sum(t_rows)} {bonds}")
                meta.append(("cert", len(cases)))
            reqs.append(f"dims {bonds}")
            meta.append(("dims", len(cases)))
            case = dict(terms=[(s, d, str(f)) for s, d, f in raw], offset=offset, algo=algo,
                        basis=[type(b).__name__ + ":" + str(b.dof) + ":" + str(b.nbas) for b in model.basis],
                        scale=float(np.max(np.abs(factor))) if len(factor) else 1.0, nterm=len(factor),
                        bond_dims=list(mpo.bond_dims))
            cases.append(case)
            # (c) swaps (graph algorithms only; no Jordan-Wigner sign here)
            if algo != "qr" and len(model.basis) >= 2 and rng.random() < 0.7:
                cols = list(range(len(model.basis)))
                cur_model = model
                for _ in range(int(rng.integers(1, 4))):
                    i = int(rng.integers(0, len(cols) - 1))
                    nb = list(cur_model.basis)
                    nb[i], nb[i + 1] = nb[i + 1], nb[i]
                    new_model = Model(nb, [])
                    old = copy.deepcopy(mpo.symbolic_out_ops_list[i:i + 3])
                    try:
                        mpo.try_swap_site(new_model, swap_jw=False, algo=algo)
                    except AssertionError as e:
                        run.violation("swap:assert", dict(case=case, swap_at=i, error=str(e)[:200]))
                        break
                    except (AttributeError, TypeError, IndexError) as e:
                        cls = "single-term" if case["nterm"] == 1 else "multi-term"
                        run.violation(f"swap:raises:{cls}:{type(e).__name__}",
                                      dict(case=case, swap_at=i, error=str(e)[:200],
                                           what="Mpo.try_swap_site raises on an operator the constructor accepted"))
                        break
                    new = mpo.symbolic_out_ops_list[i:i + 3]
                    reqs.append(f"swap {enc_bonds([old[1]])} {enc_bonds([old[2]])} {enc_bonds([new[1]])} {enc_bonds([new[2]])}")
                    meta.append(("swap", len(cases) - 1))
                    cols[i], cols[i + 1] = cols[i + 1], cols[i]
                    cur_model = new_model
                    perm_rows = [([r[c] for c in cols], f) for r, f in t_rows]
                    reqs.append(f"cert {enc_sum(perm_rows)} {enc_bonds(mpo.symbolic_out_ops_list[1:])}")
                    meta.append(("cert-after-swap", len(cases) - 1))
                    run.count("swap")
    replies = common.run_driver("RenoVerif/Driver/C01.lean", reqs)
    counts = dict(table=0, cert=0, resid=0, swap=0, dims=0)
    counts["cert-after-swap"] = 0
    distinct = set()
    for (kind, ci), req, rep in zip(meta, reqs, replies):
        case = cases[ci]
        counts[kind] += 1
        if kind in ("cert", "cert-after-swap", "swap", "table"):
            if rep != "true":
                names = {"cert": "RenoVerif.SymMpo.checkCert (symbolic_out_ops_list vs operator table)",
                         "cert-after-swap": "RenoVerif.SymMpo.checkCert after try_swap_site (table with permuted columns)",
                         "swap": "RenoVerif.SymMpo.checkSwap (two-site re-decomposition)",
                         "table": "RenoVerif.FS.eqv (operator table of _terms_to_table vs the input terms)"}
                # the certificate IS the property at the symbolic level: a rejected certificate comes with its input
                run.violation(f"cert:{kind}:{case['algo']}", dict(certificate=names[kind], case=case, request=req, reply=rep,
                                                                 what="the symbolic MPO does not expand to the requested sum of products"))
            elif kind == "cert" and case["nterm"] > 1:
                distinct.add(req)
        elif kind == "resid":
            ok = rep.startswith("wf ")
            val = float(Fraction(rep.split(" ")[1])) ** 0.5 if " " in rep else float("inf")
            tol = 1e-9 * case["scale"] * max(1, case["nterm"])
            if not ok or val > tol:
                run.violation("cert:resid:qr", dict(certificate="RenoVerif.SymMpo.residual (QR variant)", case=case, residual=val,
                                                     tolerance=tol, reply=rep))
            elif case["nterm"] > 1:
                distinct.add(req)
        elif kind == "dims":
            dims = [1] + [int(x) for x in rep.split()]
            if dims != [int(x) for x in case["bond_dims"]]:
                run.violation("corr:bond-dims", dict(correspondence="bond dimensions of the certificate vs Mpo.bond_dims", case=case,
                                                     model=dims), no_input=True)
        run.sample(dict(case=case, request=req[:400], reply=rep), limit=3)
    n = len(reqs)
    run.cov.update(programs=n, disagreements_checked=n, certificate_kinds=counts, evaluations=n, distinct_nontrivial=len(distinct),
                   rule="random models (2-5 sites; spin, SHO incl. shifted origin, simple and multi-DoF electron sites) x random term lists "
                        "(duplicates, exact cancellations, out-of-order symbols, real/complex dyadic factors) x offset x 3 algorithms; "
                        "distinct = distinct accepted certificate requests with more than one table row")
    try:
        import search_c01
    except ImportError:
        search_c01 = None
        run.cov["search_module"] = "absent"
    regrouping_and_copy_histories(run, rng, quick)
    jw_swap_table(run)
    if search_c01 is not None:
        ev0, dn0 = run.cov["evaluations"], run.cov["distinct_nontrivial"]
        search_c01.search(run, rng, quick)
        if run.cov.get("evaluations") != ev0:
            run.cov["search_evaluations"] = run.cov["evaluations"]
            run.cov["evaluations"] = ev0 + run.cov["search_evaluations"]
            run.cov["distinct_nontrivial"] = dn0 + run.cov.get("distinct_nontrivial", 0)
    run.assumptions += ["numeric assembly (basis.op_mat, float products) is validated by the dense oracle, not proved",
                        "QR variant: floats converted to exact rationals, residual judged with tolerance 1e-9*scale*nterms",
                        "dense MPO contraction = weighted automaton with T j p (O) = O (x) opmat_j(p) (linear in O)"]
    return run.finish()


if __name__ == "__main__":
    common.main_wrapper(main)
