"""C14 failing-input search: saved states reload identically; the periodic result dump of a
time-evolution job survives a crash.

Part R (round trips).  Random small models (1-5 sites: electrons, oscillators, spins, a multi-electron
site; one or two quantum-number components), random states driven through a random gauge history
(canonicalise to a random site, compress, move_qnidx, ensure_left/right_canonical, to_complex, complex
scale, complex prefactor), for Mps, MpDm, (Mpo) and for TTNS on random trees (linear, binary, MCTDH
with virtual nodes, T3NS).  `dump` -> `load` must reproduce every tensor bit for bit, the dtype, coeff,
qn per bond, qnidx, qntot, to_right, and a later operation (canonicalise, compress, add, apply an
operator, expectation, one evolution step, conj_trans, second dump/load) must give the same result on
the loaded object as on the original (dense vectors / scalars within 1e-10 relative; an exception on
one side only is a violation).  The spill of site tensors to disk (`dump_matrix_size`) is exercised
the same way: values read back, overwrite, dump/load, later operation, directory removed on deletion.

Part K (crash safety of TdMpsJob.dump_dict).  A real TdMpsJob subclass (2-spin chain, real evolution
with `Mps.evolve`) runs for a few steps while `os` and `np` *as seen from renormalizer.utils.tdmps*
are replaced by proxies that count every file-system call of dump_dict (makedirs, path.exists, remove,
rename/replace, savez, ...).  For every call index and every phase (crash before the call, crash after
it, and for writers crash in the middle leaving an empty / half / all-but-one-byte file) the job is
re-run in a fresh directory prepared in each of the 9 states an earlier crash can leave
({absent, partial, complete-old} for job.npz x job.npz.bak); a BaseException subclass is raised at
the chosen instant and the directory is examined.  Oracle: if the crash happens in the dump of step
t >= 2 (one dump of this job has completed), job.npz or job.npz.bak must be a complete loadable file
whose content is exactly what this job handed to dump_dict at step t or t-1.  (The first dump of a job
restarted into (partial, complete-old) removes the old good backup before writing anything: outside the
statement, counted as `observed:restart-removes-old-backup`.)

Stable signatures on the pinned tree:
 * "mpo:load:qn-as-lists:later-operation-raises"  new: MatrixProduct.load (the loader of Mpo) restores the
   bond quantum numbers as nested lists; apply / @ / conj_trans of the loaded operator raise.
"""
import gc
import io
import logging
import os
import tempfile

import numpy as np

INCLUDE_MPO = True
SIG_MPO = "mpo:load:qn-as-lists:later-operation-raises"


class Ctx:
    def __init__(self, run, rng, tmp):
        self.run, self.rng, self.tmp = run, rng, tmp
        self.evals = 0
        self.distinct = set()
        self.flagged = set()
        self.nfile = 0

    def violate(self, sig, obj):
        if sig in self.flagged:
            return
        self.flagged.add(sig)
        self.run.violation(sig, obj)

    def fname(self, ext=".npz"):
        self.nfile += 1
        return os.path.join(self.tmp, f"f{self.nfile}{ext}")

    def reseed(self):
        s = int(self.rng.integers(2 ** 31 - 1))
        np.random.seed(s)
        return s


def tl(a):
    a = np.asarray(a)
    if np.iscomplexobj(a):
        return dict(shape=list(a.shape), re=a.real.ravel().tolist(), im=a.imag.ravel().tolist())
    return dict(shape=list(a.shape), v=a.ravel().tolist())


# ------------------------------------------------------------------------------------ models
def rand_model(c, tree=False, long=False):
    from renormalizer.model import Model, Op
    from renormalizer.model.basis import BasisSimpleElectron, BasisSHO, BasisHalfSpin, BasisMultiElectron
    rng = c.rng
    qn_size = 2 if rng.random() < 0.35 else 1
    nsite = int(rng.choice([1, 2, 3, 3, 4, 4, 5])) if not tree else int(rng.choice([2, 3, 4, 5, 6]))
    if long:        # ten or more sites: more than ten bonds, two-digit indices in the file
        nsite = int(rng.integers(10, 14))
    basis, spec, edofs = [], [], []
    for s in range(nsite):
        kinds = ["elec", "elec", "spin"] + ([] if long else (["sho", "melec"] if qn_size == 1 else ["melec2"]))
        k = str(rng.choice(kinds))
        if s == 0 and rng.random() < 0.5:
            k = "elec"
        if k == "elec":
            if qn_size == 1:
                b = BasisSimpleElectron(("e", s))
                comp = 0
            else:
                comp = int(rng.integers(2))
                b = BasisSimpleElectron(("e", s), [[0, 0], [1, 0]] if comp == 0 else [[0, 0], [0, 1]])
            edofs.append((("e", s), comp))
        elif k == "spin":
            b = BasisHalfSpin(("s", s)) if qn_size == 1 else BasisHalfSpin(("s", s), [[0, 0], [0, 0]])
        elif k == "sho":
            b = BasisSHO(("v", s), float(rng.choice([0.7, 1.0, 1.5])), int(rng.choice([2, 3])))
        elif k == "melec":
            b = BasisMultiElectron([("m", s, 0), ("m", s, 1), ("m", s, 2)], [0, 1, 1])
        else:
            b = BasisMultiElectron([("m", s, 0), ("m", s, 1), ("m", s, 2)], [[0, 0], [1, 0], [0, 1]])
        basis.append(b)
        spec.append(k)
    terms = []
    for b, k in zip(basis, spec):
        d = b.dofs[0]
        if k == "elec":
            terms.append(Op(r"a^\dagger a", d, float(rng.choice([-0.5, 0.3, 1.0])), qn=[np.array(b.sigmaqn[1]), -np.array(b.sigmaqn[1])]))
        elif k == "spin":
            terms.append(Op("X", d, float(rng.choice([0.4, -0.7])), qn=[np.zeros(qn_size, int)]))
            terms.append(Op("Z", d, float(rng.choice([0.2, 0.9])), qn=[np.zeros(qn_size, int)]))
        elif k == "sho":
            terms.append(Op(r"b^\dagger b", d, float(rng.choice([0.5, 1.0]))))
            terms.append(Op("x", d, float(rng.choice([0.1, -0.3]))))
        else:
            z = np.zeros(qn_size, int)
            terms.append(Op(r"a^\dagger a", [b.dofs[1], b.dofs[1]], 0.6, qn=[z, z]))
            terms.append(Op(r"a^\dagger a", [b.dofs[2], b.dofs[2]], -0.4, qn=[z, z]))
            if k == "melec":       # both carry qn 1: mixing conserves the sector
                terms.append(Op(r"a^\dagger a", [b.dofs[1], b.dofs[2]], 0.25, qn=[z, z]))
                terms.append(Op(r"a^\dagger a", [b.dofs[2], b.dofs[1]], 0.25, qn=[z, z]))
    for (d1, c1), (d2, c2) in zip(edofs[:-1], edofs[1:]):
        if c1 == c2:
            q = np.zeros(qn_size, int)
            q[c1] = 1
            t = float(rng.choice([-0.8, 0.35]))
            terms.append(Op(r"a^\dagger a", [d1, d2], t, qn=[q, -q]))
            terms.append(Op(r"a^\dagger a", [d2, d1], t, qn=[q, -q]))
    # candidates for the total quantum number
    if qn_size == 1:
        nmax = len(edofs) + sum(1 for k in spec if k == "melec")
        qntot = int(rng.integers(0, max(1, min(nmax, 2)) + 1)) if nmax else 0
        if any(k == "melec" for k in spec) and qntot == 0 and rng.random() < 0.5:
            qntot = 1
    else:
        n0 = sum(1 for _, cc in edofs if cc == 0)
        n1 = sum(1 for _, cc in edofs if cc == 1)
        nm = sum(1 for k in spec if k == "melec2")
        qntot = np.array([int(rng.integers(0, min(n0 + nm, 1) + 1)), int(rng.integers(0, min(n1 + nm, 1) + 1))])
    return basis, terms, spec, qn_size, qntot


def rand_mps(c, model, qntot, cls=None):
    """random state + random gauge history; returns (mps, history) or (None, reason)"""
    from renormalizer.mps import Mps
    rng = c.rng
    cls = cls or Mps
    hist = []
    mps = None
    for attempt in range(6):
        seed = c.reseed()
        m_max = int(rng.choice([1, 2, 3, 4, 6]))
        try:
            mps = cls.random(model, qntot, m_max, float(rng.choice([0.5, 1.0])))
            hist.append(["random", seed, m_max])
            break
        except (FloatingPointError, AssertionError, ValueError, IndexError) as e:     # DESIGN §7 D15
            c.run.count("rejected:Mps.random:" + type(e).__name__)
    if mps is None:
        return None, "random-failed"
    n = mps.site_num
    for _ in range(int(rng.integers(0, 5))):
        op = str(rng.choice(["canonicalise", "canonicalise_to", "compress", "move_qnidx", "ensure_left", "ensure_right",
                             "to_complex", "scale", "coeff"]))
        try:
            if op == "canonicalise":
                mps.canonicalise()
            elif op == "canonicalise_to":
                i = int(rng.integers(n))
                mps.canonicalise(i)
                op = f"canonicalise({i})"
            elif op == "compress":
                mps.canonicalise().compress()
            elif op == "move_qnidx":
                i = int(rng.integers(n))
                mps.move_qnidx(i)
                op = f"move_qnidx({i})"
            elif op == "ensure_left":
                mps.ensure_left_canonical()
            elif op == "ensure_right":
                mps.ensure_right_canonical()
            elif op == "to_complex":
                mps = mps.to_complex()
            elif op == "scale":
                v = complex(float(rng.choice([0.5, -1.5, 2.0])), float(rng.choice([0.0, 0.75])))
                if v.imag != 0:
                    mps = mps.to_complex()
                mps = mps.scale(v if v.imag else v.real)
                op = f"scale({v})"
            else:
                mps.coeff = [0.5, -2.0, 0.25 - 0.5j, 1j][int(rng.integers(4))]
                op = f"coeff={mps.coeff}"
            hist.append(op)
        except (UnboundLocalError, AssertionError, FloatingPointError, ValueError) as e:    # D14 (one-site / empty sweep), D10
            c.run.count(f"rejected:history:{op.split('(')[0]}:{type(e).__name__}")
    return mps, hist


# ------------------------------------------------------------------------------------ comparisons
def same_exact(a, b):
    a, b = np.asarray(a), np.asarray(b)
    return a.shape == b.shape and a.dtype == b.dtype and np.array_equal(a, b)


def cmp_chain_fields(c, kind, orig, loaded, info, with_coeff):
    """field by field; returns list of problems"""
    probs = []
    if len(orig) != len(loaded):
        return [f"site number {len(loaded)} != {len(orig)}"]
    for i in range(len(orig)):
        if not same_exact(orig[i].array, loaded[i].array):
            probs.append(f"tensor {i} differs (dtype {np.asarray(loaded[i].array).dtype} vs {np.asarray(orig[i].array).dtype})")
    if np.dtype(orig.dtype) != np.dtype(loaded.dtype):
        probs.append(f"dtype {loaded.dtype} != {orig.dtype}")
    if len(loaded.qn) != len(orig.qn):
        probs.append("number of bonds in qn")
    else:
        for i, (q1, q2) in enumerate(zip(orig.qn, loaded.qn)):
            if not (np.asarray(q1).shape == np.asarray(q2).shape and np.array_equal(np.asarray(q1), np.asarray(q2))):
                probs.append(f"qn[{i}] {np.asarray(q2).tolist()} != {np.asarray(q1).tolist()}")
            elif isinstance(q1, np.ndarray) and q1.dtype.kind in "iu" and not (isinstance(q2, np.ndarray) and q2.dtype.kind in "iu"):
                # the labels come back as another kind of container / element type (later relabelling assigns into them)
                probs.append(f"qn[{i}] type {type(q2).__name__}/{getattr(q2, 'dtype', None)} != ndarray/{q1.dtype}")
    if loaded.qnidx != orig.qnidx:
        probs.append(f"qnidx {loaded.qnidx} != {orig.qnidx}")
    if not np.array_equal(np.asarray(loaded.qntot), np.asarray(orig.qntot)):
        probs.append(f"qntot {loaded.qntot} != {orig.qntot}")
    if loaded.to_right is not orig.to_right and loaded.to_right != orig.to_right:
        probs.append(f"to_right {loaded.to_right} != {orig.to_right}")
    if with_coeff:
        if complex(loaded.coeff) != complex(orig.coeff):
            probs.append(f"coeff {loaded.coeff} != {orig.coeff}")
    return probs


def later(c, kind, name, f, orig, loaded, info):
    """run the same operation on copies of both; compare outcome"""
    def one(x):
        np.random.seed(20240917)       # same global NumPy stream on both sides, whatever the operation draws
        try:
            return "ok", f(x.copy())
        except Exception as e:       # same exception on both sides = same behaviour (e.g. D14 on a one-site chain)
            return "exc", e
    s1, r1 = one(orig)
    s2, r2 = one(loaded)
    c.evals += 1
    c.run.count(f"later:{kind}:{name}" + (":both-raise:" + type(r1).__name__ if s1 == s2 == "exc" else ""))
    if s1 == "exc" and s2 == "exc":
        if type(r1) is not type(r2):
            c.violate(f"{kind}:later-operation:{name}:different-exception",
                      dict(info, original=type(r1).__name__, loaded=type(r2).__name__, error=str(r2)[:200]))
        return
    if s1 != s2:
        err = r2 if s2 == "exc" else r1
        is_list_qn = isinstance(loaded.qn, list) and len(loaded.qn) > 0 and isinstance(loaded.qn[0], list)
        if kind == "mpo" and s2 == "exc" and is_list_qn and isinstance(err, (AttributeError, TypeError)):
            c.violate(SIG_MPO, dict(info, operation=name, error=type(err).__name__ + ": " + str(err)[:200]))
        else:
            c.violate(f"{kind}:later-operation:{name}:raises-on-{'loaded' if s2 == 'exc' else 'original'}-only",
                      dict(info, error=type(err).__name__ + ": " + str(err)[:200]))
        return
    a, b = r1, r2
    try:
        if isinstance(a, tuple):
            ok = all(close(x, y) for x, y in zip(a, b)) and len(a) == len(b)
        else:
            ok = close(a, b)
    except Exception as e:
        c.violate(f"{kind}:later-operation:{name}:incomparable", dict(info, error=str(e)[:200]))
        return
    if not ok:
        c.violate(f"{kind}:later-operation:{name}:different-result", dict(info, operation=name))


def close(a, b):
    a, b = np.asarray(a), np.asarray(b)
    if a.shape != b.shape:
        return False
    sc = max(1.0, float(np.max(np.abs(a))) if a.size else 1.0)
    return bool(np.all(np.abs(a - b) <= 1e-10 * sc))


def dense_coeff(x):
    return np.asarray(x.todense()), complex(getattr(x, "coeff", 1))


# ------------------------------------------------------------------------------------ R1: chains
def part_chain(c, n):
    from renormalizer.model import Model
    from renormalizer.mps import Mps, Mpo, MpDm
    from renormalizer.utils import CompressConfig, CompressCriteria
    rng, run = c.rng, c.run
    for _ in range(n):
        long = bool(rng.random() < 0.15)
        basis, terms, spec, qn_size, qntot = rand_model(c, long=long)
        try:
            model = Model(basis, terms)
            mpo = Mpo(model)
        except Exception as e:
            run.count("rejected:model:" + type(e).__name__)
            continue
        kind = str(rng.choice(["mps", "mps", "mps", "mpdm", "mpo"] if INCLUDE_MPO else ["mps", "mps", "mpdm"]))
        if long:
            kind = "mps"           # dense operators of 10-13 sites are out of reach
            run.count("roundtrip:long-chain")
        info = dict(kind=kind, sites=spec, qn_size=qn_size, qntot=np.asarray(qntot).tolist())
        if kind == "mpo":
            obj, hist = mpo.copy(), ["Mpo(model)"]
            if rng.random() < 0.5:
                obj = obj.to_complex().scale(0.5 + 0.5j)
                hist.append("to_complex;scale")
            if rng.random() < 0.5:
                try:
                    obj.canonicalise(int(rng.integers(obj.site_num)))
                    hist.append("canonicalise")
                except Exception as e:
                    run.count("rejected:history:mpo-canonicalise:" + type(e).__name__)
            cls = Mpo
        else:
            obj, hist = rand_mps(c, model, qntot)
            if obj is None:
                continue
            cls = Mps
            if kind == "mpdm":
                try:
                    cplx = obj.is_complex
                    base = obj if not cplx else None
                    if base is None:
                        obj2, hist = rand_mps(c, model, qntot)
                        if obj2 is None or obj2.is_complex:
                            continue
                        base = obj2
                    dm = MpDm.from_mps(base)
                    hist = list(hist) + ["MpDm.from_mps"]
                    if rng.random() < 0.6:
                        dm = mpo.apply(dm)
                        hist.append("mpo.apply")
                    if rng.random() < 0.5:
                        dm = dm.to_complex().scale(0.5 - 1j)
                        hist.append("to_complex;scale")
                    if rng.random() < 0.5:
                        dm.canonicalise()
                        hist.append("canonicalise")
                    dm.coeff = [1.0, 0.5j, -2.0][int(rng.integers(3))]
                    obj, cls = dm, MpDm
                except Exception as e:
                    run.count("rejected:mpdm-construction:" + type(e).__name__)
                    continue
        info["history"] = hist
        run.count(f"roundtrip:{kind}:sites={obj.site_num}")
        run.count(f"roundtrip:{kind}:{'complex' if obj.is_complex else 'real'}")
        run.count(f"roundtrip:{kind}:qn_size={qn_size}")
        run.count(f"roundtrip:{kind}:qnidx={'last' if obj.qnidx == obj.site_num - 1 else 'first' if obj.qnidx == 0 else 'inner'}")
        run.count(f"roundtrip:{kind}:maxbond={min(max(obj.bond_dims), 5)}")
        fn = c.fname()
        try:
            obj.dump(fn)
        except Exception as e:
            c.violate(f"{kind}:dump:raises:{type(e).__name__}", dict(info, error=str(e)[:200]))
            continue
        if not os.path.exists(fn):
            c.violate(f"{kind}:dump:no-file-written", info)
            continue
        try:
            loaded = cls.load(model, fn)
        except Exception as e:
            c.violate(f"{kind}:load:raises:{type(e).__name__}", dict(info, error=str(e)[:200]))
            continue
        c.evals += 1
        c.distinct.add((kind, tuple(spec), qn_size, repr(hist)))
        info["state"] = dict(tensors=[tl(m.array) for m in obj], qn=[np.asarray(q).tolist() for q in obj.qn], qnidx=obj.qnidx,
                             qntot=np.asarray(obj.qntot).tolist(), to_right=obj.to_right, coeff=repr(getattr(obj, "coeff", None)))
        if type(loaded) is not cls:
            c.violate(f"{kind}:load:type", dict(info, got=type(loaded).__name__))
            continue
        probs = cmp_chain_fields(c, kind, obj, loaded, info, with_coeff=kind != "mpo")
        if probs:
            c.violate(f"{kind}:roundtrip:field:" + probs[0].split(" ")[0].split("[")[0], dict(info, problems=probs[:6]))
            continue
        # later operations
        other = obj.copy()
        ops = [("todense", dense_coeff if kind != "mpo" else (lambda x: np.asarray(x.todense()))),
               ("canonicalise", lambda x: dense_coeff(x.canonicalise()) if kind != "mpo" else np.asarray(x.canonicalise().todense())),
               ("add", lambda x: np.asarray(x.add(other).todense())),
               ("redump", lambda x: redump(c, x, cls, model))]
        if obj.site_num > 1:
            j = int(rng.integers(obj.site_num))
            ops.append((f"canonicalise_to", lambda x: np.asarray(x.canonicalise(j).todense())))
            ops.append(("compress", lambda x: np.asarray(compress_fixed(x).todense())))
        def coeff_isolation(x):
            # the prefactor of a copy is the copy's own: multiplying it in place (as evolve_exact does) must not reach the source
            y = x.copy()
            before = complex(np.asarray(x.coeff).item())
            y.coeff *= 2.0
            return np.asarray([before, complex(np.asarray(x.coeff).item()), complex(np.asarray(y.coeff).item())])
        if kind in ("mps", "mpdm"):
            ops.append(("copy-then-scale-coeff-in-place", coeff_isolation))
        if kind == "mps":
            ops += [("expectation", lambda x: np.asarray(x.expectation(mpo))),
                    ("apply", lambda x: np.asarray(mpo.apply(x).todense())),
                    ("evolve", lambda x: dense_coeff(x.evolve(mpo, 0.05))),
                    ("normalize", lambda x: dense_coeff(x.normalize("mps_and_coeff"))),
                    ("e_occupations", lambda x: np.asarray(x.e_occupations)),
                    ("conj", lambda x: dense_coeff(x.conj()))]
        elif kind == "mpdm":
            ops += [("apply", lambda x: np.asarray(mpo.apply(x).todense())),
                    ("conj_trans", lambda x: np.asarray(x.conj_trans().todense())),
                    ("evolve", lambda x: dense_coeff(x.evolve(mpo, -0.05j)))]
        else:
            st, _h = rand_mps(c, model, qntot)
            if st is not None:
                ops += [("apply", lambda x: np.asarray(x.apply(st).todense())),
                        ("matmul", lambda x: np.asarray((x @ x).todense()))]
            ops += [("conj_trans", lambda x: np.asarray(x.conj_trans().todense()))]
        sel = [o for o in ops if rng.random() < 0.7]
        for name, f in sel:
            later(c, kind, name, f, obj, loaded, info)


def compress_fixed(x):
    from renormalizer.utils import CompressConfig, CompressCriteria
    x.compress_config = CompressConfig(CompressCriteria.fixed, max_bonddim=2)
    x.canonicalise()
    return x.compress()


def redump(c, x, cls, model):
    fn = c.fname()
    x.dump(fn)
    y = cls.load(model, fn)
    return np.asarray(y.todense())


# ------------------------------------------------------------------------------------ R2: spill to disk
def part_spill(c, n):
    from renormalizer.model import Model
    from renormalizer.mps import Mps, Mpo
    from renormalizer.utils import CompressConfig, CompressCriteria
    rng, run = c.rng, c.run
    for _ in range(n):
        basis, terms, spec, qn_size, qntot = rand_model(c)
        if len(basis) < 2:
            continue
        try:
            model = Model(basis, terms)
            mpo = Mpo(model)
        except Exception as e:
            run.count("rejected:model:" + type(e).__name__)
            continue
        mps, hist = rand_mps(c, model, qntot)
        if mps is None:
            continue
        info = dict(kind="mps-spilled", sites=spec, qn_size=qn_size, history=hist)
        ref = mps.copy()
        ref.compress_config = CompressConfig(CompressCriteria.fixed, max_bonddim=8)      # same truncation rule, in memory
        d = tempfile.mkdtemp(dir=c.tmp)
        sp = mps.copy()
        limit = int(rng.choice([0, 1, 40, 100]))
        sp.compress_config = CompressConfig(CompressCriteria.fixed, max_bonddim=8, dump_matrix_size=limit, dump_matrix_dir=d)
        try:
            for i in range(sp.site_num):
                sp[i] = ref[i].array.copy()
            nspill = sum(isinstance(x, str) for x in sp._mp)
            exp_spill = sum(ref[i].array.nbytes > limit for i in range(ref.site_num))
            run.count("spill:sites-on-disk", nspill)
            c.evals += 1
            c.distinct.add(("spill", tuple(spec), repr(hist), limit))
            if nspill != exp_spill:
                c.violate("spill:threshold", dict(info, on_disk=nspill, expected=exp_spill, limit=limit))
            bad = [i for i in range(sp.site_num) if not same_exact(sp[i].array, ref[i].array)]
            if bad:
                c.violate("spill:read-back-differs", dict(info, sites=bad))
                continue
            for i in range(sp.site_num):
                if not np.array_equal(np.asarray(sp[i].sigmaqn), np.asarray(ref[i].sigmaqn)):
                    c.violate("spill:sigmaqn-lost", dict(info, site=i))
            # overwrite one site: the new value must be read back (no stale file)
            i = int(rng.integers(sp.site_num))
            newv = ref[i].array * 2.0
            sp[i] = newv
            if not same_exact(sp[i].array, newv):
                c.violate("spill:overwrite-stale", dict(info, site=i))
            sp[i] = ref[i].array.copy()
            # dump / load and a later operation
            fn = c.fname()
            sp.dump(fn)
            ld = Mps.load(model, fn)
            probs = cmp_chain_fields(c, "mps", ref, ld, info, True)
            if probs:
                c.violate("spill:dump-load:field", dict(info, problems=probs[:5]))
            later(c, "spill", "apply", lambda x: np.asarray(mpo.apply(x).todense()), ref, sp, info)
            later(c, "spill", "canonicalise", lambda x: np.asarray(x.canonicalise().todense()), ref, sp, info)
            later(c, "spill", "evolve", lambda x: dense_coeff(x.evolve(mpo, 0.05)), ref, sp, info)
            sub = os.path.join(d, str(id(sp)))
            had = os.path.isdir(sub)
            del sp
            gc.collect()
            if nspill and (not had or os.path.isdir(sub)):
                c.violate("spill:directory-not-removed" if had else "spill:directory-missing", dict(info, limit=limit))
        except Exception as e:
            c.violate("spill:raises:" + type(e).__name__, dict(info, error=str(e)[:300]))


# ------------------------------------------------------------------------------------ R3: trees
def part_tree(c, n):
    from renormalizer.tn import BasisTree, TTNS, TTNO
    rng, run = c.rng, c.run
    for _ in range(n):
        basis, terms, spec, qn_size, qntot = rand_model(c, tree=True)
        shape = str(rng.choice(["linear", "binary", "mctdh2", "mctdh3", "t3ns"]))
        info = dict(kind="ttns", sites=spec, tree=shape, qn_size=qn_size, qntot=np.asarray(qntot).tolist())
        try:
            if shape == "linear":
                tree = BasisTree.linear(basis)
            elif shape == "binary":
                tree = BasisTree.binary(basis)
            elif shape == "mctdh2":
                tree = BasisTree.general_mctdh(basis, tree_order=2)
            elif shape == "mctdh3":
                tree = BasisTree.general_mctdh(basis, tree_order=3)
            else:
                tree = BasisTree.t3ns(basis)
            ttno = TTNO(tree, terms)
        except Exception as e:
            run.count(f"rejected:tree:{shape}:{type(e).__name__}")
            continue
        st = None
        hist = []
        for attempt in range(5):
            seed = c.reseed()
            m = int(rng.choice([1, 2, 3, 4]))
            try:
                st = TTNS.random(tree, qntot if qn_size == 1 else np.asarray(qntot), m)
                hist.append(["random", seed, m])
                break
            except Exception as e:
                run.count("rejected:TTNS.random:" + type(e).__name__)
        if st is None:
            continue
        try:
            for _k in range(int(rng.integers(0, 4))):
                op = str(rng.choice(["canonicalise", "compress", "to_complex", "scale", "coeff", "add"]))
                if op == "canonicalise":
                    st.canonicalise()
                elif op == "compress":
                    st.canonicalise()
                    st.compress()
                elif op == "to_complex":
                    st = st.to_complex()
                elif op == "scale":
                    st = st.to_complex().scale(0.5 + 0.25j)
                elif op == "coeff":
                    st.coeff = [0.5, -2.0, 0.25 - 0.5j][int(rng.integers(3))]
                else:
                    st = st.add(st.copy())
                hist.append(op)
        except Exception as e:
            run.count("rejected:tree-history:" + type(e).__name__)
        info["history"] = hist
        fn = c.fname()
        try:
            st.dump(fn)
            if not os.path.exists(fn):
                c.violate("ttns:dump:no-file-written", info)
                continue
            ld = TTNS.load(tree, fn)
        except Exception as e:
            c.violate("ttns:dump-load:raises:" + type(e).__name__, dict(info, error=str(e)[:300]))
            continue
        c.evals += 1
        c.distinct.add(("ttns", tuple(spec), shape, repr(hist)))
        info["state"] = dict(tensors=[tl(nd.tensor) for nd in st.node_list], qn=[np.asarray(nd.qn).tolist() for nd in st.node_list],
                             parent=[None if nd.parent is None else st.node_list.index(nd.parent) for nd in st.node_list],
                             coeff=repr(st.coeff))
        run.count("roundtrip:ttns:" + shape)
        run.count("roundtrip:ttns:" + ("complex" if np.iscomplexobj(st.root.tensor) else "real"))
        probs = []
        if len(ld.node_list) != len(st.node_list):
            probs.append("node count")
        else:
            for i, (a, b) in enumerate(zip(st.node_list, ld.node_list)):
                if not same_exact(a.tensor, b.tensor):
                    probs.append(f"tensor {i}")
                if not (np.asarray(a.qn).shape == np.asarray(b.qn).shape and np.array_equal(a.qn, b.qn)):
                    probs.append(f"qn {i}")
                pa = None if a.parent is None else st.node_list.index(a.parent)
                pb = None if b.parent is None else ld.node_list.index(b.parent)
                if pa != pb or len(a.children) != len(b.children):
                    probs.append(f"connectivity {i}")
        if complex(np.asarray(ld.coeff).item()) != complex(st.coeff):
            probs.append(f"coeff {ld.coeff} != {st.coeff}")
        if not np.array_equal(np.asarray(ld.qntot), np.asarray(st.qntot)):
            probs.append("qntot")
        if not isinstance(ld.coeff, (int, float, complex, np.generic)):
            run.count("observed:ttns-loaded-coeff-type:" + type(ld.coeff).__name__)
        if probs:
            c.violate("ttns:roundtrip:field:" + probs[0].split(" ")[0], dict(info, problems=probs[:6]))
            continue

        def tens(x):
            return tuple(np.asarray(nd.tensor) for nd in x.node_list) + (np.asarray(complex(np.asarray(x.coeff).item())),)

        def obs(x):
            return np.asarray([x.expectation(ttno), complex(np.asarray(x.coeff).item())])
        ops = [("expectation", lambda x: np.asarray(x.expectation(ttno))),
               ("canonicalise", lambda x: (x.canonicalise(), obs(x))[1]),
               ("add", lambda x: obs(x.add(st.copy()))),
               ("evolve", lambda x: tens_obs(ps_evolve(x, ttno), ttno)),
               ("compress", lambda x: (x.canonicalise(), x.compress(), obs(x))[2]),
               ("apply", lambda x: obs(ttno.apply(x))),
               ("rdm", lambda x: np.concatenate([np.asarray(v).ravel() for v in x.calc_1site_rdm().values()]))]
        if shape in ("linear", "binary"):
            ops.append(("todense", lambda x: np.asarray(x.todense())))
        for name, f in ops:
            if rng.random() < 0.7:
                later(c, "ttns", name, f, st, ld, info)


def ps_evolve(x, ttno):
    # the default (TDVP-VMF with an adaptive integrator) can take minutes on rank-deficient random states
    from renormalizer.utils import EvolveConfig, EvolveMethod
    x.evolve_config = EvolveConfig(EvolveMethod.tdvp_ps)
    return x.evolve(ttno, 0.05)


def tens_obs(x, ttno):
    return np.asarray([x.expectation(ttno), complex(np.asarray(x.coeff).item())] +
                      [float(np.linalg.norm(nd.tensor)) for nd in x.node_list])


# ------------------------------------------------------------------------------------ K: crash safety
class Crash(BaseException):
    pass


WRITERS = {"savez", "savez_compressed", "save"}
FS_OS = {"makedirs", "mkdir", "remove", "unlink", "rename", "replace", "rmdir", "listdir", "stat", "open", "truncate", "link", "symlink"}
FS_PATH = {"exists", "isfile", "lexists", "getsize", "isdir"}


class Injector:
    def __init__(self):
        self.events = []        # names in call order
        self.dump_of_event = []  # dump index (1-based step) each event belongs to
        self.target = None      # (index, phase)
        self.current_dump = 0
        self.fired = None

    def call(self, name, real, args, kwargs):
        idx = len(self.events)
        self.events.append(name)
        self.dump_of_event.append(self.current_dump)
        if self.target is not None and self.target[0] == idx:
            phase = self.target[1]
            self.fired = (idx, name, phase, self.current_dump)
            if phase == "before":
                raise Crash()
            if phase.startswith("mid"):
                path = args[0]
                buf = io.BytesIO()
                real(buf, *args[1:], **kwargs)
                data = buf.getvalue()
                k = {"mid-empty": 0, "mid-half": len(data) // 2, "mid-last-byte": len(data) - 1}[phase]
                if hasattr(path, "write"):          # the writer was handed an open file instead of a name
                    path.write(data[:k])
                    path.flush()
                else:
                    with open(path, "wb") as f:
                        f.write(data[:k])
                raise Crash()
            r = real(*args, **kwargs)
            raise Crash()
        return real(*args, **kwargs)


class PathProxy:
    def __init__(self, inj):
        self._inj = inj

    def __getattr__(self, name):
        real = getattr(os.path, name)
        if name in FS_PATH:
            return lambda *a, **k: self._inj.call("os.path." + name, real, a, k)
        return real


class OsProxy:
    def __init__(self, inj):
        self._inj = inj
        self.path = PathProxy(inj)

    def __getattr__(self, name):
        real = getattr(os, name)
        if name in FS_OS:
            return lambda *a, **k: self._inj.call("os." + name, real, a, k)
        return real


class NpProxy:
    def __init__(self, inj):
        self._inj = inj

    def __getattr__(self, name):
        real = getattr(np, name)
        if name in WRITERS:
            return lambda *a, **k: self._inj.call("np." + name, real, a, k)
        return real


def make_job_class():
    from renormalizer.model import Model, Op
    from renormalizer.model.basis import BasisHalfSpin
    from renormalizer.mps import Mps, Mpo
    from renormalizer.utils import EvolveConfig, EvolveMethod
    from renormalizer.utils.tdmps import TdMpsJob
    basis = [BasisHalfSpin(i) for i in range(2)]
    model = Model(basis, [Op("X X", [0, 1], 0.5), Op("Z", 0, 0.3), Op("Z", 1, -0.2), Op("X", 0, 0.4)])
    mpo = Mpo(model)
    zop = Mpo(model, Op("Z", 0))

    class Job(TdMpsJob):
        def __init__(self, inj, run_id, dump_dir, job_name, dump_mps=None):
            self.inj = inj
            self.run_id = run_id
            self.zs = []
            self.log = {}
            super().__init__(evolve_config=EvolveConfig(EvolveMethod.tdvp_ps), dump_mps=dump_mps, dump_dir=dump_dir,
                             job_name=job_name)

        def init_mps(self):
            m = Mps.hartree_product_state(model, {})
            m.evolve_config = self.evolve_config
            return m

        def process_mps(self, mps):
            self.zs.append(float(np.real(mps.expectation(zop))))

        def evolve_single_step(self, dt):
            return self.latest_mps.evolve(mpo, dt)

        def get_dump_dict(self):
            step = len(self.evolve_times) - 1
            d = dict(step=np.array(step), run_id=np.array(self.run_id), times=self.evolve_times_array.copy(),
                     z=np.array(self.zs))
            self.log[step] = d
            self.inj.current_dump = step
            return d
    return Job


def classify(path, log, run_id):
    """('absent'|'corrupt'|'foreign'|'complete', step)"""
    if not os.path.exists(path):
        return "absent", None
    try:
        with np.load(path, allow_pickle=False) as z:
            got = {k: z[k] for k in z.files}
    except BaseException:
        return "corrupt", None
    try:
        if int(got["run_id"]) != run_id:
            return "foreign", int(got["step"])
        step = int(got["step"])
        ref = log.get(step)
        if ref is None or set(ref) != set(got):
            return "corrupt", None
        for k in ref:
            if not np.array_equal(ref[k], got[k]):
                return "corrupt", None
        return "complete", step
    except BaseException:
        return "corrupt", None


def prepare_dir(d, name, f_state, b_state, t_state="absent"):
    os.makedirs(d, exist_ok=True)
    for path, st in [(os.path.join(d, name + ".npz"), f_state), (os.path.join(d, name + ".npz.bak"), b_state),
                     (os.path.join(d, name + ".npz.tmp.npz"), t_state)]:
        if st == "absent":
            continue
        buf = io.BytesIO()
        np.savez(buf, step=np.array(7), run_id=np.array(-1), times=np.arange(8.0), z=np.zeros(8))
        data = buf.getvalue()
        with open(path, "wb") as f:
            f.write(data if st == "complete" else data[:len(data) // 2])


def part_crash(c, quick):
    import renormalizer.utils.tdmps as tdmps
    rng, run = c.rng, c.run
    Job = make_job_class()
    nsteps = 3 if quick else 4
    states = ["absent", "partial", "complete"]
    # result file, backup file, temporary file of an interrupted dump (what a killed run can leave behind)
    init_states = [(f, b, t) for f in states for b in states for t in states]
    run_id = 100
    real_os, real_np = tdmps.os, tdmps.np
    try:
        # (dump_mps, info_interval): the state dump and a reporting interval > 1 must not delay the RESULT file
        variants = [(None, 1), ("one", 2)] if quick else [(None, 1), ("one", 1), ("all", 1), ("one", 2), ("all", 3), (None, 2)]
        few = [("absent", "absent", "absent"), ("complete", "absent", "absent"), ("complete", "absent", "partial")]
        for dump_mps, interval in variants:
            for (f0, b0, t0) in (init_states if (dump_mps, interval) == (None, 1) or not quick else few):
                # reference run: record the event list for this initial state
                def one_run(target, nonexistent_dir=False):
                    nonlocal run_id
                    run_id += 1
                    inj = Injector()
                    inj.target = target
                    d = tempfile.mkdtemp(dir=c.tmp)
                    if nonexistent_dir:
                        d = os.path.join(d, "sub", "dir")
                    else:
                        prepare_dir(d, "job", f0, b0, t0)
                    tdmps.os, tdmps.np = OsProxy(inj), NpProxy(inj)
                    job = None
                    crashed = False
                    try:
                        job = Job(inj, run_id, d, "job", dump_mps=dump_mps)
                        job.info_interval = interval
                        job.evolve(0.1, nsteps)
                    except Crash:
                        crashed = True
                    finally:
                        tdmps.os, tdmps.np = real_os, real_np
                    return inj, d, job, crashed, run_id

                inj, d, job, crashed, rid = one_run(None, nonexistent_dir=(f0 == b0 == t0 == "absent" and rng.random() < 0.5))
                events = list(inj.events)
                dumps = list(inj.dump_of_event)
                run.count("crash:events-per-run", len(events))
                info0 = dict(part="crash", initial=dict(job_npz=f0, job_npz_bak=b0, job_npz_tmp=t0), nsteps=nsteps, dump_mps=dump_mps, info_interval=interval,
                             fs_calls=events)
                F, B = os.path.join(d, "job.npz"), os.path.join(d, "job.npz.bak")
                cf, cb = classify(F, job.log, rid), classify(B, job.log, rid)
                c.evals += 1
                if cf != ("complete", nsteps):
                    c.violate("crash:no-crash:final-result-file-not-complete", dict(info0, job_npz=cf, job_npz_bak=cb))
                if cb[0] != "absent":
                    run.count("observed:backup-left-after-clean-run")
                if not any(e.startswith("np.") for e in events):
                    c.violate("crash:harness:no-writer-call-seen", info0)
                    continue
                for idx, name in enumerate(events):
                    phases = ["before", "after"]
                    if name.split(".")[-1] in WRITERS:
                        phases += ["mid-empty", "mid-half", "mid-last-byte"]
                    for ph in phases:
                        inj2, d2, job2, crashed2, rid2 = one_run((idx, ph))
                        c.evals += 1
                        c.distinct.add((f0, b0, t0, dump_mps, interval, idx, ph))
                        if not crashed2 or inj2.fired is None:
                            c.violate("crash:harness:crash-point-not-reached", dict(info0, index=idx, phase=ph))
                            continue
                        t = inj2.fired[3]
                        F2, B2 = os.path.join(d2, "job.npz"), os.path.join(d2, "job.npz.bak")
                        log2 = job2.log if job2 is not None else {}       # killed inside the constructor: nothing written yet
                        cf2, cb2 = classify(F2, log2, rid2), classify(B2, log2, rid2)
                        run.count(f"crash:state:{cf2[0]}/{cb2[0]}")
                        run.count(f"crash:call:{name}:{ph}")
                        good = [s for (k, s) in (cf2, cb2) if k == "complete" and s >= t - 1]
                        if t >= 2:
                            if not good:
                                cls = "savez" if "np." in name else name.split(".")[-1]
                                c.violate(f"crash:no-complete-result-file:{ph.split('-')[0]}:{cls}",
                                          dict(info0, crash_at=dict(call_index=idx, call=name, phase=ph, dump_of_step=t),
                                               job_npz=cf2, job_npz_bak=cb2))
                        elif t <= 1 and "complete" in (f0, b0):
                            # construction and first dump of a job (re)started into a directory that holds a complete result of
                            # an earlier run: that result ("foreign") or the new one must be there at every instant
                            if cf2[0] not in ("foreign", "complete") and cb2[0] not in ("foreign", "complete"):
                                cls = "savez" if "np." in name else name.split(".")[-1]
                                c.violate(f"crash:restart:first-dump-destroys-previous-result:{ph.split('-')[0]}:{cls}",
                                          dict(info0, crash_at=dict(call_index=idx, call=name, phase=ph, dump_of_step=t),
                                               job_npz=cf2, job_npz_bak=cb2))
    finally:
        tdmps.os, tdmps.np = real_os, real_np


# ------------------------------------------------------------------------------------ driver
def search(run, rng, quick):
    import renormalizer  # noqa: F401  (init_log runs on import)
    logging.getLogger("renormalizer").setLevel(logging.CRITICAL)
    with tempfile.TemporaryDirectory() as tmp:
        c = Ctx(run, rng, tmp)
        cwd = os.getcwd()
        os.chdir(tmp)            # default dump_matrix_dir is "./": never litter the harness directory
        try:
            part_chain(c, 250 if quick else 4000)
            part_spill(c, 30 if quick else 400)
            part_tree(c, 40 if quick else 600)
            part_crash(c, quick)
        finally:
            os.chdir(cwd)
    run.sample(dict(part="round trip", note="Mps/MpDm/Mpo/TTNS random states with gauge histories; fields bit for bit, later operations"))
    run.sample(dict(part="crash", note="every fs call of dump_dict x {before, after, mid-write} x 9 initial directory states"))
    run.cov["evaluations"] = run.cov.get("evaluations", 0) + c.evals
    run.cov["distinct_nontrivial"] = len(c.distinct)
    run.cov["rule"] = ("one evaluation = one dump/load round trip, one later operation compared on original and loaded "
                       "object, or one crash-injected job run; distinct by (kind, model, gauge history) resp. (initial "
                       "directory state, call index, phase)")
