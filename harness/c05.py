"""C05 — truncation respects the bond limit and the discarded-weight bound.
L1: Lean: kept-count logic (threshold / fixed / both; left-right bond index convention), prefix
    property of the threshold rule, kept + discarded = total, Frobenius identity for U·D·Vᴴ
    (single-cut error = discarded weight, norm never grows).
L2: exact replay of CompressConfig.compute_m_trunc on dyadic spectra against the Lean model.
L3: dense-SVD oracle for limits, norms and both distance bounds on chains and trees (search_c05)."""
from fractions import Fraction

import numpy as np

import common
from common import Run, Infra


def main():
    run = Run("C05", level="proof")
    quick = run.tier != "thorough"
    rng = np.random.default_rng(run.seed)
    l1 = run.l1(["RenoVerif/Props/C05.lean"])
    if not l1["build_ok"]:
        raise Infra("hand-written Lean library failed to build/audit: " + str(l1.get("bad")) + l1.get("log", "")[-800:])
    from renormalizer.utils import CompressConfig, CompressCriteria

    n = 300 if quick else 3000
    reqs, exp, cases = [], [], []
    skipped = 0
    for _ in range(n):
        k = int(rng.integers(1, 7))
        style = int(rng.integers(4))
        if style == 0:      # flat / degenerate
            sig = [Fraction(int(rng.integers(1, 5)), 4)] * k
        elif style == 1:    # geometric
            sig = [Fraction(1, 2 ** i) for i in range(k)]
        elif style == 2:    # with zeros
            sig = sorted([Fraction(int(rng.integers(0, 9)), 8) for _ in range(k)], reverse=True)
        else:
            sig = sorted([Fraction(int(rng.integers(1, 64)), 16) for _ in range(k)], reverse=True)
        if all(s == 0 for s in sig):
            continue
        thr = Fraction(int(rng.integers(1, 16)), 16) if rng.random() < 0.7 else Fraction(1, 2 ** int(rng.integers(4, 12)))
        crit = str(rng.choice(["threshold", "fixed", "both"]))
        nb = int(rng.integers(2, 7))
        max_dims = [int(rng.integers(1, 7)) for _ in range(nb)]
        idx = int(rng.integers(0, nb - 1))
        left = bool(rng.integers(2))
        # margin rule: skip spectra with an entry within 1e-9 (relative) of the threshold boundary
        tot = sum(s * s for s in sig)
        if any(abs(float(s * s) / float(thr * thr * tot) - 1.0) < 1e-9 for s in sig):
            skipped += 1
            continue
        cfg = CompressConfig(getattr(CompressCriteria, crit), threshold=float(thr), max_bonddim=8)
        cfg.max_dims = np.array(max_dims)
        try:
            got = int(cfg.compute_m_trunc(np.array([float(s) for s in sig]), idx, left))
            got = str(got)
        except IndexError:
            got = "none"
        reqs.append(f"mtrunc {crit} {common.rat(thr)} {','.join(map(str, max_dims))} {','.join(common.rat(s) for s in sig)} {idx} {'L' if left else 'R'}")
        exp.append(got)
        cases.append(dict(criteria=crit, threshold=str(thr), max_dims=max_dims, sigma=[str(s) for s in sig], idx=idx, left=left))
        run.count("criteria=" + crit)
        run.count("spectrum-style=%d" % style)
    replies = common.run_driver("RenoVerif/Driver/C05.lean", reqs)
    distinct = set()
    for case, req, e, rep in zip(cases, reqs, exp, replies):
        distinct.add(req)
        run.sample(dict(case=case, model=rep, impl=e), limit=3)
        if rep == "0":
            run.count("kept-zero-states")
        if rep != e:
            run.violation("corr:compute_m_trunc", dict(correspondence="RenoVerif.Trunc.computeM vs CompressConfig.compute_m_trunc",
                                                       case=case, model=rep, impl=e), no_input=True)
    run.cov.update(programs=len(reqs), disagreements_checked=len(reqs), evaluations=len(reqs), distinct_nontrivial=len(distinct),
                   borderline_skipped=skipped,
                   rule="random dyadic spectra (flat, geometric, with zeros, generic; length 1-6) x thresholds x per-bond limits x three criteria "
                        "x bond index x direction; distinct = distinct request")
    try:
        import search_c05
    except ImportError:
        search_c05 = None
        run.cov["search_module"] = "absent"
    if search_c05 is not None:
        ev0, dn0 = run.cov["evaluations"], run.cov["distinct_nontrivial"]
        search_c05.search(run, rng, quick)
        if run.cov.get("evaluations") != ev0:
            run.cov["search_evaluations"] = run.cov["evaluations"]
            run.cov["evaluations"] = ev0 + run.cov["search_evaluations"]
            run.cov["distinct_nontrivial"] = dn0 + run.cov.get("distinct_nontrivial", 0)
    run.assumptions += ["threshold decision modelled in squared form; spectra within 1e-9 of the boundary are excluded and counted",
                        "multi-bond error bounds (root-sum-square upper bound, Eckart-Young lower bound) are measured, not proved"]
    return run.finish()


if __name__ == "__main__":
    common.main_wrapper(main)
