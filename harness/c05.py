"""C05 — truncation respects the bond limit and the discarded-weight bound.
L1: Lean: kept-count logic (threshold / fixed / both; left-right bond index convention), prefix
    property of the threshold rule, kept + discarded = total, Frobenius identity for U·D·Vᴴ
    (single-cut error = discarded weight, norm never grows).
L2: exact replay of CompressConfig.compute_m_trunc on dyadic spectra against the Lean model.
L3: dense-SVD oracle for limits, norms and both distance bounds on chains and trees (search_c05)."""
from fractions import Fraction

import numpy as np

import common
from common import Run, Infra


def l2_quadrature(run, rng, quick):
    """conclusion of `nested_truncation` on real sweeps: compress a canonical chain, record in every `_update_ms` call the
    singular values beyond `m_trunc`; the dense squared distance must equal the sum of the locally discarded squared
    singular values (exactly, up to rounding), the norm must not grow, and every local error is <= the total."""
    import lib_chain as lc
    from renormalizer.mps.mp import MatrixProduct
    from renormalizer.utils import CompressConfig, CompressCriteria
    rec = []
    unsorted = []
    nsorted = [0]
    orig = MatrixProduct._update_ms

    def wrapped(self, idx, u, vt, sigma=None, qnlset=None, qnrset=None, m_trunc=None):
        if sigma is not None and m_trunc is not None:
            sg = np.sort(np.abs(np.asarray(sigma, dtype=float)))[::-1]
            rec.append(float(np.sum(sg[int(m_trunc):] ** 2)))
            # hypotheses of RenoVerif.TruncOpt.discarded_optimal: `_update_ms` keeps sigma[:m_trunc], which discards the
            # least weight iff the spectrum arrives non-negative and in descending order (globally, across symmetry blocks)
            raw = np.asarray(sigma, dtype=float)
            if int(m_trunc) < len(raw) and len(raw) >= 2:
                top = float(raw.max()) if len(raw) else 0.0
                if np.any(raw < 0) or np.any(np.diff(raw) > 1e-12 * max(top, 1e-300)):
                    unsorted.append(dict(idx=int(idx), m_trunc=int(m_trunc), sigma=[float(x) for x in raw]))
                else:
                    nsorted[0] += 1
        return orig(self, idx, u, vt, sigma, qnlset, qnrset, m_trunc)
    done = 0
    for _ in range(25 if quick else 250):
        nsite = int(rng.integers(3, 8))
        spec = lc.random_model_spec(rng, nsite, qn_size=1 if rng.random() < 0.7 else 2, max_d=3, neutral=bool(rng.random() < 0.4))
        zero_sector = bool(rng.random() < 0.3)
        if zero_sector:
            # signed charges, total charge zero: several populated sectors per bond although qntot == 0
            # (the case in which a skipped global sort of the block spectra goes unnoticed by the suite)
            nsite = int(rng.integers(4, 8))
            spec = [dict(kind="hs", d=2, sigmaqn=[[1], [-1]]) for _ in range(nsite)]
        model = lc.build_model(spec)
        kind = str(rng.choice(["mps", "mps", "mpdm"]))
        mp = lc.random_chain(rng, model, kind, max_bond=8, p_one=0.0, cplx=bool(rng.random() < 0.5), p_dead=0.0,
                             **(dict(qntot=(0,)) if zero_sector and kind == "mps" else {}))
        if mp is None:
            continue
        try:
            mp.move_qnidx(mp.site_num - 1)
            mp.to_right = False
            mp.canonicalise()              # -> right-canonical, centre at site 0, to_right True
            if rng.random() < 0.5:
                mp.canonicalise()          # -> left-canonical, centre at the last site
            psi0 = lc.dense_state(mp) if kind == "mps" else np.asarray(mp.todense())
            psi0 = np.asarray(psi0).ravel() * complex(getattr(mp, "coeff", 1.0))
            m = int(rng.integers(1, 3))
            mp.compress_config = CompressConfig(CompressCriteria.fixed, max_bonddim=m)
            MatrixProduct._update_ms = wrapped
            del rec[:]
            del unsorted[:]
            try:
                out = mp.copy().compress()
            finally:
                MatrixProduct._update_ms = orig
            psi1 = lc.dense_state(out) if kind == "mps" else np.asarray(out.todense())
            psi1 = np.asarray(psi1).ravel() * complex(getattr(out, "coeff", 1.0))
        except Exception as e:  # noqa
            MatrixProduct._update_ms = orig
            run.count("quadrature-raised:" + type(e).__name__)
            continue
        done += 1
        n0 = float(np.linalg.norm(psi0)) ** 2
        d2 = float(np.linalg.norm(psi0 - psi1)) ** 2
        loc = list(rec)
        if zero_sector:
            run.count("quadrature:signed-charges-zero-total")
        run.count(f"quadrature:{kind}:truncating={sum(1 for x in loc if x > 1e-14 * n0)}")
        tol = 1e-9 * max(n0, 1e-300)
        case = dict(kind=kind, chain=lc.dump_chain(mp), max_bonddim=m, local_discarded_weights=loc, squared_distance=d2, squared_norm=n0)
        if unsorted:
            run.violation(f"compress:{kind}:truncated-spectrum-not-descending",
                          dict(case, events=unsorted[:3], what="_update_ms keeps the first m_trunc singular values; the spectrum it received is not "
                               "non-negative and descending, so the kept set is not the set of largest values (hypothesis of "
                               "RenoVerif.TruncOpt.discarded_optimal)"))
        run.cov["truncations_with_descending_spectrum"] = nsorted[0]
        if abs(d2 - sum(loc)) > tol:
            run.violation(f"compress:{kind}:distance-not-root-sum-square-of-local-discarded-weights",
                          dict(case, what="on a canonical chain ||psi - compress(psi)||^2 must equal the sum of the locally discarded squared singular values "
                                          "(RenoVerif.Trunc.nested_truncation)"))
        if float(np.linalg.norm(psi1)) ** 2 > n0 * (1 + 1e-9):
            run.violation(f"compress:{kind}:norm-grows", case)
    return done


def main():
    run = Run("C05", level="proof")
    quick = run.tier != "thorough"
    rng = np.random.default_rng(run.seed)
    l1 = run.l1(["RenoVerif/Props/C05.lean", "RenoVerif/Props/C05Nested.lean", "RenoVerif/Props/C05Optimal.lean"])
    if not l1["build_ok"]:
        raise Infra("hand-written Lean library failed to build/audit: " + str(l1.get("bad")) + l1.get("log", "")[-800:])
    from renormalizer.utils import CompressConfig, CompressCriteria

    n = 300 if quick else 3000
    reqs, exp, cases = [], [], []
    skipped = 0
    for _ in range(n):
        k = int(rng.integers(1, 7))
        style = int(rng.integers(4))
        if style == 0:      # flat / degenerate
            sig = [Fraction(int(rng.integers(1, 5)), 4)] * k
        elif style == 1:    # geometric
            sig = [Fraction(1, 2 ** i) for i in range(k)]
        elif style == 2:    # with zeros
            sig = sorted([Fraction(int(rng.integers(0, 9)), 8) for _ in range(k)], reverse=True)
        else:
            sig = sorted([Fraction(int(rng.integers(1, 64)), 16) for _ in range(k)], reverse=True)
        if all(s == 0 for s in sig):
            continue
        thr = Fraction(int(rng.integers(1, 16)), 16) if rng.random() < 0.7 else Fraction(1, 2 ** int(rng.integers(4, 12)))
        crit = str(rng.choice(["threshold", "fixed", "both"]))
        nb = int(rng.integers(2, 7))
        max_dims = [int(rng.integers(1, 7)) for _ in range(nb)]
        idx = int(rng.integers(0, nb - 1))
        left = bool(rng.integers(2))
        # margin rule: skip spectra with an entry within 1e-9 (relative) of the threshold boundary
        tot = sum(s * s for s in sig)
        if any(abs(float(s * s) / float(thr * thr * tot) - 1.0) < 1e-9 for s in sig):
            skipped += 1
            continue
        cfg = CompressConfig(getattr(CompressCriteria, crit), threshold=float(thr), max_bonddim=8)
        cfg.max_dims = np.array(max_dims)
        try:
            got = int(cfg.compute_m_trunc(np.array([float(s) for s in sig]), idx, left))
            got = str(got)
        except IndexError:
            got = "none"
        reqs.append(f"mtrunc {crit} {common.rat(thr)} {','.join(map(str, max_dims))} {','.join(common.rat(s) for s in sig)} {idx} {'L' if left else 'R'}")
        exp.append(got)
        cases.append(dict(criteria=crit, threshold=str(thr), max_dims=max_dims, sigma=[str(s) for s in sig], idx=idx, left=left))
        run.count("criteria=" + crit)
        run.count("spectrum-style=%d" % style)
    replies = common.run_driver("RenoVerif/Driver/C05.lean", reqs)
    distinct = set()
    for case, req, e, rep in zip(cases, reqs, exp, replies):
        distinct.add(req)
        run.sample(dict(case=case, model=rep, impl=e), limit=3)
        if rep == "0":
            run.count("kept-zero-states")
        if rep != e:
            run.violation("corr:compute_m_trunc", dict(correspondence="RenoVerif.Trunc.computeM vs CompressConfig.compute_m_trunc",
                                                       case=case, model=rep, impl=e), no_input=True)
    run.cov.update(programs=len(reqs), disagreements_checked=len(reqs), evaluations=len(reqs), distinct_nontrivial=len(distinct),
                   borderline_skipped=skipped,
                   rule="random dyadic spectra (flat, geometric, with zeros, generic; length 1-6) x thresholds x per-bond limits x three criteria "
                        "x bond index x direction; distinct = distinct request")
    run.cov["quadrature_cases"] = l2_quadrature(run, rng, quick)
    try:
        import search_c05
    except ImportError:
        search_c05 = None
        run.cov["search_module"] = "absent"
    if search_c05 is not None:
        ev0, dn0 = run.cov["evaluations"], run.cov["distinct_nontrivial"]
        search_c05.search(run, rng, quick)
        if run.cov.get("evaluations") != ev0:
            run.cov["search_evaluations"] = run.cov["evaluations"]
            run.cov["evaluations"] = ev0 + run.cov["search_evaluations"]
            run.cov["distinct_nontrivial"] = dn0 + run.cov.get("distinct_nontrivial", 0)
    run.assumptions += ["threshold decision modelled in squared form; spectra within 1e-9 of the boundary are excluded and counted",
                        "multi-bond error: root-sum-square of the LOCALLY discarded weights is proved (nested projections) and checked on real sweeps; that these are bounded by "
                        "the original state's discarded weights at the same bonds, and the Eckart-Young lower bound, are measured, not proved"]
    return run.finish()


if __name__ == "__main__":
    common.main_wrapper(main)
