"""C19 — integrator coefficient tables have their advertised order.
L1: model regenerated from rk.py (translator), theorems re-checked by `lake build` + axiom audit.
L2: model's tiCoeff / taylorCoeff vs the code's runge_kutta_ti_coefficient / TaylorExpansion.
L3: independent float evaluation of all rooted-tree order conditions on the real tableaux."""
import math
import os
import sys
from fractions import Fraction

import numpy as np

import common
from common import Run, Infra

sys.path.insert(0, os.path.join(common.VERIF, "translator"))
import rk2lean  # noqa: E402


# --- independent enumeration of unordered rooted trees (canonical nested tuples)
def trees_of_order(n, _memo={}):
    """all unordered rooted trees with n nodes, as sorted tuples of children"""
    if n in _memo:
        return _memo[n]
    if n == 1:
        res = [()]
    else:
        res = set()

        # multisets of subtrees with total size n-1
        def parts(total, maxsize):
            if total == 0:
                yield ()
                return
            for s in range(min(total, maxsize), 0, -1):
                for t in trees_of_order(s):
                    for rest in parts(total - s, s):
                        yield (t,) + rest
        for ch in parts(n - 1, n - 1):
            res.add(tuple(sorted(ch, key=repr)))
        res = sorted(res, key=repr)
    _memo[n] = res
    return res


def t_size(t):
    return 1 + sum(t_size(c) for c in t)


def t_gamma(t):
    g = t_size(t)
    for c in t:
        g *= t_gamma(c)
    return g


def t_stagevec(t, a):
    """vector over stages: product over children of (a @ stagevec(child))"""
    v = np.ones(a.shape[0])
    for c in t:
        v = v * (a @ t_stagevec(c, a))
    return v


def t_phi(t, a, b):
    return float(b @ t_stagevec(t, a))


def tree_str(t):
    return "[" + "".join(tree_str(c) for c in t) + "]"


def main():
    run = Run("C19", level="proof")
    quick = run.tier != "thorough"
    # ---- translator
    tr = rk2lean.main(common.REPO)
    tables = tr["tables"]
    run.cov["translator"] = dict(methods=list(tables), literal_path_methods=tr["literal_methods"],
                                 literal_entries_crosschecked=tr["literal_entries_checked"],
                                 problems=tr["problems"], regenerated_changed=tr["changed"])
    from renormalizer.utils import rk
    from renormalizer.utils.rk import RungeKutta, TaylorExpansion

    # ---- L3 float search on the implementation (always; it supplies the replay)
    maxord_extra = 0 if quick else 1
    found = {}
    nconds = 0
    for m in rk.method_list:
        r = RungeKutta(m)
        a, b, c = r.tableau
        run.count(f"stages={r.stage}")
        if not (a.shape == (r.stage, r.stage) and b.shape[1] == r.stage and c.shape == (r.stage,)
                and b.shape[0] == len(r.order)):
            run.violation(f"shape:{m}", dict(method=m, what="tableau shapes / number of orders inconsistent",
                                             a=a.tolist(), b=b.tolist(), c=c.tolist(), order=list(r.order)))
            continue
        if not np.allclose(a.sum(axis=1), c, atol=1e-14, rtol=0):
            i = int(np.argmax(np.abs(a.sum(axis=1) - c)))
            run.violation(f"nodes:{m}", dict(method=m, what="node c[i] is not the row sum of a[i,:]", i=i,
                                             row_sum=float(a.sum(axis=1)[i]), c=float(c[i])))
        if np.any(np.triu(a) != 0):
            run.violation(f"explicit:{m}", dict(method=m, what="tableau matrix not strictly lower triangular", a=a.tolist()))
        for irow, p in enumerate(r.order):
            for n in range(1, p + 1):
                for t in trees_of_order(n):
                    nconds += 1
                    lhs = t_phi(t, a, b[irow]) * t_gamma(t)
                    if abs(lhs - 1.0) > 1e-12:
                        key = (m, irow)
                        if key not in found:
                            found[key] = dict(method=m, row=irow, advertised_order=p, tree=tree_str(t), tree_order=n,
                                              gamma=t_gamma(t), phi_times_gamma=lhs,
                                              what="Butcher order condition violated: b·Phi(t)·gamma(t) != 1")
        # ti expansion
        coeff = np.atleast_2d(r.runge_kutta_ti_coefficient())
        for irow, p in enumerate(r.order):
            for k in range(p + 1):
                if abs(coeff[irow, k] * math.factorial(k) - 1) > 1e-12:
                    run.violation(f"ti:{m}:row{irow}", dict(method=m, row=irow, k=k, coeff=float(coeff[irow, k]),
                                                            expected=1 / math.factorial(k),
                                                            what="constant-coefficient expansion differs from 1/k!"))
                    break
        if len(r.order) == 2 and r.order[0] - r.order[1] != 1:
            run.violation(f"pair:{m}", dict(method=m, order=list(r.order), what="embedded pair orders do not differ by one"))
    for (m, irow), obj in found.items():
        run.violation(f"order:{m}:row{irow}", obj)
    run.cov["evaluations"] = nconds
    run.cov["distinct_nontrivial"] = nconds
    run.cov["rule"] = ("every (method,row,unordered rooted tree with <= advertised order nodes) condition evaluated in float64 on the "
                       "real tableau (independent Python enumeration: 1,1,2,4,9 trees of order 1..5); each is distinct by construction")
    for k in range(0, 61):      # every order a user can ask for in practice; the factorial must not be taken in fixed-width integers
        te = TaylorExpansion(k)
        exp = np.array([1.0 / math.factorial(i) for i in range(k + 1)])
        if te.coeff.shape != exp.shape or np.max(np.abs(te.coeff / exp - 1)) > 4e-15:   # a few ulp: scipy evaluates k! through the gamma function
            run.violation("taylor", dict(order=k, coeff=te.coeff.tolist(), expected=exp.tolist(),
                                         what="Taylor propagator coefficients are not 1/k!"))
            break

    # ---- the tables handed out through EvolveConfig are the ones checked above, for EVERY config object: a config whose owner
    #      rescales its own tables in place (absorbing a step size) must not change what the next config gets
    from renormalizer.utils import EvolveConfig, EvolveMethod
    for m in tables:
        try:
            c1 = EvolveConfig(EvolveMethod.prop_and_compress_tdrk, rk_solver=m, taylor_order=7)
            for arr in c1.rk_config.tableau:
                np.asarray(arr)[...] *= 0.37
            c1.taylor_config.coeff[...] *= 0.37
            c2 = EvolveConfig(EvolveMethod.prop_and_compress_tdrk, rk_solver=m, taylor_order=7)
            fresh = RungeKutta(m)
            same = all(np.array_equal(np.asarray(x), np.asarray(y)) for x, y in zip(c2.rk_config.tableau, fresh.tableau)) and \
                np.array_equal(c2.taylor_config.coeff, TaylorExpansion(7).coeff) and \
                all(np.array_equal(np.asarray(x), np.asarray(y)) for x, y in zip(EvolveConfig().rk_config.tableau, RungeKutta(EvolveConfig().rk_config.method).tableau))
        except Exception as e:  # noqa
            run.count("config-isolation-raised:" + type(e).__name__)
            continue
        run.count("config-isolation-checked")
        if not same:
            run.violation("config:tables-shared-between-EvolveConfig-objects",
                          dict(method=m, what="scaling the tables of one EvolveConfig in place changed the tableau / Taylor coefficients a NEW EvolveConfig ships"))
            break

    # ---- whatever sequence of constructions and attribute changes produced a config (callers flip `adaptive`, swap methods,
    #      copy configs), the Taylor coefficients it carries are 1/k! for its order and its tableau is the method's own
    seqs = 0
    for trial in range(40):
        r = np.random.default_rng(1000 * run.seed + trial)
        try:
            kw = {}
            if r.random() < 0.5:
                kw["adaptive"] = bool(r.random() < 0.5)
            if r.random() < 0.3:
                kw["taylor_order"] = int(r.integers(1, 9))
            cfg = EvolveConfig(EvolveMethod.prop_and_compress, **kw)
            hist = [dict(create=kw)]
            for _ in range(int(r.integers(1, 5))):
                act = str(r.choice(["adaptive=True", "adaptive=False", "copy", "toggle-twice"]))
                if act == "adaptive=True":
                    cfg.adaptive = True
                elif act == "adaptive=False":
                    cfg.adaptive = False
                elif act == "copy":
                    cfg = cfg.copy()
                else:
                    cfg.adaptive = not cfg.adaptive
                    cfg.adaptive = not cfg.adaptive
                hist.append(act)
            te = cfg.taylor_config
            k = len(te.coeff) - 1
            exp = np.array([1.0 / math.factorial(i) for i in range(k + 1)])
            seqs += 1
            if te.order != k or np.max(np.abs(te.coeff / exp - 1)) > 4e-15:
                run.violation("config:taylor-coefficients-after-attribute-changes",
                              dict(history=hist, order=int(te.order), coeff=te.coeff.tolist(), expected=exp.tolist(),
                                   what="the Taylor coefficients a config carries are not 1/k!"))
                break
        except Exception as e:  # noqa
            run.count("config-sequence-raised:" + type(e).__name__)
    run.count("config-sequences-checked", seqs)

    # ---- L1
    l1 = run.l1(["RenoVerif/Props/C19.lean"], ["RenoVerif/Gen/RKProps.lean"])
    gen_ok = l1["build_ok"]
    expected_thms = set("RenoVerif.RK.Gen." + t for t in tr["theorems"])
    if gen_ok:
        missing = expected_thms - set(l1["names"])
        if missing:
            raise Infra(f"generated theorems missing from audit: {sorted(missing)[:3]}")

    # ---- L2 (driver works on Gen/RK.lean only, which holds data, not proofs)
    reqs = ["methods"]
    for m, t in tables.items():
        for i in range(len(t["b"])):
            reqs += [f"violation {m} {i}", f"ticoeff {m} {i}"]
        reqs += [f"rowsums {m}", f"shape {m}"]
    reqs += [f"taylor {k}" for k in (0, 1, 5, 12, 25, 40)]
    try:
        rep = dict(zip(reqs, common.run_driver("RenoVerif/Driver/C19.lean", reqs)))
    except Infra:
        if gen_ok:
            raise
        rep = {}
    disagreements = 0
    programs = 0
    if rep:
        if rep["methods"].split() != list(rk.method_list):
            run.violation("corr:methods", dict(model=rep["methods"], impl=list(rk.method_list)), no_input=True)
        for m, t in tables.items():
            r = RungeKutta(m)
            coeff = np.atleast_2d(r.runge_kutta_ti_coefficient())
            for i in range(len(t["b"])):
                programs += 1
                mc = [Fraction(x) for x in rep[f"ticoeff {m} {i}"].split()]
                run.sample(dict(method=m, row=i, model_tiCoeff=[str(x) for x in mc], impl_tiCoeff=coeff[i].tolist()), limit=3)
                if len(mc) != coeff.shape[1] or max(abs(float(x) - y) for x, y in zip(mc, coeff[i])) > 1e-13:
                    disagreements += 1
                    run.violation(f"corr:ticoeff:{m}:row{i}",
                                  dict(correspondence="RenoVerif.RK.tiCoeff vs RungeKutta.runge_kutta_ti_coefficient",
                                       method=m, row=i, model=[str(x) for x in mc], impl=coeff[i].tolist()), no_input=True)
                v = rep[f"violation {m} {i}"]
                if v != "none" and (m, i) not in found:
                    # the exact model sees a violated tree that the float search (tol 1e-12) did not: report it
                    run.violation(f"order:{m}:row{i}", dict(method=m, row=i, lean_first_violation=v,
                                                            what="order condition violated in exact arithmetic on the translated tableau"))
                if v != "none" and (m, i) in found:
                    found[(m, i)]["lean_first_violation"] = v
            if rep[f"rowsums {m}"] != "true" and f"nodes:{m}" not in [s for s, _, _ in run.violations]:
                run.violation(f"nodes:{m}", dict(method=m, what="exact row sums differ from nodes (model)"))
        for k in (0, 1, 5, 12, 25, 40):
            programs += 1
            mc = [Fraction(x) for x in rep[f"taylor {k}"].split()]
            te = TaylorExpansion(k).coeff
            if len(mc) != len(te) or max(abs(float(x) / y - 1) for x, y in zip(mc, te)) > 4e-15:
                disagreements += 1
                run.violation("corr:taylor", dict(correspondence="taylorCoeff vs TaylorExpansion", k=k), no_input=True)
    run.cov["programs"] = programs
    run.cov["disagreements_checked"] = programs
    run.cov["disagreements_found"] = disagreements

    # ---- triage of L1
    if tr["problems"] and not run.violations:
        run.violation("translation", dict(theorem="translation of rk.py tableaux to exact rationals",
                                          problems=tr["problems"]), no_input=True)
    if not gen_ok and not run.violations:
        bad = l1.get("bad") or {}
        run.violation("l1", dict(theorem=sorted(bad) or "RenoVerif.Gen.RKProps (build failed)",
                                 log=l1.get("log", "")[-1500:], axioms=bad), no_input=True)
    run.assumptions += [
        "translator rk2lean.py: runtime float64 -> unique rational with denominator <= 1e7 within 1 ulp; cross-checked by an ast path",
        "float evaluation of p/q literals in rk.py (IEEE division)",
        "order conditions are the autonomous-form conditions together with c = row sums of a (proved per method)",
    ]
    return run.finish()


if __name__ == "__main__":
    common.main_wrapper(main)
