"""C08 — ground/excited-state searches are variational and consistent.
L1: Lean: compression never lowers the spectrum (H - λ ≥ 0 ⇒ PᴴHP - λ ≥ 0 for isometric P, nested
    compressions, Rayleigh-quotient form), (H-ω)² positive semidefinite.
L2: the hypothesis of the theorem on the real optimiser's states: after optimize_mps the returned
    state is canonical, i.e. the environment blocks are isometries (PᴴP = 1), checked from the tensors;
    and the reported energy is the Rayleigh quotient <ψ|H|ψ>/<ψ|ψ> of the returned state.
L3: exact diagonalisation per sector (search_c08)."""
import numpy as np

import common
import generic_check


def l2_isometry(run, rng, quick):
    from renormalizer.model import Model, Op, basis as ba
    from renormalizer.mps import Mps, Mpo
    from renormalizer.mps.gs import optimize_mps
    from renormalizer.utils import OptimizeConfig
    n = 4 if quick else 20
    done = 0
    for _ in range(n):
        ns = int(rng.integers(3, 6))
        basis = [ba.BasisHalfSpin(i, sigmaqn=[0, 1]) for i in range(ns)]
        terms = []
        for i in range(ns - 1):
            terms.append(Op("sigma_+ sigma_-", [i, i + 1], float(rng.uniform(-1, 1)), qn=[1, -1]))
            terms.append(Op("sigma_- sigma_+", [i, i + 1], terms[-1].factor, qn=[-1, 1]))
        for i in range(ns):
            terms.append(Op("sigma_z", i, float(rng.uniform(-1, 1))))
        model = Model(basis, terms)
        mpo = Mpo(model)
        nel = int(rng.integers(1, ns))
        method = str(rng.choice(["1site", "2site"]))
        mps = Mps.random(model, nel, 8, 1.0)
        mps.optimize_config = OptimizeConfig(procedure=[[8, 0.3], [8, 0.0], [8, 0.0]])
        mps.optimize_config.method = method
        try:
            energies, out = optimize_mps(mps, mpo)
        except Exception as e:  # noqa
            run.count("optimize-raised:" + type(e).__name__)
            continue
        done += 1
        e_last = float(np.atleast_1d(energies[-1])[0]) if np.ndim(energies[-1]) else float(energies[-1])
        psi = out.todense().ravel()
        H = mpo.todense()
        ray = float(np.real(psi.conj() @ H @ psi) / np.real(psi.conj() @ psi))
        case = dict(nsite=ns, nel=nel, method=method, terms=[(t.symbol, list(t.dofs), float(t.factor)) for t in terms])
        if abs(ray - e_last) > 1e-7 * max(1.0, abs(ray)):
            run.violation("gs:reported-energy-not-rayleigh-quotient", dict(case=case, reported=e_last, rayleigh=ray))
        # isometry of the blocks away from the centre (hypothesis P^H P = 1)
        c = int(out.qnidx)
        for i in range(len(out)):
            t = np.asarray(out[i].array)
            if i < c:
                m = t.reshape(-1, t.shape[-1])
            elif i > c:
                m = t.reshape(t.shape[0], -1).T
            else:
                continue
            g = m.conj().T @ m
            if np.max(np.abs(g - np.eye(g.shape[0]))) > 1e-8:
                run.violation("gs:returned-state-not-canonical", dict(case=case, site=i, centre=c,
                                                                       deviation=float(np.max(np.abs(g - np.eye(g.shape[0]))))))
        run.count("method=" + method)
    return done


if __name__ == "__main__":
    common.main_wrapper(lambda: generic_check.run_check(
        "C08", "other", ["RenoVerif/Props/C08.lean"], [l2_isometry],
        ["convergence to the exact eigenpair at full bond dimension, the interlacing bound for higher roots and the Davidson solver are numerical (partial)",
         "Heff = P^H H P is taken from the construction of the environments (C07 contraction theorems); only the isometry hypothesis is re-checked on real states"],
        "random particle-conserving spin chains (3-5 sites) x sector x 1-site/2-site; returned state's canonical form and Rayleigh quotient",
        explanation="Partial proof: the variational inequality is a Lean theorem under the isometry hypothesis, which is checked on the real optimiser's "
                    "output; energies vs exact diagonalisation per sector, roots, omega targeting, OFS are decided by the dense oracle search."))
