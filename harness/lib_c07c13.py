"""Shared generators / dense helpers for the C07 (observables) and C13 (no interference)
failing-input searches.  Only NumPy is used on the oracle side; the library under test is used
only to *build* inputs (models, states in random gauges, operators)."""
import numpy as np

from renormalizer import (Model, Mps, Mpo, Op, BasisHalfSpin, BasisSHO, BasisSimpleElectron,
                          BasisMultiElectron, BasisMultiElectronVac)
from renormalizer.mps import MpDm

EPS = float(np.finfo(float).eps)


# ------------------------------------------------------------------------------------ rng
def seed_global(rng):
    """Mps.random / TTNS.random draw from the global NumPy state: tie it to `rng`."""
    np.random.seed(int(rng.integers(0, 2 ** 31 - 1)))


def rnd(rng, shape, cplx):
    a = rng.standard_normal(shape)
    if cplx:
        a = a + 1j * rng.standard_normal(shape)
    return a


# ------------------------------------------------------------------------------------ models
def build_basis(desc):
    out = []
    for d in desc:
        k = d[0]
        if k == "spin":
            out.append(BasisHalfSpin(d[1]))
        elif k == "spin2":
            out.append(BasisHalfSpin(d[1], sigmaqn=d[2]))
        elif k == "sho":
            out.append(BasisSHO(d[1], d[2], d[3]))
        elif k == "sho2":  # SHO with a two-component (zero) label
            b = BasisSHO(d[1], d[2], d[3])
            b.sigmaqn = np.zeros((d[3], 2), dtype=int)
            out.append(b)
        elif k == "se":
            out.append(BasisSimpleElectron(d[1]))
        elif k == "me":
            out.append(BasisMultiElectron(list(d[1]), list(d[2])))
        elif k == "mev":
            out.append(BasisMultiElectronVac(list(d[1])))
        else:
            raise ValueError(k)
    return out


def gen_basis_desc(rng, kind, nsite):
    """kind: zeroqn | elec | multi | 2qn.  Returns a JSON-able description."""
    desc = []
    if kind == "zeroqn":
        for i in range(nsite):
            if rng.random() < 0.5:
                desc.append(["spin", f"s{i}"])
            else:
                desc.append(["sho", f"v{i}", float(rng.choice([0.5, 1.0, 1.7])), int(rng.integers(2, 5))])
    elif kind == "elec":
        ne = 0
        for i in range(nsite):
            r = rng.random()
            if r < 0.55 or (i == nsite - 1 and ne == 0):
                desc.append(["se", f"e{i}"])
                ne += 1
            elif r < 0.85:
                desc.append(["sho", f"v{i}", float(rng.choice([0.5, 1.0, 1.7])), int(rng.integers(2, 4))])
            else:
                desc.append(["spin", f"s{i}"])
    elif kind == "multi":
        pos = int(rng.integers(0, nsite))
        for i in range(nsite):
            if i == pos:
                nd = int(rng.integers(2, 4))
                dofs = [f"e{i}_{j}" for j in range(nd)]
                if rng.random() < 0.5:
                    desc.append(["me", dofs, [1] * nd])
                else:
                    desc.append(["mev", dofs])
            else:
                r = rng.random()
                if r < 0.3:
                    desc.append(["se", f"e{i}"])
                elif r < 0.8:
                    desc.append(["sho", f"v{i}", 1.0, int(rng.integers(2, 4))])
                else:
                    desc.append(["spin", f"s{i}"])
    elif kind == "2qn":
        for i in range(nsite):
            if rng.random() < 0.75 or i == 0:
                desc.append(["spin2", f"s{i}", [[1, 0], [0, 1]]])
            else:
                desc.append(["sho2", f"v{i}", 1.0, int(rng.integers(2, 4))])
    else:
        raise ValueError(kind)
    return desc


def possible_qntot(desc, rng):
    """a reachable total label for Mps.random"""
    k0 = desc[0][0]
    if any(d[0] == "spin2" for d in desc):
        ns = sum(1 for d in desc if d[0] == "spin2")
        up = int(rng.integers(0, ns + 1))
        return np.array([up, ns - up])
    nmax = 0
    forced = 0
    for d in desc:
        if d[0] in ("se", "mev"):
            nmax += 1
        elif d[0] == "me":
            nmax += 1
            forced += 1
    lo = forced
    hi = max(lo, nmax)
    return int(rng.integers(lo, hi + 1))


# ------------------------------------------------------------------------------------ dense
def arrays(mp):
    return [np.array(m.array) for m in mp]


def dense_chain(arrs):
    """contract a chain of tensors (l, p.., r) -> tensor with all physical legs, boundary legs
    removed.  For 3-leg tensors: shape (p1..pn); for 4-leg: (p1,q1,p2,q2,..)."""
    res = arrs[0]
    assert res.shape[0] == 1
    res = res.reshape(res.shape[1:])
    for a in arrs[1:]:
        res = np.tensordot(res, a, axes=([-1], [0]))
    assert res.shape[-1] == 1
    return res.reshape(res.shape[:-1])


def dense_vec(arrs):
    return dense_chain(arrs).reshape(-1)


def dense_op(arrs):
    """4-leg chain -> matrix with rows = 'up' legs, cols = 'down' legs"""
    t = dense_chain(arrs)
    n = len(arrs)
    perm = list(range(0, 2 * n, 2)) + list(range(1, 2 * n, 2))
    t = t.transpose(perm)
    d = int(np.prod(t.shape[:n]))
    return t.reshape(d, -1)


def kron_site(pdims, i, mat):
    out = np.eye(1)
    for j, p in enumerate(pdims):
        out = np.kron(out, mat if j == i else np.eye(p))
    return out


# ------------------------------------------------------------------------------------ states
def rand_tensors(rng, pdims, cplx, legs=3, maxbond=4, scale=True):
    n = len(pdims)
    bonds = [1] + [int(rng.integers(1, maxbond + 1)) for _ in range(n - 1)] + [1]
    if rng.random() < 0.2:
        bonds = [1] + [1] * (n - 1) + [1]  # product state, bond dimension one
    ts = []
    for i, p in enumerate(pdims):
        shp = (bonds[i],) + (p,) * (legs - 2) + (bonds[i + 1],)
        a = rnd(rng, shp, cplx)
        if scale:
            a = a * float(rng.choice([0.3, 1.0, 1.0, 2.5]))
        ts.append(a)
    return ts


def mps_from_tensors(model, ts, cls=Mps):
    mp = cls.from_mp(model, [np.array(t) for t in ts])
    return mp


def gauge_history(mp, rng, steps=None, lossless_only=True, hist=None):
    """apply a random sequence of public re-gauging operations IN PLACE; every step keeps the
    represented vector (up to rounding).  Returns the list of step names."""
    if hist is None:
        hist = []
    n = mp.site_num
    if n < 2:
        return hist
    if steps is None:
        steps = int(rng.integers(0, 4))
    for _ in range(steps):
        r = int(rng.integers(0, 6))
        if r == 0:
            mp.ensure_left_canonical()
            hist.append("ensure_left")
        elif r == 1:
            mp.ensure_right_canonical()
            hist.append("ensure_right")
        elif r == 2:
            k = int(rng.integers(0, n))
            mp.move_qnidx(k)
            hist.append(f"move_qnidx({k})")
        elif r == 3:
            # mixed canonical form with the centre at k (avoid the empty sweep, D14)
            k = int(rng.integers(0, n))
            if rng.random() < 0.5:
                mp.ensure_left_canonical()   # -> to_right False, qnidx n-1
                if k != n - 1:
                    mp.canonicalise(stop_idx=k)
                    hist.append(f"left;canonicalise(stop={k})")
            else:
                mp.ensure_right_canonical()  # -> to_right True, qnidx 0
                if k != 0:
                    mp.canonicalise(stop_idx=k)
                    hist.append(f"right;canonicalise(stop={k})")
        elif r == 4:
            mp.ensure_right_canonical() if rng.random() < 0.5 else mp.ensure_left_canonical()
            mp.compress(temp_m_trunc=10 ** 6)
            hist.append("canon;compress(lossless)")
        else:
            c = float(rng.choice([-1.0, 0.5, 2.0]))
            mp.scale(c, inplace=True)
            hist.append(f"scale({c})")
    return hist


def random_gauge_matrices(ts, rng, cplx):
    """insert G, G^{-1} on every bond of a raw tensor chain (zero-label models only)"""
    out = [np.array(t) for t in ts]
    for i in range(len(out) - 1):
        d = out[i].shape[-1]
        g = rnd(rng, (d, d), cplx) + 2.0 * np.eye(d)
        gi = np.linalg.inv(g)
        out[i] = np.tensordot(out[i], g, axes=([-1], [0]))
        out[i + 1] = np.tensordot(gi, out[i + 1], axes=([1], [0]))
    return out


def random_qn_mps(model, desc, rng, cplx, maxm=4, tries=12):
    """Mps.random-based state for models with non-trivial labels, made complex / non-normalised /
    non-canonical by label-preserving public operations."""
    last = None
    for _ in range(tries):
        qntot = possible_qntot(desc, rng)
        m = int(rng.integers(1, maxm + 1))
        seed_global(rng)
        try:
            with np.errstate(all="raise"):
                a = Mps.random(model, qntot, max(m, 2), percent=float(rng.choice([0.0, 0.5, 1.0])))
            if not np.all(np.isfinite(dense_vec(arrays(a)))) or not np.any(dense_vec(arrays(a))):
                continue
        except (FloatingPointError, ValueError, AssertionError, ZeroDivisionError, IndexError) as e:
            last = e
            continue
        if model.nsite >= 2 and rng.random() < 0.5:   # (add on a one-site chain is ill-formed: C03's business)
            seed_global(rng)
            try:
                with np.errstate(all="raise"):
                    b = Mps.random(model, qntot, max(m, 2), percent=1.0)
            except (FloatingPointError, ValueError, AssertionError, ZeroDivisionError, IndexError):
                b = None
            if b is not None and np.all(np.isfinite(dense_vec(arrays(b)))):
                c = complex(rng.standard_normal(), rng.standard_normal()) if cplx else float(rng.choice([-0.7, 0.4, 1.3]))
                # same centre / direction for both operands (avoids D1)
                a = a.add(b.scale(c))
        if cplx and not a.is_complex:
            a = a.scale(complex(rng.standard_normal(), 1.0 + rng.random()))
        if rng.random() < 0.5:
            a = a.scale(float(rng.choice([0.3, 2.0, -1.5])))
        return a, qntot
    raise RuntimeError(f"could not build a random state: {last!r}")


# ------------------------------------------------------------------------------------ serialisation
def ser_arr(a):
    a = np.asarray(a)
    d = dict(shape=list(a.shape), re=np.real(a).ravel().tolist())
    if np.iscomplexobj(a):
        d["im"] = np.imag(a).ravel().tolist()
    return d


def ser_mp(mp):
    d = dict(cls=type(mp).__name__, tensors=[ser_arr(m.array) for m in mp],
             qn=[np.asarray(q).tolist() for q in mp.qn] if mp.qn is not None else None,
             qnidx=mp.qnidx, qntot=np.asarray(mp.qntot).tolist() if mp.qntot is not None else None,
             to_right=mp.to_right)
    if hasattr(mp, "coeff"):
        c = complex(mp.coeff)
        d["coeff"] = [c.real, c.imag]
    return d


def ser_val(v):
    v = np.asarray(v)
    if np.iscomplexobj(v):
        return dict(re=np.real(v).tolist(), im=np.imag(v).tolist())
    return v.tolist()
