"""C11 — tree tensor network states behave as dense vectors for every topology (partial proof).
L1: Lean: state-sum model of a tensor network on any graph: scaling one node, linearity in one node
    tensor, invariance under relabelling the nodes and under permutation gauges of the bonds.
L2: the model's invariances on the REAL TTNS: scale(c) multiplies the dense vector by c and touches the
    root only; listing the children of every node in another order leaves the dense vector unchanged.
L3: dense oracle for add / apply / canonicalise / compress / expectation / rdm / entropies (search_c11)."""
import numpy as np

import common
import generic_check


def l2_tree_invariances(run, rng, quick):
    import lib_tree as lt
    done = 0
    for _ in range(8 if quick else 80):
        descs = lt.random_basis_descs(rng, int(rng.integers(2, 6)), qn_mode="none")
        descs2, spec = lt.random_tree_spec(rng, descs)
        basis_list = lt.make_basis_list(descs2)
        tree, nodes = lt.build_basis_tree(spec, basis_list)
        st = lt.random_ttns_tensors(rng, spec, descs2, max_bond=3, cplx=bool(rng.random() < 0.5))
        if st is None:
            continue
        ttns = lt.build_ttns(tree, spec, st["tensors"], st["qns"])
        order = list(range(len(descs2)))
        d0 = lt.dense_from_spec(spec, descs2, st["tensors"], order)
        d1 = lt.dense_of_ttns(ttns, [basis_list[i] for i in order])
        done += 1
        scale = max(1.0, float(np.max(np.abs(d0))))
        if d0.shape != d1.shape or np.max(np.abs(d0 - d1)) > 1e-10 * scale:
            run.violation("corr:state-sum-vs-ttns", dict(correspondence="state-sum amplitude of the raw tensors vs dense walk of the built TTNS",
                                                         spec=spec), no_input=True)
        c = complex(rng.uniform(-2, 2), rng.uniform(-1, 1)) if np.iscomplexobj(d1) else float(rng.uniform(-2, 2))
        try:
            s = ttns.scale(c)
            d2 = lt.dense_of_ttns(s, [basis_list[i] for i in order]) * getattr(s, "coeff", 1.0) / getattr(ttns, "coeff", 1.0)
            if np.max(np.abs(d2 - c * d1)) > 1e-10 * scale * max(1.0, abs(c)):
                run.violation("scale:dense-mismatch", dict(spec=spec, c=str(c)))
        except Exception as e:  # noqa
            run.count("scale-raised:" + type(e).__name__)
        # derive-then-mutate: an in-place scalar multiple / normalisation of a derived state must not change its source
        for dname, derive in (("copy", lambda t: t.copy()), ("to_complex", lambda t: t.to_complex()),
                              ("scale", lambda t: t.scale(1.0)), ("add-zero-scale", lambda t: t.add(t.scale(0.0)))):
            for src in (ttns, ttns.to_complex()):
                try:
                    before = lt.dense_of_ttns(src, [basis_list[i] for i in order]) * getattr(src, "coeff", 1.0)
                    der = derive(src)
                    der.scale(-2.5, inplace=True)
                    after = lt.dense_of_ttns(src, [basis_list[i] for i in order]) * getattr(src, "coeff", 1.0)
                except Exception as e:  # noqa
                    run.count("derive-mutate-raised:" + type(e).__name__)
                    continue
                if np.max(np.abs(after - before)) > 1e-12 * scale:
                    run.violation(f"alias:{dname}:inplace-scale-of-result-changes-source",
                                  dict(spec=spec, derive=dname, source_dtype=str(np.asarray(before).dtype),
                                       deviation=float(np.max(np.abs(after - before))),
                                       what="scaling the derived tree state in place changed the state it was derived from"))
        # measure -> mutate in place -> measure again: every reduced density matrix of c*psi is |c|^2 times that of psi
        try:
            work = ttns.copy()
            r1 = work.calc_1site_rdm()
            q1 = work.calc_1dof_rdm()
            cc = 1.7 if not np.iscomplexobj(q1[next(iter(q1))]) or rng.random() < 0.5 else complex(0.6, -1.1)
            work.scale(cc, inplace=True)
            r2 = work.calc_1site_rdm()
            q2 = work.calc_1dof_rdm()
            worst = 0.0
            for a, b in ((r1, r2), (q1, q2)):
                for key in a:
                    ref = abs(cc) ** 2 * np.asarray(a[key])
                    worst = max(worst, float(np.max(np.abs(np.asarray(b[key]) - ref))) / max(1.0, float(np.max(np.abs(ref)))))
            run.count("measure-mutate-measure")
            if worst > 1e-10:
                run.violation("rdm:after-inplace-scale:not-rescaled",
                              dict(spec=spec, factor=str(cc), relative_deviation=worst,
                                   what="reduced density matrices computed after an in-place rescaling of the state are not |c|^2 times those computed before"))
        except Exception as e:  # noqa
            run.count("measure-mutate-measure-raised:" + type(e).__name__)
        # children listed in another order
        spec2 = lt.permute_children(rng, spec)
        tens2 = lt.permute_state_children(spec, spec2, st["tensors"])
        d3 = lt.dense_from_spec(spec2, descs2, tens2, order)
        if np.max(np.abs(d3 - d0)) > 1e-10 * scale:
            run.violation("corr:child-order", dict(correspondence="RenoVerif.TN.amp_relabel_nodes (child order independence) vs raw tensors", spec=spec),
                          no_input=True)
        tree2, _ = lt.build_basis_tree(spec2, basis_list)
        ttns2 = lt.build_ttns(tree2, spec2, tens2, st["qns"])
        d4 = lt.dense_of_ttns(ttns2, [basis_list[i] for i in order])
        if np.max(np.abs(d4 - d1)) > 1e-10 * scale:
            run.violation("child-order:dense-differs", dict(spec=spec, spec_permuted=spec2))
        run.count("shape=" + spec["shape"])
    return done


def l2_add_structure(run, rng, quick):
    """exact structural replay of the model `RenoVerif.TreeVal.addT / addRoot` on the REAL `TTNS.add`: integer-valued random
    trees; every node tensor of the result must be the block arrangement of the model (first block = first summand, second
    block = second summand, mixed blocks zero, the root's parent bond not doubled, single-node trees: plain sum)."""
    import lib_tree as lt
    done = 0
    for _ in range(10 if quick else 100):
        qn_mode = str(rng.choice(["none", "none", "u1"]))
        descs = lt.random_basis_descs(rng, int(rng.integers(1, 6)), qn_mode=qn_mode)
        descs2, spec = lt.random_tree_spec(rng, descs)
        basis_list = lt.make_basis_list(descs2)
        pair = []
        for _k in range(2):
            tree, nodes = lt.build_basis_tree(spec, basis_list)
            st = lt.random_ttns_tensors(rng, spec, descs2, max_bond=3, cplx=False)
            if st is None:
                break
            tens = [np.round(3 * np.asarray(t)) for t in st["tensors"]]      # small integers: every comparison is exact
            pair.append(lt.build_ttns(tree, spec, tens, st["qns"]))
        if len(pair) < 2:
            continue
        a, b = pair
        try:
            c = a.add(b)
        except Exception as e:  # noqa  (different sectors of the two random states etc.)
            run.count("add-structure-raised:" + type(e).__name__)
            continue
        done += 1
        run.count(f"add-structure:nodes={len(a.node_list)}:qn={qn_mode}")
        for k, (na, nb, nc) in enumerate(zip(a.node_list, b.node_list, c.node_list)):
            ta, tb, tc = np.asarray(na.tensor), np.asarray(nb.tensor), np.asarray(nc.tensor)
            nch = len(na.children)
            is_root = na is a.root
            shape, s1, s2 = [], [], []
            for ax, (x, y) in enumerate(zip(ta.shape, tb.shape)):
                virtual = ax < nch or (ax == ta.ndim - 1 and not is_root)
                shape.append(x + y if virtual else x)
                s1.append(slice(0, x))
                s2.append(slice(x, x + y) if virtual else slice(0, x))
            exp = np.zeros(shape)
            exp[tuple(s1)] += ta
            exp[tuple(s2)] += tb
            if tc.shape != exp.shape or not np.array_equal(tc, exp):
                run.violation("add:tree:node-tensor-not-the-block-sum",
                              dict(spec=spec, node=k, is_root=bool(is_root), children=nch, shape_result=list(tc.shape), shape_expected=list(exp.shape),
                                   what="TTNS.add: a node tensor of the result is not the direct-sum block arrangement of RenoVerif.TreeVal.addT/addRoot"))
                break
    return done


def l2_apply_structure(run, rng, quick):
    """exact structural replay of `RenoVerif.TreeVal.applyT` on the REAL `TTNO.apply`: integer-valued random states and
    operators with integer factors (graph algorithm: entries stay integers); every node tensor of the result must equal the
    operator node tensor times the state node tensor summed over the incoming physical indices, with each (state bond,
    operator bond) pair merged row-major, state index first."""
    import lib_tree as lt
    from renormalizer.tn.tree import TTNO
    done = 0
    for _ in range(10 if quick else 100):
        descs = lt.random_basis_descs(rng, int(rng.integers(1, 6)), qn_mode="none", kinds=["spin", "spin", "sho"])
        descs2, spec = lt.random_tree_spec(rng, descs)
        basis_list = lt.make_basis_list(descs2)
        tree, nodes = lt.build_basis_tree(spec, basis_list)
        st = lt.random_ttns_tensors(rng, spec, descs2, max_bond=3, cplx=False)
        if st is None:
            continue
        tens = [np.round(3 * np.asarray(t)) for t in st["tensors"]]
        ttns = lt.build_ttns(tree, spec, tens, st["qns"])
        terms = lt.random_terms(rng, descs2, int(rng.integers(2, 5)), factor_scale="unit", structure=False)
        ops = lt.terms_to_ops(None, terms, explicit_qn=False)
        try:
            ttno = TTNO(tree, ops, algo="Hopcroft-Karp")
            res = ttno.apply(ttns)
        except Exception as e:  # noqa
            run.count("apply-structure-raised:" + type(e).__name__)
            continue
        done += 1
        run.count(f"apply-structure:nodes={len(ttns.node_list)}:max-op-bond={max(int(n.tensor.shape[-1]) for n in ttno.node_list)}")
        for k, (ns, no, nr) in enumerate(zip(ttns.node_list, ttno.node_list, res.node_list)):
            S, O, Rr = np.asarray(ns.tensor), np.asarray(no.tensor), np.asarray(nr.tensor)
            m = len(ns.children)
            nph = S.ndim - m - 1
            # einsum labels: children of state 0..m-1, children of operator m..2m-1, up a.., down b.., parents
            cs = list(range(m))
            co = list(range(m, 2 * m))
            up = list(range(2 * m, 2 * m + nph))
            dn = list(range(2 * m + nph, 2 * m + 2 * nph))
            ps, po = 2 * m + 2 * nph, 2 * m + 2 * nph + 1
            lab_s = cs + dn + [ps]
            lab_o = co + [x for pair in zip(up, dn) for x in pair] + [po]
            out = [x for pair in zip(cs, co) for x in pair] + up + [ps, po]
            exp = np.einsum(S, lab_s, O, lab_o, out)
            shape = [S.shape[i] * O.shape[i] for i in range(m)] + [S.shape[m + i] for i in range(nph)] + [S.shape[-1] * O.shape[-1]]
            exp = exp.reshape(shape)
            if Rr.shape != exp.shape or np.max(np.abs(Rr - exp)) > 1e-9 * max(1.0, float(np.max(np.abs(exp)))):
                run.violation("apply:tree:node-tensor-not-operator-times-state",
                              dict(spec=spec, node=k, children=m, physical_indices=nph, shape_result=list(Rr.shape), shape_expected=list(exp.shape),
                                   what="TTNO.apply: a node tensor of the result is not the model tensor of RenoVerif.TreeVal.applyT"))
                break
    return done


def l2_tree_gauge_contract(run, rng, quick):
    """hypotheses of `amp_bond_gauge` checked on every REAL gauge move of the tree code (push_cano_to_parent / _to_child
    during canonicalise and random walks of the centre): only the two tensors at the ends of ONE bond change, their
    contraction over that bond is unchanged (G·G⁻¹ = 1), and the tensor left behind is an isometry towards the new centre."""
    import lib_tree as lt
    from renormalizer.tn.tree import TTNS
    rec = dict(n=0, bad=[])
    o_par, o_chd = TTNS.push_cano_to_parent, TTNS.push_cano_to_child

    def pair(child):
        a, b = np.asarray(child.tensor), np.asarray(child.parent.tensor)
        return np.tensordot(a, b, axes=([a.ndim - 1], [child.idx_as_child]))

    def judged(self, child, left_behind, towards_parent, call):
        others = {id(n): np.array(n.tensor, copy=True) for n in self.node_list if n is not child and n is not child.parent}
        before = pair(child)
        call()
        after = pair(child)
        rec["n"] += 1
        scale = max(1.0, float(np.max(np.abs(before))) if before.size else 1.0)
        tol = 256 * np.finfo(float).eps * max(before.size, 16) * scale
        if before.shape != after.shape or (before.size and np.max(np.abs(before - after)) > tol):
            rec["bad"].append(("two-node-tensor-changed", float(np.max(np.abs(before - after))) if before.shape == after.shape else -1.0))
        for n in self.node_list:
            if id(n) in others and (others[id(n)].shape != np.asarray(n.tensor).shape or not np.array_equal(others[id(n)], np.asarray(n.tensor))):
                rec["bad"].append(("bystander-node-changed", 0.0))
        t = np.asarray(left_behind.tensor)
        if towards_parent:
            m = t.reshape(-1, t.shape[-1])
        else:
            ax = child.idx_as_child
            m = np.moveaxis(t, ax, -1).reshape(-1, t.shape[ax])
        g = m.conj().T @ m
        if g.size and np.max(np.abs(g - np.eye(g.shape[0]))) > 1e-9:
            rec["bad"].append(("node-left-behind-not-isometric", float(np.max(np.abs(g - np.eye(g.shape[0]))))))

    def w_par(self, node):
        return judged(self, node, node, True, lambda: o_par(self, node))

    def w_chd(self, node, ichild):
        return judged(self, node.children[ichild], node, False, lambda: o_chd(self, node, ichild))
    TTNS.push_cano_to_parent, TTNS.push_cano_to_child = w_par, w_chd
    done = 0
    try:
        for _ in range(10 if quick else 100):
            qn_mode = str(rng.choice(["none", "u1", "u1", "u1x2"]))
            try:
                descs = lt.random_basis_descs(rng, int(rng.integers(2, 7)), qn_mode=qn_mode)
            except Exception:  # noqa
                descs = lt.random_basis_descs(rng, int(rng.integers(2, 7)), qn_mode="none")
            descs2, spec = lt.random_tree_spec(rng, descs)
            basis_list = lt.make_basis_list(descs2)
            tree, nodes = lt.build_basis_tree(spec, basis_list)
            st = lt.random_ttns_tensors(rng, spec, descs2, max_bond=4, cplx=bool(rng.random() < 0.5))
            if st is None:
                continue
            ttns = lt.build_ttns(tree, spec, st["tensors"], st["qns"])
            nb = len(rec["bad"])
            try:
                ttns.canonicalise()
                # random walk of the centre: down to a random node and back up
                node = ttns.root
                path = []
                while node.children and rng.random() < 0.8:
                    i = int(rng.integers(len(node.children)))
                    ttns.push_cano_to_child(node, i)
                    node = node.children[i]
                    path.append(node)
                for nd in reversed(path):
                    ttns.push_cano_to_parent(nd)
            except Exception as e:  # noqa
                run.count("gauge-walk-raised:" + type(e).__name__)
            done += 1
            run.count(f"gauge-walk:qn={qn_mode}:nodes={len(spec['groups'])}")
            for b in rec["bad"][nb:]:
                run.violation(f"contract:tree-gauge:{b[0]}", dict(contract=b[0], deviation=b[1], spec=spec,
                                                                   what="hypothesis of RenoVerif.TN.amp_bond_gauge violated by a real gauge move of the tree code"))
    finally:
        TTNS.push_cano_to_parent, TTNS.push_cano_to_child = o_par, o_chd
    run.cov["tree_gauge_moves_checked"] = rec["n"]
    return done


if __name__ == "__main__":
    common.main_wrapper(lambda: generic_check.run_check(
        "C11", "other", ["RenoVerif/Props/C11.lean", "RenoVerif/Props/C11Tree.lean", "RenoVerif/Props/C11Apply.lean", "RenoVerif/Props/C06Tree.lean"], [l2_tree_invariances, l2_add_structure, l2_apply_structure, l2_tree_gauge_contract],
        ["add, apply, canonicalise/compress, expectation, reduced density matrices and entropies of tree states are decided by the dense oracle only",
         "the tn package imports only with the print_tree shim"],
        "random trees (2-5 basis sets + dummies, all shapes) x random QN-free tensors; state-sum vs TTNS dense walk, scale, child permutation",
        explanation="Partial proof: the state-sum model (scale, linearity in a node, node relabelling, bond permutation gauge) is proved in Lean and its "
                    "invariances are replayed on real TTNS objects; all other operations of the property are decided by the dense oracle search."))
