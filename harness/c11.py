"""C11 — tree tensor network states behave as dense vectors for every topology (partial proof).
L1: Lean: state-sum model of a tensor network on any graph: scaling one node, linearity in one node
    tensor, invariance under relabelling the nodes and under permutation gauges of the bonds.
L2: the model's invariances on the REAL TTNS: scale(c) multiplies the dense vector by c and touches the
    root only; listing the children of every node in another order leaves the dense vector unchanged.
L3: dense oracle for add / apply / canonicalise / compress / expectation / rdm / entropies (search_c11)."""
import numpy as np

import common
import generic_check


def l2_tree_invariances(run, rng, quick):
    import lib_tree as lt
    done = 0
    for _ in range(8 if quick else 80):
        descs = lt.random_basis_descs(rng, int(rng.integers(2, 6)), qn_mode="none")
        descs2, spec = lt.random_tree_spec(rng, descs)
        basis_list = lt.make_basis_list(descs2)
        tree, nodes = lt.build_basis_tree(spec, basis_list)
        st = lt.random_ttns_tensors(rng, spec, descs2, max_bond=3, cplx=bool(rng.random() < 0.5))
        if st is None:
            continue
        ttns = lt.build_ttns(tree, spec, st["tensors"], st["qns"])
        order = list(range(len(descs2)))
        d0 = lt.dense_from_spec(spec, descs2, st["tensors"], order)
        d1 = lt.dense_of_ttns(ttns, [basis_list[i] for i in order])
        done += 1
        scale = max(1.0, float(np.max(np.abs(d0))))
        if d0.shape != d1.shape or np.max(np.abs(d0 - d1)) > 1e-10 * scale:
            run.violation("corr:state-sum-vs-ttns", dict(correspondence="state-sum amplitude of the raw tensors vs dense walk of the built TTNS",
                                                         spec=spec), no_input=True)
        c = complex(rng.uniform(-2, 2), rng.uniform(-1, 1)) if np.iscomplexobj(d1) else float(rng.uniform(-2, 2))
        try:
            s = ttns.scale(c)
            d2 = lt.dense_of_ttns(s, [basis_list[i] for i in order]) * getattr(s, "coeff", 1.0) / getattr(ttns, "coeff", 1.0)
            if np.max(np.abs(d2 - c * d1)) > 1e-10 * scale * max(1.0, abs(c)):
                run.violation("scale:dense-mismatch", dict(spec=spec, c=str(c)))
        except Exception as e:  # noqa
            run.count("scale-raised:" + type(e).__name__)
        # derive-then-mutate: an in-place scalar multiple / normalisation of a derived state must not change its source
        for dname, derive in (("copy", lambda t: t.copy()), ("to_complex", lambda t: t.to_complex()),
                              ("scale", lambda t: t.scale(1.0)), ("add-zero-scale", lambda t: t.add(t.scale(0.0)))):
            for src in (ttns, ttns.to_complex()):
                try:
                    before = lt.dense_of_ttns(src, [basis_list[i] for i in order]) * getattr(src, "coeff", 1.0)
                    der = derive(src)
                    der.scale(-2.5, inplace=True)
                    after = lt.dense_of_ttns(src, [basis_list[i] for i in order]) * getattr(src, "coeff", 1.0)
                except Exception as e:  # noqa
                    run.count("derive-mutate-raised:" + type(e).__name__)
                    continue
                if np.max(np.abs(after - before)) > 1e-12 * scale:
                    run.violation(f"alias:{dname}:inplace-scale-of-result-changes-source",
                                  dict(spec=spec, derive=dname, source_dtype=str(np.asarray(before).dtype),
                                       deviation=float(np.max(np.abs(after - before))),
                                       what="scaling the derived tree state in place changed the state it was derived from"))
        # children listed in another order
        spec2 = lt.permute_children(rng, spec)
        tens2 = lt.permute_state_children(spec, spec2, st["tensors"])
        d3 = lt.dense_from_spec(spec2, descs2, tens2, order)
        if np.max(np.abs(d3 - d0)) > 1e-10 * scale:
            run.violation("corr:child-order", dict(correspondence="RenoVerif.TN.amp_relabel_nodes (child order independence) vs raw tensors", spec=spec),
                          no_input=True)
        tree2, _ = lt.build_basis_tree(spec2, basis_list)
        ttns2 = lt.build_ttns(tree2, spec2, tens2, st["qns"])
        d4 = lt.dense_of_ttns(ttns2, [basis_list[i] for i in order])
        if np.max(np.abs(d4 - d1)) > 1e-10 * scale:
            run.violation("child-order:dense-differs", dict(spec=spec, spec_permuted=spec2))
        run.count("shape=" + spec["shape"])
    return done


if __name__ == "__main__":
    common.main_wrapper(lambda: generic_check.run_check(
        "C11", "other", ["RenoVerif/Props/C11.lean"], [l2_tree_invariances],
        ["add, apply, canonicalise/compress, expectation, reduced density matrices and entropies of tree states are decided by the dense oracle only",
         "the tn package imports only with the print_tree shim"],
        "random trees (2-5 basis sets + dummies, all shapes) x random QN-free tensors; state-sum vs TTNS dense walk, scale, child permutation",
        explanation="Partial proof: the state-sum model (scale, linearity in a node, node relabelling, bond permutation gauge) is proved in Lean and its "
                    "invariances are replayed on real TTNS objects; all other operations of the property are decided by the dense oracle search."))
