"""C15 — symbolic operator algebra is a faithful homomorphism.
L1: Lean theorems den_mul … den_eval (every expression program, every algebra, every interpretation).
L2: random expression programs evaluated by the real Op/OpSum classes and by the Lean evalModel
    over exact Gaussian rationals; term lists compared exactly (order included).
L3: dense-matrix oracle (search_c15)."""
from fractions import Fraction

import numpy as np

import common
from common import Run, Infra

SYMS = ["X", "Y", "Z", "I", "a", r"a^\dagger", "x", "p", r"b^\dagger+b", "n"]
SCAL = [1, -1, 2, -2, 0.5, -0.5, 4, 0.25, 3, -3, 1j, -1j, 2j, 0.5j, (1 + 1j), (1 - 2j)]
DIVS = [1, -1, 2, -2, 4, 0.5, -0.5, 1j, -1j, 2j, -0.5j]


def rnd_scalar(rng, pool):
    c = pool[int(rng.integers(len(pool)))]
    kind = int(rng.integers(5))
    if isinstance(c, complex):
        return (c, np.complex128(c))[kind % 2]
    if kind == 0 and float(c).is_integer():
        return int(c)
    if kind == 1:
        return np.float64(c)
    if kind == 2 and float(c).is_integer():
        return np.int64(int(c))
    if kind == 3:
        return complex(c)
    return float(c)


def frac(x):
    return Fraction(float(x))


def gstr(c):
    c = complex(c)
    return f"{common.rat(frac(c.real))}:{common.rat(frac(c.imag))}"


def gen_atom(rng, nq, ident_bias):
    """returns (token, builder) for a random Op"""
    n = int(rng.choice([1, 1, 2, 2, 3]))
    syms, dofs, qns = [], [], []
    for _ in range(n):
        s = "I" if rng.random() < ident_bias else SYMS[int(rng.integers(len(SYMS)))]
        syms.append(s)
        dofs.append(int(rng.integers(0, 3)))
        if s == "I":
            q = [0] * nq if rng.random() < 0.9 else [int(rng.integers(-1, 2)) for _ in range(nq)]
        elif s == "a":
            q = [-1] + [0] * (nq - 1)
        elif s == r"a^\dagger":
            q = [1] + [0] * (nq - 1)
        else:
            q = [0] * nq if rng.random() < 0.8 else [int(rng.integers(-1, 2)) for _ in range(nq)]
        qns.append(q)
    f = SCAL[int(rng.integers(len(SCAL)))]
    tok = "A:" + gstr(f) + ":" + ";".join(f"{s}@{d}@{','.join(str(x) for x in q)}" for s, d, q in zip(syms, dofs, qns))
    return tok, (syms, dofs, f, qns)


def gen_expr(rng, depth, nq, ident_bias):
    """returns nested tuple expression"""
    if depth == 0 or rng.random() < 0.25:
        return ("atom",) + gen_atom(rng, nq, ident_bias)
    k = rng.choice(["add", "sub", "mul", "neg", "smul", "div", "simp"], p=[0.2, 0.12, 0.25, 0.08, 0.15, 0.08, 0.12])
    if k in ("add", "sub", "mul"):
        return (k, gen_expr(rng, depth - 1, nq, ident_bias), gen_expr(rng, depth - 1, nq, ident_bias))
    if k == "neg":
        return (k, gen_expr(rng, depth - 1, nq, ident_bias))
    if k == "smul":
        return (k, gen_expr(rng, depth - 1, nq, ident_bias), rnd_scalar(rng, SCAL), bool(rng.integers(2)))
    if k == "div":
        return (k, gen_expr(rng, depth - 1, nq, ident_bias), rnd_scalar(rng, DIVS))
    return (k, gen_expr(rng, depth - 1, nq, ident_bias))


def rpn(e):
    k = e[0]
    if k == "atom":
        return [e[1]]
    if k in ("add", "sub", "mul"):
        return rpn(e[1]) + rpn(e[2]) + [{"add": "+", "sub": "-", "mul": "*"}[k]]
    if k == "neg":
        return rpn(e[1]) + ["neg"]
    if k == "smul":
        return rpn(e[1]) + ["s:" + gstr(e[2])]
    if k == "div":
        return rpn(e[1]) + ["d:" + gstr(e[2])]
    return rpn(e[1]) + ["simp"]


def describe(e):
    k = e[0]
    if k == "atom":
        syms, dofs, f, qns = e[2]
        return f"Op({' '.join(syms)!r},{dofs},{f},{qns})"
    if k in ("add", "sub", "mul"):
        return "(" + describe(e[1]) + {"add": " + ", "sub": " - ", "mul": " * "}[k] + describe(e[2]) + ")"
    if k == "neg":
        return "-(" + describe(e[1]) + ")"
    if k == "smul":
        return (f"({e[2]!r} * {describe(e[1])})" if e[3] else f"({describe(e[1])} * {e[2]!r})")
    if k == "div":
        return f"({describe(e[1])} / {e[2]!r})"
    return describe(e[1]) + ".simplify()"


def eval_impl(e, Op, OpSum):
    k = e[0]
    if k == "atom":
        syms, dofs, f, qns = e[2]
        return Op(" ".join(syms).replace(r"b^\dagger+b", r"b^\dagger + b"), list(dofs), f, [list(q) for q in qns])
    if k == "add":
        return eval_impl(e[1], Op, OpSum) + eval_impl(e[2], Op, OpSum)
    if k == "sub":
        return eval_impl(e[1], Op, OpSum) - eval_impl(e[2], Op, OpSum)
    if k == "mul":
        return eval_impl(e[1], Op, OpSum) * eval_impl(e[2], Op, OpSum)
    if k == "neg":
        return -eval_impl(e[1], Op, OpSum)
    if k == "smul":
        x = eval_impl(e[1], Op, OpSum)
        return (e[2] * x) if e[3] else (x * e[2])
    if k == "div":
        x = eval_impl(e[1], Op, OpSum)
        if isinstance(x, Op):
            x = OpSum([x])
        return x / e[2]
    x = eval_impl(e[1], Op, OpSum)
    if isinstance(x, Op):
        x = OpSum([x])
    return x.simplify()


def canon_impl(x, Op):
    ops = [x] if isinstance(x, Op) else list(x)
    out = []
    for o in ops:
        f = complex(o.factor)
        atoms = ";".join(f"{s}@{d}@{','.join(str(int(v)) for v in q)}" for s, d, q in zip(o.split_symbol, o.dofs, o.qn_list))
        out.append(f"{common.rat(frac(f.real))}:{common.rat(frac(f.imag))}:{atoms}")
    return "ok " + "|".join(out)


def has_multiqn_identity(e):
    """does the expression contain an identity atom together with a 2-component qn (D4 territory)?"""
    if e[0] == "atom":
        syms, dofs, f, qns = e[2]
        return len(qns[0]) > 1 and "I" in syms
    return any(has_multiqn_identity(x) for x in e[1:] if isinstance(x, tuple))


def aliasing_of_sums(run, rng, Op, OpSum):
    """results of + and - are new objects: adding to a result in place must not change the operands (also when the other operand is
    empty and the result equals an operand in value)"""
    n = 0
    for _ in range(40):
        a = OpSum([Op("X", 0, float(rng.integers(1, 5))), Op("Z", 1, float(rng.integers(1, 5)))])
        z = Op("Y", 2, 1.0)
        empties = [OpSum([]), [], (a - a).simplify()]
        for name, make in (("a+empty", lambda e: a + e), ("a-empty", lambda e: a - e), ("empty+a", lambda e: OpSum(list(e)) + a)):
            for e in empties:
                before = [(t.symbol, tuple(t.dofs), complex(t.factor)) for t in a]
                try:
                    c = make(e)
                    c += z
                except Exception as ex:  # noqa
                    run.count("aliasing:raised:" + type(ex).__name__)
                    continue
                n += 1
                after = [(t.symbol, tuple(t.dofs), complex(t.factor)) for t in a]
                if after != before or c is a:
                    run.violation(f"aliasing:{name}:result-is-the-operand",
                                  dict(expression=name, operand_before=[list(map(str, t)) for t in before], operand_after=[list(map(str, t)) for t in after],
                                       what="in-place addition to the RESULT of a sum with an empty operand changed the other operand"))
                    return n
    return n


def main():
    run = Run("C15", level="proof")
    quick = run.tier != "thorough"
    rng = np.random.default_rng(run.seed)
    l1 = run.l1(["RenoVerif/Props/C15.lean"])
    if not l1["build_ok"]:
        raise Infra("hand-written Lean library failed to build/audit: " + str(l1.get("bad")) + l1.get("log", "")[-800:])
    from renormalizer.model.op import Op, OpSum

    n = 400 if quick else 4000
    progs = []
    for i in range(n):
        nq = 1 if rng.random() < 0.7 else 2
        ident_bias = float(rng.choice([0.0, 0.15, 0.4]))
        depth = int(rng.integers(1, 5 if quick else 6))
        progs.append(gen_expr(rng, depth, nq, ident_bias))
    reqs = [" ".join(rpn(e)) for e in progs]
    replies = common.run_driver("RenoVerif/Driver/C15.lean", reqs)
    distinct = set()
    ndis = 0
    for e, req, rep in zip(progs, reqs, replies):
        try:
            r = eval_impl(e, Op, OpSum)
            impl = canon_impl(r, Op)
        except AssertionError:
            impl = "error assert"
        except ValueError:
            impl = "error value"
        except TypeError:
            impl = "error type"
        run.count("result:" + impl.split(" ")[0] + ("" if impl.startswith("ok") else ":" + impl.split(" ")[1]))
        run.count(f"tokens<={10 * (1 + len(req.split(' ')) // 10)}")
        if impl.startswith("ok") and len(impl) > 3:
            distinct.add(req)
        run.sample(dict(program=describe(e), rpn=req, model=rep, impl=impl), limit=3)
        if impl != rep:
            ndis += 1
            if impl == "error value" and has_multiqn_identity(e):
                sig = "squeeze_identity:multi-component-qn:ValueError"
                what = ("squeeze_identity evaluates `qn == 0` of a multi-component quantum number in boolean context and raises "
                        "ValueError; simplify() is unusable with two quantum numbers and an identity factor")
                run.violation(sig, dict(program=describe(e), rpn=req, model=rep, impl=impl, what=what))
            else:
                # is the property itself violated?  dense oracle on this expression
                bad = dense_disagrees(e, r if impl.startswith("ok") else None, Op, OpSum)
                run.violation("corr:evalModel", dict(correspondence="RenoVerif.OpAlg.evalModel vs renormalizer.model.op",
                                                     program=describe(e), rpn=req, model=rep, impl=impl,
                                                     dense_oracle=bad), no_input=not bad)
    run.cov.update(programs=n, disagreements_checked=n, disagreements_found=ndis,
                   evaluations=n, distinct_nontrivial=len(distinct),
                   rule="random expression programs (depth<=5) over Op/OpSum: + - * neg scalar-multiple (left/right, int/float/complex/NumPy) "
                        "/ simplify; 1-2 qn components, repeated DoFs, identity factors; distinct = distinct RPN text with a non-empty ok result")
    try:
        run.cov["aliasing_cases"] = aliasing_of_sums(run, rng, Op, OpSum)
        import search_c15
    except ImportError:
        search_c15 = None
        run.cov["search_module"] = "absent"
    if search_c15 is not None:
        ev0, dn0 = run.cov["evaluations"], run.cov["distinct_nontrivial"]
        search_c15.search(run, rng, quick)
        if run.cov.get("evaluations") != ev0:
            run.cov["search_evaluations"] = run.cov["evaluations"]
            run.cov["evaluations"] = ev0 + run.cov["search_evaluations"]
            run.cov["distinct_nontrivial"] = dn0 + run.cov.get("distinct_nontrivial", 0)
    run.assumptions += ["factors are dyadic (Gaussian) rationals so that float arithmetic of the implementation is exact",
                        "DoF names are abstracted to small integers; Quantity factors are not generated here"]
    return run.finish()


# ---- dense oracle for a single expression (independent of the library's Model/Mpo)
_M = {}


def _mat(sym):
    if not _M:
        X = np.array([[0, 1], [1, 0]], dtype=complex)
        Y = np.array([[0, -1j], [1j, 0]])
        Z = np.diag([1.0 + 0j, -1.0])
        a = np.array([[0, 1], [0, 0]], dtype=complex)
        _M.update({"X": X, "Y": Y, "Z": Z, "I": np.eye(2, dtype=complex), "a": a, r"a^\dagger": a.T.copy(),
                   "x": X * 0.5 + Z, "p": Y * 0.25, r"b^\dagger+b": X + 0.5 * np.eye(2), "n": np.diag([0.0 + 0j, 1.0])})
    return _M[sym]


def _dense_op(syms, dofs, f, ndof=3):
    m = np.eye(2 ** ndof, dtype=complex)
    for s, d in zip(syms, dofs):
        facs = [np.eye(2, dtype=complex)] * ndof
        facs[d] = _mat(s)
        t = facs[0]
        for x in facs[1:]:
            t = np.kron(t, x)
        m = m @ t
    return complex(f) * m


def _dense_expr(e):
    k = e[0]
    if k == "atom":
        syms, dofs, f, qns = e[2]
        return _dense_op(syms, dofs, f)
    if k == "add":
        return _dense_expr(e[1]) + _dense_expr(e[2])
    if k == "sub":
        return _dense_expr(e[1]) - _dense_expr(e[2])
    if k == "mul":
        return _dense_expr(e[1]) @ _dense_expr(e[2])
    if k == "neg":
        return -_dense_expr(e[1])
    if k == "smul":
        return complex(e[2]) * _dense_expr(e[1])
    if k == "div":
        return _dense_expr(e[1]) / complex(e[2])
    return _dense_expr(e[1])


def dense_disagrees(e, result, Op, OpSum):
    if result is None:
        return False
    ops = [result] if isinstance(result, Op) else list(result)
    m = np.zeros((8, 8), dtype=complex)
    for o in ops:
        m = m + _dense_op(o.split_symbol, o.dofs, o.factor)
    ref = _dense_expr(e)
    return bool(np.max(np.abs(m - ref)) > 1e-9 * max(1.0, np.max(np.abs(ref))))


if __name__ == "__main__":
    common.main_wrapper(main)
