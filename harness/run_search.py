"""Developer runner for a failing-input search module:  run_search.py Cxx [seed] [quick|thorough]
Prints what the search found; writes NO evidence and NO replay files."""
import importlib, json, sys, time
import numpy as np
import common

def main():
    prop = sys.argv[1]
    seed = int(sys.argv[2]) if len(sys.argv) > 2 else 0
    tier = sys.argv[3] if len(sys.argv) > 3 else "quick"
    import os
    os.environ["VERIF_SEED"] = str(seed); os.environ["VERIF_TIER"] = tier
    mod = importlib.import_module("search_" + prop.lower())
    run = common.Run(prop)
    rng = np.random.default_rng(seed)
    t0 = time.time()
    mod.search(run, rng, tier != "thorough")
    dt = time.time() - t0
    print(f"{prop} seed={seed} tier={tier} wall={dt:.1f}s evaluations={run.cov.get('evaluations')} distinct={run.cov.get('distinct_nontrivial')}")
    print("counts:", json.dumps(run.counts, default=str)[:1500])
    for sig, kf in run.known_hits:
        print("KNOWN", sig)
    for sig, obj, _ in run.violations:
        print("VIOLATION", sig, json.dumps(obj, default=str)[:600])

if __name__ == "__main__":
    main()
