"""Shared driver for checks whose L2 part is a list of python functions: run(prop, level, lean_modules, l2_funcs, assumptions, rule)"""
import numpy as np

import common
from common import Run, Infra


def run_check(prop, level, lean_modules, l2_funcs, assumptions, rule, explanation=None):
    run = Run(prop, level=level)
    quick = run.tier != "thorough"
    rng = np.random.default_rng(run.seed)
    l1 = run.l1(lean_modules)
    if not l1["build_ok"]:
        raise Infra("hand-written Lean library failed to build/audit: " + str(l1.get("bad")) + l1.get("log", "")[-800:])
    import time
    nprog = 0
    phase = {"L1": round(time.time() - run.t0, 1)}
    for f in l2_funcs:
        t1 = time.time()
        nprog += int(f(run, rng, quick) or 0)
        phase[f.__name__] = round(time.time() - t1, 1)
    run.cov.update(programs=nprog, disagreements_checked=nprog, evaluations=nprog, distinct_nontrivial=nprog, rule=rule)
    if explanation:
        run.cov["explanation"] = explanation
    try:
        mod = __import__("search_" + prop.lower())
    except ImportError:
        mod = None
        run.cov["search_module"] = "absent"
    if mod is not None:
        ev0, dn0 = run.cov["evaluations"], run.cov["distinct_nontrivial"]
        t1 = time.time()
        mod.search(run, rng, quick)
        phase["search"] = round(time.time() - t1, 1)
        if run.cov.get("evaluations") != ev0:
            run.cov["search_evaluations"] = run.cov["evaluations"]
            run.cov["evaluations"] = ev0 + run.cov["search_evaluations"]
            run.cov["distinct_nontrivial"] = dn0 + run.cov.get("distinct_nontrivial", 0)
            run.cov["rule"] = rule + " || search: " + str(run.cov.get("rule", ""))
    run.cov["phase_seconds"] = phase
    run.assumptions += assumptions
    return run.finish()
