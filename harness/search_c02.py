"""C02 failing-input search: TTNO construction is exact and independent of the tree topology.

Real code under test: renormalizer.tn.symbolic_ttno.construct_symbolic_ttno (post-order column
rolling, k physical columns, several incoming bonds), compose_symbolic_mo_general /
symbolic_mo_to_numeric_mo_general, TTNO.__init__/todense/get_node_indices, the tree builders of
renormalizer.tn.treebase.BasisTree, and the generalised one-site step in mps/symbolic_mpo.py.

Oracles (all on the real objects):
  * TTNO(tree, terms, algo).todense(order)  ==  sum_k c_k kron_b M_{k,b}   assembled here from
    hard-coded local matrices (lib_tree.dense_operator), random `order`, also the default order;
  * the same matrix from an independent tensordot walk over the node tensors (lib_tree.dense_of_ttno),
    so that a wrong todense / index naming cannot hide a wrong tensor or vice versa;
  * a second random tree (other grouping, other dummies, other topology) and the tree with permuted
    children over the *same* basis sets give the same matrix; so does the chain `Mpo.todense()`;
  * the builders linear / binary / general_mctdh / binary_mctdh / ternary_mctdh / t3ns keep every
    basis set exactly once (identity of objects), use unique dummy DoFs, respect their documented
    shape (MCTDH: physical sets on leaves only, <= tree_order children) and yield the same operator;
  * for charge-definite terms the bond labels of every node are consistent with the non-zero pattern
    of its tensor (sum of child labels + sigmaqn(up) - sigmaqn(down) = parent label) and the root
    label is the total charge of the operator.

Graph algorithms are compared at 64*eps*n_terms*scale; "qr" (also accepted by the code path) only
with unit-scale factors and at 1e-8*scale because it thresholds at 1e-10 relative.

Signatures fired on the pinned tree: none for single-component quantum numbers;
`builder:t3ns:two-component-qn:dummy-qn-size` and `builder:general_mctdh:two-component-qn:dummy-qn-size`
(the virtual nodes got BasisDummy with a one-component label, so BasisTree() raised "Inconsistent
quantum number size" for two-component models; repaired in /repo by commit 0b48864).
Counted, not reported: lists that sum to the zero operator and empty lists (ValueError, same as Mpo;
outside "partially cancelling"), complex factors (documented assertion "complex operator not
supported yet"), `general_mctdh(tree_order=1)` (non-terminating recursion; never generated).
"""
import time

import numpy as np

import lib_tree as L

EPS = np.finfo(float).eps


def _jsonable(x):
    if isinstance(x, np.ndarray):
        return x.tolist()
    if isinstance(x, (np.integer,)):
        return int(x)
    if isinstance(x, (np.floating,)):
        return float(x)
    if isinstance(x, dict):
        return {str(k): _jsonable(v) for k, v in x.items()}
    if isinstance(x, (list, tuple)):
        return [_jsonable(v) for v in x]
    return x


class Case:
    def __init__(self, run, case_seed, kind, icase=0):
        self.run, self.case_seed, self.kind, self.icase = run, case_seed, kind, icase
        self.info = {}
        self.n_checks = 0

    def violation(self, sig, **kw):
        obj = dict(module="search_c02", generator=self.kind, case_seed=self.case_seed, icase=self.icase, signature=sig)
        obj.update(self.info)
        obj.update(kw)
        self.run.count("violation:" + sig)
        self.run.violation(sig, _jsonable(obj))

    def close(self, op, cls, got, ref, tol, scale, **kw):
        self.n_checks += 1
        self.run.count("check:" + op)
        got, ref = np.asarray(got), np.asarray(ref)
        if got.shape != ref.shape:
            self.violation(f"{op}:{cls}:shape", expected_shape=list(ref.shape), observed_shape=list(got.shape), **kw)
            return False
        err = float(np.abs(got - ref).max()) if ref.size else 0.0
        st = self.run.cov.setdefault("max_err_over_tol", {})
        ratio = err / (tol * scale)
        if ratio > st.get(op, 0.0):
            st[op] = round(ratio, 6)
        if not np.isfinite(err) or err > tol * scale:
            small = ref.size <= 64
            self.violation(f"{op}:{cls}", error=err, tol=tol * scale,
                           expected=ref if small else None, observed=got if small else None, **kw)
            return False
        return True


def _tree_class(st):
    # coarse, stable input class for signatures
    return "tree"


def _build_ttno(case, op, tree, ops, algo, ref_is_zero, **kw):
    """TTNO or None; classifies exceptions"""
    from renormalizer.tn.tree import TTNO
    try:
        return TTNO(tree, ops, algo=algo)
    except Exception as e:  # noqa
        if ref_is_zero and isinstance(e, (ValueError, IndexError)):
            case.run.count("rejected:zero-operator")
            return None
        case.n_checks += 1
        case.run.count("check:" + op)
        case.violation(f"{op}:{algo}:raises:{type(e).__name__}", message=str(e)[:300], **kw)
        return None


def _tol(algo, nterms):
    if algo == "qr":
        return 1e-8
    return 64 * EPS * max(4, nterms)


def _check_ttno_dense(case, op, rng, ttno, descs, bl, ref_fn, algo, nterms, **kw):
    """todense(order), todense(), independent walker"""
    phys = [i for i, d in enumerate(descs) if d["kind"] != "dummy"]
    order = [phys[i] for i in rng.permutation(len(phys))]
    ref = ref_fn(order)
    scale = max(1e-300, float(np.abs(ref).max()))
    tol = _tol(algo, nterms)
    good = True
    try:
        got = ttno.todense([bl[b] for b in order])
    except Exception as e:  # noqa
        case.n_checks += 1
        case.violation(f"{op}:todense:raises:{type(e).__name__}", message=str(e)[:300], order=order, **kw)
        got = None
        good = False
    if got is not None:
        good = case.close(op, algo, got, ref, tol, scale, order=order, **kw)
    walker = L.dense_of_ttno(ttno, [bl[b] for b in order])
    if got is not None and good:
        case.close("todense-vs-node-tensors", algo, got, walker, 64 * EPS * max(4, nterms), scale, order=order, **kw)
    else:
        good = case.close(op + ":node-tensors", algo, walker, ref, tol, scale, order=order, **kw) and good
    # default order: basis_list (preorder), dummies skipped
    try:
        got = ttno.todense()
        dorder = [i for b in ttno.basis.basis_list for i, x in enumerate(bl) if x is b and descs[i]["kind"] != "dummy"]
        case.close(op + ":default-order", algo, got, ref_fn(dorder), tol, scale, **kw)
    except Exception as e:  # noqa
        case.n_checks += 1
        case.violation(f"{op}:default-order:raises:{type(e).__name__}", message=str(e)[:300], **kw)
    return good


def _check_qn_labels(case, op, ttno, descs, bl, total_qn, **kw):
    """block structure of every node against its bond labels"""
    sq = {id(b): L.desc_sigmaqn(d) for b, d in zip(bl, descs)}
    qs = L.desc_qn_size(descs[0])
    worst = None
    for node, bnode in zip(ttno.node_list, ttno.basis.node_list):
        t = np.asarray(node.tensor)
        m = len(node.children)
        k = len(bnode.basis_sets)
        parts = [np.asarray(c.qn).reshape(-1, qs) for c in node.children]
        shape = list(t.shape)
        grid = np.zeros(shape + [qs], dtype=int)
        for ax, p in enumerate(parts):
            sh = [1] * len(shape) + [qs]
            sh[ax] = len(p)
            grid = grid + p.reshape(sh)
        for j, b in enumerate(bnode.basis_sets):
            s = sq[id(b)]
            for ax, sign in ((m + 2 * j, 1), (m + 2 * j + 1, -1)):
                sh = [1] * len(shape) + [qs]
                sh[ax] = len(s)
                grid = grid + sign * s.reshape(sh)
        lab = np.asarray(node.qn).reshape(-1, qs)
        sh = [1] * len(shape) + [qs]
        sh[-2] = len(lab)
        grid = grid - lab.reshape(sh)
        bad = np.any(grid != 0, axis=-1) & (np.abs(t) > 1e-14 * max(1.0, np.abs(t).max()))
        if bad.any():
            worst = dict(node_index=ttno.node_list.index(node), n_bad=int(bad.sum()))
            break
    case.n_checks += 1
    case.run.count("check:" + op)
    if worst is not None:
        case.violation(f"{op}:labels-inconsistent-with-blocks", **worst, **kw)
        return
    root_qn = np.asarray(ttno.root.qn).reshape(-1, qs)
    if len(root_qn) != 1 or not np.array_equal(root_qn[0], np.asarray(total_qn)):
        case.violation(f"{op}:root-label", expected=list(total_qn), observed=root_qn.tolist(), **kw)


# ---------------------------------------------------------------------------------------------
def _case_random_tree(run, rng, quick, case_seed, icase):
    from renormalizer import Model, Mpo
    case = Case(run, case_seed, "random-tree", icase)
    qn_mode = L.QN_MODES[icase % 3]
    n = int(rng.integers(1, 7 if quick else 8))
    descs = L.random_basis_descs(rng, n, qn_mode)
    while int(np.prod([L.desc_nbas(d) for d in descs])) > (400 if quick else 1200):
        descs = descs[:-1]
    n = len(descs)
    # two different trees over the same basis sets (dummies differ)
    descs_a, spec_a = L.random_tree_spec(rng, descs)
    descs_b, spec_b = L.random_tree_spec(rng, descs)
    # a common list: physical sets first (shared), then all dummies of a, then those of b
    descs_all = list(descs) + descs_a[n:] + [dict(d, dof=["dummy", "b%d" % i]) for i, d in enumerate(descs_b[n:])]
    shift = len(descs_a) - n
    spec_b = dict(spec_b, groups=[[g if g < n else g + shift for g in grp] for grp in spec_b["groups"]])
    bl = L.make_basis_list(descs_all)
    qs = L.desc_qn_size(descs_all[0])
    respect = bool(rng.random() < 0.6)
    tq = None
    if respect and qn_mode != "none" and rng.random() < 0.4:
        for _ in range(10):
            b = int(rng.integers(n))
            p = L.random_piece(rng, descs_all[b], b, True)
            if p is not None:
                tq = [int(x) for x in L.piece_qn(p)]
                break
    scale_mode = "unit" if rng.random() < 0.6 else "wide"
    if rng.random() < 0.15:
        scale_mode = "tiny"         # every coefficient far below any absolute cut-off (1e-19 .. 1e-12)
        run.count("factor-scale:tiny")
    # terms may also put "I" on the dummies of tree a
    support = list(range(len(descs_a)))
    terms = L.random_terms(rng, descs_all, int(rng.integers(1, 9 if quick else 16)), respect_qn=respect, total_qn=tq,
                           factor_scale=scale_mode, support=support)
    if not terms:
        run.count("skipped:no-terms")
        return case
    ops = L.terms_to_ops(rng, terms)
    case.info = dict(descs=descs_all, spec=spec_a, spec_b=spec_b, terms=terms, qn_mode=qn_mode)
    st = L.tree_stats(spec_a, descs_all)
    run.count(f"qn_mode:{qn_mode}")
    run.count(f"shape:{spec_a['shape']}")
    run.count(f"nodes:{st['nodes']}")
    run.count(f"max_children:{st['max_children']}")
    run.count(f"max_group:{st['max_group']}")
    run.count(f"n_terms:{min(len(terms), 20)}")
    run.count(f"factors:{scale_mode}")
    for k in ("dummy_root", "dummy_leaf", "dummy_internal"):
        if st[k]:
            run.count(k)
    run.sample(dict(descs=descs_all, spec=spec_a, n_terms=len(terms), first_term=terms[0]))

    cache = {}

    def ref_fn(order):
        key = tuple(order)
        if key not in cache:
            cache[key] = L.dense_operator(descs_all, bl, terms, list(order))
        return cache[key]

    phys = list(range(n))
    ref0 = ref_fn(phys)
    zero = float(np.abs(ref0).max()) <= 1e-13 * max(abs(t["factor"]) for t in terms)
    if zero:
        run.count("zero-operator-cases")
    tree_a, _ = L.build_basis_tree(spec_a, bl)
    algos = ["Hopcroft-Karp", "Hungarian"] + (["qr"] if scale_mode == "unit" else [])
    first = None
    for algo in algos:
        ttno = _build_ttno(case, "ttno", tree_a, ops, algo, zero)
        if ttno is None:
            continue
        _check_ttno_dense(case, "ttno", rng, ttno, descs_all, bl, ref_fn, algo, len(terms))
        if first is None:
            first = ttno
        if respect and algo != "qr" and not zero:
            _check_qn_labels(case, "ttno-qn", ttno, descs_all, bl, tq if tq is not None else [0] * qs)
    if zero:
        return case

    # ---- the operator acting on a state: TTNO.apply / @ against the dense matrix-vector product
    if first is not None:
        st_ = L.random_ttns_tensors(rng, spec_a, descs_all, max_bond=3, cplx=bool(rng.random() < 0.4))
        if st_ is not None:
            try:
                psi = L.dense_from_spec(spec_a, descs_all, st_["tensors"], phys)
                tt = L.build_ttns(tree_a, spec_a, st_["tensors"], st_["qns"])
                out = first.apply(tt) if rng.random() < 0.5 else first @ tt
                got = np.asarray(out.todense([bl[b] for b in phys])).reshape(psi.shape)
                dimp = int(np.prod(psi.shape))
                want = (np.asarray(ref0).reshape(dimp, dimp) @ psi.reshape(dimp)).reshape(psi.shape)
                sc = float(np.abs(ref0).max()) * max(float(np.abs(psi).max()), 1e-300)
                case.close("apply-to-state", algos[0], got, want, 64 * EPS * max(4, len(terms)) * 8, sc)
                run.count("apply-to-state:checked")
            except Exception as e:  # noqa
                case.violation(f"apply-to-state:raises:{type(e).__name__}", message=repr(e)[:300])

    # ---- other topology over the same basis sets (terms on a's dummies are dropped: they are scalars)
    def strip(term_list, keep_dummies_of):
        out = []
        for t in term_list:
            ps = [p for p in t["pieces"] if descs_all[p["b"]]["kind"] != "dummy" or p["b"] in keep_dummies_of]
            if not ps:
                b0 = 0
                ps = [dict(b=b0, syms=["I"], dofs=[L.desc_dofs_json(descs_all[b0])[0]], qns=[[0] * qs])]
            out.append(dict(factor=t["factor"], pieces=ps))
        return out
    terms_phys = strip(terms, set())
    ops_phys = L.terms_to_ops(rng, terms_phys)
    algo = ["Hopcroft-Karp", "Hungarian"][int(rng.integers(2))]
    tree_b, _ = L.build_basis_tree(spec_b, bl)
    ttno_b = _build_ttno(case, "other-topology", tree_b, ops_phys, algo, False)
    if ttno_b is not None:
        _check_ttno_dense(case, "other-topology", rng, ttno_b, descs_all, bl, ref_fn, algo, len(terms))
        if first is not None:
            # the statement itself: two trees, same operator (to rounding of the assembly)
            scale = float(np.abs(ref0).max())
            case.close("two-trees-agree", algo, ttno_b.todense([bl[b] for b in phys]), first.todense([bl[b] for b in phys]),
                       64 * EPS * max(4, len(terms)) * 2, scale)
    # ---- children re-listed
    if st["max_children"] >= 2:
        spec_c = L.permute_children(rng, spec_a)
        tree_c, _ = L.build_basis_tree(spec_c, bl)
        ttno_c = _build_ttno(case, "child-order", tree_c, ops, algo, False)
        if ttno_c is not None:
            _check_ttno_dense(case, "child-order", rng, ttno_c, descs_all, bl, ref_fn, algo, len(terms), spec_c=spec_c)
    # ---- chain MPO of the same terms
    try:
        model = Model([bl[b] for b in phys], [])
        mpo_algo = ["Hopcroft-Karp", "Hungarian", "qr"][int(rng.integers(3))] if scale_mode == "unit" else algo
        mpo = Mpo(model, ops_phys, algo=mpo_algo)
        got = np.asarray(mpo.todense())
        scale = float(np.abs(ref0).max())
        tol = 1e-8 if mpo_algo == "qr" else 64 * EPS * max(4, len(terms)) * 2
        if first is not None:
            case.close("ttno-vs-chain-mpo", algo, first.todense([bl[b] for b in phys]), got, tol, scale, mpo_algo=mpo_algo)
    except Exception as e:  # noqa  (Mpo is C01's subject)
        run.count(f"rejected:Mpo:{type(e).__name__}")
    # ---- the linear tree
    from renormalizer.tn.treebase import BasisTree
    try:
        lin = BasisTree.linear([bl[b] for b in phys])
    except Exception as e:  # noqa
        case.n_checks += 1
        case.violation(f"builder:linear:raises:{type(e).__name__}", message=str(e)[:200])
        lin = None
    if lin is not None:
        ttno_l = _build_ttno(case, "linear", lin, ops_phys, algo, False)
        if ttno_l is not None:
            _check_ttno_dense(case, "linear", rng, ttno_l, descs_all, bl, ref_fn, algo, len(terms))
    return case


# ---------------------------------------------------------------------------------------------
def _tree_shape_checks(case, name, tree, basis_list, params):
    """partition property and documented shape of a builder's result"""
    from renormalizer.model.basis import BasisDummy
    case.n_checks += 1
    case.run.count("check:builder-structure")
    got = [b for b in tree.basis_list if not isinstance(b, BasisDummy)]
    if sorted(id(b) for b in got) != sorted(id(b) for b in basis_list):
        case.violation(f"builder:{name}:basis-sets-not-kept-exactly-once", n_in=len(basis_list), n_out=len(got), **params)
        return False
    dummies = [b.dofs for b in tree.basis_list if isinstance(b, BasisDummy)]
    if len(set(dummies)) != len(dummies):
        case.violation(f"builder:{name}:duplicate-dummy-dofs", **params)
        return False
    # node bookkeeping
    if len(tree.node_list) != len(set(id(x) for x in tree.node_list)) or tree.node_list[0] is not tree.root:
        case.violation(f"builder:{name}:node-list", **params)
        return False
    for nd in tree.node_list:
        for c in nd.children:
            if c.parent is not nd:
                case.violation(f"builder:{name}:parent-links", **params)
                return False
    post = tree.postorder_list()
    if sorted(id(x) for x in post) != sorted(id(x) for x in tree.node_list) or (post and post[-1] is not tree.root):
        case.violation(f"builder:{name}:postorder", **params)
        return False
    if name == "linear":
        ok = all(len(nd.children) <= 1 for nd in tree.node_list) and [nd.basis_sets[0] for nd in tree.node_list] == list(basis_list)
        if not ok:
            case.violation("builder:linear:not-a-chain-in-order", **params)
    elif name == "binary":
        if any(len(nd.children) > 2 for nd in tree.node_list) or any(isinstance(b, BasisDummy) for b in tree.basis_list):
            case.violation("builder:binary:arity", **params)
    elif name.endswith("mctdh"):
        order = params["tree_order"]
        for nd in tree.node_list:
            phys = [b for b in nd.basis_sets if not isinstance(b, BasisDummy)]
            if phys and nd.children:
                case.violation(f"builder:{name}:physical-set-on-internal-node", **params)
                break
            if len(nd.children) > order:
                case.violation(f"builder:{name}:more-children-than-order", **params)
                break
            if not params.get("contract_primitive") and len(phys) > order:
                case.violation(f"builder:{name}:more-sets-than-order-on-leaf", **params)
                break
    elif name == "t3ns":
        for nd in tree.node_list:
            deg = len(nd.children) + (0 if nd.parent is None else 1) + sum(1 for b in nd.basis_sets if not isinstance(b, BasisDummy))
            if deg > 3 or len(nd.basis_sets) != 1:
                case.violation("builder:t3ns:node-with-more-than-three-legs", **params)
                break
    return True


def _case_builders(run, rng, quick, case_seed, icase):
    from renormalizer.tn.treebase import BasisTree
    case = Case(run, case_seed, "builders", icase)
    qn_mode = L.QN_MODES[icase % 3]
    n = int(rng.integers(1, 9 if quick else 11))
    descs = L.random_basis_descs(rng, n, qn_mode)
    # keep the dense dimension small: prefer 2-dimensional sets when many
    while int(np.prod([L.desc_nbas(d) for d in descs])) > (600 if quick else 1500):
        big = int(np.argmax([L.desc_nbas(d) for d in descs]))
        descs[big] = dict(kind="spin", dof=f"r{big}", sigmaqn=[[0] * L.desc_qn_size(descs[0])] * 2)
    bl = L.make_basis_list(descs)
    qs = L.desc_qn_size(descs[0])
    respect = bool(rng.random() < 0.5)
    terms = L.random_terms(rng, descs, int(rng.integers(1, 8)), respect_qn=respect, factor_scale="mixed")
    if not terms:
        return case
    ops = L.terms_to_ops(rng, terms)
    phys = list(range(n))
    ref0 = L.dense_operator(descs, bl, terms, phys)
    if float(np.abs(ref0).max()) <= 1e-13 * max(abs(t["factor"]) for t in terms):
        run.count("rejected:zero-operator")
        return case
    cache = {tuple(phys): ref0}

    def ref_fn(order):
        key = tuple(order)
        if key not in cache:
            cache[key] = L.dense_operator(descs, bl, terms, list(order))
        return cache[key]

    case.info = dict(descs=descs, terms=terms, qn_mode=qn_mode)
    builders = [("linear", {}), ("binary", {}), ("t3ns", {})]
    if n > 1:
        order = int(rng.integers(2, 5))
        cp = bool(rng.random() < 0.5)
        label = None
        if cp and rng.random() < 0.6:
            label = [bool(rng.random() < 0.5) for _ in range(n)]
        builders.append(("general_mctdh", dict(tree_order=order, contract_primitive=cp, contract_label=label)))
        builders.append(("binary_mctdh", dict(tree_order=2, contract_primitive=bool(rng.random() < 0.5), contract_label=None)))
        builders.append(("ternary_mctdh", dict(tree_order=3, contract_primitive=bool(rng.random() < 0.5), contract_label=None)))
    run.count(f"qn_mode:{qn_mode}")
    run.count(f"n_basis:{n}")
    run.sample(dict(descs=descs, builders=[b[0] for b in builders], n_terms=len(terms)))
    for name, params in builders:
        run.count("builder:" + name)
        try:
            if name == "linear":
                tree = BasisTree.linear(list(bl))
            elif name == "binary":
                tree = BasisTree.binary(list(bl))
            elif name == "t3ns":
                tree = BasisTree.t3ns(list(bl))
            elif name == "general_mctdh":
                tree = BasisTree.general_mctdh(list(bl), params["tree_order"], params["contract_primitive"], params["contract_label"])
            elif name == "binary_mctdh":
                tree = BasisTree.binary_mctdh(list(bl), params["contract_primitive"])
            else:
                tree = BasisTree.ternary_mctdh(list(bl), params["contract_primitive"])
        except Exception as e:  # noqa
            case.n_checks += 1
            run.count("check:builder")
            if qs == 2 and isinstance(e, ValueError) and "Inconsistent quantum number size" in str(e) and name != "linear" and name != "binary":
                # the virtual nodes get BasisDummy with a one-component label
                fam = "t3ns" if name == "t3ns" else "general_mctdh"
                case.violation(f"builder:{fam}:two-component-qn:dummy-qn-size", builder=name, message=str(e)[:200], **params)
            else:
                case.violation(f"builder:{name}:raises:{type(e).__name__}", message=str(e)[:200], **params)
            continue
        if not _tree_shape_checks(case, name, tree, bl, dict(params)):
            continue
        algo = ["Hopcroft-Karp", "Hungarian"][int(rng.integers(2))]
        ttno = _build_ttno(case, "builder:" + name, tree, ops, algo, False, **params)
        if ttno is not None:
            _check_ttno_dense(case, "builder:" + name, rng, ttno, descs, bl, ref_fn, algo, len(terms), **params)
    return case


# ---------------------------------------------------------------------------------------------
def _case_rejections(run, rng, quick, case_seed, icase):
    """documented / out-of-quantifier rejections, counted for the input distribution"""
    from renormalizer.tn.tree import TTNO
    from renormalizer import Op
    case = Case(run, case_seed, "rejections", icase)
    descs = L.random_basis_descs(rng, 3, "none", kinds=["spin"])
    descs2, spec = L.random_tree_spec(rng, descs)
    bl = L.make_basis_list(descs2)
    tree, _ = L.build_basis_tree(spec, bl)
    d0 = L._dof(descs[0]["dof"])
    for name, terms in (("empty-list", []), ("all-cancel", [Op("X", d0, 1.5), Op("X", d0, -1.5)]),
                        ("complex-factor", [Op("X", d0, 1.0j)])):
        try:
            TTNO(tree, terms)
            run.count(f"accepted:{name}")
        except Exception as e:  # noqa
            run.count(f"rejected:{name}:{type(e).__name__}")
            if name == "complex-factor":
                # the property quantifies over the term lists of C01, complex factors included; the tree code refuses them with an
                # explicit "complex operator not supported yet": a recorded limitation (known finding), not a silent pass
                run.violation("ttno:complex-operator:not-supported",
                              dict(terms=[("X", str(d0), "1j")], error=repr(e)[:200],
                                   what="TTNO construction refuses operators with complex factors / complex local matrices"))
    return case


def _case_large_bond(run, rng, quick, case_seed, icase):
    """many long-range product terms sum_s c_s P_s(A) Q_s(B) with all P_s and all Q_s distinct: operator bonds of several hundred,
    nodes whose (children bonds x parent bond) index space exceeds 2^16 (index arithmetic in narrow integer types shows here)"""
    from renormalizer.tn.treebase import BasisTree
    from renormalizer.tn.tree import TTNO
    from renormalizer.tn.node import TreeNodeBasis
    from renormalizer.model.basis import BasisHalfSpin, BasisDummy
    from renormalizer import Op
    case = Case(run, case_seed, "large-bond", icase)
    na = nb = 5
    nterm = int(rng.choice([300, 400]))
    syms = ["I", "sigma_x", "sigma_z", "sigma_+"]
    mats = {"I": np.eye(2), "sigma_x": np.array([[0.0, 1.0], [1.0, 0.0]]), "sigma_z": np.diag([1.0, -1.0]), "sigma_+": np.array([[0.0, 1.0], [0.0, 0.0]])}
    n = na + nb
    bl = [BasisHalfSpin(f"s{i}") for i in range(n)]

    def strings(k, length):
        codes = rng.choice(4 ** length - 1, size=k, replace=False) + 1
        out = []
        for c in codes:
            c = int(c)
            st = []
            for _ in range(length):
                st.append(c % 4)
                c //= 4
            out.append(st)
        return out
    sa, sb = strings(nterm, na), strings(nterm, nb)
    coeffs = np.round(rng.uniform(0.5, 1.5, size=nterm) * rng.choice([-1, 1], size=nterm), 3)
    terms = []
    dense = np.zeros((2 ** n, 2 ** n))
    for a, b, c in zip(sa, sb, coeffs):
        st = a + b
        terms.append(Op.product([Op(syms[j], f"s{i}") for i, j in enumerate(st) if j != 0]) * float(c))
        m = np.eye(1)
        for j in st:
            m = np.kron(m, mats[syms[j]])
        dense += c * m

    def chain_nodes(sets):
        nodes = [TreeNodeBasis([b]) for b in sets]
        for n1, n2 in zip(nodes[:-1], nodes[1:]):
            n1.add_child(n2)
        return nodes
    shape = str(rng.choice(["linear", "virtual-root"]))
    if shape == "linear":
        tree = BasisTree.linear(bl[::-1])
    else:
        root = TreeNodeBasis([BasisDummy(("c02 virtual", icase))])
        root.add_child(chain_nodes(bl[:na])[0])
        root.add_child(chain_nodes(bl[na:])[0])
        tree = BasisTree(root)
    case.info.update(shape=shape, nterm=nterm, coefficients_seed=case_seed)
    scale = float(np.abs(dense).max())
    for algo in ("Hopcroft-Karp",) if quick else ("Hopcroft-Karp", "qr"):
        try:
            ttno = TTNO(tree, terms, algo=algo)
            got = np.asarray(ttno.todense(bl))
        except Exception as e:  # noqa
            case.violation(f"large-bond:{algo}:raises:{type(e).__name__}", error=repr(e)[:300])
            continue
        run.count(f"large-bond:{shape}:{algo}:max-bond={max(int(x) for x in ttno.bond_dims)}")
        case.close("large-bond", algo, got, dense, 1e-9, scale)
    return case


# ---------------------------------------------------------------------------------------------
GENERATORS = {}


def replay(run, obj, quick=True):
    """re-run the case of a replay object (fields generator, case_seed, icase) against the current tree"""
    fn = GENERATORS[obj["generator"]]
    seed = int(obj["case_seed"])
    return fn(run, np.random.default_rng(seed), quick, seed, int(obj.get("icase", 0)))


def search(run, rng, quick):
    t0 = time.time()
    budget = 45.0 if quick else 520.0
    plan = [("random-tree", _case_random_tree, 100 if quick else 2000),
            ("builders", _case_builders, 35 if quick else 600),
            ("rejections", _case_rejections, 1),
            ("large-bond", _case_large_bond, 1 if quick else 4)]
    queue = []
    for name, fn, n in plan:
        queue += [(i / n, name, fn, i) for i in range(n)]
    queue.sort(key=lambda x: (x[0], x[1]))
    evaluations = 0
    nontrivial = set()
    stopped = False
    for _, name, fn, i in queue:
        case_seed = int(rng.integers(2 ** 31))
        if time.time() - t0 > budget:
            stopped = True
            run.count("budget-stop:skipped-cases")
            continue
        crng = np.random.default_rng(case_seed)
        try:
            case = fn(run, crng, quick, case_seed, i)
        except Exception as e:  # noqa
            import traceback
            frames = traceback.extract_tb(e.__traceback__)
            if frames and "/renormalizer/" in frames[-1].filename.replace("\\", "/"):
                # raised inside the library by a call this module did not wrap individually
                where = frames[-1].name
                run.count(f"violation:{name}:library-exception")
                run.violation(f"{name}:library-exception:{where}:{type(e).__name__}",
                              dict(module="search_c02", generator=name, case_seed=case_seed, icase=i,
                                   exception=type(e).__name__, message=str(e)[:300],
                                   traceback=[f"{f.filename}:{f.lineno}:{f.name}" for f in frames[-6:]]))
            else:   # harness-side failure: visible in the evidence, never a violation
                run.count(f"harness-error:{name}:{type(e).__name__}")
                run.cov.setdefault("harness_errors", []).append(f"{name} seed={case_seed}: {type(e).__name__}: {str(e)[:200]}")
            continue
        evaluations += case.n_checks
        run.count("cases:" + name)
        if case.n_checks >= 3:
            nontrivial.add((name, case_seed))
    run.cov["evaluations"] = run.cov.get("evaluations", 0) + evaluations
    run.cov["distinct_nontrivial"] = len(nontrivial)
    run.cov["rule"] = ("evaluations = individual oracle comparisons (dense matrices, structure checks, label checks); "
                       "a case (basis sets + trees + term list from its own seed) is distinct by its seed and "
                       "non-trivial when the operator is non-zero and at least 3 comparisons ran")
    run.cov["budget_stop"] = stopped


GENERATORS.update({"random-tree": _case_random_tree, "builders": _case_builders, "rejections": _case_rejections,
                   "large-bond": _case_large_bond})
