"""C11 failing-input search: tree tensor network states behave as dense vectors.

Real code under test: renormalizer.tn.tree (TTNS, TTNO.apply, TTNEnviron, from_mps), node.py, treebase.py.
Oracle: dense linear algebra on amplitudes assembled *independently of the library* from the raw
node tensors (lib_tree.dense_from_spec / dense_of_ttns) and Kronecker-sum operators
(lib_tree.dense_operator).  `TTNS.todense(order)` itself is one of the checked observables.

Generators (lib_tree): random rooted trees (parent arrays; chain/star/caterpillar/binary/random,
1..3 basis sets per node, dummy nodes as root/internal/leaf), basis kinds spin / electron /
multi-electron / vacuum-electron / shifted oscillator, three quantum-number modes (all-zero, one
U(1) label, two-component labels), random QN-consistent non-canonical states with real or complex
data, bond dimensions 1..4 with redundant / rank-deficient / dead-end labels, random sectors.

Signatures are "<operation>:<input class>[:detail]".  Genuine defects of the pinned tree found by
this module, each with its own stable signature (reproduced by hand; see the final report):
  todense:default-order:dummy-node            TTNS.todense() with order=None puts the virtual (dummy)
                                              basis sets into the output indices although their size-1
                                              legs were squeezed -> KeyError on every tree with a
                                              virtual node (TTNO.todense skips them)
  add:single-node-tree                        TTNS.add on a one-node tree writes both operands into
                                              the same slice (root: nothing is direct-summed) and
                                              returns `other` instead of the sum
  expectation:two-component-qn:dummy-qn-size  TTNS.expectation / ttns_norm wrap the tree in
  ttns_norm:two-component-qn:dummy-qn-size    BasisDummy("expectation dummy") with a one-component
                                              label -> ValueError for two quantum numbers
                                              (repaired in /repo by commit 0b48864)
  update_2site:two-component-qn:reshape       dim1 = prod(qnbigl.shape) counts the QN axis
                                              (repaired in /repo by commit 2f281e0)
Every other failure of the same operation gets a different signature
("<op>:<class>", "<op>:<class>:raises:<Exception>", "<op>:<class>:malformed-node-tensors", ...).
"""
import time

import numpy as np

import lib_tree as L

TOL_RING = 1e-10      # ring-only operations (einsum assembly); states are normalised to 1
TOL_FACT = 2e-9       # operations that go through QR / SVD / eigh


# ---------------------------------------------------------------------------------------------
def _jsonable(x):
    if isinstance(x, np.ndarray):
        if np.iscomplexobj(x):
            return dict(re=x.real.tolist(), im=x.imag.tolist())
        return x.tolist()
    if isinstance(x, (np.integer,)):
        return int(x)
    if isinstance(x, (np.floating,)):
        return float(x)
    if isinstance(x, complex):
        return [x.real, x.imag]
    if isinstance(x, dict):
        return {str(k): _jsonable(v) for k, v in x.items()}
    if isinstance(x, (list, tuple)):
        return [_jsonable(v) for v in x]
    return x


class Case:
    """one generated tree + state; collects violations with full replay information"""

    def __init__(self, run, case_seed, kind, icase=0):
        self.run = run
        self.case_seed = case_seed
        self.kind = kind
        self.icase = icase
        self.info = {}
        self.n_checks = 0
        self.ops_done = set()

    def replay(self, **kw):
        obj = dict(module="search_c11", generator=self.kind, case_seed=self.case_seed, icase=self.icase)
        obj.update(self.info)
        obj.update(kw)
        return _jsonable(obj)

    def violation(self, sig, **kw):
        self.run.count("violation:" + sig)
        self.run.violation(sig, self.replay(signature=sig, **kw))

    def close(self, op, cls, got, ref, tol, **kw):
        """compare arrays; cls = input-class suffix of the signature"""
        self.n_checks += 1
        self.ops_done.add(op)
        self.run.count("check:" + op)
        got = np.asarray(got)
        ref = np.asarray(ref)
        if got.shape != ref.shape:
            if got.size == ref.size:
                got = got.reshape(ref.shape)
            else:
                self.violation(f"{op}:{cls}:shape", expected_shape=list(ref.shape), observed_shape=list(got.shape), **kw)
                return False
        scale = max(1.0, float(np.abs(ref).max()) if ref.size else 1.0)
        err = float(np.abs(got - ref).max()) if ref.size else 0.0
        ratio = err / (tol * scale)
        st = self.run.cov.setdefault("max_err_over_tol", {})
        if ratio > st.get(op, 0.0):
            st[op] = round(ratio, 6)
        if not np.isfinite(err) or err > tol * scale:
            small = ref.size <= 64
            self.violation(f"{op}:{cls}", error=err, tol=tol * scale,
                           expected=ref if small else None, observed=got if small else None, **kw)
            return False
        return True

    def call(self, op, cls, fn, **kw):
        """run library code; an exception on an input the property covers is a violation"""
        try:
            return True, fn()
        except Exception as e:  # noqa
            self.n_checks += 1
            self.run.count("check:" + op)
            self.violation(_exc_signature(op, cls, e), exception=type(e).__name__, message=str(e)[:300], **kw)
            return False, None


def _exc_signature(op, cls, e):
    """stable signature of an exception; the known defects of the pinned tree get their own"""
    msg = str(e)
    two = cls.startswith("two-component-qn")
    if two and isinstance(e, ValueError) and "Inconsistent quantum number size" in msg \
            and ("expectation" in op or "ttns_norm" in op):
        base = "ttns_norm" if op.endswith("ttns_norm") else "expectation"
        return base + ":two-component-qn:dummy-qn-size"
    if two and isinstance(e, ValueError) and op.endswith("update_2site") and "cannot reshape array" in msg:
        return "update_2site:two-component-qn:reshape"
    return f"{op}:{cls}:raises:{type(e).__name__}"


def _cls(ctx):
    """input-class suffix used in signatures (kept coarse so signatures are stable)"""
    return "two-component-qn" if ctx["qs"] == 2 else "any-tree"


# ---------------------------------------------------------------------------------------------
def _make_ctx(rng, quick, qn_mode, nmax):
    n = int(rng.integers(1, nmax + 1))
    descs = L.random_basis_descs(rng, n, qn_mode)
    while int(np.prod([L.desc_nbas(d) for d in descs])) > (600 if quick else 1500):
        descs = descs[:-1]
    descs2, spec = L.random_tree_spec(rng, descs, max_children=4)
    bl = L.make_basis_list(descs2)
    tree, bnodes = L.build_basis_tree(spec, bl)
    phys = [i for i, d in enumerate(descs2) if d["kind"] != "dummy"]
    return dict(descs=descs2, spec=spec, bl=bl, tree=tree, bnodes=bnodes, phys=phys,
                qs=L.desc_qn_size(descs2[0]), qn_mode=qn_mode)


def _random_state(rng, ctx, cplx, qntot=None, max_bond=4, spec=None):
    spec = spec or ctx["spec"]
    for _ in range(20):
        st = L.random_ttns_tensors(rng, spec, ctx["descs"], max_bond=max_bond, cplx=cplx, qntot=qntot)
        if st is None:
            return None
        psi = L.dense_from_spec(spec, ctx["descs"], st["tensors"], ctx["phys"])
        nrm = np.linalg.norm(psi)
        if nrm > 1e-6:
            st["tensors"][0] = st["tensors"][0] / nrm
            st["psi"] = psi / nrm
            return st
    return None


def _walk(case, op, cls, ttns, bases):
    """independent dense contraction of the node tensors; a result whose node tensors do not even
    fit together (shape mismatch) is a malformed object produced by the library -> violation"""
    try:
        return L.dense_of_ttns(ttns, bases)
    except Exception as e:  # noqa
        case.n_checks += 1
        case.run.count("check:" + op)
        case.violation(f"{op}:{cls}:malformed-node-tensors", exception=type(e).__name__, message=str(e)[:200],
                       shapes=[list(nd.tensor.shape) for nd in ttns.node_list])
        return None


def _order(rng, ctx):
    o = [ctx["phys"][i] for i in rng.permutation(len(ctx["phys"]))]
    return o


def _to_order(psi, ctx, order):
    """psi has axes ctx['phys']; transpose to `order`"""
    return np.transpose(psi, [ctx["phys"].index(b) for b in order])


# operations after which the library's own todense(order) is always exercised
_ALWAYS_TODENSE = ("construct", "child-order", "hartree", "random", "from_tensors")


def _dense_checks(case, op, ctx, ttns, psi_ref, rng, tol):
    """the result's amplitudes against the reference: by the independent walker over the node
    tensors, and by the library's TTNS.todense(order) with a random order.  opt_einsum's "optimal"
    path search makes todense cost ~0.5 s on trees with 6-7 nodes, so there it is exercised only
    after the operations in _ALWAYS_TODENSE and in a random 20 % of the other checks."""
    order = _order(rng, ctx)
    ref = _to_order(psi_ref, ctx, order)
    n_nodes = len(ttns.node_list)
    use_lib = not (6 <= n_nodes <= 7) or op in _ALWAYS_TODENSE or rng.random() < 0.2
    walker = _walk(case, op, _cls(ctx), ttns, [ctx["bl"][b] for b in order])
    if walker is None:
        return False
    good = case.close(op, _cls(ctx) + ":raw-tensors", walker, ref, tol, order=order)
    if use_lib:
        ok, got = case.call(op, _cls(ctx) + ":todense", lambda: ttns.todense([ctx["bl"][b] for b in order]))
        if ok:
            # todense must agree with the tensors the object holds (whatever they are)
            good = case.close("todense", _cls(ctx) + ":vs-raw-tensors", got, walker, TOL_RING, after=op, order=order) and good
        else:
            good = False
    return good


def _is_isometry(t):
    m = t.reshape(-1, t.shape[-1])
    return np.abs(m.conj().T @ m - np.eye(m.shape[1])).max()


def _check_canonical(case, op, ctx, ttns):
    worst = 0.0
    for node in ttns.node_list[1:]:
        worst = max(worst, _is_isometry(node.tensor))
    case.close(op, _cls(ctx) + ":not-canonical", np.array([worst]), np.array([0.0]), 1e-8)


def _check_sector(case, op, ctx, psi, qntot):
    mask = L.sector_mask(ctx["descs"], ctx["phys"], qntot)
    leak = np.abs(np.where(mask, 0, psi)).max() if psi.size else 0.0
    case.close(op, _cls(ctx) + ":sector-leak", np.array([leak]), np.array([0.0]), 1e-9)


# ---------------------------------------------------------------------------------------------
def _case_tree(run, rng, quick, case_seed, icase):
    from renormalizer.tn.tree import TTNO, TTNS, TTNEnviron
    from renormalizer.model import Op, OpSum
    from renormalizer.utils import CompressConfig, CompressCriteria

    case = Case(run, case_seed, "tree", icase)
    qn_mode = L.QN_MODES[icase % 3]
    ctx = _make_ctx(rng, quick, qn_mode, 6 if quick else 7)
    cplx = bool(rng.random() < 0.4)
    A = _random_state(rng, ctx, cplx)
    if A is None:
        run.count("skipped:zero-state")
        return case
    spec, descs, bl, tree = ctx["spec"], ctx["descs"], ctx["bl"], ctx["tree"]
    case.info = dict(descs=descs, spec=spec, qntot=A["qntot"], complex=cplx,
                     state=dict(tensors=A["tensors"], qns=A["qns"]))
    st = L.tree_stats(spec, descs)
    run.count(f"qn_mode:{qn_mode}")
    run.count(f"shape:{spec['shape']}")
    run.count(f"nodes:{st['nodes']}")
    run.count(f"max_children:{st['max_children']}")
    run.count(f"max_group:{st['max_group']}")
    for k in ("dummy_root", "dummy_leaf", "dummy_internal"):
        if st[k]:
            run.count(k)
    run.count("complex" if cplx else "real")
    bonds = [t.shape[-1] for i, t in enumerate(A["tensors"]) if i > 0]
    if bonds and min(bonds) == 1:
        run.count("has_bond_dim_1")
    run.sample(dict(descs=descs, spec=spec, qntot=A["qntot"], complex=cplx, bond_dims=bonds))
    cls = _cls(ctx)
    psi = A["psi"]
    has_dummy = any(d["kind"] == "dummy" for d in descs)
    n_nodes = st["nodes"]
    pre = L.preorder_ids(spec)           # library node index -> node id

    ok, a = case.call("construct", cls, lambda: L.build_ttns(tree, spec, A["tensors"], A["qns"]))
    if not ok:
        return case
    _dense_checks(case, "construct", ctx, a, psi, rng, TOL_RING)

    # ---- todense with the default order (= basis_list, preorder; dummies have dimension 1)
    ids = [b for nid in pre for b in spec["groups"][nid]]
    ref = np.transpose(psi, [ctx["phys"].index(b) for b in ids if b in ctx["phys"]])
    try:
        got = np.asarray(a.todense())
        if got.size == ref.size:
            got = got.reshape(ref.shape)
        case.close("todense", cls + ":default-order", got, ref, TOL_RING)
    except Exception as e:  # noqa
        case.n_checks += 1
        run.count("check:todense")
        if has_dummy and isinstance(e, KeyError):
            case.violation("todense:default-order:dummy-node", exception="KeyError", message=str(e)[:200])
        else:
            case.violation(f"todense:default-order:{cls}:raises:{type(e).__name__}", message=str(e)[:200])

    # ---- independence of the order of children
    if st["max_children"] >= 2:
        spec2 = L.permute_children(rng, spec)
        tens2 = L.permute_state_children(spec, spec2, A["tensors"])
        tree2, _ = L.build_basis_tree(spec2, bl)
        ok, a2 = case.call("child-order", cls, lambda: L.build_ttns(tree2, spec2, tens2, A["qns"]))
        if ok:
            ctx2 = dict(ctx, spec=spec2, tree=tree2)
            _dense_checks(case, "child-order", ctx2, a2, psi, rng, TOL_RING)
    else:
        spec2 = a2 = tree2 = None

    # ---- scale
    val = [2.5, -0.75, 3, 0.5 + 1.5j, -1j, 1 + 0j][int(rng.integers(6))]
    ok, b = case.call("scale", cls, lambda: a.scale(val))
    if ok:
        _dense_checks(case, "scale", ctx, b, psi * val, rng, TOL_RING, )
        _dense_checks(case, "scale:input-unchanged", ctx, a, psi, rng, TOL_RING)

    # ---- add
    cplx_b = bool(rng.random() < 0.4)
    B = _random_state(rng, ctx, cplx_b, qntot=A["qntot"], max_bond=3)
    bsum = None
    if B is not None and n_nodes > 1 and rng.random() < 0.35:
        # mixed node dtypes: a real operand that carries a phase on ONE non-root node (real root, one complex node)
        Br = B if not cplx_b else _random_state(rng, ctx, False, qntot=A["qntot"], max_bond=3)
        if Br is not None:
            B = Br
            k = 1 + int(rng.integers(n_nodes - 1))
            ph = np.exp(1j * float(rng.uniform(0.3, 2.8)))
            B["tensors"] = [np.asarray(t) * ph if i == k else np.asarray(t) for i, t in enumerate(B["tensors"])]
            B["psi"] = B["psi"] * ph
            run.count("add:mixed-node-dtypes")
    if B is not None:
        bt = L.build_ttns(tree, spec, B["tensors"], B["qns"])
        if rng.random() < 0.3 and n_nodes > 1:
            ok, bsum = case.call("add", cls, lambda: bt.add(a))
        else:
            ok, bsum = case.call("add", cls, lambda: a.add(bt))
        if ok and n_nodes == 1:
            # own signature: on a one-node tree the root is the only node and both operands are
            # written to the same slice
            got = _walk(case, "add", "single-node-tree", bsum, [bl[b] for b in ctx["phys"]])
            if got is not None:
                case.close("add", "single-node-tree", got, psi + B["psi"], TOL_RING)
            run.count("add:single-node-tree")
        elif ok:
            _dense_checks(case, "add", ctx, bsum, psi + B["psi"], rng, TOL_RING)
            # labels of the sum must be good enough for a later canonicalisation
            ok2, c = case.call("add+canonicalise", cls, lambda: bsum.copy().canonicalise())
            if ok2 and n_nodes > 1:
                _dense_checks(case, "add+canonicalise", ctx, c, psi + B["psi"], rng, TOL_FACT)
                _check_canonical(case, "add+canonicalise", ctx, c)

    # ---- canonicalise, norm, lossless compression, bond spectra
    ok, c = case.call("canonicalise", cls, lambda: a.copy().canonicalise())
    if ok:
        _dense_checks(case, "canonicalise", ctx, c, psi, rng, TOL_FACT)
        _check_canonical(case, "canonicalise", ctx, c)
        if n_nodes > 1:
            r3 = rng.random()
            if r3 < 0.33:
                fn = lambda: c.copy().compress(temp_m_trunc=1000, ret_s=True)
            elif r3 < 0.66:
                # per-node list of limits (documented: "int or list of int"), equal to the present bond dimensions: lossless
                lims = [int(x) for x in c.bond_dims]
                lim_arg = lims if rng.random() < 0.5 else np.array(lims)
                run.count("compress:per-node-limit-list")
                fn = lambda: c.copy().compress(temp_m_trunc=lim_arg, ret_s=True)
            else:
                def fn():
                    x = c.copy()
                    x.compress_config = CompressConfig(CompressCriteria.threshold, threshold=1e-14)
                    return x.compress(ret_s=True)
            ok, res = case.call("compress-lossless", cls, fn)
            if ok:
                d, s_array = res
                _dense_checks(case, "compress-lossless", ctx, d, psi, rng, TOL_FACT)
                _check_canonical(case, "compress-lossless", ctx, d)
                _check_schmidt(case, "compress-lossless:singular-values", ctx, s_array, psi, pre)
            ok, s_array = case.call("calc_bond_singular_values", cls, lambda: a.calc_bond_singular_values())
            if ok:
                _check_schmidt(case, "calc_bond_singular_values", ctx, s_array, psi, pre)
                _dense_checks(case, "calc_bond_singular_values:input-unchanged", ctx, a, psi, rng, TOL_RING)
            ok, ent = case.call("calc_bond_entropy", cls, lambda: a.calc_bond_entropy())
            if ok:
                ref = []
                for nid in pre:
                    if nid == 0:
                        ref.append(0.0)
                    else:
                        part = [ctx["phys"].index(b) for b in L.subtree_basis_ids(spec, nid) if b in ctx["phys"]]
                        ref.append(L.vn_entropy(L.schmidt_values(psi, part) ** 2))
                case.close("calc_bond_entropy", cls, ent, np.array(ref), 1e-7)

    # ---- norm (two-component QNs hit the dummy-basis defect)
    _norm_check(case, ctx, a, psi, "ttns_norm")

    # ---- flat parameter vector <-> tensors (used by the time-evolution code): only the entries
    #      allowed by the quantum numbers are stored, node by node
    def flat_roundtrip():
        vec = np.concatenate([np.asarray(nd.tensor)[a.get_qnmask(nd)].ravel() for nd in a.node_list])
        return TTNS.from_tensors(a, vec)
    ok, ft = case.call("from_tensors", cls, flat_roundtrip)
    if ok:
        _dense_checks(case, "from_tensors", ctx, ft, psi, rng, TOL_RING)

    # ---- operators: full TTNO
    tq = None
    if qn_mode != "none" and rng.random() < 0.5:
        # a charged operator: pick the charge of a random single piece
        for _ in range(10):
            b = ctx["phys"][int(rng.integers(len(ctx["phys"])))]
            p = L.random_piece(rng, descs[b], b, True)
            if p is not None:
                tq = [int(x) for x in L.piece_qn(p)]
                break
    terms = L.random_terms(rng, descs, int(rng.integers(1, 7)), respect_qn=True, total_qn=tq,
                           factor_scale="unit", max_body=3)
    if terms:
        run.count("operator:charged" if tq is not None and any(tq) else "operator:neutral")
        ops = L.terms_to_ops(rng, terms)
        algo = ["Hopcroft-Karp", "Hungarian"][int(rng.integers(2))]
        O = L.dense_operator(descs, bl, terms, ctx["phys"])
        D = psi.size
        ok, ttno = case.call("ttno", cls, lambda: TTNO(tree, ops, algo=algo), terms=terms)
        if ok and np.abs(O).max() > 0:
            Opsi = (O @ psi.reshape(D)).reshape(psi.shape)
            oscale = max(1.0, np.abs(O).sum(axis=1).max())
            ok, ap = case.call("apply", cls, lambda: ttno.apply(a), terms=terms)
            if ok:
                _dense_checks(case, "apply", ctx, ap, Opsi, rng, TOL_RING * oscale)
                if np.linalg.norm(Opsi) > 1e-6:
                    ok, apc = case.call("apply+canonicalise", cls, lambda: ttno.apply(a, canonicalise=True), terms=terms)
                    if ok:
                        _dense_checks(case, "apply+canonicalise", ctx, apc, Opsi, rng, TOL_FACT * oscale)
                        _check_canonical(case, "apply+canonicalise", ctx, apc)
                        qt = np.array(A["qntot"]) + (np.array(tq) if tq is not None else 0)
                        case.close("apply+canonicalise", cls + ":qntot", np.array(apc.qntot), qt, 0.5, terms=terms)
            ref_e = np.vdot(psi.reshape(D), O @ psi.reshape(D))
            _expect_check(case, ctx, "expectation", a, ttno, ref_e, oscale, terms=terms)
            if tq is None or not any(tq):
                which = int(rng.integers(2))
                arg = OpSum(ops) if which else (ops[0] if len(ops) == 1 else OpSum(ops))
                _expect_check(case, ctx, "expectation:opsum", a, arg, ref_e, oscale, terms=terms)
            if qn_mode == "none":
                # one term handed over as a bare `Op` (not a TTNO, not an OpSum): complex states and non-symmetric local
                # operators (ladder operators) distinguish Tr(rho O) from sum_ij rho_ij O_ij
                k1 = int(rng.integers(len(terms)))
                O1 = L.dense_operator(descs, bl, [terms[k1]], ctx["phys"])
                ref1 = np.vdot(psi.reshape(D), O1 @ psi.reshape(D))
                _expect_check(case, ctx, "expectation:single-Op", a, ops[k1], ref1, max(1.0, np.abs(O1).sum(axis=1).max()), terms=[terms[k1]])
                run.count("expectation:single-Op:" + ("complex-state" if cplx else "real-state"))
            if a2 is not None:
                ok, ttno2 = case.call("ttno", cls, lambda: TTNO(tree2, ops, algo=algo), terms=terms)
                if ok:
                    _expect_check(case, dict(ctx, spec=spec2, tree=tree2), "child-order:expectation", a2, ttno2, ref_e, oscale, terms=terms)
            # environments: every bond reproduces <psi|O|psi>
            if ctx["qs"] == 1 or True:
                ok, env = case.call("environ", cls, lambda: TTNEnviron(a, ttno), terms=terms)
                if ok:
                    vals = []
                    for en in env.node_list:
                        for ch, ec in zip(en.children, en.environ_children):
                            vals.append(np.sum(ec * ch.environ_parent))
                    if vals:
                        case.close("environ", cls + ":bond-contraction", np.array(vals), np.full(len(vals), ref_e), TOL_RING * oscale * 10, terms=terms)

    # ---- partial operators: TTNO over a sub-set of the DoFs on the same topology
    _partial_check(case, run, rng, ctx, a, psi)

    # ---- reduced density matrices and entropies
    _rdm_checks(case, run, rng, ctx, a, psi, pre, "")
    if a2 is not None and rng.random() < 0.4:
        _rdm_checks(case, run, rng, dict(ctx, spec=spec2, tree=tree2), a2, psi, L.preorder_ids(spec2), "child-order:")

    # ---- random walk of the orthogonality centre and two-site update
    _walk_checks(case, run, rng, ctx, a, psi)
    return case


def _check_schmidt(case, op, ctx, s_array, psi, pre):
    spec = ctx["spec"]
    s_array = np.asarray(s_array)
    if s_array.shape[0] != len(pre):
        case.violation(f"{op}:{_cls(ctx)}:shape", observed_shape=list(s_array.shape), nodes=len(pre))
        return
    for k, nid in enumerate(pre):
        if nid == 0:
            ref = np.array([1.0])
        else:
            part = [ctx["phys"].index(b) for b in L.subtree_basis_ids(spec, nid) if b in ctx["phys"]]
            ref = L.schmidt_values(psi, part)
        got = np.sort(np.abs(s_array[k]))[::-1]
        ref = np.sort(ref)[::-1]
        n = max(len(got), len(ref))
        got = np.pad(got, (0, n - len(got)))
        ref = np.pad(ref, (0, n - len(ref)))
        if not case.close(op, _cls(ctx), got, ref, TOL_FACT, node=int(nid)):
            break


def _norm_check(case, ctx, a, psi, op):
    ref = np.linalg.norm(psi)
    ok, got = case.call(op, _cls(ctx), lambda: a.ttns_norm)
    if not ok:
        return
    case.close(op, _cls(ctx), np.array([got]), np.array([ref]), TOL_FACT)
    b = a.copy()
    b.coeff = 0.6 - 0.8j * 1.5
    case.close("norm", _cls(ctx), np.array([b.norm]), np.array([ref * abs(b.coeff)]), TOL_FACT)


def _expect_check(case, ctx, op, a, ttno, ref, oscale, cls=None, **kw):
    cls = cls or _cls(ctx)
    ok, got = case.call(op, cls, lambda: a.expectation(ttno), **kw)
    if not ok:
        # the roots must not be left re-parented (would poison the following checks)
        for nd in (a.root, a.basis.root, getattr(ttno, "root", None), getattr(getattr(ttno, "basis", None), "root", None)):
            if nd is not None:
                nd.parent = None
        return
    got, ref = complex(got), complex(ref)
    if abs(ref.imag) < 1e-6 * oscale:
        # `expectation` returns the real part alone when np.isclose(imag, 0) (atol 1e-8)
        got, ref = got.real, ref.real
    case.close(op, cls, np.array([got]), np.array([ref]), TOL_RING * oscale * 10, **kw)
    # the state and the basis tree must still be usable (expectation re-parents the roots temporarily)
    if a.root.parent is not None or a.basis.root.parent is not None:
        case.violation(f"{op}:{cls}:root-left-with-parent")


def _partial_check(case, run, rng, ctx, a, psi):
    """operator living on a sub-set of the DoFs: the TTNO basis tree has the same topology and every
    node keeps a (possibly empty -> dummy) subset of the state's basis sets"""
    from renormalizer.tn.tree import TTNO
    descs, spec, bl = ctx["descs"], ctx["spec"], ctx["bl"]
    if len(ctx["phys"]) < 2:
        return
    cls = _cls(ctx)
    mode = ["keep-nonempty", "allow-dummy"][int(rng.integers(2))]
    descs_p = list(descs)
    bl_p = list(bl)
    groups = []
    removed = 0
    for g in spec["groups"]:
        if descs[g[0]]["kind"] == "dummy":
            groups.append(list(g))
            continue
        keep = [b for b in g if rng.random() < 0.6]
        if not keep and mode == "keep-nonempty":
            keep = [g[int(rng.integers(len(g)))]]
        removed += len(g) - len(keep)
        if not keep:
            descs_p.append(L.dummy_desc(f"p{len(descs_p)}", ctx["qs"]))
            bl_p.append(L.make_basis(descs_p[-1]))
            keep = [len(descs_p) - 1]
        groups.append(keep)
    if removed == 0:
        return
    kept = [b for g in groups for b in g if descs_p[b]["kind"] != "dummy"]
    if not kept:
        return
    spec_p = dict(spec, groups=groups)
    tree_p, _ = L.build_basis_tree(spec_p, bl_p)
    terms = L.random_terms(rng, descs_p, int(rng.integers(1, 5)), respect_qn=True, factor_scale="unit",
                           max_body=3, support=kept)
    if not terms:
        return
    ops = L.terms_to_ops(rng, terms)
    O = L.dense_operator(descs, bl, terms, ctx["phys"])   # identity on the removed DoFs
    if np.abs(O).max() == 0:
        return
    run.count("partial:" + mode)
    kw = dict(terms=terms, partial_groups=groups, mode=mode)
    pcls = cls + ":" + ("dummy-replaces-node" if any(descs_p[g[0]]["kind"] == "dummy" and descs[sg[0]]["kind"] != "dummy"
                                                      for g, sg in zip(groups, spec["groups"])) else "subset")
    ok, ttno = case.call("partial:ttno", pcls, lambda: TTNO(tree_p, ops), **kw)
    if not ok:
        return
    D = psi.size
    oscale = max(1.0, np.abs(O).sum(axis=1).max())
    Opsi = (O @ psi.reshape(D)).reshape(psi.shape)
    ok, ap = case.call("partial:apply", pcls, lambda: ttno.apply(a), **kw)
    if ok:
        order = _order(rng, ctx)
        ok, got = case.call("partial:apply", pcls + ":todense-raises", lambda: ap.todense([bl[b] for b in order]), **kw)
        if ok:
            case.close("partial:apply", pcls, got, _to_order(Opsi, ctx, order), TOL_RING * oscale, **kw)
    ref_e = np.vdot(psi.reshape(D), O @ psi.reshape(D))
    _expect_check(case, ctx, "partial:expectation", a, ttno, ref_e, oscale, cls=pcls, **kw)


def _rdm_checks(case, run, rng, ctx, a, psi, pre, prefix):
    descs, spec = ctx["descs"], ctx["spec"]
    cls = _cls(ctx)
    phys = ctx["phys"]
    n = len(pre)
    # every calc_* call rebuilds all environments; with arity >= 4 or many nodes opt_einsum's path
    # search dominates, so on such trees each function is exercised with probability 1/2
    heavy = n >= 7 or max(len(c) for c in spec["children"]) >= 4

    def skip():
        return heavy and rng.random() < 0.5

    def axes_of_node(k):
        return [phys.index(b) for b in spec["groups"][pre[k]] if b in phys]

    def dims_of_node(k):
        return [L.desc_nbas(descs[b]) for b in spec["groups"][pre[k]]]

    # one-site RDMs: all, and a random subset given as int / list
    mode = int(rng.integers(3))
    if mode == 0:
        arg, keys = None, list(range(n))
    elif mode == 1:
        k = int(rng.integers(n))
        arg, keys = k, [k]
    else:
        keys = sorted({int(x) for x in rng.integers(0, n, size=2)})
        arg = list(keys)
    ok, rdm = (False, None) if skip() else case.call(prefix + "calc_1site_rdm", cls, lambda: a.calc_1site_rdm(arg))
    if ok:
        for k in keys:
            ref = L.partial_trace_rdm(psi, axes_of_node(k)).reshape(dims_of_node(k) * 2)
            if k not in rdm:
                case.violation(prefix + "calc_1site_rdm:" + cls + ":missing-key", key=k)
                break
            if not case.close(prefix + "calc_1site_rdm", cls, rdm[k], ref, TOL_RING * 10, node_index=k):
                break
    ok, ent = (False, None) if skip() else case.call(prefix + "calc_1site_entropy", cls, lambda: a.calc_1site_entropy(arg))
    if ok:
        for k in keys:
            ax = axes_of_node(k)
            rho = L.partial_trace_rdm(psi, ax)
            d = int(np.prod(rho.shape[:len(ax)])) if ax else 1
            w = np.linalg.eigvalsh(rho.reshape(d, d))
            if not case.close(prefix + "calc_1site_entropy", cls, np.array([ent[k]]), np.array([L.vn_entropy(np.clip(w, 0, None))]), 1e-7, node_index=k):
                break

    # one-DoF RDMs
    dof_of = {}
    for b in phys:
        for d in L.desc_dofs(descs[b]):
            dof_of[d] = b
    dofs = list(dof_of)
    pick = [dofs[int(i)] for i in rng.permutation(len(dofs))[:3]]
    arg = None if rng.random() < 0.3 else (pick[0] if rng.random() < 0.3 else pick)
    want = dofs if arg is None else (pick if isinstance(arg, list) else [arg])
    skip_default_dummy = arg is None and any(d["kind"] == "dummy" for d in descs)
    ok, rdm = (False, None) if skip() else case.call(prefix + "calc_1dof_rdm", cls, lambda: a.calc_1dof_rdm(arg))
    if ok:
        for d in want:
            ref = L.partial_trace_rdm(psi, [phys.index(dof_of[d])])
            if not case.close(prefix + "calc_1dof_rdm", cls, rdm[d], ref, TOL_RING * 10, dof=str(d)):
                break
    ok, ent = (False, None) if skip() else case.call(prefix + "calc_1dof_entropy", cls, lambda: a.calc_1dof_entropy(pick))
    if ok:
        for d in pick:
            w = np.linalg.eigvalsh(L.partial_trace_rdm(psi, [phys.index(dof_of[d])]))
            if not case.close(prefix + "calc_1dof_entropy", cls, np.array([ent[d]]), np.array([L.vn_entropy(np.clip(w, 0, None))]), 1e-7, dof=str(d)):
                break

    # two-site RDMs
    if n >= 2:
        pairs = []
        for _ in range(3):
            i, j = (int(x) for x in rng.choice(n, size=2, replace=False))
            pairs.append((i, j))
        arg = pairs[0] if rng.random() < 0.3 else pairs
        want = [pairs[0]] if isinstance(arg, tuple) else pairs
        ok, rdm = (False, None) if skip() else case.call(prefix + "calc_2site_rdm", cls, lambda: a.calc_2site_rdm(arg))
        if ok:
            for (i, j) in want:
                ref = L.partial_trace_rdm(psi, axes_of_node(i) + axes_of_node(j))
                ref = ref.reshape((dims_of_node(i) + dims_of_node(j)) * 2)
                if not case.close(prefix + "calc_2site_rdm", cls, rdm[(i, j)], ref, TOL_RING * 10, pair=[i, j]):
                    break
        ok, ent = (False, None) if skip() else case.call(prefix + "calc_2site_entropy", cls, lambda: a.calc_2site_entropy(arg))
        if ok:
            for (i, j) in want:
                ax = axes_of_node(i) + axes_of_node(j)
                rho = L.partial_trace_rdm(psi, ax)
                d = int(np.prod(rho.shape[:len(ax)])) if ax else 1
                w = np.linalg.eigvalsh(rho.reshape(d, d))
                if not case.close(prefix + "calc_2site_entropy", cls, np.array([ent[(i, j)]]), np.array([L.vn_entropy(np.clip(w, 0, None))]), 1e-7, pair=[i, j]):
                    break

    # two-DoF RDMs (same node and different nodes), entropies, mutual information
    if len(phys) >= 2:
        dpairs = []
        for _ in range(3):
            b1, b2 = (phys[int(x)] for x in rng.choice(len(phys), size=2, replace=False))
            d1 = L.desc_dofs(descs[b1])
            d2 = L.desc_dofs(descs[b2])
            dpairs.append((d1[int(rng.integers(len(d1)))], d2[int(rng.integers(len(d2)))]))
        # prefer one pair on the same node when there is a multi-set node
        for g in spec["groups"]:
            if len(g) >= 2:
                dpairs[0] = (L.desc_dofs(descs[g[0]])[0], L.desc_dofs(descs[g[1]])[-1])
                run.count("2dof:same-node")
                break
        dpairs = list(dict.fromkeys(dpairs))
        arg = dpairs[0] if rng.random() < 0.3 else dpairs
        want = [dpairs[0]] if isinstance(arg, tuple) else dpairs
        ok, rdm = (False, None) if skip() else case.call(prefix + "calc_2dof_rdm", cls, lambda: a.calc_2dof_rdm(arg))
        refs = {}
        for (d1, d2) in want:
            refs[(d1, d2)] = L.partial_trace_rdm(psi, [phys.index(dof_of[d1]), phys.index(dof_of[d2])])
        if ok:
            for key in want:
                if not case.close(prefix + "calc_2dof_rdm", cls, rdm[key], refs[key], TOL_RING * 10, dofs=[str(x) for x in key]):
                    break
        ok, res = (False, None) if skip() else case.call(prefix + "calc_2dof_mutual_info", cls, lambda: a.calc_2dof_mutual_info(arg))
        if ok:
            mi, (e1, e2) = res
            for key in want:
                rho = refs[key]
                d = rho.shape[0] * rho.shape[1]
                s12 = L.vn_entropy(np.clip(np.linalg.eigvalsh(rho.reshape(d, d)), 0, None))
                s1 = L.vn_entropy(np.clip(np.linalg.eigvalsh(L.partial_trace_rdm(psi, [phys.index(dof_of[key[0]])])), 0, None))
                s2 = L.vn_entropy(np.clip(np.linalg.eigvalsh(L.partial_trace_rdm(psi, [phys.index(dof_of[key[1]])])), 0, None))
                good = case.close(prefix + "calc_2dof_entropy", cls, np.array([e2[key]]), np.array([s12]), 1e-7, dofs=[str(x) for x in key])
                good = good and case.close(prefix + "calc_2dof_mutual_info", cls, np.array([mi[key]]), np.array([(s1 + s2 - s12) / 2]), 1e-7, dofs=[str(x) for x in key])
                if not good:
                    break


def _walk_checks(case, run, rng, ctx, a, psi):
    """push the orthogonality centre along random bonds; merge / split a bond with update_2site"""
    cls = _cls(ctx)
    if len(a.node_list) < 2:
        return
    w = a.copy()
    steps = []

    def do():
        w.canonicalise()
        node = w.root
        for _ in range(int(rng.integers(1, 6))):
            if node.children and (node.parent is None or rng.random() < 0.6):
                i = int(rng.integers(len(node.children)))
                steps.append(["to_child", w.node_idx[node], i])
                w.push_cano_to_child(node, i)
                node = node.children[i]
            elif node.parent is not None:
                steps.append(["to_parent", w.node_idx[node]])
                w.push_cano_to_parent(node)
                node = node.parent
        return node
    ok, node = case.call("push_cano", cls, do, steps=steps)
    if not ok:
        return
    _dense_checks(case, "push_cano", ctx, w, psi, rng, TOL_FACT)
    # every node except the centre is an isometry towards the centre
    worst = 0.0
    path_up = set(id(x) for x in node.ancestors)
    for nd in w.node_list:
        if nd is node:
            continue
        if id(nd) in path_up:
            # isometry towards the child that leads to the centre
            ch = [i for i, c in enumerate(nd.children) if id(c) in path_up or c is node][0]
            worst = max(worst, _is_isometry(np.moveaxis(nd.tensor, ch, -1)))
        else:
            worst = max(worst, _is_isometry(nd.tensor))
    case.close("push_cano", cls + ":not-canonical", np.array([worst]), np.array([0.0]), 1e-8, steps=steps)

    # two-site merge and split back (large m: lossless)
    v = a.copy().canonicalise()
    nd = v.node_list[int(rng.integers(1, len(v.node_list)))]
    cano_parent = bool(rng.random() < 0.5)

    def two():
        t = v.merge_with_parent(nd)
        v.update_2site(nd, t, m=1000, cano_parent=cano_parent)
        return v
    ok, _ = case.call("update_2site", cls, two, node_index=v.node_idx[nd], cano_parent=cano_parent)
    if ok:
        _dense_checks(case, "update_2site", ctx, v, psi, rng, TOL_FACT)


# ---------------------------------------------------------------------------------------------
def _case_library_states(run, rng, quick, case_seed, icase):
    """states made by the library itself: Hartree products (condition dict) and TTNS.random"""
    from renormalizer.tn.tree import TTNS
    case = Case(run, case_seed, "library-states", icase)
    qn_mode = L.QN_MODES[icase % 3]
    ctx = _make_ctx(rng, quick, qn_mode, 5)
    descs, spec, bl, tree = ctx["descs"], ctx["spec"], ctx["bl"], ctx["tree"]
    cls = _cls(ctx)
    case.info = dict(descs=descs, spec=spec)
    # Hartree product: `condition` maps ANY DoF of a basis set to the index of the occupied basis
    # function of that basis set, or to an amplitude vector inside one QN block
    cond = {}
    amps = {}
    for b in ctx["phys"]:
        d = descs[b]
        nb = L.desc_nbas(d)
        if rng.random() < 0.4:
            continue
        dofs = L.desc_dofs(d)
        key = dofs[int(rng.integers(len(dofs)))]
        k = int(rng.integers(nb))
        vec = np.zeros(nb)
        sq = L.desc_sigmaqn(d)
        same = [j for j in range(nb) if np.array_equal(sq[j], sq[k])]
        if len(same) > 1 and rng.random() < 0.4:
            vec[same] = rng.uniform(0.2, 1.0, size=len(same))
            cond[key] = vec.tolist()
            run.count("hartree:vector-condition")
        else:
            vec[k] = 1
            cond[key] = k
        amps[b] = vec
    ref = np.ones(())
    for b in ctx["phys"]:
        d = descs[b]
        if b in amps:
            vec = amps[b]
        else:
            vec = np.zeros(L.desc_nbas(d))
            vec[0] = 1   # default: basis function 0
        ref = np.multiply.outer(ref, vec)
    case.info["condition"] = {str(k): v for k, v in cond.items()}
    run.count("library-states:hartree")
    ok, h = case.call("hartree", cls, lambda: TTNS(tree, dict(cond)))
    if ok:
        _dense_checks(case, "hartree", ctx, h, ref, rng, TOL_RING)
        # labels must allow canonicalisation and give the right sector
        qt = np.zeros(ctx["qs"], dtype=int)
        for b in ctx["phys"]:
            vec = amps.get(b)
            k = int(np.argmax(vec)) if vec is not None else 0
            qt = qt + L.desc_sigmaqn(descs[b])[k]
        case.close("hartree", cls + ":qntot", np.array(h.qntot), qt, 0.5)
        if len(h.node_list) > 1:
            ok, hc = case.call("hartree+canonicalise", cls, lambda: h.copy().canonicalise())
            if ok:
                _dense_checks(case, "hartree+canonicalise", ctx, hc, ref, rng, TOL_FACT)
    # TTNS.random in a random reachable sector
    st = L.random_ttns_tensors(rng, spec, descs, max_bond=2)
    qntot = np.array(st["qntot"])
    m = int(rng.integers(1, 6))
    np.random.seed(int(rng.integers(2 ** 31)))
    run.count("library-states:random")
    try:
        r = TTNS.random(tree, qntot, m)
    except FloatingPointError:
        run.count("rejected:TTNS.random:FloatingPointError")     # analogue of D15 (dead-end blocks)
        return case
    except Exception as e:  # noqa
        run.count(f"rejected:TTNS.random:{type(e).__name__}")
        return case
    psi = _walk(case, "random", cls, r, [bl[b] for b in ctx["phys"]])
    if psi is None:
        return case
    if not np.all(np.isfinite(psi)):
        run.count("rejected:TTNS.random:nan")
        return case
    case.info["random"] = dict(qntot=qntot.tolist(), m_max=m)
    _dense_checks(case, "random", ctx, r, psi, rng, TOL_RING)
    case.close("random", cls + ":normalised", np.array([np.linalg.norm(psi)]), np.array([1.0]), 1e-9)
    _check_canonical(case, "random", ctx, r)
    _check_sector(case, "random", ctx, psi, qntot)
    if max(r.bond_dims[1:] or [0]) > m:
        case.violation("random:" + cls + ":bond-exceeds-m_max", bond_dims=r.bond_dims, m_max=m)
    return case


# ---------------------------------------------------------------------------------------------
def _case_from_mps(run, rng, quick, case_seed, icase):
    """chain state -> tree state"""
    from renormalizer import Model, Mps, Mpo
    from renormalizer.tn.tree import from_mps
    case = Case(run, case_seed, "from_mps", icase)
    qn_mode = L.QN_MODES[icase % 3]
    n = int(rng.integers(1, 6))
    descs = L.random_basis_descs(rng, n, qn_mode)
    while int(np.prod([L.desc_nbas(d) for d in descs])) > 600:
        descs = descs[:-1]
    n = len(descs)
    bl = L.make_basis_list(descs)
    qs = L.desc_qn_size(descs[0])
    cls = "two-component-qn" if qs == 2 else "any-chain"
    terms = L.random_terms(rng, descs, int(rng.integers(1, 6)), respect_qn=True, factor_scale="unit", max_body=3)
    if not terms:
        return case
    ops = L.terms_to_ops(rng, terms)
    order = list(range(n))
    O = L.dense_operator(descs, bl, terms, order)
    if np.abs(O).max() == 0:
        run.count("rejected:zero-operator")
        return case
    case.info = dict(descs=descs, terms=terms)
    try:
        model = Model(bl, ops)
    except Exception as e:  # noqa
        run.count(f"rejected:Model:{type(e).__name__}")
        return case
    # a reachable sector
    chain_spec = dict(parent=[-1] + list(range(n - 1)), children=[[i + 1] for i in range(n - 1)] + [[]],
                      groups=[[i] for i in range(n)])
    st = L.random_ttns_tensors(rng, chain_spec, descs, max_bond=2)
    qntot = np.array(st["qntot"])
    mps = None
    for _ in range(5):
        np.random.seed(int(rng.integers(2 ** 31)))
        try:
            with np.errstate(all="raise"):
                mps = Mps.random(model, qntot if qs > 1 else int(qntot[0]), int(rng.integers(1, 7)), 1.0)
            if np.all(np.isfinite(mps.todense())):
                break
            mps = None
        except Exception:  # noqa  (D15: dead-end blocks, C06's subject)
            run.count("rejected:Mps.random")
            mps = None
    if mps is None:
        return case
    run.count(f"from_mps:n={n}")
    run.count(f"qn_mode:{qn_mode}")
    if rng.random() < 0.4:
        mps = mps.to_complex()
        for i in range(n):      # QN-preserving complex data: a phase per physical basis function
            ph = np.exp(1j * rng.uniform(0, 2 * np.pi, size=mps[i].shape[1]))
            mps[i] = np.asarray(mps[i].array) * ph[None, :, None]
        run.count("from_mps:complex")
    hist = []
    if n > 1 and rng.random() < 0.6:
        # another gauge: move the centre somewhere else first
        try:
            mps.ensure_right_canonical() if rng.random() < 0.5 else mps.ensure_left_canonical()
            hist.append("ensure_canonical")
        except Exception:  # noqa
            run.count("rejected:mps-gauge")
    case.info.update(qntot=qntot.tolist(), history=hist, mps=[np.asarray(mps[i].array) for i in range(n)])
    psi = np.asarray(mps.todense())
    dims = [L.desc_nbas(d) for d in descs]
    # independent contraction of the chain tensors
    acc = np.ones((1, 1))
    for i in range(n):
        acc = np.tensordot(acc, np.asarray(mps[i].array), axes=1).reshape(-1, mps[i].shape[-1])
    psi_ref = acc[:, 0]
    ok, res = case.call("from_mps", cls, lambda: from_mps(mps))
    if not ok:
        return case
    basis, ttns, ttno = res
    ok, got = case.call("from_mps", cls + ":todense-raises", lambda: ttns.todense(list(bl)))
    if ok:
        case.close("from_mps", cls, np.asarray(got).reshape(-1), psi_ref, TOL_FACT)
    walker = _walk(case, "from_mps", cls, ttns, list(bl))
    if walker is None:
        return case
    case.close("from_mps", cls + ":raw-tensors", walker.reshape(-1), psi_ref, TOL_FACT)
    case.close("from_mps", cls + ":qntot", np.array(ttns.qntot), qntot, 0.5)
    _ = psi, dims
    # the operator that comes with it
    ok, got = case.call("from_mps:ttno", cls, lambda: ttno.todense(list(bl)))
    if ok:
        case.close("from_mps:ttno", cls, got, O, TOL_RING * max(1.0, np.abs(O).max()) * 10)
    ref_e = np.vdot(psi_ref, O @ psi_ref)
    oscale = max(1.0, np.abs(O).sum(axis=1).max())
    ok, e = case.call("from_mps:expectation", cls, lambda: ttns.expectation(ttno))
    if ok:
        e, ref_e = complex(e), complex(ref_e)
        if abs(ref_e.imag) < 1e-6 * oscale:
            e, ref_e = e.real, ref_e.real
        case.close("from_mps:expectation", cls, np.array([e]), np.array([ref_e]), TOL_FACT * oscale)
    # the tree state must be a usable TTNS: canonical as promised, compressible without loss
    _check_canonical(case, "from_mps", dict(qs=qs), ttns)
    if n > 1:
        ok, c = case.call("from_mps+compress", cls, lambda: ttns.copy().compress(temp_m_trunc=1000))
        if ok:
            w2 = _walk(case, "from_mps+compress", cls, c, list(bl))
            if w2 is not None:
                case.close("from_mps+compress", cls, w2.reshape(-1), psi_ref, TOL_FACT)
    return case


# ---------------------------------------------------------------------------------------------
def _case_history(run, rng, quick, case_seed, icase):
    """random operation sequences on one tree, dense vector tracked alongside"""
    from renormalizer.tn.tree import TTNO
    case = Case(run, case_seed, "history", icase)
    qn_mode = L.QN_MODES[icase % 3]
    ctx = _make_ctx(rng, quick, qn_mode, 5)
    cplx = bool(rng.random() < 0.3)
    A = _random_state(rng, ctx, cplx, max_bond=3)
    if A is None:
        return case
    descs, spec, bl, tree = ctx["descs"], ctx["spec"], ctx["bl"], ctx["tree"]
    cls = _cls(ctx)
    case.info = dict(descs=descs, spec=spec, qntot=A["qntot"], state=dict(tensors=A["tensors"], qns=A["qns"]))
    cur = L.build_ttns(tree, spec, A["tensors"], A["qns"])
    psi = A["psi"]
    D = psi.size
    hist = []
    n_nodes = len(spec["groups"])
    for step in range(int(rng.integers(3, 7))):
        op = ["add", "scale", "apply", "canonicalise", "compress", "copy", "to_complex"][int(rng.integers(7))]
        scale_now = max(1.0, np.linalg.norm(psi))
        if scale_now > 1e6 or np.linalg.norm(psi) < 1e-6:
            break
        if max(cur.bond_dims) > 40:
            op = "compress" if n_nodes > 1 else "copy"
        if op == "add":
            B = _random_state(rng, ctx, bool(rng.random() < 0.3), qntot=[int(x) for x in cur.qntot], max_bond=2)
            if B is None:
                continue
            if n_nodes == 1:
                # one-node tree: checked under its own signature, the history goes on without it
                bt = L.build_ttns(tree, spec, B["tensors"], B["qns"])
                ok, r = case.call("add", "single-node-tree", lambda: cur.add(bt))
                if ok:
                    w2 = _walk(case, "add", "single-node-tree", r, [bl[b] for b in ctx["phys"]])
                    if w2 is not None:
                        case.close("add", "single-node-tree", w2, psi + B["psi"], TOL_RING * max(1.0, np.abs(psi).max()))
                continue
            hist.append(dict(op="add", tensors=B["tensors"], qns=B["qns"]))
            bt = L.build_ttns(tree, spec, B["tensors"], B["qns"])
            if rng.random() < 0.5:
                fn, psi = (lambda: cur.add(bt)), psi + B["psi"]
            else:
                fn, psi = (lambda: bt + cur), psi + B["psi"]
        elif op == "scale":
            v = [2.0, -0.5, 1j, 0.3 - 0.4j][int(rng.integers(4))]
            hist.append(dict(op="scale", val=v))
            inplace = bool(rng.random() < 0.5)
            fn, psi = (lambda: cur.scale(v, inplace=inplace)), psi * v
        elif op == "apply":
            terms = L.random_terms(rng, descs, int(rng.integers(1, 4)), respect_qn=True, factor_scale="unit", max_body=2)
            if not terms:
                continue
            O = L.dense_operator(descs, bl, terms, ctx["phys"])
            new = (O @ psi.reshape(D)).reshape(psi.shape)
            if np.linalg.norm(new) < 1e-3 * np.linalg.norm(psi):
                continue
            hist.append(dict(op="apply", terms=terms))
            ops = L.terms_to_ops(rng, terms)
            cano = bool(rng.random() < 0.5)
            fn, psi = (lambda: TTNO(tree, ops).apply(cur, canonicalise=cano)), new
        elif op == "canonicalise":
            hist.append(dict(op="canonicalise"))
            fn = lambda: cur.copy().canonicalise()
        elif op == "compress":
            if n_nodes < 2:
                continue
            hist.append(dict(op="canonicalise+compress-lossless"))
            fn = lambda: cur.copy().canonicalise().compress(temp_m_trunc=10000)
        elif op == "copy":
            hist.append(dict(op="copy"))
            fn = lambda: cur.copy()
        else:
            hist.append(dict(op="to_complex"))
            fn = lambda: cur.to_complex()
        ok, new_t = case.call("history:" + op, cls, fn, history=hist)
        if not ok:
            break
        cur = new_t
        run.count("history-op:" + op)
        tol = TOL_FACT * max(1.0, np.abs(psi).max()) * (step + 1)
        order = _order(rng, ctx)
        ok, got = case.call("history:" + op, cls + ":todense-raises", lambda: cur.todense([bl[b] for b in order]), history=hist)
        if not ok or not case.close("history:" + op, cls, got, _to_order(psi, ctx, order), tol, history=hist):
            break
    return case


# ---------------------------------------------------------------------------------------------
GENERATORS = {}


def replay(run, obj, quick=True):
    """re-run the case of a replay object (fields generator, case_seed, icase) against the current tree;
    violations are recorded in `run` exactly as in `search`"""
    fn = GENERATORS[obj["generator"]]
    seed = int(obj["case_seed"])
    return fn(run, np.random.default_rng(seed), quick, seed, int(obj.get("icase", 0)))


def search(run, rng, quick):
    t0 = time.time()
    budget = 45.0 if quick else 520.0
    plan = [("tree", _case_tree, 45 if quick else 800),
            ("library-states", _case_library_states, 12 if quick else 150),
            ("from_mps", _case_from_mps, 12 if quick else 150),
            ("history", _case_history, 12 if quick else 200)]
    evaluations = 0
    nontrivial = set()
    stopped = False
    # interleave the generators so that a budget stop does not starve one of them
    queue = []
    for name, fn, n in plan:
        queue += [(i / n, name, fn, i) for i in range(n)]
    queue.sort(key=lambda x: (x[0], x[1]))
    for _, name, fn, i in queue:
        case_seed = int(rng.integers(2 ** 31))
        if time.time() - t0 > budget:
            stopped = True
            run.count("budget-stop:skipped-cases")
            continue
        crng = np.random.default_rng(case_seed)
        try:
            case = fn(run, crng, quick, case_seed, i)
        except Exception as e:  # noqa
            import traceback
            frames = traceback.extract_tb(e.__traceback__)
            if frames and "/renormalizer/" in frames[-1].filename.replace("\\", "/"):
                # raised inside the library by a call this module did not wrap individually
                where = frames[-1].name
                run.count(f"violation:{name}:library-exception")
                run.violation(f"{name}:library-exception:{where}:{type(e).__name__}",
                              dict(module="search_c11", generator=name, case_seed=case_seed, icase=i,
                                   exception=type(e).__name__, message=str(e)[:300],
                                   traceback=[f"{f.filename}:{f.lineno}:{f.name}" for f in frames[-6:]]))
            else:   # harness-side failure: visible in the evidence, never a violation
                run.count(f"harness-error:{name}:{type(e).__name__}")
                run.cov.setdefault("harness_errors", []).append(f"{name} seed={case_seed}: {type(e).__name__}: {str(e)[:200]}")
            continue
        evaluations += case.n_checks
        run.count("cases:" + name)
        if case.n_checks >= 3:
            nontrivial.add((name, case_seed))
    run.cov["evaluations"] = run.cov.get("evaluations", 0) + evaluations
    run.cov["distinct_nontrivial"] = len(nontrivial)
    run.cov["rule"] = ("evaluations = individual oracle comparisons; a case (tree+state from its own seed) is "
                       "distinct by its seed and non-trivial when at least 3 oracle comparisons ran on it "
                       "(state non-zero, tree built)")
    run.cov["budget_stop"] = stopped


GENERATORS.update({"tree": _case_tree, "library-states": _case_library_states, "from_mps": _case_from_mps,
                   "history": _case_history})
