"""C10 — imaginary-time and thermal propagation yield the Gibbs state (partial).
L1: Lean: bond-1 propagator = product of local factors (and one scaled site scales the operator),
    phase bookkeeping of evolve_exact with the D3 witness; C09's RK theorems for the generator −τH.
L2: structure replay of the REAL Mpo.exact_propagator: all bonds 1, dense matrix = Kronecker product of
    its own local factors, local factors = exp(x·ω·n) (GS space), scalar e^{shift·x} applied once.
L3: exp(−τH) / Gibbs oracle (search_c10)."""
import numpy as np

import common
import generic_check


def l2_exact_propagator(run, rng, quick):
    from renormalizer.model import HolsteinModel, Mol, Phonon
    from renormalizer.utils import Quantity
    from renormalizer.mps import Mpo
    done = 0
    for _ in range(6 if quick else 40):
        nmol = int(rng.integers(1, 3))
        nph = int(rng.integers(1, 3))
        omegas = [float(rng.uniform(0.5, 2.0)) for _ in range(nph)]
        mols = []
        for _i in range(nmol):
            phs = [Phonon.simple_phonon(Quantity(w), Quantity(float(rng.uniform(0.1, 1.0))), int(rng.integers(2, 4))) for w in omegas]
            mols.append(Mol(Quantity(0.0), phs))
        j = np.zeros((nmol, nmol))
        model = HolsteinModel(mols, j, scheme=int(rng.choice([1, 2, 3])))
        x = [-0.3, -1j * 0.4, 0.2 - 0.5j][int(rng.integers(3))]
        shift = float(rng.choice([0.0, 0.7, -1.3]))
        p = Mpo.exact_propagator(model, x, space="GS", shift=shift)
        done += 1
        if any(d != 1 for d in p.bond_dims):
            run.violation("exact_propagator:bond-not-1", dict(bond_dims=list(p.bond_dims)))
        dense = p.todense()
        kron = np.ones((1, 1), dtype=complex)
        for mt in p:
            kron = np.kron(kron, np.asarray(mt.array)[0, :, :, 0])
        if np.max(np.abs(dense - kron)) > 1e-12 * max(1.0, np.max(np.abs(kron))):
            run.violation("corr:bond1-dense", dict(correspondence="RenoVerif.Chain.bond1_dense vs Mpo.exact_propagator().todense()"), no_input=True)
        # expected: exp(x (sum_i omega_i n_i + shift)) on the phonon sites, identity on electronic sites
        diag = np.ones(1, dtype=complex)
        for b in model.basis:
            if b.is_phonon:
                diag = np.kron(diag, np.exp(x * b.omega * np.arange(b.nbas)))
            else:
                diag = np.kron(diag, np.ones(b.nbas))
        ref = np.diag(diag * np.exp(shift * x))
        if np.max(np.abs(dense - ref)) > 1e-10 * max(1.0, np.max(np.abs(ref))):
            run.violation("exact_propagator:GS:differs-from-exp", dict(x=str(x), shift=shift, omegas=omegas, nmol=nmol,
                                                                       deviation=float(np.max(np.abs(dense - ref)))))
    return done


if __name__ == "__main__":
    common.main_wrapper(lambda: generic_check.run_check(
        "C10", "other", ["RenoVerif/Props/C10.lean", "RenoVerif/Props/C09.lean"], [l2_exact_propagator],
        ["convergence of imaginary-time schemes to exp(-tau H) psi and of thermal propagation to the Gibbs state is numerical",
         "local factors e^{x h_i} come from numpy exp / scipy eigh (contract checked numerically)"],
        "random Holstein models (1-2 molecules, 1-2 modes, schemes 1-3) x real/imaginary/complex x, shifts; GS-space propagator structure and dense value",
        explanation="Partial proof: closed-form propagator structure and phase bookkeeping are Lean theorems tied to the real exact_propagator; "
                    "exp(-tau H) and Gibbs averages for all schemes, sectors, offsets, chains and trees are decided by the dense oracle search."))
